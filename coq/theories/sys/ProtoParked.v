(* ProtoParked.v — C04 no_lost_wakeup on M-Sys (sys/Proto.v), the parts proved for every schedule:
   (1) a completion of an awaited process is never left unseen by check_completed_processes:
       between steps every process in a worker's `awaited` set is unfinished;
   (2) no timeout is due at the last check: after every Worker::step at clock `now`, no process
       parked in `selecting` on that worker has a timeout that has elapsed at `now`;
   (3) a process parked in a select whose sources have been scanned (start time set) has every
       receive cursor at the end of its mailbox: no unseen message (given that a slice only parks
       after scanning the mailbox — `park_honest`, the property of the VM's select machine, C05).
   What is NOT proved is the await handshake part of Inv_parked (an awaited entry that is None has
   its target unfinished-and-registered or a result in flight) and hence quiescent_no_ready. *)
From Quiver Require Import sys.Proto sys.ProtoMsg sys.ProtoFifo sys.ProtoFail sys.ProtoWake sys.ProtoDeliver sys.ProtoWf.

(* ------------------------------------------------------------------ (1) awaited targets are unfinished *)
Definition awaited_unfinished (w : worker) : Prop :=
  forall t, In t (w_awaited w) -> result_of w t = None.

Lemma result_of_set_book w a b c t : result_of (set_book w a b c) t = result_of w t.
Proof. reflexivity. Qed.

Lemma report_completed_fold : forall o acc,
  (forall t, result_of (fst (fold_left report_completed o acc)) t = result_of (fst acc) t) /\
  (forall t, In t (w_awaited (fst (fold_left report_completed o acc))) ->
             In t (w_awaited (fst acc)) /\ (In t o -> result_of (fst acc) t = None)).
Proof.
  induction o as [|x o IH]; intros acc; simpl; [split; [reflexivity|intros t H; split; [exact H|intros []]]|].
  destruct (IH (report_completed acc x)) as (R&A).
  assert (Rx: forall t, result_of (fst (report_completed acc x)) t = result_of (fst acc) t).
  { intros t. destruct acc as [w ev]. unfold report_completed. destruct (result_of w x); reflexivity. }
  split.
  - intros t. rewrite R. apply Rx.
  - intros t Ht. destruct (A t Ht) as (A1&A2).
    destruct acc as [w ev]. unfold report_completed in A1, A2. simpl.
    destruct (result_of w x) as [r|] eqn:Er; simpl in *.
    + apply in_sremove in A1. destruct A1 as (A1&Hne). split; [exact A1|].
      intros [->|Hin]; [congruence|]. specialize (A2 Hin). exact A2.
    + split; [exact A1|]. intros [->|Hin]; [exact Er|]. exact (A2 Hin).
Qed.

Lemma report_pending_fold : forall l acc,
  (forall t, result_of (fst (fold_left report_pending l acc)) t = result_of (fst acc) t) /\
  w_awaited (fst (fold_left report_pending l acc)) = w_awaited (fst acc).
Proof.
  induction l as [|x l IH]; intros acc; simpl; [split; reflexivity|].
  destruct (IH (report_pending acc x)) as (R&A).
  destruct acc as [w ev]. unfold report_pending in *. destruct (result_of w (fst x)); simpl in *; split; auto.
Qed.

Lemma check_completed_unfinished hint w w' ev : check_completed hint w = Good (w', ev) -> awaited_unfinished w'.
Proof.
  unfold check_completed. set (done := filter _ (w_awaited w)).
  destruct (order_by hint done) as [o|] eqn:Eo; [|discriminate].
  intros H; inversion H as [H1]; clear H.
  destruct (report_completed_fold o (w, [])) as (R1&A1).
  destruct (report_pending_fold (w_pending (fst (fold_left report_completed o (w, [])))) (fold_left report_completed o (w, []))) as (R2&A2).
  rewrite H1 in R2, A2. simpl in *.
  intros t Ht. rewrite A2 in Ht. destruct (A1 t Ht) as (B1&B2). rewrite R2, R1.
  destruct (result_of w t) as [r|] eqn:Er; [|reflexivity].
  apply B2. apply (order_by_all _ _ _ Eo). apply mem_in. unfold done. apply filter_In. split; [exact B1|]. rewrite Er. reflexivity.
Qed.

Lemma node_step_unfinished i now k o nd nd' : node_step i now k o nd = Good nd' -> awaited_unfinished (n_w nd').
Proof.
  unfold node_step. destruct (split_at k (n_cmd nd)) as [pre later].
  destruct (handle_cmds pre (n_w nd)) as [[w1 e1]|]; simpl; [|discriminate].
  destruct (exec_step i now o w1) as [[w2 e2]|]; simpl; [|discriminate].
  destruct (check_completed (o_completed o) w2) as [[w3 e3]|] eqn:E3; simpl; [|discriminate].
  intros H; inversion H; subst. simpl. eapply check_completed_unfinished; exact E3.
Qed.

Definition all_workers (P : worker -> Prop) (s : sys) : Prop := forall i nd, nth_error (s_nodes s) i = Some nd -> P (n_w nd).

Lemma map_nw_nth ns ns' : map n_w ns' = map n_w ns -> forall i nd', nth_error ns' i = Some nd' -> exists nd, nth_error ns i = Some nd /\ n_w nd = n_w nd'.
Proof.
  intros M i nd' Hn.
  assert (Hm: nth_error (map n_w ns') i = Some (n_w nd')) by (rewrite nth_error_map, Hn; reflexivity).
  rewrite M, nth_error_map in Hm. destruct (nth_error ns i) as [nd|]; [|discriminate]. exists nd. split; [reflexivity|]. simpl in Hm. congruence.
Qed.

(* a property of workers that every Worker::step establishes is an invariant of the system *)
Lemma established_by_worker_steps (P : worker -> Prop) :
  P new_worker ->
  (forall i now k o nd nd', node_step i now k o nd = Good nd' -> P (n_w nd')) ->
  forall sigma s s', all_workers P s -> run s sigma = Good s' -> all_workers P s'.
Proof.
  intros P0 PW. induction sigma as [|a sigma IH]; intros s s' Hs H; simpl in H.
  - inversion H; subst. exact Hs.
  - destruct (sys_step s a) as [s1|] eqn:E; cbn [rbind] in H; [|discriminate].
    apply (IH s1 s'); [|exact H]. clear IH H.
    destruct a as [i k o|ks|d|c]; simpl in E.
    + destruct (nth_error (s_nodes s) i) as [nd|] eqn:Ei; [|inversion E; subst; exact Hs].
      destruct (node_step i (s_clock s) k o nd) as [nd'|] eqn:Es; cbn [rbind] in E; [|discriminate].
      inversion E; subst s1. intros j x Hx. simpl in Hx. destruct (Nat.eq_dec j i) as [->|Hne].
      * rewrite (nth_error_update_same _ _ _ _ Ei) in Hx. inversion Hx; subst. eapply PW; exact Es.
      * rewrite nth_error_update_other in Hx by exact Hne. apply (Hs j x Hx).
    + destruct (collect ks (s_nodes s)) as [evs ns] eqn:Ec.
      destruct (handle_events (length (s_nodes s)) evs (s_env s, ns)) as [[e' ns']|] eqn:Eh; cbn [rbind] in E; [|discriminate].
      inversion E; subst s1. intros j x Hx. simpl in Hx.
      apply handle_events_nw in Eh. pose proof (collect_totals ks (s_nodes s) (0, mkMsg 0 0 0)) as (_&_&_&_&_&M). rewrite Ec in M. simpl in M.
      destruct (map_nw_nth _ _ (eq_trans Eh M) j x Hx) as (nd&Hn&En). rewrite <- En. apply (Hs j nd Hn).
    + inversion E; subst. exact Hs.
    + assert (Push: forall w c0 j x, nth_error (push_cmd w c0 (s_nodes s)) j = Some x -> P (n_w x)).
      { intros w c0 j x Hx. rewrite nth_error_push in Hx. destruct (nth_error (s_nodes s) j) as [nd|] eqn:En; [|discriminate].
        inversion Hx; subst. destruct (j =? w); simpl; apply (Hs j nd En). }
      unfold client_step in E. destruct c.
      * inversion E; subst s1. intros j x Hx. eapply Push; exact Hx.
      * inversion E; subst s1. intros j x Hx. eapply Push; exact Hx.
      * inversion E; subst s1. intros j x Hx. eapply Push; exact Hx.
      * destruct (alookup p (e_router (s_env s))); inversion E; subst s1; [intros j x Hx; eapply Push; exact Hx|exact Hs].
      * destruct (alookup p (e_router (s_env s))); inversion E; subst s1; [intros j x Hx; eapply Push; exact Hx|exact Hs].
Qed.

Lemma all_workers_init (P : worker -> Prop) nw : P new_worker -> all_workers P (init nw).
Proof. intros H i nd Hn. simpl in Hn. apply nth_error_In, repeat_spec in Hn. subst nd. exact H. Qed.

(* C04 no_lost_wakeup, clause "an awaited target's completion not yet seen by
   check_completed_processes" never holds between steps: every process in `awaited` is unfinished *)
Theorem awaited_completion_never_unseen : forall nw sigma s,
  run (init nw) sigma = Good s ->
  forall i nd t, nth_error (s_nodes s) i = Some nd -> In t (w_awaited (n_w nd)) -> result_of (n_w nd) t = None.
Proof.
  intros nw sigma s H i nd t Hn Ht.
  assert (A: all_workers awaited_unfinished s).
  { eapply (established_by_worker_steps awaited_unfinished); [intros x []|apply node_step_unfinished| |exact H].
    apply all_workers_init. intros x []. }
  apply (A i nd Hn t Ht).
Qed.

(* ------------------------------------------------------------------ (2) no timeout due at the last check *)
(* a time slice that PARKS its process (by a pass over the sources that found none ready, or by the
   Await action) does not park it with a timeout already due (select machine, C05:
   never_parks_with_due_timeout).  A slice that ends RUNNABLE may well end with a due timeout
   (`! [0]` at quantum 1 after the initialising step; `! [&f, 0]` while the filter f runs): the
   premise says nothing about those. *)
Definition time_honest (now : nat) (d : did) : Prop :=
  (d_park d = true \/ exists ts, d_act d = Some (AAwait ts)) ->
  forall s, d_sel d = Some s -> match sl_start s with
                                | Some t0 => forallb (fun dl => negb (dl <=? now - t0)) (sl_timeouts s) = true
                                | None => True end.

Definition none_due (now : nat) (w : worker) : Prop := forall p, mem p (w_selecting w) = true -> timed_out now w p = false.

Lemma timed_out_same now w w' p :
  (forall q, match alookup q (w_procs w'), alookup q (w_procs w) with Some a, Some b => p_sel a = p_sel b | None, None => True | _, _ => False end) ->
  timed_out now w' p = timed_out now w p.
Proof.
  intros H. unfold timed_out. specialize (H p). destruct (alookup p (w_procs w')), (alookup p (w_procs w)); try contradiction; [|reflexivity].
  rewrite H. reflexivity.
Qed.

(* ------------------------------------------------------------------ parked processes keep their mailbox and select state *)
(* every process parked in `selecting` in w' was parked in w with the same mailbox and select state,
   except possibly x *)
Definition par (x : option pid) (w w' : worker) : Prop :=
  forall q, Some q <> x -> mem q (w_selecting w') = true ->
    mem q (w_selecting w) = true /\
    match alookup q (w_procs w'), alookup q (w_procs w) with
    | Some a, Some b => p_mail a = p_mail b /\ p_sel a = p_sel b
    | None, None => True
    | _, _ => False
    end.

Lemma par_refl x w : par x w w.
Proof. intros q _ H. split; [exact H|]. destruct (alookup q (w_procs w)); auto. Qed.
Lemma par_trans x a b c : par x a b -> par x b c -> par x a c.
Proof.
  intros H1 H2 q Hx Hq. destruct (H2 q Hx Hq) as (A&B). destruct (H1 q Hx A) as (C&D). split; [exact C|].
  destruct (alookup q (w_procs c)), (alookup q (w_procs b)), (alookup q (w_procs a)); try contradiction; auto.
  destruct B, D. split; congruence.
Qed.
Lemma par_same x w w' : w_procs w' = w_procs w -> (forall q, mem q (w_selecting w') = true -> mem q (w_selecting w) = true) -> par x w w'.
Proof. intros E S q _ Hq. split; [apply S; exact Hq|]. rewrite E. destruct (alookup q (w_procs w)); auto. Qed.

Definition keeps_ms (f : proc -> proc) : Prop := forall pr, p_mail (f pr) = p_mail pr /\ p_sel (f pr) = p_sel pr.
Lemma par_upd_proc x p f w : keeps_ms f -> par x w (upd_proc p f w).
Proof.
  intros Hf q _ Hq. destruct (upd_proc_sched p f w) as (_&_&S3). rewrite S3 in Hq. split; [exact Hq|].
  unfold upd_proc. destruct (alookup p (w_procs w)) as [pr|] eqn:El; [|destruct (alookup q (w_procs w)); auto].
  simpl. rewrite alookup_aset. destruct (q =? p) eqn:E.
  - apply Nat.eqb_eq in E; subst q. rewrite El. apply Hf.
  - destruct (alookup q (w_procs w)); auto.
Qed.
(* updating a process that is not parked (or is x) *)
Lemma par_upd_unparked x p f w : mem p (w_selecting w) = false -> par x w (upd_proc p f w).
Proof.
  intros Hp q _ Hq. destruct (upd_proc_sched p f w) as (_&_&S3). rewrite S3 in Hq. split; [exact Hq|].
  unfold upd_proc. destruct (alookup p (w_procs w)) as [pr|] eqn:El; [|destruct (alookup q (w_procs w)); auto].
  simpl. rewrite alookup_aset. destruct (q =? p) eqn:E; [apply Nat.eqb_eq in E; subst; congruence|].
  destruct (alookup q (w_procs w)); auto.
Qed.
Lemma par_wake x p w : par x w (wake_selecting p w).
Proof.
  unfold wake_selecting. destruct (mem p (w_selecting w)); [|apply par_refl].
  apply par_same; [reflexivity|]. intros q Hq. simpl in Hq. rewrite mem_sremove in Hq. apply andb_true_iff in Hq. apply Hq.
Qed.
Lemma keeps_ms_awaiting (g : proc -> list (pid * option res)) : keeps_ms (fun pr => with_awaiting (g pr) pr).
Proof. intros pr; split; reflexivity. Qed.
Lemma keeps_ms_res r : keeps_ms (with_res r). Proof. intros pr; split; reflexivity. Qed.

Lemma par_notify_result x a b r w : par x w (notify_result a b r w).
Proof.
  unfold notify_result. destruct (awaits a b w); [|apply par_wake].
  eapply par_trans; [apply par_upd_proc; apply (keeps_ms_awaiting (fun pr => aset b (Some r) (p_awaiting pr)))|apply par_wake].
Qed.
Lemma par_worker_notify x a b r w : par x w (worker_notify a b r w).
Proof.
  unfold worker_notify. destruct r; [apply par_notify_result|]. destruct (awaits a b w); [apply par_upd_proc, keeps_ms_res|apply par_wake].
Qed.
Lemma par_fold {A} x (f : worker -> A -> worker) l : (forall w y, par x w (f w y)) -> forall w, par x w (fold_left f l w).
Proof. intros Hf. induction l as [|y l IH]; intros w; simpl; [apply par_refl|]. eapply par_trans; [apply Hf|apply IH]. Qed.
Lemma par_update_await x a rs w : par x w (update_await a rs w).
Proof.
  unfold update_await.
  assert (H: par x w (fold_left (fun w e => match snd e with Some r => worker_notify a (fst e) r w | None => w end) rs w)).
  { apply par_fold. intros w0 y. destruct (snd y); [apply par_worker_notify|apply par_refl]. }
  destruct (existsb _ rs); [exact H|]. eapply par_trans; [exact H|apply par_wake].
Qed.
Lemma par_query_fold x a ts : forall w rs, par x w (fst (fold_left (query_one a) ts (w, rs))).
Proof.
  induction ts as [|t ts IH]; intros w rs; cbn [fold_left]; [apply par_refl|].
  assert (Q: par x w (fst (query_one a (w, rs) t))).
  { unfold query_one. destruct (completed_value w t); simpl; [apply par_refl|apply par_same; [reflexivity|auto]]. }
  destruct (query_one a (w, rs) t) as [w1 rs1]. simpl in Q. eapply par_trans; [exact Q|apply IH].
Qed.

Lemma wake_mem q t w : mem q (w_selecting (wake_selecting t w)) = true -> mem q (w_selecting w) = true /\ q <> t.
Proof.
  unfold wake_selecting. destruct (mem t (w_selecting w)) eqn:Et; simpl; intros Hq.
  - rewrite mem_sremove in Hq. apply andb_true_iff in Hq. destruct Hq as (A&B). split; [exact A|].
    intros ->. rewrite Nat.eqb_refl in B. discriminate.
  - split; [exact Hq|]. intros ->. congruence.
Qed.

(* Worker::handle_command (a spawn command names a process that does not exist yet) *)
Lemma par_handle_cmd x c w w' ev :
  SW w -> (forall p, spawns c = Some p -> ~ has p w) ->
  handle_cmd c w = Good (w', ev) -> par x w w'.
Proof.
  intros HS Hf H.
  assert (New: forall p pr0 w0, ~ has p w -> w_selecting w0 = w_selecting w -> w_procs w0 = aset p pr0 (w_procs w) -> par x w w0).
  { intros p pr0 w0 Hn Es Ep q _ Hq. rewrite Es in Hq. split; [exact Hq|]. rewrite Ep, alookup_aset.
    destruct (q =? p) eqn:E; [|destruct (alookup q (w_procs w)); auto].
    apply Nat.eqb_eq in E; subst q. exfalso. apply Hn. apply (sw_has _ HS). auto. }
  destruct c; simpl in H.
  - inversion H; subst; apply par_refl.
  - inversion H; subst; apply par_refl.
  - destruct sleeping; inversion H; subst; eapply New; try reflexivity; apply Hf; reflexivity.
  - inversion H; subst; eapply New; try reflexivity; apply Hf; reflexivity.
  - destruct (alookup p (w_procs w)) as [pr|]; [|discriminate].
    destruct (p_res pr) as [[v|e]|]; try discriminate. destruct (p_pers pr); [|discriminate]. inversion H; subst.
    eapply par_trans; [apply par_upd_proc, keeps_ms_res|apply par_same; [reflexivity|auto]].
  - destruct (fold_left (query_one awaiter) targets (w, [])) as [w1 rs] eqn:E. inversion H; subst.
    pose proof (par_query_fold x awaiter targets w []) as Q. rewrite E in Q. exact Q.
  - inversion H; subst. apply par_update_await.
  - destruct (alookup target (w_procs w)) as [pr|] eqn:El; inversion H; subst; clear H.
    + (* the mailbox of `target` grows; if it was parked it is parked no longer *)
      set (w0 := set_ghost w (w_nsent w) (w_sentlog w) (w_arrlog w ++ [(target, m)]) (w_dropped w)).
      set (w1 := upd_proc target _ w0).
      intros q Hx Hq. destruct (upd_proc_sched target (fun pr0 => with_mail (p_mail pr0 ++ [m]) (p_arrived pr0 ++ [m]) (p_taken pr0) pr0) w0) as (_&_&S3).
      fold w1 in S3.
      assert (Hq': mem q (w_selecting w) = true /\ q <> target).
      { destruct (wake_mem q target w1 Hq) as (A&B). rewrite S3 in A. split; [exact A|exact B]. }
      destruct Hq' as (A&Hne). split; [exact A|].
      assert (Ep: w_procs (wake_selecting target w1) = w_procs w1) by (unfold wake_selecting; destruct (mem target (w_selecting w1)); reflexivity).
      rewrite Ep. unfold w1. rewrite upd_proc_other by exact Hne. simpl. destruct (alookup q (w_procs w)); auto.
    + eapply par_trans; [|apply par_wake]. apply par_same; [reflexivity|auto].
  - destruct (mem p (w_spawning w)); inversion H; subst; [apply par_same; [reflexivity|auto]|apply par_refl].
  - destruct (alookup p (w_procs w)) as [pr|]; [|discriminate].
    destruct (p_res pr); inversion H; subst; [apply par_refl|apply par_same; [reflexivity|auto]].
Qed.

Lemma par_notify_local x p r h w q : par x w (notify_local p r h w q).
Proof. unfold notify_local. destruct r; [destruct h; [apply par_refl|apply par_notify_result]|apply par_upd_proc, keeps_ms_res]. Qed.

Lemma par_finish x p r h hint w w' : finish p r h hint w = Good w' -> par x w w'.
Proof.
  unfold finish. destruct (order_by hint _); [|discriminate]. intros H; inversion H; subst.
  eapply par_trans; [apply par_upd_proc, keeps_ms_res|]. apply par_fold. intros; apply par_notify_local.
Qed.

Lemma par_expire x now hint w w' : expire now hint w = Good w' -> par x w w'.
Proof.
  unfold expire. destruct (order_by hint _); [|discriminate]. intros H; inversion H; subst.
  apply par_same; [reflexivity|]. intros q Hq. simpl in Hq. apply mem_in, filter_In in Hq. apply mem_in. apply Hq.
Qed.

Lemma par_check_completed x hint w w' ev : check_completed hint w = Good (w', ev) -> par x w w'.
Proof.
  unfold check_completed. destruct (order_by hint _) as [o|]; [|discriminate].
  intros H; inversion H as [H1]; clear H.
  assert (A: forall l acc, par x (fst acc) (fst (fold_left report_completed l acc))).
  { induction l as [|y l IH]; intros acc; simpl; [apply par_refl|]. eapply par_trans; [|apply IH].
    destruct acc as [w0 ev0]. unfold report_completed. destruct (result_of w0 y); simpl; [apply par_same; [reflexivity|auto]|apply par_refl]. }
  assert (B: forall l acc, par x (fst acc) (fst (fold_left report_pending l acc))).
  { induction l as [|y l IH]; intros acc; simpl; [apply par_refl|]. eapply par_trans; [|apply IH].
    destruct acc as [w0 ev0]. unfold report_pending. destruct (result_of w0 (fst y)); simpl; [apply par_same; [reflexivity|auto]|apply par_refl]. }
  pose proof (A o (w, [])) as HA. pose proof (B (w_pending (fst (fold_left report_completed o (w, [])))) (fold_left report_completed o (w, []))) as HB.
  rewrite H1 in HB. simpl in *. eapply par_trans; eassumption.
Qed.

(* the time slice of p: everybody else's parked state is untouched *)
Lemma par_run_slice i p pr d hint w w' ev :
  mem p (w_selecting w) = false ->
  run_slice i p pr d hint w = Good (w', ev) -> par (Some p) w w'.
Proof.
  intros Hp. unfold run_slice. destruct (negb (did_ok d)); [discriminate|].
  destruct (take_seq (d_taken d) (p_mail pr)) as [[taken mail']|]; [|discriminate].
  set (pr1 := with_awaiting _ _). set (w1 := set_procs w (aset p pr1 (w_procs w))).
  assert (K1: par (Some p) w w1).
  { intros q Hx Hq. split; [exact Hq|]. unfold w1. simpl. rewrite alookup_aset. destruct (q =? p) eqn:E.
    - apply Nat.eqb_eq in E. subst q. exfalso. apply Hx. reflexivity.
    - destruct (alookup q (w_procs w)); auto. }
  assert (Msel: forall w0, par (Some p) w0 (mark_selecting p w0)).
  { intros w0 q Hx Hq. simpl in Hq. rewrite mem_sadd in Hq. apply orb_true_iff in Hq. destruct Hq as [Hq|Hq].
    - split; [exact Hq|]. simpl. destruct (alookup q (w_procs w0)); auto.
    - apply Nat.eqb_eq in Hq. subst q. exfalso. apply Hx. reflexivity. }
  assert (Tail: forall w2 ev2, par (Some p) w w2 ->
            match d_fin d with
            | Some r => w4 <- finish p r (d_heapy d) hint (if d_park d then mark_selecting p w2 else w2) ;; Good (w4, ev2)
            | None => if mem p (w_spawning (if d_park d then mark_selecting p w2 else w2)) || mem p (w_selecting (if d_park d then mark_selecting p w2 else w2))
                      then Good (if d_park d then mark_selecting p w2 else w2, ev2)
                      else Good (enqueue p (if d_park d then mark_selecting p w2 else w2), ev2)
            end = Good (w', ev) -> par (Some p) w w').
  { intros w2 ev2 K2 H.
    assert (K3: par (Some p) w (if d_park d then mark_selecting p w2 else w2)).
    { destruct (d_park d); [eapply par_trans; [exact K2|apply Msel]|exact K2]. }
    destruct (d_fin d).
    - destruct (finish _ _ _ _ _) as [w4|] eqn:F; simpl in H; [|discriminate]. inversion H; subst.
      eapply par_trans; [exact K3|eapply par_finish; exact F].
    - destruct (_ || _); inversion H; subst; [exact K3|eapply par_trans; [exact K3|apply par_same; [reflexivity|auto]]]. }
  destruct (d_act d) as [[| t | ts]|]; intros H.
  - eapply (Tail _ _ _ H). Unshelve. eapply par_trans; [exact K1|apply par_same; [reflexivity|auto]].
  - eapply (Tail _ _ _ H). Unshelve. eapply par_trans; [exact K1|apply par_same; [reflexivity|auto]].
  - eapply (Tail _ _ _ H). Unshelve. eapply par_trans; [exact K1|].
    eapply par_trans; [apply par_upd_proc; apply (keeps_ms_awaiting (fun q => fold_left (fun a t => aset t None a) ts (p_awaiting q)))|apply Msel].
  - apply (Tail _ _ K1 H).
Qed.

(* ------------------------------------------------------------------ mailbox / select state of every process *)
Definition msall (w w' : worker) : Prop :=
  forall q, match alookup q (w_procs w'), alookup q (w_procs w) with
            | Some a, Some b => p_mail a = p_mail b /\ p_sel a = p_sel b
            | None, None => True
            | _, _ => False
            end.
Lemma msall_refl w : msall w w. Proof. intros q. destruct (alookup q (w_procs w)); auto. Qed.
Lemma msall_trans a b c : msall a b -> msall b c -> msall a c.
Proof.
  intros H1 H2 q. specialize (H1 q). specialize (H2 q).
  destruct (alookup q (w_procs c)), (alookup q (w_procs b)), (alookup q (w_procs a)); try contradiction; auto.
  destruct H1, H2. split; congruence.
Qed.
Lemma msall_same w w' : w_procs w' = w_procs w -> msall w w'. Proof. intros E q. rewrite E. destruct (alookup q (w_procs w)); auto. Qed.
Lemma msall_upd_proc p f w : keeps_ms f -> msall w (upd_proc p f w).
Proof.
  intros Hf q. unfold upd_proc. destruct (alookup p (w_procs w)) as [pr|] eqn:El; [|destruct (alookup q (w_procs w)); auto].
  simpl. rewrite alookup_aset. destruct (q =? p) eqn:E.
  - apply Nat.eqb_eq in E; subst q. rewrite El. apply Hf.
  - destruct (alookup q (w_procs w)); auto.
Qed.
Lemma msall_wake p w : msall w (wake_selecting p w).
Proof. unfold wake_selecting. destruct (mem p (w_selecting w)); apply msall_same; reflexivity. Qed.
Lemma msall_notify_result a b r w : msall w (notify_result a b r w).
Proof.
  unfold notify_result. destruct (awaits a b w); [|apply msall_wake].
  eapply msall_trans; [apply msall_upd_proc; apply (keeps_ms_awaiting (fun pr => aset b (Some r) (p_awaiting pr)))|apply msall_wake].
Qed.
Lemma msall_notify_local p r h w q : msall w (notify_local p r h w q).
Proof. unfold notify_local. destruct r; [destruct h; [apply msall_refl|apply msall_notify_result]|apply msall_upd_proc, keeps_ms_res]. Qed.
Lemma msall_fold {A} (f : worker -> A -> worker) l : (forall w y, msall w (f w y)) -> forall w, msall w (fold_left f l w).
Proof. intros Hf. induction l as [|y l IH]; intros w; simpl; [apply msall_refl|]. eapply msall_trans; [apply Hf|apply IH]. Qed.
Lemma msall_finish p r h hint w w' : finish p r h hint w = Good w' -> msall w w'.
Proof.
  unfold finish. destruct (order_by hint _); [|discriminate]. intros H; inversion H; subst.
  eapply msall_trans; [apply msall_upd_proc, keeps_ms_res|]. apply msall_fold. intros; apply msall_notify_local.
Qed.
Lemma msall_check_completed hint w w' ev : check_completed hint w = Good (w', ev) -> msall w w'.
Proof.
  unfold check_completed. destruct (order_by hint _) as [o|]; [|discriminate].
  intros H; inversion H as [H1]; clear H.
  assert (A: forall l acc, msall (fst acc) (fst (fold_left report_completed l acc))).
  { induction l as [|y l IH]; intros acc; simpl; [apply msall_refl|]. eapply msall_trans; [|apply IH].
    destruct acc as [w0 ev0]. unfold report_completed. destruct (result_of w0 y); simpl; [apply msall_same; reflexivity|apply msall_refl]. }
  assert (B: forall l acc, msall (fst acc) (fst (fold_left report_pending l acc))).
  { induction l as [|y l IH]; intros acc; simpl; [apply msall_refl|]. eapply msall_trans; [|apply IH].
    destruct acc as [w0 ev0]. unfold report_pending. destruct (result_of w0 (fst y)); simpl; [apply msall_same; reflexivity|apply msall_refl]. }
  pose proof (A o (w, [])) as HA. pose proof (B (w_pending (fst (fold_left report_completed o (w, [])))) (fold_left report_completed o (w, []))) as HB.
  rewrite H1 in HB. simpl in *. eapply msall_trans; eassumption.
Qed.

(* after its slice, the executed process has the mailbox the slice left and the select state it reported *)
Lemma run_slice_self i p pr d hint w w' ev taken mail' :
  take_seq (d_taken d) (p_mail pr) = Some (taken, mail') ->
  run_slice i p pr d hint w = Good (w', ev) ->
  exists pr', alookup p (w_procs w') = Some pr' /\ p_mail pr' = mail' /\ p_sel pr' = d_sel d.
Proof.
  intros Ht. unfold run_slice. destruct (negb (did_ok d)); [discriminate|]. rewrite Ht.
  set (pr1 := with_awaiting _ _). set (w1 := set_procs w (aset p pr1 (w_procs w))).
  assert (Self: forall w0, msall w1 w0 -> exists pr', alookup p (w_procs w0) = Some pr' /\ p_mail pr' = mail' /\ p_sel pr' = d_sel d).
  { intros w0 M. specialize (M p). unfold w1 in M. simpl in M. rewrite alookup_aset_eq in M.
    destruct (alookup p (w_procs w0)) as [pr'|]; [|contradiction]. exists pr'. destruct M as (M1&M2). split; [reflexivity|]. split; [rewrite M1|rewrite M2]; reflexivity. }
  assert (Tail: forall w2 ev2, msall w1 w2 ->
            match d_fin d with
            | Some r => w4 <- finish p r (d_heapy d) hint (if d_park d then mark_selecting p w2 else w2) ;; Good (w4, ev2)
            | None => if mem p (w_spawning (if d_park d then mark_selecting p w2 else w2)) || mem p (w_selecting (if d_park d then mark_selecting p w2 else w2))
                      then Good (if d_park d then mark_selecting p w2 else w2, ev2)
                      else Good (enqueue p (if d_park d then mark_selecting p w2 else w2), ev2)
            end = Good (w', ev) -> msall w1 w').
  { intros w2 ev2 K2 H.
    assert (K3: msall w1 (if d_park d then mark_selecting p w2 else w2)).
    { destruct (d_park d); [eapply msall_trans; [exact K2|apply msall_same; reflexivity]|exact K2]. }
    destruct (d_fin d).
    - destruct (finish _ _ _ _ _) as [w4|] eqn:F; simpl in H; [|discriminate]. inversion H; subst.
      eapply msall_trans; [exact K3|eapply msall_finish; exact F].
    - destruct (_ || _); inversion H; subst; [exact K3|eapply msall_trans; [exact K3|apply msall_same; reflexivity]]. }
  destruct (d_act d) as [[| t | ts]|]; intros H; apply Self.
  - eapply (Tail _ _ _ H). Unshelve. apply msall_same; reflexivity.
  - eapply (Tail _ _ _ H). Unshelve. apply msall_same; reflexivity.
  - eapply (Tail _ _ _ H). Unshelve.
    eapply msall_trans; [apply msall_upd_proc; apply (keeps_ms_awaiting (fun q => fold_left (fun a t => aset t None a) ts (p_awaiting q)))|apply msall_same; reflexivity].
  - apply (Tail _ _ (msall_refl w1) H).
Qed.

(* ------------------------------------------------------------------ a property of every parked process *)
Definition parked_ok (Phi : proc -> Prop) (w : worker) : Prop :=
  forall q pr, mem q (w_selecting w) = true -> alookup q (w_procs w) = Some pr -> Phi pr.
Definition ext_ms (Phi : proc -> Prop) : Prop := forall a b, p_mail a = p_mail b -> p_sel a = p_sel b -> Phi b -> Phi a.

Lemma parked_par Phi x w w' : ext_ms Phi -> par x w w' -> parked_ok Phi w ->
  (forall q pr, Some q = x -> mem q (w_selecting w') = true -> alookup q (w_procs w') = Some pr -> Phi pr) ->
  parked_ok Phi w'.
Proof.
  intros He Hp Hok Hx q pr Hq Hl.
  destruct x as [p|]; [destruct (Nat.eq_dec q p) as [->|Hne]; [apply (Hx p pr eq_refl Hq Hl)|]|].
  - assert (Hd: Some q <> Some p) by (intros E; inversion E; contradiction).
    destruct (Hp q Hd Hq) as (A&B).
    rewrite Hl in B. destruct (alookup q (w_procs w)) as [b|] eqn:Eb; [|contradiction]. destruct B as (B1&B2).
    apply (He pr b B1 B2). apply (Hok q b A Eb).
  - assert (Hd: Some q <> None) by discriminate.
    destruct (Hp q Hd Hq) as (A&B).
    rewrite Hl in B. destruct (alookup q (w_procs w)) as [b|] eqn:Eb; [|contradiction]. destruct B as (B1&B2).
    apply (He pr b B1 B2). apply (Hok q b A Eb).
Qed.

Lemma par_handle_cmds e i : forall pre w rest w' ev,
  NInv e i w (pre ++ rest) -> handle_cmds pre w = Good (w', ev) -> par None w w'.
Proof.
  induction pre as [|c pre IH]; intros w rest w' ev HI H; simpl in H.
  - inversion H; subst. apply par_refl.
  - destruct (handle_cmd c w) as [[w1 e1]|] eqn:E1; simpl in H; [|discriminate].
    destruct (handle_cmds pre w1) as [[w2 e2]|] eqn:E2; simpl in H; [|discriminate].
    inversion H; subst w' ev; clear H.
    assert (H1: NInv e i w1 (pre ++ rest)).
    { apply (NInv_handle_cmds e i [c] w (pre ++ rest) w1 (e1 ++ [])); [exact HI|]. simpl. rewrite E1. reflexivity. }
    eapply par_trans; [|eapply IH; eassumption].
    destruct HI as (HS&_&_&U). eapply par_handle_cmd; [exact HS| |exact E1].
    intros p Hp. apply U. unfold spawn_pids. simpl. rewrite Hp. left; reflexivity.
Qed.

(* why the executed process is parked at the end of its slice *)
Lemma run_slice_parked_reason i p pr d hint w w' ev :
  run_slice i p pr d hint w = Good (w', ev) -> mem p (w_selecting w') = true ->
  mem p (w_selecting w) = true \/ d_park d = true \/ exists ts, d_act d = Some (AAwait ts).
Proof.
  unfold run_slice. destruct (negb (did_ok d)); [discriminate|].
  destruct (take_seq (d_taken d) (p_mail pr)) as [[taken mail']|]; [|discriminate].
  set (pr1 := with_awaiting _ _). set (w1 := set_procs w (aset p pr1 (w_procs w))).
  assert (Tail: forall w2 ev2,
            match d_fin d with
            | Some r => w4 <- finish p r (d_heapy d) hint (if d_park d then mark_selecting p w2 else w2) ;; Good (w4, ev2)
            | None => if mem p (w_spawning (if d_park d then mark_selecting p w2 else w2)) || mem p (w_selecting (if d_park d then mark_selecting p w2 else w2))
                      then Good (if d_park d then mark_selecting p w2 else w2, ev2)
                      else Good (enqueue p (if d_park d then mark_selecting p w2 else w2), ev2)
            end = Good (w', ev) -> mem p (w_selecting w') = true -> mem p (w_selecting w2) = true \/ d_park d = true).
  { intros w2 ev2 H Hm.
    assert (M3: mem p (w_selecting (if d_park d then mark_selecting p w2 else w2)) = true).
    { destruct (d_fin d).
      - destruct (finish _ _ _ _ _) as [w4|] eqn:F; simpl in H; [|discriminate]. inversion H; subst.
        assert (Hd: Some p <> None) by discriminate.
        apply (par_finish None _ _ _ _ _ _ F p Hd Hm).
      - destruct (_ || _); inversion H; subst; exact Hm. }
    destruct (d_park d); [right; reflexivity|left; exact M3]. }
  destruct (d_act d) as [[| t | ts]|]; intros H Hm.
  - destruct (Tail _ _ H Hm) as [A|A]; [left; exact A|right; left; exact A].
  - destruct (Tail _ _ H Hm) as [A|A]; [left; exact A|right; left; exact A].
  - right; right. eexists; reflexivity.
  - destruct (Tail _ _ H Hm) as [A|A]; [left; exact A|right; left; exact A].
Qed.

(* the slice that the next executor step of this worker will run, and the mailbox it leaves *)
Definition slice_input (i : wid) (now : nat) (k : option nat) (o : woracle) (nd : node) : option (pid * proc * list msg) :=
  match handle_cmds (fst (split_at k (n_cmd nd))) (n_w nd) with
  | Good (w1, _) =>
    match expire now (o_expired o) w1 with
    | Good w2 =>
      match w_queue w2 with
      | p :: _ =>
        match alookup p (w_procs w2) with
        | Some pr =>
          if match o_pid o with Some p' => p =? p' | None => false end
          then match take_seq (d_taken (o_did o)) (p_mail pr) with Some (_, mail') => Some (p, pr, mail') | None => None end
          else None
        | None => None
        end
      | [] => None
      end
    | Fault _ => None
    end
  | Fault _ => None
  end.

(* Worker::step and a property Phi of parked processes that depends on mailbox and select state only *)
Lemma node_step_parked Phi e i now k o nd nd' :
  ext_ms Phi -> NInv e i (n_w nd) (n_cmd nd) ->
  node_step i now k o nd = Good nd' ->
  (* Phi holds of everybody still parked after the commands and the timeout check *)
  (forall w1 ev1 w2, handle_cmds (fst (split_at k (n_cmd nd))) (n_w nd) = Good (w1, ev1) -> expire now (o_expired o) w1 = Good w2 -> parked_ok Phi w2) ->
  (* and of the executed process if its slice parks it *)
  (forall p pr mail' pr', slice_input i now k o nd = Some (p, pr, mail') ->
      (d_park (o_did o) = true \/ exists ts, d_act (o_did o) = Some (AAwait ts)) ->
      p_mail pr' = mail' -> p_sel pr' = d_sel (o_did o) -> Phi pr') ->
  parked_ok Phi (n_w nd').
Proof.
  intros He HI H Hpre Hself. unfold node_step in H. unfold slice_input in Hself.
  pose proof (split_at_app k (n_cmd nd)) as Hs.
  destruct (split_at k (n_cmd nd)) as [pre later]. simpl in Hs, Hpre, Hself.
  destruct (handle_cmds pre (n_w nd)) as [[w1 e1]|] eqn:E1; simpl in H; [|discriminate].
  destruct (exec_step i now o w1) as [[w3 e2]|] eqn:E2; simpl in H; [|discriminate].
  destruct (check_completed (o_completed o) w3) as [[w4 e3]|] eqn:E3; simpl in H; [|discriminate].
  inversion H; subst nd'; clear H. simpl.
  rewrite <- Hs in HI. pose proof (NInv_handle_cmds e i pre (n_w nd) later w1 e1 HI E1) as (HS1&_).
  (* through check_completed *)
  assert (P3: parked_ok Phi w3 -> parked_ok Phi w4).
  { intros P. eapply (parked_par Phi None); [exact He|eapply par_check_completed; exact E3|exact P|intros q pr E; discriminate]. }
  apply P3. clear P3 E3.
  unfold exec_step in E2. destruct (expire now (o_expired o) w1) as [w2|] eqn:Ee; simpl in E2; [|discriminate].
  pose proof (Hpre w1 e1 w2 eq_refl Ee) as P2.
  pose proof (SW_expire _ _ _ _ Ee HS1) as HS2.
  destruct (w_queue w2) as [|p q'] eqn:Eq; [inversion E2; subst; exact P2|].
  destruct (SW_pop p q' w2 Eq HS2) as (HS2'&_&_&Psel&_&_).
  set (w2' := set_sched w2 q' (w_spawning w2) (w_selecting w2)) in *.
  assert (P2': parked_ok Phi w2') by (intros q pr Hq Hl; apply (P2 q pr Hq Hl)).
  simpl in E2. destruct (alookup p (w_procs w2)) as [pr|] eqn:El; [|inversion E2; subst; exact P2'].
  destruct (match o_pid o with Some p' => p =? p' | None => false end) eqn:Eo.
  - (* a real slice *)
    destruct (take_seq (d_taken (o_did o)) (p_mail pr)) as [[taken mail']|] eqn:Et.
    + eapply (parked_par Phi (Some p)); [exact He|eapply par_run_slice; [|exact E2]; exact Psel|exact P2'|].
      intros q prq E Hq Hl. inversion E; subst q.
      destruct (run_slice_self _ _ _ _ _ _ _ _ _ _ Et E2) as (pr'&L1&L2&L3). rewrite Hl in L1. inversion L1; subst pr'.
      destruct (run_slice_parked_reason _ _ _ _ _ _ _ _ E2 Hq) as [A|A]; [simpl in A; congruence|].
      apply (Hself p pr mail' prq eq_refl A L2 L3).
    + unfold run_slice in E2. destruct (negb (did_ok (o_did o))); [discriminate|]. rewrite Et in E2. discriminate.
  - destruct (p_res pr) as [[v|e0]|]; try discriminate.
    destruct (finish p (RErr e0) false (o_awaiters o) w2') as [w5|] eqn:F; simpl in E2; [|discriminate]. inversion E2; subst.
    eapply (parked_par Phi None); [exact He|eapply par_finish; exact F|exact P2'|intros q prq E; discriminate].
Qed.

(* ------------------------------------------------------------------ (2) no timeout is due at the last check *)
Definition not_due (now : nat) (pr : proc) : Prop :=
  match p_sel pr with
  | Some s => match sl_start s with
              | Some t0 => existsb (fun d => d <=? now - t0) (sl_timeouts s) = false
              | None => True end
  | None => True
  end.
Lemma ext_not_due now : ext_ms (not_due now).
Proof. intros a b _ Es H. unfold not_due in *. rewrite Es. exact H. Qed.

Lemma expire_not_due now hint w w' : expire now hint w = Good w' -> parked_ok (not_due now) w'.
Proof.
  unfold expire. set (ex := filter (timed_out now w) (w_selecting w)).
  destruct (order_by hint ex) as [o|]; [|discriminate]. intros H; inversion H; subst; clear H.
  intros q pr Hq Hl. simpl in *. apply mem_in, filter_In in Hq. destruct Hq as (A&B). apply Bool.negb_true_iff in B.
  assert (T: timed_out now w q = false).
  { destruct (timed_out now w q) eqn:E; [|reflexivity]. exfalso.
    assert (mem q ex = true) by (apply mem_in, filter_In; split; assumption). congruence. }
  unfold timed_out in T. rewrite Hl in T. unfold not_due. destruct (p_sel pr) as [s|]; [|exact I].
  destruct (sl_start s); [exact T|exact I].
Qed.

(* C04 no_lost_wakeup, clause "no timeout due at the last check_expired_timeouts": after every
   Worker::step at clock `now` of a well-formed worker, no process parked on it has a timeout that
   has elapsed at `now` — provided the executed slice itself does not park with a timeout already
   due (time_honest: the select machine evaluates its timeout sources before parking, C05) *)
Theorem no_timeout_due_after_step : forall e i now k o nd nd',
  NInv e i (n_w nd) (n_cmd nd) ->
  node_step i now k o nd = Good nd' ->
  time_honest now (o_did o) ->
  forall p, mem p (w_selecting (n_w nd')) = true -> timed_out now (n_w nd') p = false.
Proof.
  intros e i now k o nd nd' HI H Hh p Hp.
  assert (P: parked_ok (not_due now) (n_w nd')).
  { eapply node_step_parked; [apply ext_not_due|exact HI|exact H| |].
    - intros w1 ev1 w2 _ E. eapply expire_not_due; exact E.
    - intros q pr mail' pr' _ Hreason _ Es. unfold not_due. rewrite Es. unfold time_honest in Hh. specialize (Hh Hreason).
      destruct (d_sel (o_did o)) as [s|]; [|exact I]. specialize (Hh s eq_refl). destruct (sl_start s); [|exact I].
      clear -Hh. induction (sl_timeouts s) as [|d l IH]; simpl in *; [reflexivity|].
      apply andb_true_iff in Hh. destruct Hh as (A&B). apply Bool.negb_true_iff in A. rewrite A. simpl. apply IH; exact B. }
  unfold timed_out. destruct (alookup p (w_procs (n_w nd'))) as [pr|] eqn:El; [|reflexivity].
  specialize (P p pr Hp El). unfold not_due in P. destruct (p_sel pr) as [s|]; [|reflexivity]. destruct (sl_start s); [exact P|reflexivity].
Qed.

(* ------------------------------------------------------------------ (3) no unseen message *)
Definition scanned (pr : proc) : Prop :=
  forall s, p_sel pr = Some s -> sl_start s <> None -> Forall (fun c => c = length (p_mail pr)) (sl_cursors s).
Lemma ext_scanned : ext_ms scanned.
Proof. intros a b Em Es H s Hs Hn. rewrite Em. apply H; [rewrite <- Es; exact Hs|exact Hn]. Qed.

(* the property of the select machine assumed of a slice (C05 proves it of the VM): it parks only
   after having scanned the whole mailbox with every receive source, and a slice that ends with the
   Await action has not started evaluating its sources.  A select whose awaited targets have not all
   been reported yet parks again WITHOUT evaluating its sources when it is woken (since the repair of
   F72, executor.rs "Phase 3"): its start time is still unset, and clause 1 says nothing about it. *)
Definition park_honest (d : did) (mail' : list msg) : Prop :=
  (d_park d = true -> forall s, d_sel d = Some s -> sl_start s <> None -> Forall (fun c => c = length mail') (sl_cursors s)) /\
  (forall ts, d_act d = Some (AAwait ts) -> forall s, d_sel d = Some s -> sl_start s = None).

Definition honest_step (s : sys) (a : sched_action) : Prop :=
  match a with
  | W i k o => match nth_error (s_nodes s) i with
               | Some nd => match slice_input i (s_clock s) k o nd with
                            | Some (_, _, mail') => park_honest (o_did o) mail'
                            | None => True end
               | None => True end
  | _ => True
  end.
Fixpoint honest_run (s : sys) (sigma : list sched_action) : Prop :=
  match sigma with
  | [] => True
  | a :: t => honest_step s a /\ match sys_step s a with Good s' => honest_run s' t | Fault _ => True end
  end.

Lemma node_step_scanned e i now k o nd nd' :
  NInv e i (n_w nd) (n_cmd nd) -> parked_ok scanned (n_w nd) ->
  node_step i now k o nd = Good nd' ->
  match slice_input i now k o nd with Some (_, _, mail') => park_honest (o_did o) mail' | None => True end ->
  parked_ok scanned (n_w nd').
Proof.
  intros HI P H Hh. eapply node_step_parked; [apply ext_scanned|exact HI|exact H| |].
  - intros w1 ev1 w2 E1 E2.
    pose proof (split_at_app k (n_cmd nd)) as Hs. rewrite <- Hs in HI.
    eapply (parked_par scanned None); [apply ext_scanned|eapply par_expire; exact E2| |intros q pr E; discriminate].
    eapply (parked_par scanned None); [apply ext_scanned|eapply par_handle_cmds; [exact HI|exact E1]|exact P|intros q pr E; discriminate].
  - intros p pr mail' pr' Hsi Hreason Em Es. rewrite Hsi in Hh. destruct Hh as (H1&H2).
    intros s Hs Hn. rewrite Es in Hs. destruct Hreason as [Hp|(ts&Ha)].
    + rewrite Em. apply (H1 Hp s Hs Hn).
    + exfalso. apply Hn. apply (H2 ts Ha s Hs).
Qed.

Definition parked_inv (s : sys) : Prop := WF s /\ all_workers (parked_ok scanned) s.

(* C04 no_lost_wakeup, mailbox clause: for every schedule and every oracle whose slices park
   honestly, a process parked in a select whose sources have been evaluated (start time set) has
   every receive cursor at the end of its mailbox — there is no unseen message in the mailbox of a
   parked process (a DeliverMessage appends AND wakes in one step) *)
Theorem parked_has_no_unseen_message : forall sigma nw s,
  honest_run (init nw) sigma -> run (init nw) sigma = Good s ->
  forall i nd p pr sl, nth_error (s_nodes s) i = Some nd ->
    mem p (w_selecting (n_w nd)) = true -> alookup p (w_procs (n_w nd)) = Some pr ->
    p_sel pr = Some sl -> sl_start sl <> None ->
    Forall (fun c => c = length (p_mail pr)) (sl_cursors sl).
Proof.
  intros sigma nw s Hh H.
  assert (Inv: parked_inv s).
  { assert (I0: parked_inv (init nw)).
    { split; [apply WF_init|]. apply all_workers_init. intros q pr Hq. discriminate. }
    revert Hh H I0. generalize (init nw). induction sigma as [|a sigma IH]; intros s0 Hh H I0; simpl in H.
    - inversion H; subst. exact I0.
    - simpl in Hh. destruct Hh as (Ha&Ht). destruct (sys_step s0 a) as [s1|] eqn:E; cbn [rbind] in H; [|discriminate].
      apply (IH s1 Ht H). destruct I0 as (W0&P0). split; [eapply WF_step; eassumption|].
      destruct a as [i k o|ks|d|c]; simpl in E.
      + destruct (nth_error (s_nodes s0) i) as [nd|] eqn:Ei; [|inversion E; subst; exact P0].
        destruct (node_step i (s_clock s0) k o nd) as [nd'|] eqn:Es; cbn [rbind] in E; [|discriminate].
        inversion E; subst s1. intros j x Hx. simpl in Hx. destruct (Nat.eq_dec j i) as [->|Hne].
        * rewrite (nth_error_update_same _ _ _ _ Ei) in Hx. inversion Hx; subst x.
          destruct W0 as (_&N). simpl in Ha. rewrite Ei in Ha.
          eapply node_step_scanned; [apply (N i nd Ei)|apply (P0 i nd Ei)|exact Es|exact Ha].
        * rewrite nth_error_update_other in Hx by exact Hne. apply (P0 j x Hx).
      + destruct (collect ks (s_nodes s0)) as [evs ns] eqn:Ec.
        destruct (handle_events (length (s_nodes s0)) evs (s_env s0, ns)) as [[e' ns']|] eqn:Eh; cbn [rbind] in E; [|discriminate].
        inversion E; subst s1. intros j x Hx. simpl in Hx.
        apply handle_events_nw in Eh. pose proof (collect_totals ks (s_nodes s0) (0, mkMsg 0 0 0)) as (_&_&_&_&_&M). rewrite Ec in M. simpl in M.
        destruct (map_nw_nth _ _ (eq_trans Eh M) j x Hx) as (nd&Hn&En). rewrite <- En. apply (P0 j nd Hn).
      + inversion E; subst. exact P0.
      + assert (Push: forall w c0 j x, nth_error (push_cmd w c0 (s_nodes s0)) j = Some x -> parked_ok scanned (n_w x)).
        { intros w c0 j x Hx. rewrite nth_error_push in Hx. destruct (nth_error (s_nodes s0) j) as [nd|] eqn:En; [|discriminate].
          inversion Hx; subst. destruct (j =? w); simpl; apply (P0 j nd En). }
        unfold client_step in E. destruct c.
        * inversion E; subst s1. intros j x Hx. eapply Push; exact Hx.
        * inversion E; subst s1. intros j x Hx. eapply Push; exact Hx.
        * inversion E; subst s1. intros j x Hx. eapply Push; exact Hx.
        * destruct (alookup p (e_router (s_env s0))); inversion E; subst s1; [intros j x Hx; eapply Push; exact Hx|exact P0].
        * destruct (alookup p (e_router (s_env s0))); inversion E; subst s1; [intros j x Hx; eapply Push; exact Hx|exact P0]. }
  intros i nd p pr sl Hn Hp Hl Hs Hst. destruct Inv as (_&P). apply (P i nd Hn p pr Hp Hl sl Hs Hst).
Qed.

(* (2) lifted to every reachable state *)
Theorem no_timeout_due_at_last_check : forall nw sigma s i k o s',
  run (init nw) sigma = Good s -> sys_step s (W i k o) = Good s' -> time_honest (s_clock s) (o_did o) ->
  forall nd' p, nth_error (s_nodes s') i = Some nd' -> mem p (w_selecting (n_w nd')) = true ->
    timed_out (s_clock s) (n_w nd') p = false.
Proof.
  intros nw sigma s i k o s' H E Hh nd' p Hn Hp.
  destruct (WF_run sigma _ _ (WF_init nw) H) as (_&N). simpl in E.
  destruct (nth_error (s_nodes s) i) as [nd|] eqn:Ei.
  - destruct (node_step i (s_clock s) k o nd) as [nd2|] eqn:Es; cbn [rbind] in E; [|discriminate].
    inversion E; subst s'. simpl in Hn. rewrite (nth_error_update_same _ _ _ _ Ei) in Hn. inversion Hn; subst nd2.
    eapply no_timeout_due_after_step; [apply (N i nd Ei)|exact Es|exact Hh|exact Hp].
  - inversion E; subst s'. congruence.
Qed.
