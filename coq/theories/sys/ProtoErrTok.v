(* ProtoErrTok.v — C15 awaiters_get_same_error on M-Sys (sys/Proto.v), global form, for every
   schedule and every oracle (no premise):

     errors_originate : in every state reachable by a schedule sigma, every error token anywhere —
       the result of a process, a stored `awaiting` value, a ProcessResults / ResultResponse event,
       an UpdateAwaitResults command, an answer stored in pending_awaits — is the error some time
       slice of sigma finished with (`origin_errs sigma`).  The protocol never invents, alters or
       mixes errors: what an awaiter ends with is the error of SOME process that failed on its own.
     single_failure_same_error : hence, when all failing slices of the schedule fail with the same
       error e0 (in particular: exactly one process fails on its own), EVERY process that ends
       failed ends with exactly e0 — each awaiter, each awaiter of an awaiter, on every worker.

   With several distinct failures an awaiter of two failing processes keeps the error that was
   written LAST (props/C15.v, awaiters_get_same_error_partial) — that is the strongest true
   statement; which of the originated errors it is depends on the schedule. *)
From Quiver Require Import sys.Proto sys.ProtoMsg sys.ProtoFifo sys.ProtoFail sys.ProtoCommute sys.ProtoMicro sys.ProtoOps.

Section Tok.
  Variable E : list nat.

  Definition res_ok (r : res) : Prop := match r with RErr e => In e E | ROk _ => True end.
  Definition ores_ok (o : option res) : Prop := match o with Some r => res_ok r | None => True end.
  Definition rs_ok (rs : list (pid * option res)) : Prop := Forall (fun x => ores_ok (snd x)) rs.
  Definition proc_ok (pr : proc) : Prop := ores_ok (p_res pr) /\ rs_ok (p_awaiting pr).
  Definition worker_ok (w : worker) : Prop := forall p pr, alookup p (w_procs w) = Some pr -> proc_ok pr.
  Definition cmd_tok (c : cmd) : Prop := match c with CUpdate _ rs => rs_ok rs | _ => True end.
  Definition evt_tok (ev : event) : Prop :=
    match ev with EResults _ rs => rs_ok rs | EResultResp _ r => res_ok r | _ => True end.
  Definition node_tok (nd : node) : Prop := worker_ok (n_w nd) /\ Forall cmd_tok (n_cmd nd) /\ Forall evt_tok (n_evt nd).
  Definition pend_tok (e : env) : Prop :=
    forall p pa, alookup p (e_pending e) = Some pa -> forall w rs, In (w, rs) (pa_resp pa) -> rs_ok rs.
  Definition TInv (s : sys) : Prop :=
    (forall i nd, nth_error (s_nodes s) i = Some nd -> node_tok nd) /\ pend_tok (s_env s).

  (* the oracle premise: the error a slice finishes with is one of E *)
  Definition origin_ok : env -> nat -> woracle -> worker -> Prop := fun _ _ o _ => ores_ok (d_fin (o_did o)).

  (* ---- association lists *)
  Lemma rs_ok_aset k v rs : ores_ok v -> rs_ok rs -> rs_ok (aset k v rs).
  Proof.
    intros Hv. induction rs as [|[k0 v0] rs IH]; intros H; simpl; [constructor; [exact Hv|constructor]|].
    inversion H as [|x y H1 H2]; subst. destruct (k =? k0); constructor; [exact Hv|exact H2|exact H1|apply IH; exact H2].
  Qed.
  Lemma rs_ok_aremove k rs : rs_ok rs -> rs_ok (aremove k rs).
  Proof. unfold rs_ok. intros H. unfold aremove. apply Forall_forall. intros x Hx. apply filter_In in Hx. rewrite Forall_forall in H. apply H, Hx. Qed.
  Lemma rs_ok_fold_aremove ks : forall rs, rs_ok rs -> rs_ok (fold_left (fun a k => aremove k a) ks rs).
  Proof. induction ks as [|k ks IH]; intros rs H; simpl; [exact H|]. apply IH, rs_ok_aremove, H. Qed.
  Lemma rs_ok_fold_none ts : forall rs, rs_ok rs -> rs_ok (fold_left (fun a k => aset k None a) ts rs).
  Proof. induction ts as [|k ts IH]; intros rs H; simpl; [exact H|]. apply IH, rs_ok_aset; [exact I|exact H]. Qed.
  Lemma rs_ok_fold_aset : forall rs acc, rs_ok rs -> rs_ok acc -> rs_ok (fold_left (fun a x => aset (fst x) (snd x) a) rs acc).
  Proof.
    induction rs as [|[k v] rs IH]; intros acc H Ha; simpl; [exact Ha|].
    inversion H as [|x y H1 H2]; subst. apply IH; [exact H2|apply rs_ok_aset; [exact H1|exact Ha]].
  Qed.
  Lemma rs_ok_merge : forall (resp : list (wid * list (pid * option res))) acc, (forall w rs, In (w, rs) resp -> rs_ok rs) -> rs_ok acc ->
    rs_ok (fold_left (fun acc e => fold_left (fun a x => aset (fst x) (snd x) a) (snd e) acc) resp acc).
  Proof.
    induction resp as [|[w rs] resp IH]; intros acc H Ha; simpl; [exact Ha|].
    apply IH; [intros w' rs' Hin; apply (H w' rs'); right; exact Hin|].
    apply rs_ok_fold_aset; [apply (H w rs); left; reflexivity|exact Ha].
  Qed.
  Lemma in_aset {A} k (v : A) l x : In x (aset k v l) -> x = (k, v) \/ In x l.
  Proof.
    induction l as [|[k0 v0] l IH]; simpl; [intros [H|[]]; left; symmetry; exact H|].
    destruct (k =? k0); simpl; [intros [H|H]; [left; symmetry; exact H|right; right; exact H]|].
    intros [H|H]; [right; left; exact H|]. destruct (IH H) as [H1|H1]; [left; exact H1|right; right; exact H1].
  Qed.

  (* ---- workers *)
  Lemma wk_same w w' : w_procs w' = w_procs w -> worker_ok w -> worker_ok w'.
  Proof. intros Ep H p pr Hl. rewrite Ep in Hl. apply (H p pr Hl). Qed.
  Lemma wk_set_proc w p pr1 : worker_ok w -> proc_ok pr1 -> worker_ok (set_procs w (aset p pr1 (w_procs w))).
  Proof.
    intros H H1 q pr Hl. simpl in Hl. rewrite alookup_aset in Hl. destruct (q =? p); [inversion Hl; subst; exact H1|apply (H q pr Hl)].
  Qed.
  Lemma wk_upd_proc p f w : (forall pr, proc_ok pr -> proc_ok (f pr)) -> worker_ok w -> worker_ok (upd_proc p f w).
  Proof.
    intros Hf H. unfold upd_proc. destruct (alookup p (w_procs w)) as [pr|] eqn:El; [|exact H].
    apply wk_set_proc; [exact H|apply Hf, (H p pr El)].
  Qed.
  Lemma wk_wake p w : worker_ok w -> worker_ok (wake_selecting p w).
  Proof. apply wk_same. apply procs_wake. Qed.
  Lemma wk_notify_result a b r w : res_ok r -> worker_ok w -> worker_ok (notify_result a b r w).
  Proof.
    intros Hr H. unfold notify_result. destruct (awaits a b w); apply wk_wake; [|exact H].
    apply wk_upd_proc; [|exact H]. intros pr (P1&P2). split; [exact P1|]. simpl. apply rs_ok_aset; [exact Hr|exact P2].
  Qed.
  Lemma wk_worker_notify a b r w : res_ok r -> worker_ok w -> worker_ok (worker_notify a b r w).
  Proof.
    intros Hr H. unfold worker_notify. destruct r as [v|e]; [apply wk_notify_result; assumption|].
    destruct (awaits a b w); [|apply wk_wake; exact H]. apply wk_upd_proc; [|exact H]. intros pr (P1&P2). split; [exact Hr|exact P2].
  Qed.
  Lemma wk_update_await a rs w : rs_ok rs -> worker_ok w -> worker_ok (update_await a rs w).
  Proof.
    intros Hrs H. unfold update_await.
    assert (F: forall l w0, rs_ok l -> worker_ok w0 ->
               worker_ok (fold_left (fun w e => match snd e with Some r => worker_notify a (fst e) r w | None => w end) l w0)).
    { induction l as [|x l IH]; intros w0 Hl H0; simpl; [exact H0|]. inversion Hl as [|y z L1 L2]; subst. apply IH; [exact L2|].
      destruct (snd x) as [r|]; [apply wk_worker_notify; [exact L1|exact H0]|exact H0]. }
    destruct (existsb _ rs); [apply F; assumption|apply wk_wake, F; assumption].
  Qed.
  Lemma wk_notify_local p r h w q : res_ok r -> worker_ok w -> worker_ok (notify_local p r h w q).
  Proof.
    intros Hr H. unfold notify_local. destruct r as [v|e]; [destruct h; [exact H|apply wk_notify_result; assumption]|].
    apply wk_upd_proc; [|exact H]. intros pr (P1&P2). split; [exact Hr|exact P2].
  Qed.
  Lemma wk_finish p r h hint w w' : finish p r h hint w = Good w' -> res_ok r -> worker_ok w -> worker_ok w'.
  Proof.
    unfold finish. destruct (order_by hint _) as [o|]; [|discriminate]. intros H Hr Hw; inversion H; subst; clear H.
    assert (F: forall l w0, worker_ok w0 -> worker_ok (fold_left (notify_local p r h) l w0)).
    { induction l as [|x l IH]; intros w0 H0; simpl; [exact H0|]. apply IH, wk_notify_local; assumption. }
    apply F. apply wk_upd_proc; [|exact Hw]. intros pr (P1&P2). split; [exact Hr|exact P2].
  Qed.

  Lemma handle_cmd_tok c w w' evs :
    handle_cmd c w = Good (w', evs) -> cmd_tok c -> worker_ok w -> worker_ok w' /\ Forall evt_tok evs.
  Proof.
    intros H Hc Hw. destruct c; simpl in H.
    - inversion H; subst. split; [exact Hw|constructor].
    - inversion H; subst. split; [exact Hw|constructor; [exact I|constructor]].
    - destruct sleeping; inversion H; subst; clear H; (split; [|constructor]).
      + apply wk_set_proc; [exact Hw|split; [exact I|constructor]].
      + eapply wk_same; [|apply (wk_set_proc w p (new_proc true None)); [exact Hw|split; [exact I|constructor]]]. reflexivity.
    - inversion H; subst; clear H. split; [|constructor].
      eapply wk_same; [|apply (wk_set_proc w p (new_proc false None)); [exact Hw|split; [exact I|constructor]]]. reflexivity.
    - destruct (alookup p (w_procs w)) as [pr|]; [|discriminate].
      destruct (p_res pr) as [[v|e]|]; try discriminate. destruct (p_pers pr); [|discriminate]. inversion H; subst; clear H.
      split; [|constructor]. eapply wk_same; [|apply (wk_upd_proc p (with_res None)); [|exact Hw]]; [reflexivity|].
      intros pr0 (P1&P2). split; [exact I|exact P2].
    - destruct (fold_left (query_one awaiter) targets (w, [])) as [w1 rs] eqn:Ef. inversion H; subst w1 evs; clear H.
      assert (F: forall ts w0 rs0 w2 rs2, fold_left (query_one awaiter) ts (w0, rs0) = (w2, rs2) -> rs_ok rs0 -> w_procs w2 = w_procs w0 /\ rs_ok rs2).
      { induction ts as [|t ts IH]; intros w0 rs0 w2 rs2 Hf H0; cbn [fold_left] in Hf; [inversion Hf; subst; split; [reflexivity|exact H0]|].
        assert (Q: w_procs (fst (query_one awaiter (w0, rs0) t)) = w_procs w0 /\ rs_ok (snd (query_one awaiter (w0, rs0) t))).
        { unfold query_one. destruct (completed_value w0 t) as [r|] eqn:Ec; simpl.
          - split; [reflexivity|]. apply rs_ok_aset; [|exact H0].
            unfold completed_value in Ec. destruct (alookup t (w_procs w0)) as [pr0|]; [|discriminate].
            destruct (_ || _); [discriminate|]. destruct (p_res pr0) as [[v|e]|]; inversion Ec; subst. exact I.
          - split; [reflexivity|]. apply rs_ok_aset; [exact I|exact H0]. }
        destruct (query_one awaiter (w0, rs0) t) as [w1 rs1]. simpl in Q. destruct Q as (Q1&Q2).
        destruct (IH _ _ _ _ Hf Q2) as (I1&I2). split; [congruence|exact I2]. }
      destruct (F _ _ _ _ _ Ef (Forall_nil _)) as (F1&F2).
      split; [eapply wk_same; [exact F1|exact Hw]|constructor; [exact F2|constructor]].
    - inversion H; subst. split; [apply wk_update_await; assumption|constructor].
    - destruct (alookup target (w_procs w)); inversion H; subst; clear H; (split; [|constructor]); apply wk_wake.
      + apply wk_upd_proc; [intros pr (P1&P2); split; assumption|]. eapply wk_same; [|exact Hw]. reflexivity.
      + eapply wk_same; [|exact Hw]. reflexivity.
    - destruct (mem p (w_spawning w)); inversion H; subst; (split; [|constructor]); [eapply wk_same; [|exact Hw]; reflexivity|exact Hw].
    - destruct (alookup p (w_procs w)) as [pr|] eqn:El; [|discriminate].
      destruct (p_res pr) as [r|] eqn:Er; inversion H; subst; clear H.
      + split; [exact Hw|]. constructor; [|constructor]. simpl. destruct (Hw p pr El) as (P1&_). rewrite Er in P1. exact P1.
      + split; [eapply wk_same; [|exact Hw]; reflexivity|constructor].
  Qed.

  Lemma exec_step_tok i now o w w' evs :
    exec_step i now o w = Good (w', evs) -> ores_ok (d_fin (o_did o)) -> worker_ok w -> worker_ok w' /\ Forall evt_tok evs.
  Proof.
    intros H Hon Hw. split.
    - destruct (exec_step_shape _ _ _ _ _ _ H) as (w1&Ex&C). destruct (expire_same _ _ _ _ Ex) as (Ep&_).
      assert (H1: worker_ok w1) by (eapply wk_same; [exact Ep|exact Hw]).
      destruct C as [(_&->&_)|(p&q'&_&[(_&->&_)|(pr&Hl&[(_&R)|(e&Hr&F&_)])])]; try exact H1.
      + destruct (run_slice_shape _ _ _ _ _ _ _ _ R) as (taken&mail'&w2&_&Ha&Hf).
        set (w0 := set_sched w1 q' (w_spawning w1) (w_selecting w1)) in *.
        assert (H0: worker_ok w0) by exact H1.
        assert (Hpr: proc_ok pr) by (apply (H1 p pr Hl)).
        assert (Hp1: proc_ok (slice_pr1 pr (o_did o) taken mail')).
        { destruct Hpr as (P1&P2). split; [exact P1|]. unfold slice_pr1. simpl. apply rs_ok_fold_aremove. exact P2. }
        assert (Ha1: worker_ok (set_procs w0 (aset p (slice_pr1 pr (o_did o) taken mail') (w_procs w0)))) by (apply wk_set_proc; assumption).
        assert (H2: worker_ok w2).
        { inversion Ha; subst; try exact Ha1.
          eapply wk_same; [|apply (wk_upd_proc p (fun q => with_awaiting (fold_left (fun a t => aset t None a) ts (p_awaiting q)) q)); [|exact Ha1]]; [reflexivity|].
          intros pr0 (Q1&Q2). split; [exact Q1|]. simpl. apply rs_ok_fold_none. exact Q2. }
        assert (H3: worker_ok (if d_park (o_did o) then mark_selecting p w2 else w2)) by (destruct (d_park (o_did o)); exact H2).
        destruct (d_fin (o_did o)) as [r|]; [eapply wk_finish; [exact Hf|exact Hon|exact H3]|].
        destruct Hf as [->| ->]; exact H3.
      + eapply wk_finish; [exact F| |exact H1]. simpl. destruct (H1 p pr Hl) as (P1&_). rewrite Hr in P1. exact P1.
    - destruct (exec_step_events _ _ _ _ _ _ H) as [->|(p&_&_&[(_&->)|[(t&m&_&->)|(ts&_&->)]])]; repeat constructor.
  Qed.

  Lemma check_completed_tok hint w w' evs : check_completed hint w = Good (w', evs) -> worker_ok w -> worker_ok w' /\ Forall evt_tok evs.
  Proof.
    intros H Hw. destruct (check_completed_spec _ _ _ _ H) as (S1&_&_&_&_&_&_&_&S9). split; [eapply wk_same; [exact S1|exact Hw]|].
    apply Forall_forall. intros x Hx.
    assert (Rok: forall t r, result_of w t = Some r -> res_ok r).
    { intros t r Hr. unfold result_of in Hr. destruct (alookup t (w_procs w)) as [pr|] eqn:El; [|discriminate].
      destruct (Hw t pr El) as (P1&_). rewrite Hr in P1. exact P1. }
    destruct (S9 x Hx) as [(a&t&r&->&_&Hr)|(req&r&t&->&Hr)]; simpl.
    - constructor; [apply (Rok t r Hr)|constructor].
    - apply (Rok t r Hr).
  Qed.
End Tok.

(* ------------------------------------------------------------------ nodes, the environment *)
Definition nodes_tok (E : list nat) (ns : list node) : Prop := forall i nd, nth_error ns i = Some nd -> node_tok E nd.

Lemma nodes_tok_push E ns w c : nodes_tok E ns -> cmd_tok E c -> nodes_tok E (push_cmd w c ns).
Proof.
  intros N Hc i nd Hn. rewrite nth_error_push in Hn. destruct (nth_error ns i) as [nd0|] eqn:En; [|discriminate].
  inversion Hn; subst nd; clear Hn. destruct (N i nd0 En) as (A&B&C).
  destruct (i =? w); [|split; [|split]; assumption]. split; [|split]; simpl; try assumption.
  apply Forall_app. split; [exact B|constructor; [exact Hc|constructor]].
Qed.
Lemma nodes_tok_fold_push {A} E (mk : A -> cmd) (wof : A -> wid) l : (forall a, cmd_tok E (mk a)) -> forall ns,
  nodes_tok E ns -> nodes_tok E (fold_left (fun ns a => push_cmd (wof a) (mk a) ns) l ns).
Proof. intros Hm. induction l as [|a l IH]; intros ns H; simpl; [exact H|]. apply IH. apply nodes_tok_push; [exact H|apply Hm]. Qed.
Lemma nodes_tok_set_node E ns i nd' : nodes_tok E ns -> node_tok E nd' -> nodes_tok E (set_node i nd' ns).
Proof.
  intros N H j x Hx. destruct (Nat.eq_dec j i) as [->|Hne].
  - destruct (nth_error ns i) as [nd|] eqn:Ei.
    + rewrite (nth_set_node_same _ _ _ _ Ei) in Hx. inversion Hx; subst x. exact H.
    + unfold set_node in Hx. rewrite (update_nth_none _ _ _ Ei) in Hx. congruence.
  - rewrite nth_set_node_other in Hx by exact Hne. apply (N j x Hx).
Qed.

Lemma handle_event_tok E nw ev e ns e' ns' :
  evt_tok E ev -> nodes_tok E ns -> pend_tok E e ->
  handle_event nw ev (e, ns) = Good (e', ns') -> nodes_tok E ns' /\ pend_tok E e'.
Proof.
  intros Hev N P H. destruct ev; unfold handle_event in H; cbn -[Nat.modulo nodup] in H.
  - revert H. match goal with |- context [@alookup ?A caller ?l] => destruct (@alookup A caller l) as [cw|] end; intros H; [|discriminate].
    inversion H; subst e' ns'; clear H. split; [|exact P]. apply nodes_tok_push; [apply nodes_tok_push|exact I]; [exact N|exact I].
  - destruct (alookup target (e_router e)) as [w|]; [|discriminate]. inversion H; subst e' ns'.
    split; [apply nodes_tok_push; [exact N|exact I]|exact P].
  - revert H. match goal with |- context [forallb ?f targets] => destruct (forallb f targets) end; intros H; [|discriminate].
    inversion H; subst e' ns'; clear H. split.
    + set (wof := fun t => match alookup t (e_router e) with Some w => w | None => 0 end).
      apply (nodes_tok_fold_push E (fun w => CQuery awaiter (filter (fun t => wof t =? w) targets)) (fun w => w)); [intros w; exact I|exact N].
    + intros p pa Hp w rs Hin. simpl in Hp. rewrite alookup_aset in Hp. destruct (p =? awaiter); [inversion Hp; subst pa; destruct Hin|apply (P p pa Hp w rs Hin)].
  - simpl in Hev. destruct (alookup awaiter (e_pending e)) as [pa|] eqn:Epa.
    + destruct (match results with [] => None | (t, _) :: _ => alookup t (e_router e) end) as [w|]; [|inversion H; subst; split; assumption].
      set (old := match alookup w (pa_resp pa) with Some l => l | None => [] end) in *.
      set (resp' := aset w (fold_left (fun a x => aset (fst x) (snd x) a) results old) (pa_resp pa)) in *.
      assert (Hold: rs_ok E old).
      { unfold old. destruct (alookup w (pa_resp pa)) as [l|] eqn:El; [|constructor]. apply (P awaiter pa Epa w l). apply alookup_in. exact El. }
      assert (Hresp: forall w0 rs0, In (w0, rs0) resp' -> rs_ok E rs0).
      { intros w0 rs0 Hin. apply in_aset in Hin. destruct Hin as [Hin|Hin]; [inversion Hin; subst; apply rs_ok_fold_aset; assumption|apply (P awaiter pa Epa w0 rs0 Hin)]. }
      destruct (sremove w (pa_expected pa)).
      * destruct (alookup awaiter (e_router e)) as [aw|]; [|discriminate]. inversion H; subst e' ns'; clear H. split.
        -- apply nodes_tok_push; [exact N|]. simpl. apply rs_ok_merge; [exact Hresp|constructor].
        -- intros p pa0 Hp. simpl in Hp. rewrite alookup_aremove in Hp. destruct (p =? awaiter); [discriminate|apply (P p pa0 Hp)].
      * inversion H; subst e' ns'; clear H. split; [exact N|].
        intros p pa0 Hp. simpl in Hp. rewrite alookup_aset in Hp. destruct (p =? awaiter); [inversion Hp; subst pa0; exact Hresp|apply (P p pa0 Hp)].
    + destruct (alookup awaiter (e_router e)) as [aw|]; [|discriminate]. inversion H; subst e' ns'; clear H.
      split; [apply nodes_tok_push; [exact N|exact Hev]|exact P].
  - inversion H; subst e' ns'. split; assumption.
  - inversion H; subst e' ns'. split; assumption.
Qed.

Lemma Forall_tl {A} (P : A -> Prop) a l : Forall P (a :: l) -> P a /\ Forall P l.
Proof. intros H; inversion H; auto. Qed.

Theorem TInv_mstep E s l s' : TInv E s -> mstep s l s' -> hon_label (origin_ok E) s l -> TInv E s'.
Proof.
  intros (N&P) M Hon.
  destruct M as [ns e clk i nd c rest w' evs Hn Hc Hh
                |ns e clk i nd o w' evs Hn Hx
                |ns e clk i nd hint w' evs Hn Hk
                |ns e clk i nd ev rest e' ns' Hn Hq He
                |ns e clk d
                |s c s' Hc]; simpl in *.
  - destruct (N i nd Hn) as (A&B&C). rewrite Hc in B. destruct (Forall_tl _ _ _ B) as (B1&B2).
    destruct (handle_cmd_tok E c (n_w nd) w' evs Hh B1 A) as (A'&C').
    split; [|exact P]. apply nodes_tok_set_node; [exact N|]. split; [exact A'|]. split; [exact B2|apply Forall_app; split; assumption].
  - destruct (N i nd Hn) as (A&B&C).
    destruct (exec_step_tok E i clk o (n_w nd) w' evs Hx (Hon nd Hn) A) as (A'&C').
    split; [|exact P]. apply nodes_tok_set_node; [exact N|]. split; [exact A'|]. split; [exact B|apply Forall_app; split; assumption].
  - destruct (N i nd Hn) as (A&B&C).
    destruct (check_completed_tok E hint (n_w nd) w' evs Hk A) as (A'&C').
    split; [|exact P]. apply nodes_tok_set_node; [exact N|]. split; [exact A'|]. split; [exact B|apply Forall_app; split; assumption].
  - destruct (N i nd Hn) as (A&B&C). rewrite Hq in C. destruct (Forall_tl _ _ _ C) as (C1&C2).
    apply (handle_event_tok E (length ns) ev e (set_node i (mk_node (n_w nd) (n_cmd nd) rest) ns) e' ns' C1); [|exact P|exact He].
    apply nodes_tok_set_node; [exact N|]. split; [exact A|]. split; [exact B|exact C2].
  - split; assumption.
  - unfold client_step in Hc. destruct c.
    + inversion Hc; subst s'; simpl. split; [apply nodes_tok_push; [exact N|exact I]|exact P].
    + inversion Hc; subst s'; simpl. split; [apply nodes_tok_push; [exact N|exact I]|exact P].
    + inversion Hc; subst s'; simpl. split; [apply nodes_tok_push; [exact N|exact I]|exact P].
    + destruct (alookup p (e_router (s_env s))); inversion Hc; subst s'; simpl; (split; [|exact P]); [apply nodes_tok_push; [exact N|exact I]|exact N].
    + destruct (alookup p (e_router (s_env s))); inversion Hc; subst s'; simpl; (split; [|exact P]); [apply nodes_tok_push; [exact N|exact I]|exact N].
Qed.

Lemma TInv_init E nw : TInv E (init nw).
Proof.
  split; [|intros p pa H; discriminate]. intros i nd Hn. simpl in Hn. apply nth_error_In, repeat_spec in Hn. subst nd.
  split; [intros p pr H; discriminate|]. split; constructor.
Qed.

(* the errors the time slices of a schedule finish with *)
Definition origin_errs (sigma : list sched_action) : list nat :=
  flat_map (fun a => match a with W _ _ o => match d_fin (o_did o) with Some (RErr e) => [e] | _ => [] end | _ => [] end) sigma.

Lemma origin_hon E : forall sigma s, incl (origin_errs sigma) E -> hon_run (origin_ok E) s sigma.
Proof.
  induction sigma as [|a sigma IH]; intros s Hi; simpl; [exact I|]. split.
  - destruct a as [i k o| | |]; simpl; auto.
    destruct (nth_error (s_nodes s) i) as [nd|]; [|exact I]. destruct (handle_cmds _ _) as [[w1 e1]|]; [|exact I].
    unfold origin_ok. destruct (d_fin (o_did o)) as [[v|e]|] eqn:Ef; simpl; auto.
    apply Hi. simpl. rewrite Ef. left; reflexivity.
  - destruct (sys_step s a) as [s'|]; [|exact I]. apply IH. intros x Hx. apply Hi. simpl. apply in_or_app. right; exact Hx.
Qed.

Theorem errors_originate_inv : forall nw sigma s, run (init nw) sigma = Good s -> TInv (origin_errs sigma) s.
Proof.
  intros nw sigma s H.
  eapply (micro_invariant (TInv (origin_errs sigma)) (origin_ok (origin_errs sigma)) (TInv_mstep (origin_errs sigma)));
    [apply TInv_init|apply origin_hon; intros x Hx; exact Hx|exact H].
Qed.

(* C15: the error a process ends with is the error some time slice of the schedule finished with *)
Theorem errors_originate : forall nw sigma s,
  run (init nw) sigma = Good s ->
  forall i nd p pr e, nth_error (s_nodes s) i = Some nd -> alookup p (w_procs (n_w nd)) = Some pr ->
    p_res pr = Some (RErr e) -> In e (origin_errs sigma).
Proof.
  intros nw sigma s H i nd p pr e Hn Hl Hr. destruct (errors_originate_inv nw sigma s H) as (N&_).
  destruct (N i nd Hn) as (A&_). destruct (A p pr Hl) as (P1&_). rewrite Hr in P1. exact P1.
Qed.

(* ... and so is every error in flight *)
Theorem errors_in_flight_originate : forall nw sigma s,
  run (init nw) sigma = Good s ->
  forall i nd, nth_error (s_nodes s) i = Some nd ->
    (forall a rs t e, In (EResults a rs) (n_evt nd) -> In (t, Some (RErr e)) rs -> In e (origin_errs sigma)) /\
    (forall a rs t e, In (CUpdate a rs) (n_cmd nd) -> In (t, Some (RErr e)) rs -> In e (origin_errs sigma)).
Proof.
  intros nw sigma s H i nd Hn. destruct (errors_originate_inv nw sigma s H) as (N&_). destruct (N i nd Hn) as (_&B&C).
  rewrite Forall_forall in B, C. split.
  - intros a rs t e Hin Hr. specialize (C _ Hin). simpl in C. unfold rs_ok in C. rewrite Forall_forall in C. apply (C _ Hr).
  - intros a rs t e Hin Hr. specialize (B _ Hin). simpl in B. unfold rs_ok in B. rewrite Forall_forall in B. apply (B _ Hr).
Qed.

(* C15 awaiters_get_same_error, global form: when every failing slice of the schedule fails with e0
   (in particular when exactly one process fails on its own), every failed process — every awaiter,
   transitively, on every worker — has exactly the error e0 *)
Theorem single_failure_same_error : forall nw sigma s e0,
  run (init nw) sigma = Good s -> (forall e, In e (origin_errs sigma) -> e = e0) ->
  forall i nd p pr e, nth_error (s_nodes s) i = Some nd -> alookup p (w_procs (n_w nd)) = Some pr ->
    p_res pr = Some (RErr e) -> e = e0.
Proof. intros nw sigma s e0 H Hs i nd p pr e Hn Hl Hr. apply Hs. eapply errors_originate; eassumption. Qed.

(* non-vacuity: process 1 (worker 1) fails with error 7 while process 0 (worker 0) awaits it; the
   failure travels check_completed -> environment -> Worker::notify_result and completes 0 *)
Definition err_schedule : list sched_action :=
  [ X (XStart false);
    W 0 None (orc (Some 0) (d_act_ ASpawn)); E [];
    W 1 None (orc (Some 1) {| d_taken := []; d_sel := Some (a_sel []); d_forget := []; d_act := None; d_park := true; d_fin := None; d_heapy := false |});
    W 0 None (orc (Some 0) (d_act_ (ADeliver 1)));
    W 0 None (orc (Some 0) {| d_taken := []; d_sel := Some (a_sel [1]); d_forget := []; d_act := Some (AAwait [1]); d_park := false; d_fin := None; d_heapy := false |});
    E [];
    W 1 None (orc (Some 1) {| d_taken := [0]; d_sel := None; d_forget := []; d_act := None; d_park := false; d_fin := Some (RErr 7); d_heapy := false |});
    E [];
    W 0 None (orc None idle_did) ].

Example single_failure_applies :
  origin_errs err_schedule = [7] /\
  exists s nd0 pr0 nd1 pr1, run (init 2) err_schedule = Good s /\
    nth_error (s_nodes s) 0 = Some nd0 /\ alookup 0 (w_procs (n_w nd0)) = Some pr0 /\ p_res pr0 = Some (RErr 7) /\
    nth_error (s_nodes s) 1 = Some nd1 /\ alookup 1 (w_procs (n_w nd1)) = Some pr1 /\ p_res pr1 = Some (RErr 7).
Proof. split; [reflexivity|]. vm_compute. do 5 eexists. repeat split. Qed.
