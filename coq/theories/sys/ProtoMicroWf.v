(* ProtoMicroWf.v — the well-formedness invariant WF of ProtoWf.v is preserved by every micro-step
   (ProtoMicro.v), so it is available at the intermediate states of a Worker::step /
   Environment::step. *)
From Quiver Require Import sys.Proto sys.ProtoMsg sys.ProtoFifo sys.ProtoFail sys.ProtoWake sys.ProtoDeliver sys.ProtoWf sys.ProtoCommute sys.ProtoMicro.

Lemma WFe_set_node e ns i nd' :
  WFe e ns -> NInv e i (n_w nd') (n_cmd nd') -> WFe e (set_node i nd' ns).
Proof.
  intros (B&N) H. split; [exact B|]. intros j x Hx. destruct (Nat.eq_dec j i) as [->|Hne].
  - destruct (nth_error ns i) as [nd|] eqn:Ei.
    + rewrite (nth_set_node_same _ _ _ _ Ei) in Hx. inversion Hx; subst x. exact H.
    + unfold set_node in Hx. rewrite (update_nth_none _ _ _ Ei) in Hx. congruence.
  - rewrite nth_set_node_other in Hx by exact Hne. apply (N j x Hx).
Qed.

Theorem WF_mstep s l s' : WF s -> mstep s l s' -> WF s'.
Proof.
  intros W M.
  destruct M as [ns e clk i nd c rest w' evs Hn Hc Hh
                |ns e clk i nd o w' evs Hn Hx
                |ns e clk i nd hint w' evs Hn Hk
                |ns e clk i nd ev rest e' ns' Hn Hq He
                |ns e clk d
                |s c s' Hc]; unfold WF in *; simpl in *.
  - (* command *)
    apply WFe_set_node; [exact W|]. simpl. destruct W as (_&N). specialize (N i nd Hn).
    apply (NInv_handle_cmds e i [c] (n_w nd) rest w' (evs ++ [])); [simpl; rewrite <- Hc; exact N|].
    simpl. rewrite Hh. reflexivity.
  - (* executor step *)
    apply WFe_set_node; [exact W|]. simpl. destruct W as (_&N). specialize (N i nd Hn).
    eapply NInv_ke; [eapply ke_exec_step; exact Hx|eapply SW_exec_step; [exact Hx|apply N]|exact N].
  - (* check_completed *)
    apply WFe_set_node; [exact W|]. simpl. destruct W as (_&N). specialize (N i nd Hn).
    eapply NInv_ke; [eapply ke_check_completed; exact Hk|eapply SW_check_completed; [exact Hk|apply N]|exact N].
  - (* event *)
    eapply handle_event_WFe; [exact He|]. apply WFe_set_node; [exact W|]. simpl. destruct W as (_&N). apply (N i nd Hn).
  - exact W.
  - apply (WF_step s (X c) s' W). exact Hc.
Qed.
