(* ProtoAwaitThm.v — C04 no_lost_wakeup: the fourth clause of Inv_parked on M-Sys (sys/Proto.v), for
   every schedule and every oracle that is `await_honest`; and the refutation of the clause for
   arbitrary oracles (kernel-computed witnesses). *)
From Quiver Require Import sys.Proto sys.ProtoMsg sys.ProtoFifo sys.ProtoFail sys.ProtoWake sys.ProtoDeliver sys.ProtoWf
  sys.ProtoParked sys.ProtoCommute sys.ProtoRouted sys.ProtoMicro sys.ProtoMicroWf sys.ProtoOps sys.ProtoAwait sys.ProtoAwaitInv.

(* the answer to p's await of t is in flight: AwaitAction event | QueryAndAwait command |
   ProcessResults event with the result | result stored in p's pending_awaits entry |
   UpdateAwaitResults command with the result *)
Definition answer_in_flight (s : sys) (p t : pid) : Prop :=
  b_await (s_nodes s) p t \/ b_query (s_nodes s) p t \/ b_res (s_nodes s) p t \/ b_pend (s_env s) p t \/ b_upd (s_env s) (s_nodes s) p t.

(* every awaited entry that is still None is backed: the awaiter is registered on the target's own
   worker (and the target is in that worker's `awaited` set), or the question / answer is in flight —
   unless the awaiter has been completed by a failure *)
Theorem await_backed : forall nw sigma s,
  0 < nw -> await_honest_run (init nw) sigma -> run (init nw) sigma = Good s ->
  forall i nd p pr t, nth_error (s_nodes s) i = Some nd ->
    alookup p (w_procs (n_w nd)) = Some pr -> alookup t (p_awaiting pr) = Some None ->
    failed pr \/
    (exists j ndj, alookup t (e_router (s_env s)) = Some j /\ nth_error (s_nodes s) j = Some ndj /\
                   registered p t (n_w ndj) /\ In t (w_awaited (n_w ndj))) \/
    answer_in_flight s p t.
Proof.
  intros nw sigma s Hnw Hh H i nd p pr t Hn Hl Ht.
  destruct (await_invariant nw sigma s Hnw Hh H) as (_&(_&_&_&NI&IO)).
  destruct (IO i nd p pr t Hn Hl Ht) as [F|[B|[B|[B|[B|[B|B]]]]]]; [left; exact F|right..].
  - right. left; exact B.
  - right. right; left; exact B.
  - left. destruct B as (j&ndj&Hj&R). destruct (NI j ndj Hj) as (_&A&_).
    pose proof R as (l&Hlk&Hin). destruct (A t l Hlk) as (A1&A2). exists j, ndj. auto.
  - right. right; right; left; exact B.
  - right. right; right; right; left; exact B.
  - right. right; right; right; right; exact B.
Qed.

(* C04 no_lost_wakeup, fourth clause of Inv_parked: p parked in a select, p awaits t (entry None),
   t has a result on its worker  ->  the answer is in flight, or p has been completed by a failure *)
Theorem parked_await_answer_in_flight : forall nw sigma s,
  0 < nw -> await_honest_run (init nw) sigma -> run (init nw) sigma = Good s ->
  forall i nd p pr t j ndj r,
    nth_error (s_nodes s) i = Some nd -> mem p (w_selecting (n_w nd)) = true ->
    alookup p (w_procs (n_w nd)) = Some pr -> alookup t (p_awaiting pr) = Some None ->
    nth_error (s_nodes s) j = Some ndj -> result_of (n_w ndj) t = Some r ->
    failed pr \/ answer_in_flight s p t.
Proof.
  intros nw sigma s Hnw Hh H i nd p pr t j ndj r Hn _ Hl Ht Hj Hr.
  destruct (await_backed nw sigma s Hnw Hh H i nd p pr t Hn Hl Ht) as [F|[(j'&nd'&Hw&Hj'&R&Haw)|B]]; [left; exact F| |right; exact B].
  exfalso.
  pose proof (awaited_completion_never_unseen nw sigma s H j' nd' t Hj' Haw) as Hnone.
  destruct (scheduler_well_formed nw sigma s H j ndj Hj) as (_&Hrt).
  assert (Hh2: has t (n_w ndj)).
  { unfold has. unfold result_of in Hr. destruct (alookup t (w_procs (n_w ndj))); [discriminate|discriminate]. }
  rewrite (Hrt t Hh2) in Hw. inversion Hw; subst j'. rewrite Hj in Hj'. inversion Hj'; subst nd'. congruence.
Qed.

(* the premise as a boolean on schedules *)
Definition await_honest_stepb (s : sys) (a : sched_action) : bool :=
  match a with
  | W i k o =>
    match nth_error (s_nodes s) i with
    | Some nd =>
      match handle_cmds (fst (split_at k (n_cmd nd))) (n_w nd) with
      | Good (w1, _) => await_honestb (s_clock s) o w1
      | Fault _ => true
      end
    | None => true
    end
  | _ => true
  end.
Fixpoint await_honest_runb (s : sys) (sigma : list sched_action) : bool :=
  match sigma with
  | [] => true
  | a :: t => await_honest_stepb s a && match sys_step s a with Good s' => await_honest_runb s' t | Fault _ => true end
  end.
Lemma await_honest_runb_sound : forall sigma s, await_honest_runb s sigma = true -> await_honest_run s sigma.
Proof.
  unfold await_honest_run. induction sigma as [|a sigma IH]; intros s H; simpl in *; [exact I|].
  apply andb_true_iff in H. destruct H as (Ha&Ht). split.
  - destruct a as [i k o| | |]; simpl in *; auto.
    destruct (nth_error (s_nodes s) i) as [nd|]; [|exact I].
    destruct (handle_cmds _ _) as [[w1 e1]|]; [exact Ha|exact I].
  - destruct (sys_step s a) as [s'|]; [apply IH; exact Ht|exact I].
Qed.

(* ------------------------------------------------------------------ witnesses *)
Definition dd (taken : list nat) (sl : option sel) (forget : list pid) (a : option act) (park : bool) (fin : option res) : did :=
  {| d_taken := taken; d_sel := sl; d_forget := forget; d_act := a; d_park := park; d_fin := fin; d_heapy := false |}.

(* process 0 (worker 0) awaits [1, 2] (1 on worker 1, finished; 2 on worker 0, parked); worker 1's
   answer {1: Ok 11} is stored in pending_awaits[0] while worker 0's is outstanding; a message wakes
   0, whose slice takes it and issues Await [2] WITHOUT forgetting key 1 (no real slice does that:
   complete_select removes the process sources of the completed select); the new AwaitAction
   overwrites the pending_awaits entry and the stored answer is gone *)
Definition stale_key_schedule : list sched_action :=
  [ X (XStart false);
    W 0 None (orc (Some 0) (d_act_ ASpawn)); E [];                                   (* pid 1 -> worker 1 *)
    W 0 None (orc (Some 0) (d_act_ ASpawn)); E [];                                   (* pid 2 -> worker 0 *)
    W 1 None (orc (Some 1) (dd [] None [] None false (Some (ROk 11))));              (* 1 finishes *)
    W 0 None (orc (Some 2) (d_act_ (ADeliver 0)));                                   (* 2 sends to 0 *)
    W 0 None (orc (Some 0) (dd [] (Some (a_sel [1; 2])) [] (Some (AAwait [1; 2])) false None));
    E [];                                                                            (* message and queries on their way *)
    W 1 None (orc None idle_did);                                                    (* worker 1 answers {1: Ok 11} *)
    E [0; 1];                                                                        (* ... stored, worker 0 still expected *)
    W 0 (Some 1) (orc (Some 2) (dd [] (Some (a_sel [])) [] None true None));         (* the message wakes 0; 2 parks *)
    W 0 (Some 0) (orc (Some 0) (dd [0] (Some (a_sel [2])) [] (Some (AAwait [2])) false None));   (* key 1 NOT forgotten *)
    E [];                                                                            (* pending_awaits[0] overwritten *)
    W 0 None (orc None idle_did); E [];
    W 0 None (orc (Some 0) (dd [] (Some (a_sel [2])) [] None true None)) ].

Definition quiescent (s : sys) : Prop :=
  forall i nd, nth_error (s_nodes s) i = Some nd -> n_cmd nd = [] /\ n_evt nd = [] /\ w_queue (n_w nd) = [].

Lemma no_flight_when_empty s p t :
  (forall i nd, nth_error (s_nodes s) i = Some nd -> n_cmd nd = [] /\ n_evt nd = []) ->
  e_pending (s_env s) = [] -> ~ answer_in_flight s p t.
Proof.
  intros Hq Hp [B|[B|[B|[B|B]]]].
  - destruct B as (j&nd&ts&Hj&Hin&_). destruct (Hq j nd Hj) as (_&E). rewrite E in Hin. destruct Hin.
  - destruct B as (j&nd&ts&Hj&Hin&_). destruct (Hq j nd Hj) as (E&_). rewrite E in Hin. destruct Hin.
  - destruct B as (j&nd&rs&r&Hj&Hin&_). destruct (Hq j nd Hj) as (_&E). rewrite E in Hin. destruct Hin.
  - destruct B as (pa&j&rs&r&Hl&_). rewrite Hp in Hl. discriminate.
  - destruct B as (j&nd&rs&r&_&Hj&Hin&_). destruct (Hq j nd Hj) as (E&_). rewrite E in Hin. destruct Hin.
Qed.

(* REFUTED for arbitrary oracles: without the premise the clause is false on the model. After
   `stale_key_schedule` process 0 is parked, awaits 1 (entry None), has not failed, process 1 has
   finished with Ok 11 on worker 1 — and nothing is in flight: every queue is empty and there is no
   pending_awaits entry.  The schedule is NOT await_honest (its 13th action keeps a stale key). *)
Theorem parked_await_refuted_for_dishonest_oracle :
  exists s nd pr nd1,
    run (init 2) stale_key_schedule = Good s /\ await_honest_runb (init 2) stale_key_schedule = false /\
    nth_error (s_nodes s) 0 = Some nd /\ mem 0 (w_selecting (n_w nd)) = true /\
    alookup 0 (w_procs (n_w nd)) = Some pr /\ p_res pr = None /\ alookup 1 (p_awaiting pr) = Some None /\
    nth_error (s_nodes s) 1 = Some nd1 /\ result_of (n_w nd1) 1 = Some (ROk 11) /\
    quiescent s /\ ~ answer_in_flight s 0 1.
Proof.
  assert (E: exists s, run (init 2) stale_key_schedule = Good s) by (vm_compute; eexists; reflexivity).
  destruct E as (s&E). exists s.
  assert (Facts: exists nd pr nd1,
    nth_error (s_nodes s) 0 = Some nd /\ mem 0 (w_selecting (n_w nd)) = true /\
    alookup 0 (w_procs (n_w nd)) = Some pr /\ p_res pr = None /\ alookup 1 (p_awaiting pr) = Some None /\
    nth_error (s_nodes s) 1 = Some nd1 /\ result_of (n_w nd1) 1 = Some (ROk 11) /\
    quiescent s /\ e_pending (s_env s) = []).
  { revert E. vm_compute. intros E. inversion E; subst s; clear E. do 3 eexists.
    split; [reflexivity|]. split; [reflexivity|]. split; [reflexivity|]. split; [reflexivity|]. split; [reflexivity|].
    split; [reflexivity|]. split; [reflexivity|]. split; [|reflexivity].
    intros [|[|[|i]]] nd H; simpl in H; inversion H; subst; repeat split. }
  destruct Facts as (nd&pr&nd1&F1&F2&F3&F4&F5&F6&F7&Q&P). exists nd, pr, nd1.
  split; [exact E|]. split; [vm_compute; reflexivity|].
  split; [exact F1|]. split; [exact F2|]. split; [exact F3|]. split; [exact F4|]. split; [exact F5|]. split; [exact F6|]. split; [exact F7|].
  split; [exact Q|]. apply no_flight_when_empty; [|exact P]. intros i x H. destruct (Q i x H) as (A&B&_). split; assumption.
Qed.

(* non-vacuity of the theorem: on an honest schedule (a prefix of ProtoRouted.routed_schedule) the
   premises hold — 0 parked awaiting 1, 1 finished on worker 1 — and the answer is in flight as an
   UpdateAwaitResults command *)
Definition await_schedule : list sched_action := firstn 9 routed_schedule.
Example parked_await_applies :
  await_honest_runb (init 2) await_schedule = true /\
  exists s nd pr nd1,
    run (init 2) await_schedule = Good s /\
    nth_error (s_nodes s) 0 = Some nd /\ mem 0 (w_selecting (n_w nd)) = true /\
    alookup 0 (w_procs (n_w nd)) = Some pr /\ p_res pr = None /\ alookup 1 (p_awaiting pr) = Some None /\
    nth_error (s_nodes s) 1 = Some nd1 /\ result_of (n_w nd1) 1 = Some (ROk 5) /\
    In (CUpdate 0 [(1, Some (ROk 5))]) (n_cmd nd).
Proof.
  split; [vm_compute; reflexivity|]. vm_compute. do 4 eexists.
  split; [reflexivity|]. split; [reflexivity|]. split; [reflexivity|]. split; [reflexivity|]. split; [reflexivity|].
  split; [reflexivity|]. split; [reflexivity|]. split; [reflexivity|]. right; left; reflexivity.
Qed.

(* the other half of the premise is needed too: process 0 awaits 1, 1 fails, the failure completes 0
   in place (Worker::notify_result) — then a slice is run FOR THE FAILED PROCESS and finishes Ok
   (in the code its frames are cleared: no slice executes), the client resumes the now "sleeping"
   process and it parks again with the stale None entry: nothing in flight, 1 finished *)
Definition resurrect_schedule : list sched_action :=
  [ X (XStart false);
    W 0 None (orc (Some 0) (d_act_ ASpawn)); E [];
    W 0 None (orc (Some 0) (dd [] (Some (a_sel [1])) [] (Some (AAwait [1])) false None));
    E [];
    W 1 None (orc (Some 1) (dd [] None [] None false (Some (RErr 7))));
    E [];
    W 0 None (orc (Some 0) (dd [] None [] None false (Some (ROk 5))));           (* a slice of a failed process *)
    X (XResume 0);
    W 0 None (orc (Some 0) (dd [] (Some (a_sel [])) [] None true None)) ].

Theorem parked_await_refuted_for_resurrecting_oracle :
  exists s nd pr nd1,
    run (init 2) resurrect_schedule = Good s /\
    await_honest_runb (init 2) resurrect_schedule = false /\ await_honest_runb (init 2) (firstn 7 resurrect_schedule) = true /\
    nth_error (s_nodes s) 0 = Some nd /\ mem 0 (w_selecting (n_w nd)) = true /\
    alookup 0 (w_procs (n_w nd)) = Some pr /\ p_res pr = None /\ alookup 1 (p_awaiting pr) = Some None /\
    nth_error (s_nodes s) 1 = Some nd1 /\ result_of (n_w nd1) 1 = Some (RErr 7) /\
    quiescent s /\ ~ answer_in_flight s 0 1.
Proof.
  assert (E: exists s, run (init 2) resurrect_schedule = Good s) by (vm_compute; eexists; reflexivity).
  destruct E as (s&E). exists s.
  assert (Facts: exists nd pr nd1,
    nth_error (s_nodes s) 0 = Some nd /\ mem 0 (w_selecting (n_w nd)) = true /\
    alookup 0 (w_procs (n_w nd)) = Some pr /\ p_res pr = None /\ alookup 1 (p_awaiting pr) = Some None /\
    nth_error (s_nodes s) 1 = Some nd1 /\ result_of (n_w nd1) 1 = Some (RErr 7) /\
    quiescent s /\ e_pending (s_env s) = []).
  { revert E. vm_compute. intros E. inversion E; subst s; clear E. do 3 eexists.
    split; [reflexivity|]. split; [reflexivity|]. split; [reflexivity|]. split; [reflexivity|]. split; [reflexivity|].
    split; [reflexivity|]. split; [reflexivity|]. split; [|reflexivity].
    intros [|[|[|i]]] nd H; simpl in H; inversion H; subst; repeat split. }
  destruct Facts as (nd&pr&nd1&F1&F2&F3&F4&F5&F6&F7&Q&P). exists nd, pr, nd1.
  split; [exact E|]. split; [vm_compute; reflexivity|]. split; [vm_compute; reflexivity|].
  split; [exact F1|]. split; [exact F2|]. split; [exact F3|]. split; [exact F4|]. split; [exact F5|]. split; [exact F6|]. split; [exact F7|].
  split; [exact Q|]. apply no_flight_when_empty; [|exact P]. intros i x H. destruct (Q i x H) as (A&B&_). split; assumption.
Qed.
