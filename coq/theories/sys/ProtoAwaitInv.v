(* ProtoAwaitInv.v — C04 no_lost_wakeup, the fourth clause of Inv_parked, on M-Sys (sys/Proto.v):
   an awaited entry that is still None is BACKED — its target is registered in awaiters_for_target
   on the target's worker, or the question / the answer is in flight:
     AwaitAction event queued  |  QueryAndAwait command queued  |  registered  |
     ProcessResults event queued carrying the result  |  result stored in the pending_awaits entry  |
     UpdateAwaitResults command queued carrying the result
   — or the awaiter has been completed by a failure.  An invariant of every run whose oracle is
   `await_honest` (ProtoAwait.v), proved per micro-step (ProtoMicro.v).  Side invariants:
   QueryAndAwait commands, registrations, ProcessResults events and stored answers sit at / come from
   the worker their targets are routed to (so that the per-worker answers merge disjointly);
   the keys of `awaiting` are among the targets of the LAST AwaitAction of that process still
   queued (so that an overwritten pending_awaits entry loses nothing that is still awaited); a
   "not yet" answer in an event queue is followed by the completion report or the registration is
   still there. *)
From Quiver Require Import sys.Proto sys.ProtoMsg sys.ProtoFifo sys.ProtoFail sys.ProtoWake sys.ProtoDeliver sys.ProtoWf
  sys.ProtoCommute sys.ProtoMicro sys.ProtoMicroWf sys.ProtoOps sys.ProtoAwait.

Definition wrouted (e : env) (t : pid) (j : wid) : Prop := alookup t (e_router e) = Some j.

(* ------------------------------------------------------------------ what backs a None entry *)
Section Backed.
  Variables (e : env) (ns : list node) (p t : pid).
  Definition b_await : Prop := exists j nd ts, nth_error ns j = Some nd /\ In (EAwaitA p ts) (n_evt nd) /\ In t ts.
  Definition b_query : Prop := exists j nd ts, nth_error ns j = Some nd /\ In (CQuery p ts) (n_cmd nd) /\ In t ts.
  Definition b_reg : Prop := exists j nd, nth_error ns j = Some nd /\ registered p t (n_w nd).
  Definition b_res : Prop := exists j nd rs r, nth_error ns j = Some nd /\ In (EResults p rs) (n_evt nd) /\ alookup t rs = Some (Some r).
  Definition b_pend : Prop := exists pa j rs r, alookup p (e_pending e) = Some pa /\ wrouted e t j /\ alookup j (pa_resp pa) = Some rs /\ alookup t rs = Some (Some r).
  Definition b_upd : Prop := exists j nd rs r, wrouted e p j /\ nth_error ns j = Some nd /\ In (CUpdate p rs) (n_cmd nd) /\ In (t, Some r) rs.
  Definition backed : Prop := b_await \/ b_query \/ b_reg \/ b_res \/ b_pend \/ b_upd.
End Backed.

(* ------------------------------------------------------------------ the last AwaitAction of p in a queue *)
Fixpoint last_await (p : pid) (evs : list event) : option (list pid) :=
  match evs with
  | [] => None
  | ev :: rest =>
    match last_await p rest with
    | Some ts => Some ts
    | None => match ev with EAwaitA a ts => if a =? p then Some ts else None | _ => None end
    end
  end.
Lemma last_await_app p : forall a b, last_await p (a ++ b) = match last_await p b with Some ts => Some ts | None => last_await p a end.
Proof.
  induction a as [|ev a IH]; intros b; simpl; [destruct (last_await p b); reflexivity|].
  rewrite IH. destruct (last_await p b); reflexivity.
Qed.
Lemma last_await_in p : forall evs ts, last_await p evs = Some ts -> In (EAwaitA p ts) evs.
Proof.
  induction evs as [|ev evs IH]; intros ts H; simpl in H; [discriminate|].
  destruct (last_await p evs) as [ts'|]; [inversion H; subst; right; apply IH; reflexivity|].
  destruct ev; try discriminate. destruct (awaiter =? p) eqn:E; [|discriminate]. apply Nat.eqb_eq in E. subst. inversion H; subst. left; reflexivity.
Qed.
Lemma last_await_no_await p evs : (forall ts, ~ In (EAwaitA p ts) evs) -> last_await p evs = None.
Proof.
  intros H. destruct (last_await p evs) as [ts|] eqn:E; [|reflexivity]. exfalso. apply (H ts). apply last_await_in. exact E.
Qed.

(* ------------------------------------------------------------------ "not yet" answers in an event queue *)
Fixpoint nb_list (w : worker) (evs : list event) : Prop :=
  match evs with
  | [] => True
  | ev :: rest =>
    match ev with
    | EResults p rs => forall t, alookup t rs = Some None ->
        registered p t w \/ exists rs' r, In (EResults p rs') rest /\ alookup t rs' = Some (Some r)
    | _ => True
    end /\ nb_list w rest
  end.

Lemma nb_list_step w w' b : forall a,
  (forall p t, registered p t w -> registered p t w' \/ exists rs' r, In (EResults p rs') b /\ alookup t rs' = Some (Some r)) ->
  nb_list w a -> nb_list w' b -> nb_list w' (a ++ b).
Proof.
  induction a as [|ev a IH]; intros Hr Ha Hb; simpl; [exact Hb|].
  destruct Ha as (H1&H2). split; [|apply IH; assumption].
  destruct ev; auto. intros t Ht. destruct (H1 t Ht) as [R|(rs'&r&Hin&Hl)].
  - destruct (Hr _ _ R) as [R'|(rs'&r&Hin&Hl)]; [left; exact R'|right; exists rs', r; split; [apply in_or_app; right; exact Hin|exact Hl]].
  - right. exists rs', r. split; [apply in_or_app; left; exact Hin|exact Hl].
Qed.
Lemma nb_list_noresults w : forall b, (forall a rs, ~ In (EResults a rs) b) -> nb_list w b.
Proof.
  induction b as [|ev b IH]; intros H; simpl; [exact I|]. split; [|apply IH; intros a rs Hin; apply (H a rs); right; exact Hin].
  destruct ev; auto. exfalso. apply (H awaiter results). left; reflexivity.
Qed.

(* ------------------------------------------------------------------ the invariant *)
Definition q_ok (e : env) (j : wid) (nd : node) : Prop :=
  forall a ts, In (CQuery a ts) (n_cmd nd) -> ts <> [] /\ forall t, In t ts -> wrouted e t j.
Definition a_ok (e : env) (j : wid) (nd : node) : Prop :=
  forall t l, alookup t (w_awaiters (n_w nd)) = Some l -> wrouted e t j /\ In t (w_awaited (n_w nd)).
Definition ev_wf (e : env) (j : wid) (nd : node) : Prop :=
  forall a rs, In (EResults a rs) (n_evt nd) -> rs <> [] /\ NoDup (map fst rs) /\ forall t, In t (map fst rs) -> wrouted e t j.
Definition eh_ok (nd : node) : Prop := forall a ts, In (EAwaitA a ts) (n_evt nd) -> has a (n_w nd).
Definition j_ok (nd : node) : Prop :=
  forall p pr ts, alookup p (w_procs (n_w nd)) = Some pr -> last_await p (n_evt nd) = Some ts ->
    forall t, alookup t (p_awaiting pr) <> None -> In t ts.
Definition node_inv (e : env) (j : wid) (nd : node) : Prop :=
  q_ok e j nd /\ a_ok e j nd /\ ev_wf e j nd /\ eh_ok nd /\ j_ok nd /\ nb_list (n_w nd) (n_evt nd).

Definition resp_ok (e : env) (resp : list (wid * list (pid * option res))) : Prop :=
  NoDup (map fst resp) /\
  forall j rs, alookup j resp = Some rs -> NoDup (map fst rs) /\ forall t, In t (map fst rs) -> wrouted e t j.
Definition pr_ok (e : env) : Prop := forall p pa, alookup p (e_pending e) = Some pa -> resp_ok e (pa_resp pa).
Definition rb_ok (e : env) (ns : list node) : Prop := forall t j, wrouted e t j -> j < length ns.
Definition i_ok (e : env) (ns : list node) : Prop :=
  forall i nd p pr t, nth_error ns i = Some nd -> alookup p (w_procs (n_w nd)) = Some pr ->
    alookup t (p_awaiting pr) = Some None -> failed pr \/ backed e ns p t.

Definition AInv (s : sys) : Prop :=
  WF s /\ rb_ok (s_env s) (s_nodes s) /\ pr_ok (s_env s) /\
  (forall j nd, nth_error (s_nodes s) j = Some nd -> node_inv (s_env s) j nd) /\
  i_ok (s_env s) (s_nodes s).

(* ------------------------------------------------------------------ Worker micro-steps: one node changes *)
Lemma nth_set_cases {ns : list node} {i j nd ndj} nd' :
  nth_error ns i = Some nd -> nth_error ns j = Some ndj ->
  (j = i /\ ndj = nd /\ nth_error (set_node i nd' ns) j = Some nd') \/ (j <> i /\ nth_error (set_node i nd' ns) j = Some ndj).
Proof.
  intros Hi Hj. destruct (Nat.eq_dec j i) as [->|Hne].
  - left. rewrite Hi in Hj. inversion Hj; subst. split; [reflexivity|]. split; [reflexivity|]. apply (nth_set_node_same _ _ _ _ Hi).
  - right. split; [exact Hne|]. rewrite nth_set_node_other by exact Hne. exact Hj.
Qed.

Lemma classic_failed pr : failed pr \/ ~ failed pr.
Proof.
  unfold failed. destruct (p_res pr) as [[v|e]|]; [right; intros (e&H); discriminate|left; exists e; reflexivity|right; intros (e&H); discriminate].
Qed.

Lemma backed_wstep e ns i nd nd' popped p t :
  nth_error ns i = Some nd ->
  (forall ev, In ev (n_evt nd) -> In ev (n_evt nd')) ->
  (forall a x, registered a x (n_w nd) -> registered a x (n_w nd') \/ exists r, In (EResults a [(x, Some r)]) (n_evt nd')) ->
  (forall c, In c (n_cmd nd) -> In c (n_cmd nd') \/ Some c = popped) ->
  backed e ns p t ->
  backed e (set_node i nd' ns) p t \/
  (exists ts, popped = Some (CQuery p ts) /\ In t ts) \/
  (exists rs r, popped = Some (CUpdate p rs) /\ In (t, Some r) rs /\ wrouted e p i).
Proof.
  intros Hi T1 T2 T3 [B|[B|[B|[B|[B|B]]]]].
  - destruct B as (j&ndj&ts&Hj&Hin&Ht). left. left.
    destruct (nth_set_cases nd' Hi Hj) as [(->&->&Hn)|(_&Hn)]; [exists i, nd', ts|exists j, ndj, ts]; (split; [exact Hn|]); (split; [|exact Ht]); [apply T1; exact Hin|exact Hin].
  - destruct B as (j&ndj&ts&Hj&Hin&Ht).
    destruct (nth_set_cases nd' Hi Hj) as [(->&->&Hn)|(_&Hn)].
    + destruct (T3 _ Hin) as [Hin'|Hp]; [left; right; left; exists i, nd', ts; auto|].
      right; left. exists ts. split; [symmetry; exact Hp|exact Ht].
    + left; right; left. exists j, ndj, ts. auto.
  - destruct B as (j&ndj&Hj&R).
    destruct (nth_set_cases nd' Hi Hj) as [(->&->&Hn)|(_&Hn)].
    + destruct (T2 _ _ R) as [R'|(r&Hin)]; left.
      * right; right; left. exists i, nd'. auto.
      * right; right; right; left. exists i, nd', [(t, Some r)], r. split; [exact Hn|]. split; [exact Hin|]. simpl. rewrite Nat.eqb_refl. reflexivity.
    + left; right; right; left. exists j, ndj. auto.
  - destruct B as (j&ndj&rs&r&Hj&Hin&Hl). left; right; right; right; left.
    destruct (nth_set_cases nd' Hi Hj) as [(->&->&Hn)|(_&Hn)]; [exists i, nd', rs, r|exists j, ndj, rs, r]; (split; [exact Hn|]); (split; [|exact Hl]); [apply T1; exact Hin|exact Hin].
  - left; right; right; right; right; left. exact B.
  - destruct B as (j&ndj&rs&r&Hw&Hj&Hin&Hr).
    destruct (nth_set_cases nd' Hi Hj) as [(->&->&Hn)|(_&Hn)].
    + destruct (T3 _ Hin) as [Hin'|Hp]; [left; right; right; right; right; right; exists i, nd', rs, r; auto|].
      right; right. exists rs, r. split; [symmetry; exact Hp|]. split; [exact Hr|exact Hw].
    + left; right; right; right; right; right. exists j, ndj, rs, r. auto.
Qed.

Lemma AInv_wstep ns e clk i nd nd' popped :
  AInv (mk_sys ns e clk) -> WF (mk_sys (set_node i nd' ns) e clk) ->
  nth_error ns i = Some nd -> node_inv e i nd' ->
  (forall ev, In ev (n_evt nd) -> In ev (n_evt nd')) ->
  (forall a x, registered a x (n_w nd) -> registered a x (n_w nd') \/ exists r, In (EResults a [(x, Some r)]) (n_evt nd')) ->
  (forall c, In c (n_cmd nd) -> In c (n_cmd nd') \/ Some c = popped) ->
  (* a None entry of an unfailed process on the node was there before, or is backed now *)
  (forall q pr' t, alookup q (w_procs (n_w nd')) = Some pr' -> alookup t (p_awaiting pr') = Some None -> ~ failed pr' ->
     (exists pr, alookup q (w_procs (n_w nd)) = Some pr /\ alookup t (p_awaiting pr) = Some None /\ ~ failed pr) \/
     backed e (set_node i nd' ns) q t) ->
  (* the popped command *)
  (forall q t ts, popped = Some (CQuery q ts) -> In t ts -> backed e (set_node i nd' ns) q t) ->
  (forall q t rs r pr pr', popped = Some (CUpdate q rs) -> In (t, Some r) rs ->
     alookup q (w_procs (n_w nd)) = Some pr -> alookup t (p_awaiting pr) = Some None ->
     alookup q (w_procs (n_w nd')) = Some pr' -> alookup t (p_awaiting pr') = Some None -> failed pr') ->
  AInv (mk_sys (set_node i nd' ns) e clk).
Proof.
  intros (W&RB&PR&NI&IO) W' Hi Hnd T1 T2 T3 Hpr Hq Hu. simpl in *.
  split; [exact W'|]. simpl. split; [|split; [exact PR|split]].
  - intros t j Hw. rewrite set_node_length. apply (RB t j Hw).
  - intros j ndj Hj. destruct (Nat.eq_dec j i) as [->|Hne].
    + rewrite (nth_set_node_same _ _ _ _ Hi) in Hj. inversion Hj; subst ndj. exact Hnd.
    + rewrite nth_set_node_other in Hj by exact Hne. apply (NI j ndj Hj).
  - intros j ndj q pr' t Hj Hl Ht.
    destruct (classic_failed pr') as [F|NF]; [left; exact F|right].
    assert (Old: forall pr ndo, nth_error ns j = Some ndo -> alookup q (w_procs (n_w ndo)) = Some pr -> alookup t (p_awaiting pr) = Some None -> ~ failed pr ->
                 (j = i -> forall pr2, alookup q (w_procs (n_w nd')) = Some pr2 -> alookup t (p_awaiting pr2) = Some None -> ~ failed pr2 -> alookup q (w_procs (n_w nd)) = Some pr) ->
                 backed e (set_node i nd' ns) q t).
    { intros pr ndo Hjo Hlo Hto NFo Hsame.
      destruct (IO j ndo q pr t Hjo Hlo Hto) as [F|B]; [contradiction|].
      destruct (backed_wstep e ns i nd nd' popped q t Hi T1 T2 T3 B) as [B'|[(ts&Hp&Hin)|(rs&r&Hp&Hin&Hw)]]; [exact B'|eapply Hq; eassumption|].
      exfalso. destruct W as (_&WN). simpl in WN. destruct (WN j ndo Hjo) as (_&Hr&_).
      assert (Hh: has q (n_w ndo)) by (unfold has; rewrite Hlo; discriminate).
      apply Hr in Hh. unfold wrouted in Hw. rewrite Hh in Hw. inversion Hw; subst j.
      rewrite Hi in Hjo. inversion Hjo; subst ndo.
      rewrite (nth_set_node_same _ _ _ _ Hi) in Hj. inversion Hj; subst ndj.
      apply NF. eapply (Hu q t rs r pr pr'); eassumption. }
    destruct (Nat.eq_dec j i) as [->|Hne].
    + rewrite (nth_set_node_same _ _ _ _ Hi) in Hj. inversion Hj; subst ndj.
      destruct (Hpr q pr' t Hl Ht NF) as [(pr&Hlo&Hto&NFo)|B]; [|exact B].
      apply (Old pr nd Hi Hlo Hto NFo). intros _ pr2 _ _ _. exact Hlo.
    + rewrite nth_set_node_other in Hj by exact Hne.
      apply (Old pr' ndj Hj Hl Ht NF). intros C. contradiction.
Qed.

(* ------------------------------------------------------------------ MCmd *)
Lemma registered_same a t w w' : w_awaiters w' = w_awaiters w -> registered a t w -> registered a t w'.
Proof. intros E (l&H&I). exists l. rewrite E. auto. Qed.

Lemma AInv_cmd ns e clk i nd c rest w' evs :
  AInv (mk_sys ns e clk) -> nth_error ns i = Some nd -> n_cmd nd = c :: rest ->
  handle_cmd c (n_w nd) = Good (w', evs) ->
  AInv (mk_sys (set_node i (mk_node w' rest (n_evt nd ++ evs)) ns) e clk).
Proof.
  intros HA Hi Hc Hh.
  assert (W': WF (mk_sys (set_node i (mk_node w' rest (n_evt nd ++ evs)) ns) e clk)).
  { destruct HA as (W&_). eapply WF_mstep; [exact W|]. eapply ms_cmd; eassumption. }
  pose proof HA as (W&RB&PR&NI&IO). simpl in RB, PR, NI, IO.
  destruct (NI i nd Hi) as (Q&A&EV&EH&J&NB).
  assert (Fresh: forall p, spawns c = Some p -> ~ has p (n_w nd)).
  { intros p Hp. destruct W as (_&WN). simpl in WN. destruct (WN i nd Hi) as (_&_&_&U). apply U.
    rewrite Hc. unfold spawn_pids. simpl. rewrite Hp. left; reflexivity. }
  pose proof (handle_cmd_pstep c (n_w nd) w' evs Fresh Hh) as (PK&PS).
  (* the part that depends on the kind of command *)
  assert (Kind:
    (forall a x, registered a x (n_w nd) -> registered a x w') /\
    (forall t l, alookup t (w_awaiters w') = Some l -> wrouted e t i /\ In t (w_awaited w')) /\
    (forall a ts, ~ In (EAwaitA a ts) evs) /\
    (forall a rs, In (EResults a rs) evs -> rs <> [] /\ NoDup (map fst rs) /\ forall t, In t (map fst rs) -> wrouted e t i) /\
    nb_list w' evs /\
    (forall q t ts, c = CQuery q ts -> In t ts ->
       registered q t w' \/ exists rs r, In (EResults q rs) evs /\ alookup t rs = Some (Some r))).
  { destruct (match c with CQuery _ _ => true | _ => false end) eqn:Ek.
    - destruct c; try discriminate. simpl in Hh.
      destruct (fold_left (query_one awaiter) targets (n_w nd, [])) as [w1 rs] eqn:Ef. inversion Hh; subst w1 evs; clear Hh.
      destruct (query_fold_spec _ _ _ _ _ _ Ef) as (S1&S2&S3&S4&S5&S6&S7&S8&S9&S10&S11&S12).
      destruct (Q awaiter targets) as (Qn&Qr); [rewrite Hc; left; reflexivity|].
      split; [exact S6|]. split; [|split; [|split; [|split]]].
      + intros t l Hl. destruct (S7 t l Hl) as [(Hin&Haw)|Hl0]; [split; [apply Qr; exact Hin|exact Haw]|].
        destruct (A t l Hl0) as (A1&A2). split; [exact A1|apply S5; exact A2].
      + intros a ts [C|[]]. discriminate.
      + intros a rs0 [C|[]]. inversion C; subst a rs0. split; [apply S12; exact Qn|]. split; [apply S11; constructor|].
        intros t Ht. apply S10 in Ht. destruct Ht as [Ht|[]]. apply Qr; exact Ht.
      + simpl. split; [|exact I]. intros t Ht.
        assert (Hin: In t targets).
        { assert (Hk: In t (map fst rs)) by (apply alookup_in_keys; rewrite Ht; discriminate). apply S10 in Hk. destruct Hk as [Hk|[]]. exact Hk. }
        destruct (S8 t Hin) as [R|(r&Hr)]; [left; exact R|]. rewrite Ht in Hr. discriminate.
      + intros q t ts E Hin. inversion E; subst q ts. destruct (S8 t Hin) as [R|(r&Hr)]; [left; exact R|].
        right. exists rs, r. split; [left; reflexivity|exact Hr].
    - assert (Hn: forall a ts, c <> CQuery a ts) by (intros a ts ->; discriminate).
      destruct (handle_cmd_other _ _ _ _ Hh Hn) as (O1&O2&O3&O4).
      split; [intros a x R; eapply registered_same; [exact O2|exact R]|].
      split; [intros t l Hl; rewrite O2 in Hl; rewrite O1; apply (A t l Hl)|].
      split; [exact O4|]. split; [intros a rs Hin; exfalso; apply (O3 a rs Hin)|].
      split; [apply nb_list_noresults; exact O3|]. intros q t ts E. exfalso. apply (Hn q ts E). }
  destruct Kind as (K1&K2&K3&K4&K5&K6).
  apply (AInv_wstep ns e clk i nd _ (Some c) HA W' Hi); simpl.
  - (* node_inv *)
    split; [|split; [|split; [|split; [|split]]]]; simpl.
    + intros a ts Hin. simpl in Hin. apply (Q a ts). rewrite Hc. right; exact Hin.
    + exact K2.
    + intros a rs Hin. apply in_app_or in Hin. destruct Hin as [Hin|Hin]; [apply (EV a rs Hin)|apply (K4 a rs Hin)].
    + intros a ts Hin. apply in_app_or in Hin. destruct Hin as [Hin|Hin]; [apply PK, (EH a ts Hin)|exfalso; apply (K3 a ts Hin)].
    + intros p pr' ts Hl Hla t Ht. simpl in *.
      rewrite last_await_app, (last_await_no_await p evs) in Hla by (intros ts0 Hin; apply (K3 p ts0 Hin)).
      destruct (PS p pr' Hl) as [(pr&Hlo&(Ev&_))|(_&Hn)]; [|rewrite Hn in Ht; contradiction].
      apply (J p pr ts Hlo Hla t). destruct (alookup t (p_awaiting pr')) as [v|] eqn:Ev'; [|contradiction].
      destruct (Ev t v Ev') as (v0&H0&_). rewrite H0. discriminate.
    + apply (nb_list_step (n_w nd) w' evs); [intros p t R; left; apply K1; exact R|exact NB|exact K5].
  - intros ev Hin. apply in_or_app. left; exact Hin.
  - intros a x R. left. apply K1. exact R.
  - intros c0 Hin. rewrite Hc in Hin. destruct Hin as [->|Hin]; [right; reflexivity|left; exact Hin].
  - intros q pr' t Hl Ht NF. left.
    destruct (PS q pr' Hl) as [(pr&Hlo&(Ev&Fm))|(_&Hn)]; [|rewrite Hn in Ht; discriminate].
    exists pr. split; [exact Hlo|]. destruct (Ev t None Ht) as (v0&H0&Hv). rewrite (Hv eq_refl) in H0.
    split; [exact H0|]. intros F. apply NF, Fm, F.
  - intros q t ts E Hin. inversion E; subst c.
    destruct (K6 q t ts eq_refl Hin) as [R|(rs&r&Hev&Hr)].
    + right; right; left. exists i, (mk_node w' rest (n_evt nd ++ evs)). split; [apply (nth_set_node_same _ _ _ _ Hi)|exact R].
    + right; right; right; left. exists i, (mk_node w' rest (n_evt nd ++ evs)), rs, r. split; [apply (nth_set_node_same _ _ _ _ Hi)|].
      split; [simpl; apply in_or_app; right; exact Hev|exact Hr].
  - intros q t rs r pr pr' E Hin Hlo Hto Hl Ht. inversion E; subst c. simpl in Hh. inversion Hh; subst w' evs.
    destruct (update_await_records q rs (n_w nd) t r) as (pr2&Hl2&R2); [exists pr; split; [exact Hlo|rewrite Hto; discriminate]|exact Hin|].
    rewrite Hl in Hl2. inversion Hl2; subst pr2. destruct R2 as [F|(r'&Hr')]; [exact F|]. rewrite Ht in Hr'. discriminate.
Qed.

(* ------------------------------------------------------------------ MExec *)
Lemma exec_step_no_results i now o w w' evs : exec_step i now o w = Good (w', evs) -> forall a rs, ~ In (EResults a rs) evs.
Proof.
  intros H a rs Hin. destruct (exec_step_events _ _ _ _ _ _ H) as [->|(p&_&_&[(_&->)|[(t&m&_&->)|(ts&_&->)]])];
    [destruct Hin|destruct Hin as [C|[]]; discriminate..].
Qed.

Lemma AInv_exec ns e clk i nd o w' evs :
  AInv (mk_sys ns e clk) -> nth_error ns i = Some nd ->
  exec_step i clk o (n_w nd) = Good (w', evs) -> await_honestb clk o (n_w nd) = true ->
  AInv (mk_sys (set_node i (mk_node w' (n_cmd nd) (n_evt nd ++ evs)) ns) e clk).
Proof.
  intros HA Hi Hx Hon.
  assert (W': WF (mk_sys (set_node i (mk_node w' (n_cmd nd) (n_evt nd ++ evs)) ns) e clk)).
  { destruct HA as (W&_). eapply WF_mstep; [exact W|]. eapply ms_exec; eassumption. }
  pose proof HA as (W&RB&PR&NI&IO). simpl in RB, PR, NI, IO.
  destruct (NI i nd Hi) as (Q&A&EV&EH&J&NB).
  pose proof (bk_exec_step _ _ _ _ _ _ Hx) as Bk. unfold bk in Bk. inversion Bk as [[B1 B2 B3]]; clear Bk.
  pose proof (pk_exec_step _ _ _ _ _ _ Hx) as PK.
  pose proof (exec_step_no_results _ _ _ _ _ _ Hx) as NoR.
  assert (Reg: forall a x, registered a x (n_w nd) -> registered a x w') by (intros a x R; eapply registered_same; [exact B2|exact R]).
  pose proof (exec_step_effect _ _ _ _ _ _ Hx Hon) as Eff.
  apply (AInv_wstep ns e clk i nd _ None HA W' Hi); simpl.
  - split; [|split; [|split; [|split; [|split]]]]; simpl.
    + exact Q.
    + intros t l Hl. simpl in Hl |- *. rewrite B2 in Hl. rewrite B1. apply (A t l Hl).
    + intros a rs Hin. apply in_app_or in Hin. destruct Hin as [Hin|Hin]; [apply (EV a rs Hin)|exfalso; apply (NoR a rs Hin)].
    + intros a ts Hin. apply in_app_or in Hin. destruct Hin as [Hin|Hin]; [apply PK, (EH a ts Hin)|].
      destruct Eff as [(NoA&_)|(p0&ts0&->&Hp0&_)]; [exfalso; apply (NoA a ts Hin)|].
      destruct Hin as [C|[]]. inversion C; subst a ts. apply PK, Hp0.
    + intros p pr' ts Hl Hla t Ht. simpl in Hl, Hla. rewrite last_await_app in Hla.
      destruct Eff as [(NoA&(_&PS))|(p0&ts0&->&Hp0&Oth&Keys)].
      * rewrite (last_await_no_await p evs) in Hla by (intros ts1 Hin; apply (NoA p ts1 Hin)).
        destruct (PS p pr' Hl) as [(pr&Hlo&(Ev&_))|(_&Hn)]; [|rewrite Hn in Ht; contradiction].
        apply (J p pr ts Hlo Hla t). destruct (alookup t (p_awaiting pr')) as [v|] eqn:Ev'; [|contradiction].
        destruct (Ev t v Ev') as (v0&H0&_). rewrite H0. discriminate.
      * simpl in Hla. destruct (p0 =? p) eqn:Ep.
        -- apply Nat.eqb_eq in Ep. subst p0. inversion Hla; subst ts0. apply (Keys pr' t Hl Ht).
        -- apply Nat.eqb_neq in Ep. apply (J p pr' ts); [apply (Oth p pr'); [congruence|exact Hl]|exact Hla|exact Ht].
    + apply (nb_list_step (n_w nd) w' evs); [intros p t R; left; apply Reg; exact R|exact NB|apply nb_list_noresults; exact NoR].
  - intros ev Hin. apply in_or_app. left; exact Hin.
  - intros a x R. left. apply Reg. exact R.
  - intros c Hin. left; exact Hin.
  - intros q pr' t Hl Ht NF.
    destruct Eff as [(_&(_&PS))|(p0&ts0&->&Hp0&Oth&Keys)].
    + left. destruct (PS q pr' Hl) as [(pr&Hlo&(Ev&Fm))|(_&Hn)]; [|rewrite Hn in Ht; discriminate].
      exists pr. split; [exact Hlo|]. destruct (Ev t None Ht) as (v0&H0&Hv). rewrite (Hv eq_refl) in H0.
      split; [exact H0|]. intros F. apply NF, Fm, F.
    + destruct (Nat.eq_dec q p0) as [->|Hne].
      * right. left. exists i, (mk_node w' (n_cmd nd) (n_evt nd ++ [EAwaitA p0 ts0])), ts0.
        split; [apply (nth_set_node_same _ _ _ _ Hi)|]. split; [simpl; apply in_or_app; right; left; reflexivity|].
        apply (Keys pr' t Hl). rewrite Ht. discriminate.
      * left. exists pr'. split; [apply (Oth q pr' Hne Hl)|]. split; [exact Ht|exact NF].
  - intros q t ts E. discriminate.
  - intros q t rs r pr pr' E. discriminate.
Qed.

(* ------------------------------------------------------------------ MChk *)
Lemma nb_list_forall w : forall b,
  (forall ev, In ev b -> match ev with EResults p rs => forall t, alookup t rs <> Some None | _ => True end) -> nb_list w b.
Proof.
  induction b as [|ev b IH]; intros H; simpl; [exact I|]. split; [|apply IH; intros x Hx; apply H; right; exact Hx].
  pose proof (H ev (or_introl eq_refl)) as H0. destruct ev; auto. intros t Ht. exfalso. apply (H0 t Ht).
Qed.

Lemma AInv_chk ns e clk i nd hint w' evs :
  AInv (mk_sys ns e clk) -> nth_error ns i = Some nd ->
  check_completed hint (n_w nd) = Good (w', evs) ->
  AInv (mk_sys (set_node i (mk_node w' (n_cmd nd) (n_evt nd ++ evs)) ns) e clk).
Proof.
  intros HA Hi Hk.
  assert (W': WF (mk_sys (set_node i (mk_node w' (n_cmd nd) (n_evt nd ++ evs)) ns) e clk)).
  { destruct HA as (W&_). eapply WF_mstep; [exact W|]. eapply ms_chk; eassumption. }
  pose proof HA as (W&RB&PR&NI&IO). simpl in RB, PR, NI, IO.
  destruct (NI i nd Hi) as (Q&A&EV&EH&J&NB).
  destruct (check_completed_spec _ _ _ _ Hk) as (S1&_&_&_&S5&S6&S7&S8&S9).
  assert (NoA: forall a ts, ~ In (EAwaitA a ts) evs).
  { intros a ts Hin. destruct (S9 _ Hin) as [(a0&t&r&C&_)|(req&r&t0&C&_)]; discriminate. }
  apply (AInv_wstep ns e clk i nd _ None HA W' Hi); simpl.
  - split; [|split; [|split; [|split; [|split]]]]; simpl.
    + exact Q.
    + intros t l Hl. simpl in Hl |- *. destruct (A t l (S5 t l Hl)) as (A1&A2). split; [exact A1|]. apply S7; [rewrite Hl; discriminate|exact A2].
    + intros a rs Hin. apply in_app_or in Hin. destruct Hin as [Hin|Hin]; [apply (EV a rs Hin)|].
      destruct (S9 _ Hin) as [(a0&t&r&C&(l&Hl&_)&_)|(req&r&t0&C&_)]; [|discriminate]. inversion C; subst a rs.
      split; [discriminate|]. split; [constructor; [intros []|constructor]|].
      intros t0 [<-|[]]. apply (A t l Hl).
    + intros a ts Hin. apply in_app_or in Hin. destruct Hin as [Hin|Hin]; [|exfalso; apply (NoA a ts Hin)].
      unfold has. simpl. rewrite S1. apply (EH a ts Hin).
    + intros p pr ts Hl Hla t Ht. simpl in Hl, Hla. rewrite S1 in Hl. rewrite last_await_app, (last_await_no_await p evs) in Hla by (intros ts1 Hin; apply (NoA p ts1 Hin)).
      apply (J p pr ts Hl Hla t Ht).
    + apply (nb_list_step (n_w nd) w' evs); [|exact NB|].
      * intros p t R. destruct (S8 p t R) as [R'|(r&_&Hin)]; [left; exact R'|right].
        exists [(t, Some r)], r. split; [exact Hin|]. simpl. rewrite Nat.eqb_refl. reflexivity.
      * apply nb_list_forall. intros ev Hin. destruct (S9 _ Hin) as [(a0&t&r&->&_)|(req&r&t1&->&_)]; [|exact I].
        intros t0 C. simpl in C. destruct (t0 =? t); discriminate.
  - intros ev Hin. apply in_or_app. left; exact Hin.
  - intros a x R. destruct (S8 a x R) as [R'|(r&_&Hin)]; [left; exact R'|right]. exists r. apply in_or_app. right; exact Hin.
  - intros c Hin. left; exact Hin.
  - intros q pr' t Hl Ht NF. left. exists pr'. rewrite S1 in Hl. auto.
  - intros q t ts E. discriminate.
  - intros q t rs r pr pr' E. discriminate.
Qed.

(* ------------------------------------------------------------------ Environment micro-steps: pushes *)
(* ns' is ns with commands appended; the appended commands at node j satisfy P j *)
Definition ext (P : wid -> cmd -> Prop) (ns ns' : list node) : Prop :=
  length ns' = length ns /\
  forall j nd, nth_error ns j = Some nd ->
    exists extra, nth_error ns' j = Some (mk_node (n_w nd) (n_cmd nd ++ extra) (n_evt nd)) /\ Forall (P j) extra.

Lemma ext_refl P ns : ext P ns ns.
Proof. split; [reflexivity|]. intros j nd H. exists []. rewrite app_nil_r. split; [|constructor]. destruct nd; exact H. Qed.
Lemma ext_trans P a b c : ext P a b -> ext P b c -> ext P a c.
Proof.
  intros (L1&H1) (L2&H2). split; [congruence|]. intros j nd Hj.
  destruct (H1 j nd Hj) as (x1&N1&F1). destruct (H2 j _ N1) as (x2&N2&F2). simpl in N2.
  exists (x1 ++ x2). rewrite app_assoc. split; [exact N2|apply Forall_app; split; assumption].
Qed.
Lemma ext_push (P : wid -> cmd -> Prop) ns w c : P w c -> ext P ns (push_cmd w c ns).
Proof.
  intros Hp. split; [apply push_cmd_length|]. intros j nd Hj. rewrite nth_error_push, Hj.
  destruct (j =? w) eqn:E.
  - apply Nat.eqb_eq in E. subst j. exists [c]. split; [reflexivity|constructor; [exact Hp|constructor]].
  - exists []. rewrite app_nil_r. split; [destruct nd; reflexivity|constructor].
Qed.
Lemma ext_fold_push {A} (P : wid -> cmd -> Prop) (mk : A -> cmd) (wof : A -> wid) l :
  (forall a, In a l -> P (wof a) (mk a)) -> forall ns, ext P ns (fold_left (fun ns a => push_cmd (wof a) (mk a) ns) l ns).
Proof.
  induction l as [|a l IH]; intros Hp ns; simpl; [apply ext_refl|].
  eapply ext_trans; [apply ext_push; apply Hp; left; reflexivity|]. apply IH. intros x Hx. apply Hp. right; exact Hx.
Qed.
Lemma ext_back P ns ns' j nd' : ext P ns ns' -> nth_error ns' j = Some nd' ->
  exists nd extra, nth_error ns j = Some nd /\ nd' = mk_node (n_w nd) (n_cmd nd ++ extra) (n_evt nd) /\ Forall (P j) extra.
Proof.
  intros (L&H) Hj. destruct (nth_error ns j) as [nd|] eqn:En.
  - destruct (H j nd En) as (extra&N&F). rewrite Hj in N. inversion N; subst nd'. exists nd, extra. auto.
  - apply nth_error_None in En. rewrite <- L in En. apply nth_error_None in En. congruence.
Qed.

Lemma fold_push_in {A} (mk : A -> cmd) (wof : A -> wid) : forall l ns x, In x l -> wof x < length ns ->
  exists nd', nth_error (fold_left (fun ns a => push_cmd (wof a) (mk a) ns) l ns) (wof x) = Some nd' /\ In (mk x) (n_cmd nd').
Proof.
  induction l as [|a l IH]; intros ns x Hin Hlt; [destruct Hin|]. simpl. destruct Hin as [->|Hin].
  - destruct (nth_error ns (wof x)) as [nd|] eqn:En; [|apply nth_error_None in En; lia].
    assert (E1: nth_error (push_cmd (wof x) (mk x) ns) (wof x) = Some (mk_node (n_w nd) (n_cmd nd ++ [mk x]) (n_evt nd))).
    { rewrite nth_error_push, En, Nat.eqb_refl. reflexivity. }
    destruct (ext_fold_push (fun _ _ => True) mk wof l (fun _ _ => I) (push_cmd (wof x) (mk x) ns)) as (_&H).
    destruct (H _ _ E1) as (extra&N&_). eexists. split; [exact N|]. simpl. apply in_or_app. left. apply in_or_app. right. left; reflexivity.
  - apply IH; [exact Hin|rewrite push_cmd_length; exact Hlt].
Qed.
Lemma push_in w c ns : w < length ns -> exists nd', nth_error (push_cmd w c ns) w = Some nd' /\ In c (n_cmd nd').
Proof.
  intros Hlt. destruct (nth_error ns w) as [nd|] eqn:En; [|apply nth_error_None in En; lia].
  rewrite nth_error_push, En, Nat.eqb_refl. eexists. split; [reflexivity|]. simpl. apply in_or_app. right. left; reflexivity.
Qed.

Definition env_le (e e' : env) : Prop := forall t j, wrouted e t j -> wrouted e' t j.
Definition qP (e : env) (j : wid) (c : cmd) : Prop :=
  match c with CQuery a ts => ts <> [] /\ forall t, In t ts -> wrouted e t j | _ => True end.

Lemma node_inv_ext e e' j nd extra :
  node_inv e j nd -> env_le e e' -> Forall (qP e' j) extra ->
  node_inv e' j (mk_node (n_w nd) (n_cmd nd ++ extra) (n_evt nd)).
Proof.
  intros (Q&A&EV&EH&J&NB) Le F. split; [|split; [|split; [|split; [|split]]]]; simpl.
  - intros a ts Hin. simpl in Hin. apply in_app_or in Hin. destruct Hin as [Hin|Hin].
    + destruct (Q a ts Hin) as (Q1&Q2). split; [exact Q1|]. intros t Ht. apply Le, Q2, Ht.
    + rewrite Forall_forall in F. apply (F _ Hin).
  - intros t l Hl. simpl in Hl |- *. destruct (A t l Hl) as (A1&A2). split; [apply Le; exact A1|exact A2].
  - intros a rs Hin. simpl in Hin. destruct (EV a rs Hin) as (E1&E2&E3). split; [exact E1|]. split; [exact E2|]. intros t Ht. apply Le, E3, Ht.
  - exact EH.
  - exact J.
  - exact NB.
Qed.

(* node j of the state in the middle of an environment micro-step: the head event may be gone *)
Definition tail_of (nd ndm : node) : Prop :=
  n_w ndm = n_w nd /\ n_cmd ndm = n_cmd nd /\ (n_evt nd = n_evt ndm \/ exists ev, n_evt nd = ev :: n_evt ndm).

Lemma node_inv_tail e j nd ndm : tail_of nd ndm -> node_inv e j nd -> node_inv e j ndm.
Proof.
  intros (Ew&Ec&Ee) (Q&A&EV&EH&J&NB).
  assert (Sub: forall ev, In ev (n_evt ndm) -> In ev (n_evt nd)).
  { intros ev Hin. destruct Ee as [Ee|(ev0&Ee)]; rewrite Ee; [exact Hin|right; exact Hin]. }
  split; [|split; [|split; [|split; [|split]]]].
  - intros a ts Hin. rewrite Ec in Hin. apply (Q a ts Hin).
  - intros t l Hl. rewrite Ew in Hl |- *. apply (A t l Hl).
  - intros a rs Hin. apply (EV a rs (Sub _ Hin)).
  - intros a ts Hin. unfold has. rewrite Ew. apply (EH a ts (Sub _ Hin)).
  - intros p pr ts Hl Hla t Ht. rewrite Ew in Hl. apply (J p pr ts Hl); [|exact Ht].
    destruct Ee as [Ee|(ev0&Ee)]; rewrite Ee; [exact Hla|]. simpl. rewrite Hla. reflexivity.
  - rewrite Ew. destruct Ee as [Ee|(ev0&E0)]; [rewrite <- Ee; exact NB|]. rewrite E0 in NB. simpl in NB. apply NB.
Qed.

Definition needs (ns : list node) (q t : pid) : Prop :=
  exists j nd pr, nth_error ns j = Some nd /\ alookup q (w_procs (n_w nd)) = Some pr /\
    alookup t (p_awaiting pr) = Some None /\ ~ failed pr.

Lemma AInv_env_generic ns e clk nsm e' ns' :
  AInv (mk_sys ns e clk) -> WF (mk_sys ns' e' clk) ->
  length nsm = length ns ->
  (forall j ndm, nth_error nsm j = Some ndm -> exists nd, nth_error ns j = Some nd /\ tail_of nd ndm) ->
  ext (qP e') nsm ns' -> env_le e e' -> rb_ok e' ns' -> pr_ok e' ->
  (forall q t, needs ns q t -> backed e ns q t -> backed e' ns' q t) ->
  AInv (mk_sys ns' e' clk).
Proof.
  intros (W&RB&PR&NI&IO) W' Lm Hm Hx Le RB' PR' Hb. simpl in *.
  split; [exact W'|]. simpl. split; [exact RB'|]. split; [exact PR'|]. split.
  - intros j nd' Hj. destruct (ext_back _ _ _ _ _ Hx Hj) as (ndm&extra&Hjm&->&F).
    destruct (Hm j ndm Hjm) as (nd&Hjn&T). apply (node_inv_ext e e'); [|exact Le|exact F].
    eapply node_inv_tail; [exact T|apply (NI j nd Hjn)].
  - intros j nd' q pr t Hj Hl Ht.
    destruct (classic_failed pr) as [F|NF]; [left; exact F|right].
    destruct (ext_back _ _ _ _ _ Hx Hj) as (ndm&extra&Hjm&->&_). simpl in Hl.
    destruct (Hm j ndm Hjm) as (nd&Hjn&(Ew&_&_)). rewrite Ew in Hl.
    apply Hb; [exists j, nd, pr; auto|].
    destruct (IO j nd q pr t Hjn Hl Ht) as [F|B]; [contradiction|exact B].
Qed.

(* backed is monotone under pushes and growth of the router, as long as the pending_awaits entry
   of the awaiter is kept (the caller treats the stored-answer case when it is not) *)
Lemma backed_mono P e e' ns ns' q t :
  ext P ns ns' -> env_le e e' ->
  (b_pend e q t -> backed e' ns' q t) ->
  backed e ns q t -> backed e' ns' q t.
Proof.
  intros (_&Hx) Le Hp [B|[B|[B|[B|[B|B]]]]].
  - destruct B as (j&nd&ts&Hj&Hin&Ht). destruct (Hx j nd Hj) as (extra&N&_). left. exists j, (mk_node (n_w nd) (n_cmd nd ++ extra) (n_evt nd)), ts. split; [exact N|]. split; [exact Hin|exact Ht].
  - destruct B as (j&nd&ts&Hj&Hin&Ht). destruct (Hx j nd Hj) as (extra&N&_). right; left. exists j, (mk_node (n_w nd) (n_cmd nd ++ extra) (n_evt nd)), ts. split; [exact N|].
    split; [simpl; apply in_or_app; left; exact Hin|exact Ht].
  - destruct B as (j&nd&Hj&R). destruct (Hx j nd Hj) as (extra&N&_). right; right; left. exists j, (mk_node (n_w nd) (n_cmd nd ++ extra) (n_evt nd)). split; [exact N|exact R].
  - destruct B as (j&nd&rs&r&Hj&Hin&Hl). destruct (Hx j nd Hj) as (extra&N&_). right; right; right; left. exists j, (mk_node (n_w nd) (n_cmd nd ++ extra) (n_evt nd)), rs, r. split; [exact N|]. split; [exact Hin|exact Hl].
  - apply Hp. exact B.
  - destruct B as (j&nd&rs&r&Hw&Hj&Hin&Hr). destruct (Hx j nd Hj) as (extra&N&_). right; right; right; right; right.
    exists j, (mk_node (n_w nd) (n_cmd nd ++ extra) (n_evt nd)), rs, r. split; [apply Le; exact Hw|]. split; [exact N|]. split; [simpl; apply in_or_app; left; exact Hin|exact Hr].
Qed.

Lemma b_pend_same e e' q t : env_le e e' -> alookup q (e_pending e') = alookup q (e_pending e) -> b_pend e q t -> b_pend e' q t.
Proof. intros Le Ep (pa&j&rs&r&H1&H2&H3&H4). exists pa, j, rs, r. rewrite Ep. split; [exact H1|]. split; [apply Le; exact H2|]. auto. Qed.

(* popping the head event of node i *)
Lemma backed_pop e ns i nd ev rest q t :
  nth_error ns i = Some nd -> n_evt nd = ev :: rest ->
  backed e ns q t ->
  backed e (set_node i (mk_node (n_w nd) (n_cmd nd) rest) ns) q t \/
  (exists ts, ev = EAwaitA q ts /\ In t ts) \/ (exists rs r, ev = EResults q rs /\ alookup t rs = Some (Some r)).
Proof.
  intros Hi He [B|[B|[B|[B|[B|B]]]]].
  - destruct B as (j&ndj&ts&Hj&Hin&Ht).
    destruct (nth_set_cases (mk_node (n_w nd) (n_cmd nd) rest) Hi Hj) as [(->&->&Hn)|(_&Hn)].
    + rewrite He in Hin. destruct Hin as [->|Hin]; [right; left; exists ts; auto|]. left; left. exists i, (mk_node (n_w nd) (n_cmd nd) rest), ts. split; [exact Hn|]. split; [exact Hin|exact Ht].
    + left; left. exists j, ndj, ts. auto.
  - destruct B as (j&ndj&ts&Hj&Hin&Ht). left; right; left.
    destruct (nth_set_cases (mk_node (n_w nd) (n_cmd nd) rest) Hi Hj) as [(->&->&Hn)|(_&Hn)]; [exists i, (mk_node (n_w nd) (n_cmd nd) rest), ts|exists j, ndj, ts]; auto.
  - destruct B as (j&ndj&Hj&R). left; right; right; left.
    destruct (nth_set_cases (mk_node (n_w nd) (n_cmd nd) rest) Hi Hj) as [(->&->&Hn)|(_&Hn)]; [exists i, (mk_node (n_w nd) (n_cmd nd) rest)|exists j, ndj]; auto.
  - destruct B as (j&ndj&rs&r&Hj&Hin&Hl).
    destruct (nth_set_cases (mk_node (n_w nd) (n_cmd nd) rest) Hi Hj) as [(->&->&Hn)|(_&Hn)].
    + rewrite He in Hin. destruct Hin as [->|Hin]; [right; right; exists rs, r; auto|]. left; right; right; right; left. exists i, (mk_node (n_w nd) (n_cmd nd) rest), rs, r. split; [exact Hn|]. split; [exact Hin|exact Hl].
    + left; right; right; right; left. exists j, ndj, rs, r. auto.
  - left; right; right; right; right; left. exact B.
  - destruct B as (j&ndj&rs&r&Hw&Hj&Hin&Hr). left; right; right; right; right; right.
    destruct (nth_set_cases (mk_node (n_w nd) (n_cmd nd) rest) Hi Hj) as [(->&->&Hn)|(_&Hn)]; [exists i, (mk_node (n_w nd) (n_cmd nd) rest), rs, r|exists j, ndj, rs, r]; auto.
Qed.

Lemma pop_tail ns i nd ev rest :
  nth_error ns i = Some nd -> n_evt nd = ev :: rest ->
  length (set_node i (mk_node (n_w nd) (n_cmd nd) rest) ns) = length ns /\
  forall j ndm, nth_error (set_node i (mk_node (n_w nd) (n_cmd nd) rest) ns) j = Some ndm -> exists nd0, nth_error ns j = Some nd0 /\ tail_of nd0 ndm.
Proof.
  intros Hi He. split; [apply set_node_length|]. intros j ndm Hj. destruct (Nat.eq_dec j i) as [->|Hne].
  - rewrite (nth_set_node_same _ _ _ _ Hi) in Hj. inversion Hj; subst ndm. exists nd. split; [exact Hi|].
    split; [reflexivity|]. split; [reflexivity|]. right. exists ev. exact He.
  - rewrite nth_set_node_other in Hj by exact Hne. exists ndm. split; [exact Hj|]. split; [reflexivity|]. split; [reflexivity|]. left; reflexivity.
Qed.

(* ------------------------------------------------------------------ merging the per-worker answers *)
Lemma alookup_fold_asetf_notin {A} t : forall (rs acc : list (nat * A)), ~ In t (map fst rs) -> alookup t (fold_left asetf rs acc) = alookup t acc.
Proof.
  induction rs as [|[k v] rs IH]; intros acc Hn; simpl; [reflexivity|].
  rewrite IH by (intros Hin; apply Hn; right; exact Hin). unfold asetf; simpl.
  apply alookup_aset_neq. intros ->. apply Hn. left; reflexivity.
Qed.

Lemma merge_resp_eq resp : merge_resp resp = fold_left (fun acc x => fold_left asetf (snd x) acc) resp [].
Proof. reflexivity. Qed.

Lemma merge_skip {A} t : forall (resp : list (wid * list (nat * A))) acc,
  (forall j' rs', In (j', rs') resp -> ~ In t (map fst rs')) ->
  alookup t (fold_left (fun acc x => fold_left asetf (snd x) acc) resp acc) = alookup t acc.
Proof.
  induction resp as [|[j1 rs1] resp IH]; intros acc H; simpl; [reflexivity|].
  rewrite IH by (intros j' rs' Hin; apply (H j' rs'); right; exact Hin).
  apply alookup_fold_asetf_notin. apply (H j1 rs1). left; reflexivity.
Qed.

Lemma in_alookup_keys {A} k (a : A) l : NoDup (map fst l) -> In (k, a) l -> alookup k l = Some a.
Proof. apply in_alookup. Qed.

Lemma merge_lookup e t j : forall resp acc rs0 v,
  resp_ok e resp -> wrouted e t j -> In (j, rs0) resp -> alookup t rs0 = Some v ->
  alookup t (fold_left (fun acc x => fold_left asetf (snd x) acc) resp acc) = Some v.
Proof.
  induction resp as [|[j1 rs1] resp IH]; intros acc rs0 v (ND&RO) Hw Hin Hl; [destruct Hin|].
  simpl in ND. inversion ND as [|x y ND1 ND2]; subst.
  assert (RO': resp_ok e resp).
  { split; [exact ND2|]. intros j' rs' Hl'. apply RO. simpl. destruct (j' =? j1) eqn:E; [|exact Hl'].
    apply Nat.eqb_eq in E. subst j'. exfalso. apply ND1. apply alookup_in_keys. rewrite Hl'. discriminate. }
  simpl. destruct Hin as [Hin|Hin].
  - inversion Hin; subst j1 rs1. rewrite merge_skip.
    + destruct (RO j rs0) as (N0&_); [simpl; rewrite Nat.eqb_refl; reflexivity|]. rewrite (alookup_fold_asetf t rs0 acc N0), Hl. reflexivity.
    + intros j' rs' Hin' Hk. apply ND1.
      assert (Hl': alookup j' resp = Some rs') by (apply in_alookup; assumption).
      destruct RO' as (_&RO'). destruct (RO' j' rs' Hl') as (_&Hr). specialize (Hr t Hk).
      unfold wrouted in *. rewrite Hw in Hr. inversion Hr; subst j'. apply alookup_in_keys. rewrite Hl'. discriminate.
  - apply (IH _ rs0 v RO' Hw Hin Hl).
Qed.

Lemma ext_node P nsm ns' j ndm : ext P nsm ns' -> nth_error nsm j = Some ndm ->
  exists nd', nth_error ns' j = Some nd' /\ n_w nd' = n_w ndm /\ n_evt nd' = n_evt ndm /\ forall c, In c (n_cmd ndm) -> In c (n_cmd nd').
Proof.
  intros (_&H) Hj. destruct (H j ndm Hj) as (extra&N&_). eexists. split; [exact N|]. simpl.
  split; [reflexivity|]. split; [reflexivity|]. intros c Hc. apply in_or_app. left; exact Hc.
Qed.

Lemma env_le_refl e : env_le e e. Proof. intros t j H; exact H. Qed.
Lemma env_le_router e e' : e_router e' = e_router e -> env_le e e'.
Proof. intros E t j H. unfold wrouted in *. rewrite E. exact H. Qed.

(* ------------------------------------------------------------------ MEvt: ProcessResults *)
Lemma AInv_results ns e clk i nd a rs rest e' ns' :
  AInv (mk_sys ns e clk) -> nth_error ns i = Some nd -> n_evt nd = EResults a rs :: rest ->
  handle_event (length ns) (EResults a rs) (e, set_node i (mk_node (n_w nd) (n_cmd nd) rest) ns) = Good (e', ns') ->
  WF (mk_sys ns' e' clk) -> AInv (mk_sys ns' e' clk).
Proof.
  intros HA Hi He H W'.
  pose proof HA as (W&RB&PR&NI&IO). simpl in RB, PR, NI, IO.
  destruct (NI i nd Hi) as (Q&A&EV&EH&J&NB).
  destruct (EV a rs) as (Rn&Rd&Rr); [rewrite He; left; reflexivity|].
  rewrite He in NB. simpl in NB. destruct NB as (NBh&_).
  set (nsm := set_node i (mk_node (n_w nd) (n_cmd nd) rest) ns) in *.
  destruct (pop_tail ns i nd _ rest Hi He) as (Lm&Hm). fold nsm in Lm, Hm.
  assert (Him: nth_error nsm i = Some (mk_node (n_w nd) (n_cmd nd) rest)) by apply (nth_set_node_same _ _ _ _ Hi).
  (* the sender is worker i *)
  assert (Hs: match rs with [] => None | (t, _) :: _ => alookup t (e_router e) end = Some i).
  { destruct rs as [|[t0 v0] rs1]; [contradiction|]. apply Rr. left; reflexivity. }
  (* what the non-popped, non-stored backings become under an extension that keeps the environment's router *)
  assert (Other: forall P e2 ns2 q t, ext P nsm ns2 -> env_le e e2 ->
            (q <> a -> alookup q (e_pending e2) = alookup q (e_pending e)) ->
            (forall r, alookup t rs = Some (Some r) -> backed e2 ns2 a t) ->
            (b_pend e a t -> backed e2 ns2 a t) ->
            backed e ns q t -> backed e2 ns2 q t).
  { intros P e2 ns2 q t Hx Le Hpe Hpop Hst B.
    destruct (backed_pop e ns i nd _ rest q t Hi He B) as [Bm|[(ts&C&_)|(rs0&r&C&Hr)]]; [|discriminate|].
    - apply (backed_mono P e e2 nsm ns2 q t Hx Le); [|exact Bm]. intros Bp.
      destruct (Nat.eq_dec q a) as [->|Hne]; [apply Hst; exact Bp|].
      right; right; right; right; left. apply (b_pend_same e e2 q t Le (Hpe Hne) Bp).
    - inversion C; subst q rs0. apply (Hpop r Hr). }
  (* a "not yet" answer at the head of the queue *)
  assert (Renew: forall P e2 ns2 t, ext P nsm ns2 -> alookup t rs = Some None -> backed e2 ns2 a t).
  { intros P e2 ns2 t Hx Hn. destruct (ext_node _ _ _ _ _ Hx Him) as (nd2&N2&Ew2&Ee2&_). simpl in Ew2, Ee2.
    destruct (NBh t Hn) as [R|(rs'&r&Hin&Hl)].
    - right; right; left. exists i, nd2. split; [exact N2|rewrite Ew2; exact R].
    - right; right; right; left. exists i, nd2, rs', r. split; [exact N2|]. split; [rewrite Ee2; exact Hin|exact Hl]. }
  unfold handle_event in H. rewrite Hs in H.
  destruct (alookup a (e_pending e)) as [pa|] eqn:Epa.
  - (* a pending_awaits entry *)
    destruct (PR a pa Epa) as (PaN&PaR).
    set (old := match alookup i (pa_resp pa) with Some l => l | None => [] end) in *.
    set (rsi := fold_left (fun a0 x => aset (fst x) (snd x) a0) rs old) in *.
    set (resp' := aset i rsi (pa_resp pa)) in *.
    assert (OldOk: NoDup (map fst old) /\ forall t, In t (map fst old) -> wrouted e t i).
    { unfold old. destruct (alookup i (pa_resp pa)) as [l|] eqn:El; [apply (PaR i l El)|split; [constructor|intros t []]]. }
    assert (F3: forall t, alookup t rsi = match alookup t rs with Some v => Some v | None => alookup t old end).
    { intros t. apply (alookup_fold_asetf t rs old Rd). }
    assert (RespOk: resp_ok e resp').
    { split; [apply NoDup_keys_aset; exact PaN|]. intros j rsj Hl. unfold resp' in Hl. rewrite alookup_aset in Hl.
      destruct (j =? i) eqn:E; [|apply (PaR j rsj Hl)]. apply Nat.eqb_eq in E. subst j. inversion Hl; subst rsj.
      split; [apply (NoDup_fold_asetf rs old); apply OldOk|]. intros t Ht. apply keys_fold_asetf in Ht. destruct Ht as [Ht|Ht]; [apply Rr; exact Ht|apply OldOk; exact Ht]. }
    (* what is stored after the merge *)
    assert (Stored: forall t, (exists r, alookup t rs = Some (Some r)) \/ b_pend e a t ->
              (exists j rsj r, wrouted e t j /\ alookup j resp' = Some rsj /\ alookup t rsj = Some (Some r)) \/ alookup t rs = Some None).
    { intros t [(r&Hr)|(pa0&j&rs0&r&Hp0&Hw&Hl0&Hr0)].
      - left. exists i, rsi, r. split; [apply Rr; apply alookup_in_keys; rewrite Hr; discriminate|]. split; [apply alookup_aset_eq|]. rewrite F3, Hr. reflexivity.
      - rewrite Epa in Hp0. inversion Hp0; subst pa0. destruct (Nat.eq_dec j i) as [->|Hne].
        + assert (Eo: old = rs0) by (unfold old; rewrite Hl0; reflexivity).
          destruct (alookup t rs) as [[r'|]|] eqn:Er; [left|right; reflexivity|left].
          * exists i, rsi, r'. split; [exact Hw|]. split; [apply alookup_aset_eq|]. rewrite F3, Er. reflexivity.
          * exists i, rsi, r. split; [exact Hw|]. split; [apply alookup_aset_eq|]. rewrite F3, Er, Eo. exact Hr0.
        + left. exists j, rs0, r. split; [exact Hw|]. split; [|exact Hr0]. unfold resp'. rewrite alookup_aset_neq by exact Hne. exact Hl0. }
    destruct (sremove i (pa_expected pa)) as [|x xs] eqn:Ex.
    + (* the last answer: UpdateAwaitResults *)
      destruct (alookup a (e_router e)) as [aw|] eqn:Eaw; [|discriminate]. inversion H; subst e' ns'; clear H.
      set (e2 := {| e_router := e_router e; e_next := e_next e; e_pending := aremove a (e_pending e) |}) in *.
      assert (Hx: ext (qP e2) nsm
                      (push_cmd aw (CUpdate a (merge_resp resp')) nsm)) by (apply ext_push; exact I).
      assert (Law: aw < length nsm) by (rewrite Lm; apply (RB a aw Eaw)).
      apply (AInv_env_generic ns e clk nsm _ _ HA W' Lm Hm Hx).
      * apply env_le_router; reflexivity.
      * intros t j Hw. rewrite push_cmd_length, Lm. apply (RB t j Hw).
      * intros p pa0 Hp. unfold e2 in Hp. simpl in Hp. rewrite alookup_aremove in Hp. destruct (p =? a); [discriminate|]. apply (PR p pa0 Hp).
      * intros q t _ B.
        assert (Upd: forall r, (exists j rsj, wrouted e t j /\ alookup j resp' = Some rsj /\ alookup t rsj = Some (Some r)) ->
                  backed e2 (push_cmd aw (CUpdate a (merge_resp resp')) nsm) a t).
        { intros r (j&rsj&Hw&Hlj&Hrj). right; right; right; right; right.
          destruct (push_in aw (CUpdate a (merge_resp resp')) nsm Law) as (nd2&N2&Hc2).
          exists aw, nd2, (merge_resp resp'), r. split; [exact Eaw|]. split; [exact N2|]. split; [exact Hc2|].
          apply alookup_in. rewrite merge_resp_eq. apply (merge_lookup e t j resp' [] rsj (Some r) RespOk Hw); [|exact Hrj].
          apply alookup_in. exact Hlj. }
        apply (Other _ e2 _ q t Hx (env_le_router e e2 eq_refl)); [| | |exact B].
        -- intros Hne. unfold e2. simpl. rewrite alookup_aremove. destruct (q =? a) eqn:E; [apply Nat.eqb_eq in E; contradiction|reflexivity].
        -- intros r Hr. destruct (Stored t (or_introl (ex_intro _ r Hr))) as [(j&rsj&r'&S)|C]; [apply (Upd r'); eauto|rewrite Hr in C; discriminate].
        -- intros Bp. destruct (Stored t (or_intror Bp)) as [(j&rsj&r'&S)|C]; [apply (Upd r'); eauto|apply (Renew _ _ _ t Hx C)].
    + (* more answers expected: the entry is updated *)
      inversion H; subst e' ns'; clear H.
      set (e2 := {| e_router := e_router e; e_next := e_next e;
                    e_pending := aset a {| pa_expected := x :: xs; pa_resp := resp' |} (e_pending e) |}) in *.
      assert (Hx: ext (qP e2) nsm nsm) by apply ext_refl.
      apply (AInv_env_generic ns e clk nsm _ _ HA W' Lm Hm Hx).
      * apply env_le_router; reflexivity.
      * intros t j Hw. rewrite Lm. apply (RB t j Hw).
      * intros p pa0 Hp. unfold e2 in Hp. simpl in Hp. rewrite alookup_aset in Hp. destruct (p =? a); [inversion Hp; subst pa0; exact RespOk|apply (PR p pa0 Hp)].
      * intros q t _ B.
        assert (Keep: forall r, (exists j rsj, wrouted e t j /\ alookup j resp' = Some rsj /\ alookup t rsj = Some (Some r)) -> backed e2 nsm a t).
        { intros r (j&rsj&Hw&Hlj&Hrj). right; right; right; right; left.
          exists {| pa_expected := x :: xs; pa_resp := resp' |}, j, rsj, r. split; [unfold e2; simpl; apply alookup_aset_eq|]. auto. }
        apply (Other _ e2 _ q t Hx (env_le_router e e2 eq_refl)); [| | |exact B].
        -- intros Hne. unfold e2. simpl. apply alookup_aset_neq. exact Hne.
        -- intros r Hr. destruct (Stored t (or_introl (ex_intro _ r Hr))) as [(j&rsj&r'&S)|C]; [apply (Keep r'); eauto|rewrite Hr in C; discriminate].
        -- intros Bp. destruct (Stored t (or_intror Bp)) as [(j&rsj&r'&S)|C]; [apply (Keep r'); eauto|apply (Renew _ _ _ t Hx C)].
  - (* no entry: forwarded as it is *)
    destruct (alookup a (e_router e)) as [aw|] eqn:Eaw; [|discriminate]. inversion H; subst e' ns'; clear H.
    assert (Hx: ext (qP e) nsm (push_cmd aw (CUpdate a rs) nsm)) by (apply ext_push; exact I).
    assert (Law: aw < length nsm) by (rewrite Lm; apply (RB a aw Eaw)).
    apply (AInv_env_generic ns e clk nsm _ _ HA W' Lm Hm Hx).
    + apply env_le_router; reflexivity.
    + intros t j Hw. rewrite push_cmd_length, Lm. apply (RB t j Hw).
    + exact PR.
    + intros q t _ B. apply (Other _ e _ q t Hx (env_le_refl e)); [reflexivity| | |exact B].
      * intros r Hr. right; right; right; right; right.
        destruct (push_in aw (CUpdate a rs) nsm Law) as (nd2&N2&Hc2).
        exists aw, nd2, rs, r. split; [exact Eaw|]. split; [exact N2|]. split; [exact Hc2|apply alookup_in; exact Hr].
      * intros (pa0&j&rs0&r&Hp0&_). rewrite Epa in Hp0. discriminate.
Qed.

(* ------------------------------------------------------------------ MEvt: AwaitAction *)
Lemma AInv_await ns e clk i nd a ts rest e' ns' :
  AInv (mk_sys ns e clk) -> nth_error ns i = Some nd -> n_evt nd = EAwaitA a ts :: rest ->
  handle_event (length ns) (EAwaitA a ts) (e, set_node i (mk_node (n_w nd) (n_cmd nd) rest) ns) = Good (e', ns') ->
  WF (mk_sys ns' e' clk) -> AInv (mk_sys ns' e' clk).
Proof.
  intros HA Hi He H W'.
  pose proof HA as (W&RB&PR&NI&IO). simpl in RB, PR, NI, IO.
  destruct (NI i nd Hi) as (Q&A&EV&EH&J&NB).
  set (nsm := set_node i (mk_node (n_w nd) (n_cmd nd) rest) ns) in *.
  destruct (pop_tail ns i nd _ rest Hi He) as (Lm&Hm). fold nsm in Lm, Hm.
  assert (Him: nth_error nsm i = Some (mk_node (n_w nd) (n_cmd nd) rest)) by apply (nth_set_node_same _ _ _ _ Hi).
  unfold handle_event in H. cbn -[nodup] in H.
  destruct (forallb (fun t => match alookup t (e_router e) with Some _ => true | None => false end) ts) eqn:Ef; [|discriminate].
  inversion H; subst e' ns'; clear H.
  set (wof := fun t => match alookup t (e_router e) with Some w => w | None => 0 end) in *.
  set (ws := nodup Nat.eq_dec (map wof ts)) in *.
  set (e2 := {| e_router := e_router e; e_next := e_next e; e_pending := aset a {| pa_expected := ws; pa_resp := [] |} (e_pending e) |}) in *.
  set (mkq := fun w => CQuery a (filter (fun t => wof t =? w) ts)) in *.
  assert (Rt: forall t, In t ts -> wrouted e t (wof t)).
  { intros t Ht. rewrite forallb_forall in Ef. specialize (Ef t Ht). unfold wrouted, wof. destruct (alookup t (e_router e)); [reflexivity|discriminate]. }
  assert (Hx: ext (qP e2) nsm (fold_left (fun ns0 w => push_cmd w (mkq w) ns0) ws nsm)).
  { apply (ext_fold_push (qP e2) mkq (fun w => w)). intros w Hw. unfold mkq. simpl.
    apply nodup_In, in_map_iff in Hw. destruct Hw as (t&Et&Ht). split.
    - intros C. assert (Hin: In t (filter (fun t0 => wof t0 =? w) ts)) by (apply filter_In; split; [exact Ht|apply Nat.eqb_eq; exact Et]).
      rewrite C in Hin. destruct Hin.
    - intros t0 Ht0. apply filter_In in Ht0. destruct Ht0 as (Ht0&E0). apply Nat.eqb_eq in E0. subst w. rewrite <- E0. apply (Rt t0 Ht0). }
  apply (AInv_env_generic ns e clk nsm _ _ HA W' Lm Hm Hx).
  - apply env_le_router; reflexivity.
  - intros t j Hw. apply (Nat.lt_le_trans _ (length ns)); [apply (RB t j Hw)|]. rewrite <- Lm. destruct Hx as (Lx&_).
    apply Nat.eq_le_incl. symmetry. exact Lx.
  - intros p pa0 Hp. unfold e2 in Hp. simpl in Hp. rewrite alookup_aset in Hp. destruct (p =? a); [|apply (PR p pa0 Hp)].
    inversion Hp; subst pa0. simpl. split; [constructor|]. intros j rs C. discriminate.
  - intros q t (j&ndj&pr&Hj&Hl&Ht&NF) B.
    destruct (Nat.eq_dec q a) as [->|Hne].
    + (* the awaiter itself: every key is among the targets of its last queued AwaitAction *)
      assert (Hha: has a (n_w nd)) by (apply (EH a ts); rewrite He; left; reflexivity).
      assert (Eji: j = i).
      { destruct W as (_&WN). simpl in WN. destruct (WN i nd Hi) as (_&Hr1&_). destruct (WN j ndj Hj) as (_&Hr2&_).
        assert (Hh2: has a (n_w ndj)) by (unfold has; rewrite Hl; discriminate).
        specialize (Hr2 a Hh2). rewrite (Hr1 a Hha) in Hr2. inversion Hr2. reflexivity. }
      subst j. rewrite Hi in Hj. inversion Hj; subst ndj.
      assert (Hk: alookup t (p_awaiting pr) <> None) by (rewrite Ht; discriminate).
      destruct (last_await a rest) as [ts'|] eqn:El.
      * assert (Hla: last_await a (n_evt nd) = Some ts') by (rewrite He; simpl; rewrite El; reflexivity).
        pose proof (J a pr ts' Hl Hla t Hk) as Hin.
        destruct (ext_node _ _ _ _ _ Hx Him) as (nd2&N2&_&Ee2&_). simpl in Ee2.
        left. exists i, nd2, ts'. split; [exact N2|]. split; [rewrite Ee2; apply last_await_in; exact El|exact Hin].
      * assert (Hla: last_await a (n_evt nd) = Some ts) by (rewrite He; simpl; rewrite El, Nat.eqb_refl; reflexivity).
        pose proof (J a pr ts Hl Hla t Hk) as Hin.
        assert (Hw: In (wof t) ws) by (apply nodup_In, in_map; exact Hin).
        assert (Lw: wof t < length nsm) by (rewrite Lm; apply (RB t (wof t)); apply Rt; exact Hin).
        destruct (fold_push_in mkq (fun w => w) ws nsm (wof t) Hw Lw) as (nd2&N2&Hc2).
        right; left. exists (wof t), nd2, (filter (fun t0 => wof t0 =? wof t) ts). split; [exact N2|]. split; [exact Hc2|].
        apply filter_In. split; [exact Hin|apply Nat.eqb_refl].
    + destruct (backed_pop e ns i nd _ rest q t Hi He B) as [Bm|[(ts0&C&_)|(rs0&r&C&_)]]; [|inversion C; subst; contradiction|discriminate].
      apply (backed_mono _ e e2 nsm _ q t Hx (env_le_router e e2 eq_refl)); [|exact Bm].
      intros Bp. right; right; right; right; left. apply (b_pend_same e e2 q t (env_le_router e e2 eq_refl)); [|exact Bp].
      unfold e2. simpl. apply alookup_aset_neq. exact Hne.
Qed.

(* ------------------------------------------------------------------ steps that keep pending_awaits *)
Lemma resp_ok_mono e e' resp : env_le e e' -> resp_ok e resp -> resp_ok e' resp.
Proof.
  intros Le (N&R). split; [exact N|]. intros j rs Hl. destruct (R j rs Hl) as (R1&R2). split; [exact R1|]. intros t Ht. apply Le, R2, Ht.
Qed.

Lemma AInv_simple ns e clk nsm e' ns' :
  AInv (mk_sys ns e clk) -> WF (mk_sys ns' e' clk) ->
  length nsm = length ns ->
  (forall j ndm, nth_error nsm j = Some ndm -> exists nd, nth_error ns j = Some nd /\ tail_of nd ndm) ->
  ext (qP e') nsm ns' -> env_le e e' -> e_pending e' = e_pending e -> rb_ok e' ns' ->
  (forall q t, backed e ns q t -> backed e nsm q t) ->
  AInv (mk_sys ns' e' clk).
Proof.
  intros HA W' Lm Hm Hx Le Ep RB' Hpop.
  pose proof HA as (W&RB&PR&NI&IO). simpl in RB, PR, NI, IO.
  apply (AInv_env_generic ns e clk nsm _ _ HA W' Lm Hm Hx Le RB').
  - intros p pa Hp. rewrite Ep in Hp. eapply resp_ok_mono; [exact Le|apply (PR p pa Hp)].
  - intros q t _ B. apply (backed_mono _ e e' nsm ns' q t Hx Le); [|apply Hpop; exact B].
    intros Bp. right; right; right; right; left. apply (b_pend_same e e' q t Le); [rewrite Ep; reflexivity|exact Bp].
Qed.

Lemma env_le_alloc e w : (forall p x, alookup p (e_router e) = Some x -> p < e_next e) ->
  env_le e {| e_router := aset (e_next e) w (e_router e); e_next := S (e_next e); e_pending := e_pending e |}.
Proof.
  intros B t j H. unfold wrouted in *. simpl. rewrite alookup_aset. destruct (t =? e_next e) eqn:E; [|exact H].
  apply Nat.eqb_eq in E. subst t. apply B in H. lia.
Qed.
Lemma rb_alloc e ns ns' : 0 < length ns -> length ns' = length ns -> rb_ok e ns ->
  rb_ok {| e_router := aset (e_next e) (e_next e mod length ns) (e_router e); e_next := S (e_next e); e_pending := e_pending e |} ns'.
Proof.
  intros Lp L RB t j H. unfold wrouted in H. simpl in H. rewrite alookup_aset in H. rewrite L.
  destruct (t =? e_next e); [inversion H; subst j; apply Nat.mod_upper_bound; lia|apply (RB t j H)].
Qed.

Lemma tail_same ns : forall j ndm, nth_error ns j = Some ndm -> exists nd, nth_error ns j = Some nd /\ tail_of nd ndm.
Proof. intros j ndm H. exists ndm. split; [exact H|]. split; [reflexivity|]. split; [reflexivity|left; reflexivity]. Qed.

(* ------------------------------------------------------------------ MEvt, all events *)
Lemma AInv_evt ns e clk i nd ev rest e' ns' :
  AInv (mk_sys ns e clk) -> nth_error ns i = Some nd -> n_evt nd = ev :: rest ->
  handle_event (length ns) ev (e, set_node i (mk_node (n_w nd) (n_cmd nd) rest) ns) = Good (e', ns') ->
  AInv (mk_sys ns' e' clk).
Proof.
  intros HA Hi He H.
  assert (W': WF (mk_sys ns' e' clk)).
  { destruct HA as (W&_). eapply WF_mstep; [exact W|]. eapply ms_evt; eassumption. }
  pose proof HA as (W&RB&PR&NI&IO). simpl in RB, PR, NI, IO.
  set (nsm := set_node i (mk_node (n_w nd) (n_cmd nd) rest) ns) in *.
  destruct (pop_tail ns i nd ev rest Hi He) as (Lm&Hm). fold nsm in Lm, Hm.
  assert (Lp: 0 < length ns).
  { assert (Hlt: i < length ns) by (apply nth_error_Some; rewrite Hi; discriminate). lia. }
  assert (Pop: (forall a ts, ev <> EAwaitA a ts) -> (forall a rs, ev <> EResults a rs) -> forall q t, backed e ns q t -> backed e nsm q t).
  { intros N1 N2 q t B. destruct (backed_pop e ns i nd ev rest q t Hi He B) as [Bm|[(ts0&C&_)|(rs0&r&C&_)]]; [exact Bm|exfalso; apply (N1 _ _ C)|exfalso; apply (N2 _ _ C)]. }
  destruct ev.
  - (* SpawnAction *)
    unfold handle_event in H. cbn -[Nat.modulo] in H.
    revert H. match goal with |- context [@alookup ?A caller ?l] => destruct (@alookup A caller l) as [cw|] end; intros H; [|discriminate].
    inversion H; subst e' ns'; clear H.
    eapply (AInv_simple ns e clk nsm); [exact HA|exact W'|exact Lm|exact Hm| | |reflexivity| |apply Pop; intros; discriminate].
    + apply (ext_trans _ _ (push_cmd (e_next e mod length ns) (CSpawn (e_next e)) nsm)); apply ext_push; exact I.
    + apply env_le_alloc. destruct W as (B&_). exact B.
    + apply (rb_alloc e ns); [exact Lp|rewrite !push_cmd_length; exact Lm|exact RB].
  - (* DeliverAction *)
    unfold handle_event in H. destruct (alookup target (e_router e)) as [w|]; [|discriminate]. inversion H; subst e' ns'; clear H.
    eapply (AInv_simple ns e clk nsm); [exact HA|exact W'|exact Lm|exact Hm| | |reflexivity| |apply Pop; intros; discriminate].
    + apply ext_push; exact I.
    + apply env_le_refl.
    + intros t j Hw. rewrite push_cmd_length, Lm. apply (RB t j Hw).
  - eapply AInv_await; eassumption.
  - eapply AInv_results; eassumption.
  - unfold handle_event in H. inversion H; subst e' ns'; clear H.
    eapply (AInv_simple ns e clk nsm); [exact HA|exact W'|exact Lm|exact Hm|apply ext_refl|apply env_le_refl|reflexivity| |apply Pop; intros; discriminate].
    intros t j Hw. rewrite Lm. apply (RB t j Hw).
  - unfold handle_event in H. inversion H; subst e' ns'; clear H.
    eapply (AInv_simple ns e clk nsm); [exact HA|exact W'|exact Lm|exact Hm|apply ext_refl|apply env_le_refl|reflexivity| |apply Pop; intros; discriminate].
    intros t j Hw. rewrite Lm. apply (RB t j Hw).
Qed.

(* ------------------------------------------------------------------ client calls, time; all micro-steps *)
Lemma AInv_client s c s' : 0 < length (s_nodes s) -> AInv s -> client_step c s = Good s' -> AInv s'.
Proof.
  intros Lp HA H. destruct s as [ns e clk]. simpl in Lp.
  assert (W': WF s') by (destruct HA as (W&_); apply (WF_step _ (X c) s' W); exact H).
  pose proof HA as (W&RB&PR&NI&IO). simpl in RB, PR, NI, IO.
  unfold client_step in H. simpl in H.
  assert (Push: forall w c0, (forall a ts, c0 <> CQuery a ts) -> WF (mk_sys (push_cmd w c0 ns) e clk) -> AInv (mk_sys (push_cmd w c0 ns) e clk)).
  { intros w c0 Hc Wp.
    eapply (AInv_simple ns e clk ns); [exact HA|exact Wp|reflexivity|apply tail_same| |apply env_le_refl|reflexivity| |auto].
    - apply ext_push. destruct c0; try exact I. exfalso. apply (Hc awaiter targets). reflexivity.
    - intros t j Hw. rewrite push_cmd_length. apply (RB t j Hw). }
  destruct c.
  - inversion H; subst s'; clear H.
    eapply (AInv_simple ns e clk ns); [exact HA|exact W'|reflexivity|apply tail_same| | |reflexivity| |auto].
    + apply ext_push. exact I.
    + apply env_le_alloc. destruct W as (B&_). exact B.
    + apply (rb_alloc e ns); [exact Lp|apply push_cmd_length|exact RB].
  - inversion H; subst s'. apply Push; [intros; discriminate|exact W'].
  - inversion H; subst s'. apply Push; [intros; discriminate|exact W'].
  - destruct (alookup p (e_router e)) as [w|]; inversion H; subst s'; [|exact HA]. apply Push; [intros; discriminate|exact W'].
  - destruct (alookup p (e_router e)) as [w|]; inversion H; subst s'; [|exact HA]. apply Push; [intros; discriminate|exact W'].
Qed.

Lemma mstep_length s l s' : mstep s l s' -> length (s_nodes s') = length (s_nodes s).
Proof.
  intros M.
  destruct M as [ns e clk i nd c rest w' evs Hn Hc Hh
                |ns e clk i nd o w' evs Hn Hx
                |ns e clk i nd hint w' evs Hn Hk
                |ns e clk i nd ev rest e' ns' Hn Hq He
                |ns e clk d
                |s c s' Hc]; simpl; try apply set_node_length; try reflexivity.
  - apply handle_event_nw in He. rewrite <- (map_length n_w ns'), He, map_length. apply set_node_length.
  - unfold client_step in Hc. destruct c; try (inversion Hc; subst; simpl; apply push_cmd_length).
    + destruct (alookup p (e_router (s_env s))); inversion Hc; subst; simpl; [apply push_cmd_length|reflexivity].
    + destruct (alookup p (e_router (s_env s))); inversion Hc; subst; simpl; [apply push_cmd_length|reflexivity].
Qed.

Definition AI (s : sys) : Prop := 0 < length (s_nodes s) /\ AInv s.

Theorem AI_mstep s l s' : AI s -> mstep s l s' -> hon_label await_honest s l -> AI s'.
Proof.
  intros (Lp&HA) M Hon. split; [rewrite (mstep_length _ _ _ M); exact Lp|].
  destruct M as [ns e clk i nd c rest w' evs Hn Hc Hh
                |ns e clk i nd o w' evs Hn Hx
                |ns e clk i nd hint w' evs Hn Hk
                |ns e clk i nd ev rest e' ns' Hn Hq He
                |ns e clk d
                |s c s' Hc].
  - eapply AInv_cmd; eassumption.
  - eapply AInv_exec; [exact HA|exact Hn|exact Hx|]. apply (Hon nd Hn).
  - eapply AInv_chk; eassumption.
  - eapply AInv_evt; eassumption.
  - exact HA.
  - eapply AInv_client; eassumption.
Qed.

Lemma AI_init nw : 0 < nw -> AI (init nw).
Proof.
  intros Hnw. split; [simpl; rewrite repeat_length; exact Hnw|].
  split; [apply WF_init|]. simpl. split; [intros t j H; discriminate|]. split; [intros p pa H; discriminate|]. split.
  - intros j nd Hn. apply nth_error_In, repeat_spec in Hn. subst nd.
    split; [intros a ts []|]. split; [intros t l H; discriminate|]. split; [intros a rs []|]. split; [intros a ts []|].
    split; [intros p pr ts H; discriminate|exact I].
  - intros i nd p pr t Hn Hl. apply nth_error_In, repeat_spec in Hn. subst nd. discriminate.
Qed.

(* the premise on schedules *)
Definition await_honest_run (s : sys) (sigma : list sched_action) : Prop := hon_run await_honest s sigma.

Theorem await_invariant : forall nw sigma s,
  0 < nw -> await_honest_run (init nw) sigma -> run (init nw) sigma = Good s -> AI s.
Proof.
  intros nw sigma s Hnw Hh H. eapply (micro_invariant AI await_honest AI_mstep); [apply AI_init; exact Hnw|exact Hh|exact H].
Qed.
