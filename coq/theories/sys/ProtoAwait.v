(* ProtoAwait.v — worker-level lemmas for the await handshake of M-Sys (sys/Proto.v), used by
   ProtoAwaitInv.v (C04, fourth clause of Inv_parked):
     - how every worker operation changes the `awaiting` maps and results of the processes
       (`pstep`: keys only disappear, a None entry only comes from a None entry, a failed process
       stays failed) — with the single exception of the slice that issues the Await action;
     - Worker::query_and_await: every target is registered in awaiters_for_target or answered with
       its result;
     - Worker::update_await_results: a result in the answer is recorded in the awaiter (or the
       awaiter is failed by it);
     - the oracle premise `await_honest` (properties of the VM's select machine):
         (a) a time slice is executed only for a process that has no result yet (a process
             completed in place by a failure notification has its frames cleared), and
         (b) when a slice ends with the Await action for targets ts, every key left in
             `awaiting` is one of ts (complete_select forgets the process sources of a completed
             select, executor.rs:2671; a process blocks in one select at a time). *)
From Quiver Require Import sys.Proto sys.ProtoMsg sys.ProtoFifo sys.ProtoFail sys.ProtoWake sys.ProtoDeliver sys.ProtoWf sys.ProtoOps.

(* ------------------------------------------------------------------ association lists, once more *)
Lemma alookup_in_keys {A} k (l : list (nat * A)) : alookup k l <> None -> In k (map fst l).
Proof.
  induction l as [|[k0 a0] l IH]; simpl; [intros H; exfalso; apply H; reflexivity|].
  destruct (k =? k0) eqn:E; [apply Nat.eqb_eq in E; subst; intros _; left; reflexivity|intros H; right; apply IH; exact H].
Qed.
Lemma keys_in_alookup {A} k (l : list (nat * A)) : In k (map fst l) -> alookup k l <> None.
Proof.
  induction l as [|[k0 a0] l IH]; simpl; [intros []|].
  destruct (k =? k0) eqn:E; [discriminate|]. intros [H|H]; [subst; rewrite Nat.eqb_refl in E; discriminate|apply IH; exact H].
Qed.
Lemma keys_aset {A} k (a : A) l x : In x (map fst (aset k a l)) <-> x = k \/ In x (map fst l).
Proof.
  induction l as [|[k0 a0] l IH]; simpl.
  - split; [intros [H|[]]; left; symmetry; exact H|intros [H|[]]; left; symmetry; exact H].
  - destruct (k =? k0) eqn:E; simpl.
    + apply Nat.eqb_eq in E; subst. split; [intros [H|H]; [left; symmetry; exact H|right; right; exact H]|].
      intros [H|[H|H]]; [left; symmetry; exact H|left; exact H|right; exact H].
    + rewrite IH. split; [intros [H|[H|H]]; auto|intros [H|[H|H]]; auto].
Qed.
Lemma NoDup_keys_aset {A} k (a : A) l : NoDup (map fst l) -> NoDup (map fst (aset k a l)).
Proof.
  induction l as [|[k0 a0] l IH]; simpl; intros N; [constructor; [intros []|constructor]|].
  inversion N as [|x y N1 N2]; subst. destruct (k =? k0) eqn:E; simpl.
  - apply Nat.eqb_eq in E; subst. constructor; assumption.
  - constructor; [|apply IH; exact N2]. intros Hin. apply keys_aset in Hin. destruct Hin as [->|Hin]; [rewrite Nat.eqb_refl in E; discriminate|contradiction].
Qed.
Lemma aset_not_nil {A} k (a : A) l : aset k a l <> [].
Proof. destruct l as [|[k0 a0] l]; simpl; [discriminate|]. destruct (k =? k0); discriminate. Qed.

(* fold of HashMap::insert over a list with distinct keys *)
Definition asetf {A} (a : list (nat * A)) (x : nat * A) := aset (fst x) (snd x) a.
Lemma alookup_fold_asetf {A} t : forall (rs acc : list (nat * A)), NoDup (map fst rs) ->
  alookup t (fold_left asetf rs acc) = match alookup t rs with Some v => Some v | None => alookup t acc end.
Proof.
  induction rs as [|[k v] rs IH]; intros acc N; simpl; [reflexivity|].
  inversion N as [|x y N1 N2]; subst. rewrite IH by exact N2. unfold asetf; simpl.
  destruct (t =? k) eqn:E.
  - apply Nat.eqb_eq in E; subst t.
    destruct (alookup k rs) eqn:El; [exfalso; apply N1; apply alookup_in_keys; rewrite El; discriminate|].
    apply alookup_aset_eq.
  - destruct (alookup t rs); [reflexivity|]. apply alookup_aset_neq. intros ->. rewrite Nat.eqb_refl in E. discriminate.
Qed.
Lemma keys_fold_asetf {A} x : forall (rs acc : list (nat * A)),
  In x (map fst (fold_left asetf rs acc)) <-> In x (map fst rs) \/ In x (map fst acc).
Proof.
  induction rs as [|[k v] rs IH]; intros acc; simpl; [tauto|]. rewrite IH. unfold asetf; simpl. rewrite keys_aset. intuition.
Qed.
Lemma NoDup_fold_asetf {A} : forall (rs acc : list (nat * A)), NoDup (map fst acc) -> NoDup (map fst (fold_left asetf rs acc)).
Proof. induction rs as [|[k v] rs IH]; intros acc N; simpl; [exact N|]. apply IH. apply NoDup_keys_aset. exact N. Qed.

(* ------------------------------------------------------------------ evolution of processes *)
Definition failed (pr : proc) : Prop := exists e, p_res pr = Some (RErr e).
Definition evol (pr pr' : proc) : Prop :=
  (forall t v, alookup t (p_awaiting pr') = Some v -> exists v0, alookup t (p_awaiting pr) = Some v0 /\ (v = None -> v0 = None)) /\
  (failed pr -> failed pr').
Definition pstep (w w' : worker) : Prop :=
  pk w w' /\
  forall q pr', alookup q (w_procs w') = Some pr' ->
    (exists pr, alookup q (w_procs w) = Some pr /\ evol pr pr') \/
    (alookup q (w_procs w) = None /\ forall t, alookup t (p_awaiting pr') = None).

Lemma evol_refl pr : evol pr pr.
Proof. split; [|auto]. intros t v H. exists v. auto. Qed.
Lemma evol_trans a b c : evol a b -> evol b c -> evol a c.
Proof.
  intros (A1&A2) (B1&B2). split; [|auto]. intros t v H. destruct (B1 t v H) as (v1&H1&I1). destruct (A1 t v1 H1) as (v0&H0&I0).
  exists v0. split; [exact H0|]. intros E. apply I0, I1, E.
Qed.
Lemma evol_same pr pr' : p_awaiting pr' = p_awaiting pr -> (failed pr -> failed pr') -> evol pr pr'.
Proof. intros E F. split; [|exact F]. intros t v H. rewrite E in H. exists v. auto. Qed.

Lemma pstep_refl w : pstep w w.
Proof. split; [apply pk_refl|]. intros q pr' H. left. exists pr'. split; [exact H|apply evol_refl]. Qed.
Lemma pstep_trans a b c : pstep a b -> pstep b c -> pstep a c.
Proof.
  intros (K1&H1) (K2&H2). split; [eapply pk_trans; eassumption|].
  intros q pr'' Hq. destruct (H2 q pr'' Hq) as [(pr'&Hb&E2)|(Hb&Hn)].
  - destruct (H1 q pr' Hb) as [(pr&Ha&E1)|(Ha&Hn)].
    + left. exists pr. split; [exact Ha|eapply evol_trans; eassumption].
    + right. split; [exact Ha|]. intros t. destruct (alookup t (p_awaiting pr'')) as [v|] eqn:El; [|reflexivity].
      destruct E2 as (E2&_). destruct (E2 t v El) as (v0&H0&_). rewrite Hn in H0. discriminate.
  - right. split; [|exact Hn]. destruct (alookup q (w_procs a)) as [pr|] eqn:Ea; [|reflexivity].
    exfalso. assert (Hh: has q a) by (unfold has; rewrite Ea; discriminate).
    apply K1 in Hh. apply Hh. exact Hb.
Qed.
Lemma pstep_same w w' : w_procs w' = w_procs w -> pstep w w'.
Proof. intros E. split; [apply pk_same; exact E|]. intros q pr' H. rewrite E in H. left. exists pr'. split; [exact H|apply evol_refl]. Qed.

Lemma pstep_upd_proc p f w : (forall pr, alookup p (w_procs w) = Some pr -> evol pr (f pr)) -> pstep w (upd_proc p f w).
Proof.
  intros Hf. split; [apply pk_upd_proc|]. intros q pr' H. left.
  destruct (Nat.eq_dec q p) as [->|Hne].
  - destruct (alookup p (w_procs w)) as [pr|] eqn:El.
    + rewrite (upd_proc_same p f w pr El) in H. inversion H; subst pr'. exists pr. split; [reflexivity|apply Hf; reflexivity].
    + unfold upd_proc in H. rewrite El in H. congruence.
  - rewrite upd_proc_other in H by exact Hne. exists pr'. split; [exact H|apply evol_refl].
Qed.
Lemma pstep_wake p w : pstep w (wake_selecting p w).
Proof. apply pstep_same. apply procs_wake. Qed.

Lemma evol_aset_some pr b r : alookup b (p_awaiting pr) <> None -> evol pr (with_awaiting (aset b (Some r) (p_awaiting pr)) pr).
Proof.
  intros Hb. split; [|intros F; exact F]. intros t v H. simpl in H. rewrite alookup_aset in H.
  destruct (t =? b) eqn:E.
  - apply Nat.eqb_eq in E; subst t. inversion H; subst v. destruct (alookup b (p_awaiting pr)) as [v0|]; [|contradiction].
    exists v0. split; [reflexivity|discriminate].
  - exists v. auto.
Qed.
Lemma evol_err pr e : evol pr (with_res (Some (RErr e)) pr).
Proof. apply evol_same; [reflexivity|]. intros _. exists e. reflexivity. Qed.

Lemma awaits_spec a b w : awaits a b w = true -> exists pr, alookup a (w_procs w) = Some pr /\ alookup b (p_awaiting pr) <> None.
Proof.
  unfold awaits. destruct (alookup a (w_procs w)) as [pr|]; [|discriminate].
  destruct (alookup b (p_awaiting pr)) eqn:E; [|discriminate]. intros _. exists pr. split; [reflexivity|rewrite E; discriminate].
Qed.

Lemma pstep_notify_result a b r w : pstep w (notify_result a b r w).
Proof.
  unfold notify_result. destruct (awaits a b w) eqn:Ea; [|apply pstep_wake].
  eapply pstep_trans; [|apply pstep_wake]. apply pstep_upd_proc. intros pr Hl.
  destruct (awaits_spec _ _ _ Ea) as (pr0&H0&Hb). rewrite Hl in H0. inversion H0; subst pr0. apply evol_aset_some. exact Hb.
Qed.
Lemma pstep_worker_notify a b r w : pstep w (worker_notify a b r w).
Proof.
  unfold worker_notify. destruct r as [v|e]; [apply pstep_notify_result|].
  destruct (awaits a b w); [|apply pstep_wake]. apply pstep_upd_proc. intros pr _. apply evol_err.
Qed.
Lemma pstep_fold {A} (f : worker -> A -> worker) l : (forall w x, pstep w (f w x)) -> forall w, pstep w (fold_left f l w).
Proof. intros Hf. induction l as [|x l IH]; intros w; simpl; [apply pstep_refl|]. eapply pstep_trans; [apply Hf|apply IH]. Qed.
Lemma pstep_update_await a rs w : pstep w (update_await a rs w).
Proof.
  unfold update_await.
  assert (H: pstep w (fold_left (fun w e => match snd e with Some r => worker_notify a (fst e) r w | None => w end) rs w)).
  { apply pstep_fold. intros w0 x. destruct (snd x); [apply pstep_worker_notify|apply pstep_refl]. }
  destruct (existsb _ rs); [exact H|]. eapply pstep_trans; [exact H|apply pstep_wake].
Qed.
Lemma pstep_notify_local p r h w q : pstep w (notify_local p r h w q).
Proof.
  unfold notify_local. destruct r as [v|e]; [destruct h; [apply pstep_refl|apply pstep_notify_result]|].
  apply pstep_upd_proc. intros pr _. apply evol_err.
Qed.

(* the completion path: p's result is set; allowed to turn a failed p into a successful one only if
   excluded by the caller *)
Lemma pstep_finish p r h hint w w' :
  finish p r h hint w = Good w' ->
  (forall pr, alookup p (w_procs w) = Some pr -> failed pr -> exists e, r = RErr e) ->
  pstep w w'.
Proof.
  unfold finish. destruct (order_by hint _); [|discriminate]. intros H Hc; inversion H; subst; clear H.
  eapply pstep_trans; [|apply pstep_fold; intros; apply pstep_notify_local].
  apply pstep_upd_proc. intros pr Hl. apply evol_same; [reflexivity|].
  intros F. destruct (Hc pr Hl F) as (e&->). exists e. reflexivity.
Qed.

(* a brand-new process with an empty awaiting map *)
Lemma pstep_new_proc p pr0 w : alookup p (w_procs w) = None -> p_awaiting pr0 = [] -> pstep w (set_procs w (aset p pr0 (w_procs w))).
Proof.
  intros Hn He. split; [apply pk_set_procs_aset|]. intros q pr' H. simpl in H. rewrite alookup_aset in H.
  destruct (q =? p) eqn:E.
  - apply Nat.eqb_eq in E; subst q. inversion H; subst pr'. right. split; [exact Hn|]. intros t. rewrite He. reflexivity.
  - left. exists pr'. split; [exact H|apply evol_refl].
Qed.
Lemma pstep_set_proc p pr pr1 w : alookup p (w_procs w) = Some pr -> evol pr pr1 -> pstep w (set_procs w (aset p pr1 (w_procs w))).
Proof.
  intros Hl He. split; [apply pk_set_procs_aset|]. intros q pr' H. simpl in H. rewrite alookup_aset in H. left.
  destruct (q =? p) eqn:E.
  - apply Nat.eqb_eq in E; subst q. inversion H; subst pr'. exists pr. split; assumption.
  - exists pr'. split; [exact H|apply evol_refl].
Qed.

(* ------------------------------------------------------------------ Worker::query_and_await *)
Lemma completed_value_book w a b c t : completed_value (set_book w a b c) t = completed_value w t.
Proof. reflexivity. Qed.

Lemma query_one_spec a w rs t :
  let '(w', rs') := query_one a (w, rs) t in
  w_procs w' = w_procs w /\ w_queue w' = w_queue w /\ w_spawning w' = w_spawning w /\ w_selecting w' = w_selecting w /\
  (forall t', In t' (w_awaited w) -> In t' (w_awaited w')) /\
  (forall x t', registered x t' w -> registered x t' w') /\
  (forall t' l', alookup t' (w_awaiters w') = Some l' -> (t' = t /\ In t' (w_awaited w')) \/ alookup t' (w_awaiters w) = Some l') /\
  ((registered a t w' /\ alookup t rs' = Some None) \/ exists r, completed_value w t = Some r /\ alookup t rs' = Some (Some r)) /\
  (forall t', t' <> t -> alookup t' rs' = alookup t' rs) /\
  (forall x, In x (map fst rs') <-> x = t \/ In x (map fst rs)) /\
  (NoDup (map fst rs) -> NoDup (map fst rs')) /\ rs' <> [].
Proof.
  unfold query_one. destruct (completed_value w t) as [r|] eqn:Ec.
  - repeat split; auto.
    + right. exists r. split; [reflexivity|apply alookup_aset_eq].
    + intros t' Hne. apply alookup_aset_neq. exact Hne.
    + apply keys_aset.
    + apply keys_aset.
    + apply NoDup_keys_aset.
    + apply aset_not_nil.
  - simpl. repeat split; auto.
    + intros t' Ht. unfold sadd. destruct (mem t (w_awaited w)); [exact Ht|apply in_or_app; left; exact Ht].
    + intros x t' (l&Hl&Hx). unfold registered. simpl. rewrite alookup_aset. destruct (t' =? t) eqn:E.
      * apply Nat.eqb_eq in E; subst t'. rewrite Hl. eexists. split; [reflexivity|apply in_or_app; left; exact Hx].
      * exists l. split; assumption.
    + intros t' l' Hl. rewrite alookup_aset in Hl. destruct (t' =? t) eqn:E; [|right; exact Hl].
      apply Nat.eqb_eq in E; subst t'. left. split; [reflexivity|].
      unfold sadd. destruct (mem t (w_awaited w)) eqn:Em; [apply mem_in; exact Em|apply in_or_app; right; left; reflexivity].
    + left. split; [|apply alookup_aset_eq]. unfold registered. simpl. rewrite alookup_aset_eq. eexists. split; [reflexivity|].
      apply in_or_app; right; left; reflexivity.
    + intros t' Hne. apply alookup_aset_neq. exact Hne.
    + apply keys_aset.
    + apply keys_aset.
    + apply NoDup_keys_aset.
    + apply aset_not_nil.
Qed.

Lemma completed_value_same w w' t :
  w_procs w' = w_procs w -> w_queue w' = w_queue w -> w_spawning w' = w_spawning w -> w_selecting w' = w_selecting w ->
  completed_value w' t = completed_value w t.
Proof. intros E1 E2 E3 E4. unfold completed_value. rewrite E1, E2, E3, E4. reflexivity. Qed.

Lemma query_fold_spec a : forall ts w rs w' rs', fold_left (query_one a) ts (w, rs) = (w', rs') ->
  w_procs w' = w_procs w /\ w_queue w' = w_queue w /\ w_spawning w' = w_spawning w /\ w_selecting w' = w_selecting w /\
  (forall t', In t' (w_awaited w) -> In t' (w_awaited w')) /\
  (forall x t', registered x t' w -> registered x t' w') /\
  (forall t' l', alookup t' (w_awaiters w') = Some l' -> (In t' ts /\ In t' (w_awaited w')) \/ alookup t' (w_awaiters w) = Some l') /\
  (forall t, In t ts -> registered a t w' \/ exists r, alookup t rs' = Some (Some r)) /\
  (forall t', ~ In t' ts -> alookup t' rs' = alookup t' rs) /\
  (forall x, In x (map fst rs') <-> In x ts \/ In x (map fst rs)) /\
  (NoDup (map fst rs) -> NoDup (map fst rs')) /\ (ts <> [] -> rs' <> []).
Proof.
  induction ts as [|t ts IH]; intros w rs w' rs' H; cbn [fold_left] in H.
  - inversion H; subst. split; [reflexivity|]. split; [reflexivity|]. split; [reflexivity|]. split; [reflexivity|].
    split; [auto|]. split; [auto|]. split; [intros t' l' Hl; right; exact Hl|]. split; [intros t []|].
    split; [reflexivity|]. split; [intros x; simpl; tauto|]. split; [auto|]. intros C; exfalso; apply C; reflexivity.
  - pose proof (query_one_spec a w rs t) as Q. destruct (query_one a (w, rs) t) as [w1 rs1].
    destruct Q as (Q1&Q2&Q3&Q4&Q5&Q6&Q7&Q8&Q9&Q10&Q11&Q12).
    destruct (IH w1 rs1 w' rs' H) as (I1&I2&I3&I4&I5&I6&I7&I8&I9&I10&I11&I12).
    split; [congruence|]. split; [congruence|]. split; [congruence|]. split; [congruence|].
    split; [intros t' Ht; apply I5, Q5, Ht|]. split; [intros x t' R; apply I6, Q6, R|].
    split; [|split; [|split; [|split; [|split]]]].
    + intros t' l' Hl. destruct (I7 t' l' Hl) as [(A&B)|Hl1]; [left; split; [right; exact A|exact B]|].
      destruct (Q7 t' l' Hl1) as [(->&B)|Hl0]; [left; split; [left; reflexivity|apply I5; exact B]|right; exact Hl0].
    + intros t0 [<-|Hin]; [|apply I8; exact Hin].
      destruct (in_dec Nat.eq_dec t ts) as [Hi|Hni]; [apply I8; exact Hi|].
      destruct Q8 as [(R&_)|(r&_&Hr)]; [left; apply I6; exact R|right; exists r; rewrite (I9 t Hni); exact Hr].
    + intros t' Hn. rewrite I9 by (intros Hi; apply Hn; right; exact Hi). apply Q9. intros ->. apply Hn. left; reflexivity.
    + intros x. rewrite I10, Q10. simpl. split; [intros [A|[->|A]]; auto|intros [[<-|A]|A]; auto].
    + intros N. apply I11, Q11, N.
    + intros _. destruct ts as [|t2 ts2]; [cbn in H; inversion H; subst; exact Q12|apply I12; discriminate].
Qed.

(* ------------------------------------------------------------------ Worker::handle_command on the process table *)
Lemma evol_with_mail pr a b c : evol pr (with_mail a b c pr).
Proof. apply evol_same; [reflexivity|auto]. Qed.

Lemma handle_cmd_pstep c w w' evs :
  (forall p, spawns c = Some p -> ~ has p w) -> handle_cmd c w = Good (w', evs) -> pstep w w'.
Proof.
  intros Hf H. destruct c; simpl in H.
  - inversion H; subst. apply pstep_refl.
  - inversion H; subst. apply pstep_refl.
  - assert (Hn: alookup p (w_procs w) = None).
    { specialize (Hf p eq_refl). unfold has in Hf. destruct (alookup p (w_procs w)); [exfalso; apply Hf; discriminate|reflexivity]. }
    destruct sleeping; inversion H; subst; clear H.
    + apply pstep_new_proc; [exact Hn|reflexivity].
    + eapply pstep_trans; [apply (pstep_new_proc p (new_proc true None) w Hn eq_refl)|apply pstep_same; reflexivity].
  - assert (Hn: alookup p (w_procs w) = None).
    { specialize (Hf p eq_refl). unfold has in Hf. destruct (alookup p (w_procs w)); [exfalso; apply Hf; discriminate|reflexivity]. }
    inversion H; subst; clear H.
    eapply pstep_trans; [apply (pstep_new_proc p (new_proc false None) w Hn eq_refl)|apply pstep_same; reflexivity].
  - destruct (alookup p (w_procs w)) as [pr|] eqn:El; [|discriminate].
    destruct (p_res pr) as [[v|e]|] eqn:Er; try discriminate. destruct (p_pers pr); [|discriminate]. inversion H; subst; clear H.
    eapply pstep_trans; [|apply pstep_same; reflexivity].
    apply pstep_upd_proc. intros pr0 Hl. rewrite El in Hl. inversion Hl; subst pr0.
    apply evol_same; [reflexivity|]. intros (e&He). rewrite Er in He. discriminate.
  - destruct (fold_left (query_one awaiter) targets (w, [])) as [w1 rs] eqn:E. inversion H; subst.
    apply pstep_same. apply (query_fold_spec _ _ _ _ _ _ E).
  - inversion H; subst. apply pstep_update_await.
  - destruct (alookup target (w_procs w)); inversion H; subst; clear H.
    + eapply pstep_trans; [|apply pstep_wake].
      apply (pstep_trans _ (set_ghost w (w_nsent w) (w_sentlog w) (w_arrlog w ++ [(target, m)]) (w_dropped w))); [apply pstep_same; reflexivity|].
      apply pstep_upd_proc. intros pr _. apply evol_with_mail.
    + apply (pstep_trans _ (set_ghost w (w_nsent w) (w_sentlog w) (w_arrlog w ++ [(target, m)]) (w_dropped w ++ [(target, m)])));
        [apply pstep_same; reflexivity|apply pstep_wake].
  - destruct (mem p (w_spawning w)); inversion H; subst; [apply pstep_same; reflexivity|apply pstep_refl].
  - destruct (alookup p (w_procs w)) as [pr|]; [|discriminate].
    destruct (p_res pr); inversion H; subst; [apply pstep_refl|apply pstep_same; reflexivity].
Qed.

(* ------------------------------------------------------------------ Worker::update_await_results records *)
Definition recorded (a t : pid) (w : worker) : Prop :=
  exists pr, alookup a (w_procs w) = Some pr /\ (failed pr \/ exists r, alookup t (p_awaiting pr) = Some (Some r)).
Definition present (a t : pid) (w : worker) : Prop :=
  exists pr, alookup a (w_procs w) = Some pr /\ alookup t (p_awaiting pr) <> None.

Lemma recorded_same a t w w' : w_procs w' = w_procs w -> recorded a t w -> recorded a t w'.
Proof. intros E (pr&H&R). exists pr. rewrite E. auto. Qed.

Lemma recorded_upd a t f w :
  (forall pr, failed pr -> failed (f pr)) ->
  (forall pr r, alookup t (p_awaiting pr) = Some (Some r) -> exists r', alookup t (p_awaiting (f pr)) = Some (Some r')) ->
  recorded a t w -> recorded a t (upd_proc a f w).
Proof.
  intros F1 F2 (pr&H&R). exists (f pr). split; [apply upd_proc_same; exact H|].
  destruct R as [R|(r&R)]; [left; apply F1; exact R|right; apply (F2 pr r R)].
Qed.

Lemma recorded_worker_notify a t b r w : recorded a t w -> recorded a t (worker_notify a b r w).
Proof.
  intros R. unfold worker_notify. destruct r as [v|e].
  - unfold notify_result. destruct (awaits a b w); [|eapply recorded_same; [apply procs_wake|exact R]].
    eapply recorded_same; [apply procs_wake|]. apply recorded_upd; [auto| |exact R].
    intros pr r0 Hr. simpl. rewrite alookup_aset. destruct (t =? b); eauto.
  - destruct (awaits a b w); [|eapply recorded_same; [apply procs_wake|exact R]].
    apply recorded_upd; [intros pr _; exists e; reflexivity| |exact R]. intros pr r0 Hr. simpl. eauto.
Qed.

Lemma present_worker_notify a t b r w : present a t w -> present a t (worker_notify a b r w).
Proof.
  intros (pr&H&P).
  assert (S: forall w', w_procs w' = w_procs w -> present a t w') by (intros w' E; exists pr; rewrite E; auto).
  assert (U: forall f, (forall x, alookup t (p_awaiting x) <> None -> alookup t (p_awaiting (f x)) <> None) -> present a t (upd_proc a f w)).
  { intros f Hf. exists (f pr). split; [apply upd_proc_same; exact H|apply Hf; exact P]. }
  unfold worker_notify. destruct r as [v|e].
  - unfold notify_result. destruct (awaits a b w); [|apply S, procs_wake].
    destruct (U (fun x => with_awaiting (aset b (Some (ROk v)) (p_awaiting x)) x)) as (pr'&H'&P').
    + intros x Hx. simpl. rewrite alookup_aset. destruct (t =? b); [discriminate|exact Hx].
    + exists pr'. rewrite procs_wake. auto.
  - destruct (awaits a b w); [|apply S, procs_wake]. apply U. intros x Hx. exact Hx.
Qed.

Lemma worker_notify_records a t r w : present a t w -> recorded a t (worker_notify a t r w).
Proof.
  intros (pr&H&P). unfold worker_notify.
  assert (Aw: awaits a t w = true).
  { unfold awaits. rewrite H. destruct (alookup t (p_awaiting pr)); [reflexivity|contradiction]. }
  destruct r as [v|e].
  - unfold notify_result. rewrite Aw. eapply recorded_same; [apply procs_wake|].
    eexists. split; [apply upd_proc_same; exact H|]. right. exists (ROk v). simpl. apply alookup_aset_eq.
  - rewrite Aw. eexists. split; [apply upd_proc_same; exact H|]. left. exists e. reflexivity.
Qed.

Theorem update_await_records a rs w t r :
  present a t w -> In (t, Some r) rs -> recorded a t (update_await a rs w).
Proof.
  intros P Hin. unfold update_await.
  set (f := fun (w : worker) (e : pid * option res) => match snd e with Some r => worker_notify a (fst e) r w | None => w end).
  assert (Rk: forall l w0, recorded a t w0 -> recorded a t (fold_left f l w0)).
  { induction l as [|x l IH]; intros w0 R; simpl; [exact R|]. apply IH. unfold f. destruct (snd x); [apply recorded_worker_notify; exact R|exact R]. }
  assert (Main: forall l w0, present a t w0 -> In (t, Some r) l -> recorded a t (fold_left f l w0)).
  { induction l as [|x l IH]; intros w0 P0 Hl; simpl; [destruct Hl|].
    destruct Hl as [->|Hl].
    - apply Rk. unfold f. simpl. apply worker_notify_records. exact P0.
    - apply IH; [|exact Hl]. unfold f. destruct (snd x); [apply present_worker_notify; exact P0|exact P0]. }
  destruct (existsb _ rs); [apply Main; assumption|].
  eapply recorded_same; [apply procs_wake|apply Main; assumption].
Qed.

(* ------------------------------------------------------------------ the oracle premise *)
(* the process the next executor step of this worker runs a slice of, if any *)
Definition slice_proc (now : nat) (o : woracle) (w : worker) : option (pid * proc) :=
  match expire now (o_expired o) w with
  | Good w1 =>
    match w_queue w1 with
    | p :: _ =>
      match alookup p (w_procs w1) with
      | Some pr => match o_pid o with Some p' => if p =? p' then Some (p, pr) else None | None => None end
      | None => None
      end
    | [] => None
    end
  | Fault _ => None
  end.

Definition await_honestb (now : nat) (o : woracle) (w : worker) : bool :=
  match slice_proc now o w with
  | Some (p, pr) =>
    match p_res pr with None => true | Some _ => false end &&
    match d_act (o_did o) with
    | Some (AAwait ts) =>
      forallb (fun k => mem k ts) (map fst (fold_left (fun a t => aremove t a) (d_forget (o_did o)) (p_awaiting pr)))
    | _ => true
    end
  | None => true
  end.
Definition await_honest : env -> nat -> woracle -> worker -> Prop := fun _ now o w => await_honestb now o w = true.

(* one Executor::step under the premise *)
Theorem exec_step_effect i now o w w' evs :
  exec_step i now o w = Good (w', evs) -> await_honestb now o w = true ->
  (forall a ts, ~ In (EAwaitA a ts) evs) /\ pstep w w'
  \/ exists p ts, evs = [EAwaitA p ts] /\ has p w /\
       (forall q pr', q <> p -> alookup q (w_procs w') = Some pr' -> alookup q (w_procs w) = Some pr') /\
       (forall pr' t, alookup p (w_procs w') = Some pr' -> alookup t (p_awaiting pr') <> None -> In t ts).
Proof.
  intros H Hon. destruct (exec_step_shape _ _ _ _ _ _ H) as (w1&E&C).
  destruct (expire_same _ _ _ _ E) as (Ep&_).
  destruct C as [(_&->&->)|(p&q'&Eq&[(_&->&->)|(pr&Hl&[(Ho&R)|(e&Hr&F&->)])])].
  - left. split; [intros a ts []|apply pstep_same; exact Ep].
  - left. split; [intros a ts []|apply pstep_same; exact Ep].
  - (* a slice of p *)
    unfold await_honestb, slice_proc in Hon. rewrite E, Eq, Hl, Ho, Nat.eqb_refl in Hon.
    apply andb_true_iff in Hon. destruct Hon as (Hres&Hfor).
    assert (Hr: p_res pr = None) by (destruct (p_res pr); [discriminate|reflexivity]).
    pose proof (run_slice_did_ok _ _ _ _ _ _ _ _ R) as Hok.
    destruct (run_slice_shape _ _ _ _ _ _ _ _ R) as (taken&mail'&w2&_&Ha&Hf).
    set (w0 := set_sched w1 q' (w_spawning w1) (w_selecting w1)) in *.
    set (pr1 := slice_pr1 pr (o_did o) taken mail') in *.
    set (wa := set_procs w0 (aset p pr1 (w_procs w0))) in *.
    assert (Hl0: alookup p (w_procs w0) = Some pr) by exact Hl.
    assert (E1: evol pr pr1).
    { split; [|intros (e&He); rewrite Hr in He; discriminate].
      intros t v Hv. unfold pr1, slice_pr1 in Hv. simpl in Hv. rewrite alookup_aremove_fold in Hv.
      destruct (mem t (d_forget (o_did o))); [discriminate|]. exists v. auto. }
    assert (Pa: pstep w wa).
    { eapply pstep_trans; [apply (pstep_same w w0); exact Ep|]. apply (pstep_set_proc p pr pr1 w0 Hl0 E1). }
    assert (Hpa: alookup p (w_procs wa) = Some pr1) by (unfold wa; simpl; apply alookup_aset_eq).
    assert (Tail: forall w2', w_procs w2' = w_procs wa -> slice_act i p wa (d_act (o_did o)) w2' evs ->
                   match d_fin (o_did o) with
                   | Some r => finish p r (d_heapy (o_did o)) (o_awaiters o) (if d_park (o_did o) then mark_selecting p w2' else w2') = Good w'
                   | None => w' = (if d_park (o_did o) then mark_selecting p w2' else w2') \/ w' = enqueue p (if d_park (o_did o) then mark_selecting p w2' else w2')
                   end -> pstep w w').
    { intros w2' Ew2 _ Hfin.
      assert (E3: w_procs (if d_park (o_did o) then mark_selecting p w2' else w2') = w_procs wa) by (destruct (d_park (o_did o)); exact Ew2).
      destruct (d_fin (o_did o)) as [r|].
      - eapply pstep_trans; [exact Pa|]. eapply pstep_trans; [apply pstep_same; exact E3|].
        eapply pstep_finish; [exact Hfin|]. intros pr0 Hl1. rewrite E3, Hpa in Hl1. inversion Hl1; subst pr0.
        intros (e&He). unfold pr1, slice_pr1 in He. simpl in He. rewrite Hr in He. discriminate.
      - eapply pstep_trans; [exact Pa|]. apply pstep_same. destruct Hfin as [->| ->]; exact E3. }
    inversion Ha as [Hact Hw2 Hev|Hact Hw2 Hev|t Hact Hw2 Hev|ts Hact Hw2 Hev].
    + left. split; [intros a ts []|]. apply (Tail w2); [rewrite <- Hw2; reflexivity|exact Ha|exact Hf].
    + left. split; [intros a ts [C|[]]; discriminate|]. apply (Tail w2); [rewrite <- Hw2; reflexivity|exact Ha|exact Hf].
    + left. split; [intros a ts [C|[]]; discriminate|]. apply (Tail w2); [rewrite <- Hw2; reflexivity|exact Ha|exact Hf].
    + (* the Await action *)
      right. exists p, ts. split; [reflexivity|]. split; [unfold has; rewrite <- Ep, Hl; discriminate|].
      symmetry in Hact. rewrite (did_ok_await _ _ Hok Hact) in Hf.
      rewrite Hact in Hfor.
      set (g := fun q : proc => with_awaiting (fold_left (fun a t => aset t None a) ts (p_awaiting q)) q) in *.
      assert (Ep': w_procs w' = w_procs (upd_proc p g wa)).
      { destruct Hf as [->| ->]; destruct (d_park (o_did o)); rewrite <- Hw2; reflexivity. }
      split.
      * intros q pr' Hne Hq. rewrite Ep', upd_proc_other in Hq by exact Hne.
        unfold wa in Hq. simpl in Hq. rewrite alookup_aset_neq in Hq by exact Hne. rewrite <- Ep. exact Hq.
      * intros pr' t Hp' Ht. rewrite Ep', (upd_proc_same p g wa pr1 Hpa) in Hp'. inversion Hp'; subst pr'.
        unfold g in Ht. simpl in Ht. rewrite alookup_aset_fold_none in Ht.
        destruct (mem t ts) eqn:Em; [apply mem_in; exact Em|].
        apply alookup_in_keys in Ht. rewrite forallb_forall in Hfor. apply mem_in. apply Hfor.
        unfold pr1, slice_pr1 in Ht. simpl in Ht. exact Ht.
  - (* the completion path again for a process failed in place *)
    left. split; [intros a ts []|].
    eapply pstep_trans; [apply (pstep_same w (set_sched w1 q' (w_spawning w1) (w_selecting w1))); exact Ep|].
    eapply pstep_finish; [exact F|]. intros pr0 _ _. exists e. reflexivity.
Qed.

(* every command but QueryAndAwait leaves the registrations alone and emits no ProcessResults / AwaitAction *)
Lemma handle_cmd_other c w w' evs :
  handle_cmd c w = Good (w', evs) -> (forall a ts, c <> CQuery a ts) ->
  w_awaited w' = w_awaited w /\ w_awaiters w' = w_awaiters w /\
  (forall a rs, ~ In (EResults a rs) evs) /\ (forall a ts, ~ In (EAwaitA a ts) evs).
Proof.
  intros H Hn.
  assert (B: forall w0, bk w0 = bk w -> w_awaited w0 = w_awaited w /\ w_awaiters w0 = w_awaiters w).
  { intros w0 E. unfold bk in E. inversion E. split; reflexivity. }
  destruct c; simpl in H.
  - inversion H; subst. repeat split; auto.
  - inversion H; subst. repeat split; auto; intros a x [C|[]]; discriminate.
  - destruct sleeping; inversion H; subst; repeat split; auto.
  - inversion H; subst; repeat split; auto.
  - destruct (alookup p (w_procs w)) as [pr|]; [|discriminate].
    destruct (p_res pr) as [[v|e]|]; try discriminate. destruct (p_pers pr); [|discriminate]. inversion H; subst.
    destruct (B (upd_proc p (with_res None) w) (bk_upd_proc _ _ _)) as (B1&B2). repeat split; auto.
  - exfalso. apply (Hn awaiter targets). reflexivity.
  - inversion H; subst. destruct (B _ (bk_update_await awaiter results w)) as (B1&B2). repeat split; auto.
  - destruct (alookup target (w_procs w)); inversion H; subst; clear H.
    + match goal with |- context [wake_selecting ?t ?x] => destruct (B (wake_selecting t x)) as (B1&B2) end; [rewrite bk_wake, bk_upd_proc; reflexivity|].
      repeat split; auto.
    + match goal with |- context [wake_selecting ?t ?x] => destruct (B (wake_selecting t x)) as (B1&B2) end; [rewrite bk_wake; reflexivity|].
      repeat split; auto.
  - destruct (mem p (w_spawning w)); inversion H; subst; repeat split; auto.
  - destruct (alookup p (w_procs w)) as [pr|]; [|discriminate].
    destruct (p_res pr); inversion H; subst; repeat split; auto; intros a x [C|[]]; discriminate.
Qed.
