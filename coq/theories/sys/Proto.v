(* Proto.v — M-Sys: the message / spawn / await protocol between the Executor's scheduling state,
   the Worker and the Environment (quiver-core/src/executor.rs, quiver-environment/src/worker.rs,
   environment.rs), as the code is (the overtaken snapshot F72 included).

   What is abstracted: the BEHAVIOUR of a process. One `Executor::step` runs one time slice of the
   process at the head of the run queue; what that slice did is an input of the step (`did`): the
   messages it took from its mailbox, the select state it ends with, the one Action it emitted
   (Spawn / Deliver / Await), whether it parked in a select, whether it finished (Ok v / Err e).
   On the correspondence side `did` is read off the trace of the real run (harness/SIM_FORMAT.md);
   in the theorems it is universally quantified. Everything else — queue discipline of the
   notify_* / mark_* family, the same-worker direct notification at completion, Worker::step's
   order (drain commands, one executor step, handle_action, check_completed_processes), every
   Environment::handle_event arm, the transports — is modelled as the code does it.

   Where the Rust iterates a std HashMap/HashSet for effect (expired timeouts, awaiters at
   completion, check_completed_processes) the order is an input too (`o_expired`, `o_awaiters`,
   `o_completed`: priority lists; the model orders the set it computed itself by them).

   Ghost state (no counterpart in the code, never read by a transition): messages are stamped
   (sender, worker, per-worker sequence number); each worker logs what it sent / what arrived /
   what it dropped, each process what was appended to and taken from its mailbox.

   Not modelled: effects (EffectRequest / EffectCompletion, `effecting`), resources (C14's Own.v),
   the heap (C06), inspector subscriptions. Values are opaque tokens. *)
From Coq Require Export List Arith Bool PeanoNat Lia.
Export ListNotations.

Definition pid := nat.
Definition wid := nat.

(* ghost stamp of a message *)
Record msg := mkMsg { m_from : pid; m_w : wid; m_seq : nat }.

(* a process result as seen by awaiters: value token or error token *)
Inductive res := ROk (v : nat) | RErr (e : nat).

(* failure of a whole step (never of a process): a bad input, a Worker::step Err, an
   Environment::step Err (the `?` arms of the Rust) *)
Inductive fault :=
| BadOracle (site : nat)
| WorkerErr (site : nat)        (* 1 ProcessNotFound 2 ProcessFailed 3 ProcessNotSleeping *)
| EnvErr (site : nat).          (* 1 ProcessNotFound *)
Inductive result (A : Type) := Good (a : A) | Fault (f : fault).
Arguments Good {A} a.
Arguments Fault {A} f.
Definition rbind {A B} (r : result A) (f : A -> result B) : result B :=
  match r with Good a => f a | Fault x => Fault x end.
Notation "x <- r ;; k" := (rbind r (fun x => k)) (at level 61, r at next level, right associativity).
Notation "' p <- r ;; k" := (rbind r (fun p => k)) (at level 61, p pattern, r at next level, right associativity).

(* ------------------------------------------------------------------ protocol messages
   messages.rs: Command (Environment -> Worker), Event (Worker -> Environment) *)
Inductive cmd :=
| CNoop                                            (* UpdateProgram, CompactLocals, (Un)Subscribe *)
| CInspect (req : nat)                             (* Get{Statuses,WorkerInfo,ProcessTypes,ProcessInfo,Locals,ExecutionStats} *)
| CStart (p : pid) (sleeping : bool)               (* StartProcess{id, function_index = None|Some} *)
| CSpawn (p : pid)                                 (* SpawnProcess *)
| CResume (p : pid)                                (* ResumeProcess *)
| CQuery (awaiter : pid) (targets : list pid)      (* QueryAndAwait *)
| CUpdate (awaiter : pid) (results : list (pid * option res))   (* UpdateAwaitResults *)
| CDeliver (target : pid) (m : msg)                (* DeliverMessage *)
| CNotifySpawn (p : pid) (spawned : pid)           (* NotifySpawn *)
| CGetResult (req : nat) (p : pid).                (* GetResult *)

Inductive event :=
| ESpawnA (caller : pid)                           (* SpawnAction *)
| EDeliverA (target : pid) (m : msg)               (* DeliverAction *)
| EAwaitA (awaiter : pid) (targets : list pid)     (* AwaitAction *)
| EResults (awaiter : pid) (results : list (pid * option res))  (* ProcessResults *)
| EResultResp (req : nat) (r : res)                (* ResultResponse *)
| EInspect (req : nat).                            (* the *Response of an inspector request *)

(* ------------------------------------------------------------------ small list utilities *)
Definition mem (x : nat) (l : list nat) : bool := existsb (Nat.eqb x) l.
Definition sadd (x : nat) (l : list nat) : list nat := if mem x l then l else l ++ [x].
Definition sremove (x : nat) (l : list nat) : list nat := filter (fun y => negb (Nat.eqb x y)) l.

Fixpoint alookup {A} (k : nat) (l : list (nat * A)) : option A :=
  match l with
  | [] => None
  | (k', a) :: t => if Nat.eqb k k' then Some a else alookup k t
  end.
(* HashMap::insert: replace in place, else append *)
Fixpoint aset {A} (k : nat) (a : A) (l : list (nat * A)) : list (nat * A) :=
  match l with
  | [] => [(k, a)]
  | (k', a') :: t => if Nat.eqb k k' then (k, a) :: t else (k', a') :: aset k a t
  end.
Definition aremove {A} (k : nat) (l : list (nat * A)) : list (nat * A) :=
  filter (fun e => negb (Nat.eqb k (fst e))) l.

Definition split_at {A} (k : option nat) (l : list A) : list A * list A :=
  match k with None => (l, []) | Some n => (firstn n l, skipn n l) end.

Fixpoint update_nth {A} (n : nat) (f : A -> A) (l : list A) : list A :=
  match l, n with
  | [], _ => []
  | a :: t, 0 => f a :: t
  | a :: t, S n' => a :: update_nth n' f t
  end.

(* the elements of `set` in the order given by the priority list `hint`; every element of `set`
   must occur in `hint` *)
Definition order_by (hint set : list nat) : option (list nat) :=
  let o := filter (fun x => mem x set) (nodup Nat.eq_dec hint) in
  if forallb (fun x => mem x o) set && (length o =? length (nodup Nat.eq_dec set)) then Some o else None.

(* remove the element at index i *)
Fixpoint take_at {A} (i : nat) (l : list A) : option (A * list A) :=
  match l, i with
  | [], _ => None
  | a :: t, 0 => Some (a, t)
  | a :: t, S i' => match take_at i' t with Some (x, t') => Some (x, a :: t') | None => None end
  end.
(* remove indices sequentially (each index is relative to the list as it is at that moment) *)
Fixpoint take_seq {A} (is : list nat) (l : list A) : option (list A * list A) :=
  match is with
  | [] => Some ([], l)
  | i :: is' =>
    match take_at i l with
    | None => None
    | Some (x, l') => match take_seq is' l' with Some (xs, l'') => Some (x :: xs, l'') | None => None end
    end
  end.

(* ------------------------------------------------------------------ executor / worker state *)
(* what the model keeps of process.rs SelectState: enough for timeouts and for stating wake-ups *)
Record sel := { sl_targets : list pid; sl_cursors : list nat; sl_timeouts : list nat; sl_start : option nat }.

Record proc := {
  p_mail : list msg;                          (* mailbox, front first *)
  p_res : option res;                         (* result: None = running *)
  p_awaiting : list (pid * option res);       (* Process.awaiting (never cleared by the code) *)
  p_sel : option sel;                         (* select_state *)
  p_pers : bool;                              (* persistent *)
  p_arrived : list msg;                       (* ghost: everything ever appended to the mailbox *)
  p_taken : list msg;                         (* ghost: everything ever taken out of it *)
}.
Definition new_proc (pers : bool) (r : option res) : proc :=
  {| p_mail := []; p_res := r; p_awaiting := []; p_sel := None; p_pers := pers; p_arrived := []; p_taken := [] |}.

Record worker := {
  w_procs : list (pid * proc);                (* Executor.processes *)
  w_queue : list pid;                         (* Executor.queue, front first *)
  w_spawning : list pid;                      (* sets *)
  w_selecting : list pid;
  w_awaited : list pid;                       (* Worker.awaited *)
  w_awaiters : list (pid * list pid);         (* Worker.awaiters_for_target *)
  w_pending : list (pid * list nat);          (* Worker.pending_result_requests *)
  w_nsent : nat;                              (* ghost: next message sequence number of this worker *)
  w_sentlog : list (pid * msg);               (* ghost: (target, message) emitted, oldest first *)
  w_arrlog : list (pid * msg);                (* ghost: (target, message) of every DeliverMessage handled, oldest first *)
  w_dropped : list (pid * msg);               (* ghost: DeliverMessage for a process that does not exist *)
}.
Definition new_worker : worker :=
  {| w_procs := []; w_queue := []; w_spawning := []; w_selecting := []; w_awaited := []; w_awaiters := [];
     w_pending := []; w_nsent := 0; w_sentlog := []; w_arrlog := []; w_dropped := [] |}.

(* a worker together with its two channel ends *)
Record node := { n_w : worker; n_cmd : list cmd; n_evt : list event }.

Definition set_procs (w : worker) (ps : list (pid * proc)) : worker :=
  {| w_procs := ps; w_queue := w_queue w; w_spawning := w_spawning w; w_selecting := w_selecting w;
     w_awaited := w_awaited w; w_awaiters := w_awaiters w; w_pending := w_pending w; w_nsent := w_nsent w;
     w_sentlog := w_sentlog w; w_arrlog := w_arrlog w; w_dropped := w_dropped w |}.
Definition set_sched (w : worker) (q sp se : list pid) : worker :=
  {| w_procs := w_procs w; w_queue := q; w_spawning := sp; w_selecting := se;
     w_awaited := w_awaited w; w_awaiters := w_awaiters w; w_pending := w_pending w; w_nsent := w_nsent w;
     w_sentlog := w_sentlog w; w_arrlog := w_arrlog w; w_dropped := w_dropped w |}.
Definition set_book (w : worker) (aw : list pid) (awf : list (pid * list pid)) (pe : list (pid * list nat)) : worker :=
  {| w_procs := w_procs w; w_queue := w_queue w; w_spawning := w_spawning w; w_selecting := w_selecting w;
     w_awaited := aw; w_awaiters := awf; w_pending := pe; w_nsent := w_nsent w;
     w_sentlog := w_sentlog w; w_arrlog := w_arrlog w; w_dropped := w_dropped w |}.
Definition set_ghost (w : worker) (n : nat) (sl al dr : list (pid * msg)) : worker :=
  {| w_procs := w_procs w; w_queue := w_queue w; w_spawning := w_spawning w; w_selecting := w_selecting w;
     w_awaited := w_awaited w; w_awaiters := w_awaiters w; w_pending := w_pending w; w_nsent := n;
     w_sentlog := sl; w_arrlog := al; w_dropped := dr |}.

Definition upd_proc (p : pid) (f : proc -> proc) (w : worker) : worker :=
  match alookup p (w_procs w) with
  | Some pr => set_procs w (aset p (f pr) (w_procs w))
  | None => w
  end.

Definition with_res (r : option res) (pr : proc) : proc :=
  {| p_mail := p_mail pr; p_res := r; p_awaiting := p_awaiting pr; p_sel := p_sel pr; p_pers := p_pers pr;
     p_arrived := p_arrived pr; p_taken := p_taken pr |}.
Definition with_awaiting (a : list (pid * option res)) (pr : proc) : proc :=
  {| p_mail := p_mail pr; p_res := p_res pr; p_awaiting := a; p_sel := p_sel pr; p_pers := p_pers pr;
     p_arrived := p_arrived pr; p_taken := p_taken pr |}.
Definition with_mail (m ar tk : list msg) (pr : proc) : proc :=
  {| p_mail := m; p_res := p_res pr; p_awaiting := p_awaiting pr; p_sel := p_sel pr; p_pers := p_pers pr;
     p_arrived := ar; p_taken := tk |}.
Definition with_sel (s : option sel) (pr : proc) : proc :=
  {| p_mail := p_mail pr; p_res := p_res pr; p_awaiting := p_awaiting pr; p_sel := s; p_pers := p_pers pr;
     p_arrived := p_arrived pr; p_taken := p_taken pr |}.

(* Executor::queue.push_back *)
Definition enqueue (p : pid) (w : worker) : worker :=
  set_sched w (w_queue w ++ [p]) (w_spawning w) (w_selecting w).
(* `if self.selecting.remove(&p) { self.queue.push_back(p) }` — executor.rs:773, 849 *)
Definition wake_selecting (p : pid) (w : worker) : worker :=
  if mem p (w_selecting w)
  then set_sched w (w_queue w ++ [p]) (w_spawning w) (sremove p (w_selecting w))
  else w.
(* mark_spawning / mark_selecting, executor.rs:856-864: insert into the set, retain(!= p) on the queue *)
Definition mark_spawning (p : pid) (w : worker) : worker :=
  set_sched w (sremove p (w_queue w)) (sadd p (w_spawning w)) (w_selecting w).
Definition mark_selecting (p : pid) (w : worker) : worker :=
  set_sched w (sremove p (w_queue w)) (w_spawning w) (sadd p (w_selecting w)).
(* mark_active, executor.rs:871 (no longer used by the worker since the repair of F71: it also
   wakes a process parked in `spawning`) *)
Definition mark_active (p : pid) (w : worker) : worker :=
  if mem p (w_spawning w) || mem p (w_selecting w)
  then set_sched w (w_queue w ++ [p]) (sremove p (w_spawning w)) (sremove p (w_selecting w))
  else w.

(* does `awaiter` (still) await `awaited`: process.awaiting.contains_key *)
Definition awaits (awaiter awaited : pid) (w : worker) : bool :=
  match alookup awaiter (w_procs w) with
  | Some pr => match alookup awaited (p_awaiting pr) with Some _ => true | None => false end
  | None => false
  end.
(* Executor::notify_result with a value that carries no heap data, executor.rs:774: a result for a
   target that is no longer awaited (its select has completed) is not stored, the awaiter is only woken *)
Definition notify_result (awaiter awaited : pid) (r : res) (w : worker) : worker :=
  if awaits awaiter awaited w
  then wake_selecting awaiter (upd_proc awaiter (fun pr => with_awaiting (aset awaited (Some r) (p_awaiting pr)) pr) w)
  else wake_selecting awaiter w.
(* Worker::notify_result, worker.rs:566: an error completes an awaiter that still awaits the failed
   process, in place (no re-queue); a stale failure only wakes it *)
Definition worker_notify (awaiter awaited : pid) (r : res) (w : worker) : worker :=
  match r with
  | ROk _ => notify_result awaiter awaited r w
  | RErr _ => if awaits awaiter awaited w then upd_proc awaiter (with_res (Some r)) w else wake_selecting awaiter w
  end.

(* Executor::get_status restricted to what query_and_await asks: Completed | Sleeping *)
Definition completed_value (w : worker) (t : pid) : option res :=
  match alookup t (w_procs w) with
  | None => None
  | Some pr =>
    if mem t (w_queue w) || mem t (w_spawning w) || mem t (w_selecting w) then None
    else match p_res pr with Some (ROk v) => Some (ROk v) | _ => None end
  end.

(* Worker::query_and_await, worker.rs:479: one target *)
Definition query_one (awaiter : pid) (acc : worker * list (pid * option res)) (t : pid)
  : worker * list (pid * option res) :=
  let '(w, rs) := acc in
  match completed_value w t with
  | Some r => (w, aset t (Some r) rs)
  | None =>
    let aws := match alookup t (w_awaiters w) with Some l => l | None => [] end in
    (set_book w (sadd t (w_awaited w)) (aset t (aws ++ [awaiter]) (w_awaiters w)) (w_pending w), aset t None rs)
  end.

(* Worker::update_await_results, worker.rs:538 *)
Definition update_await (awaiter : pid) (results : list (pid * option res)) (w : worker) : worker :=
  let w1 := fold_left (fun w e => match snd e with Some r => worker_notify awaiter (fst e) r w | None => w end) results w in
  if existsb (fun e => match snd e with Some _ => true | None => false end) results then w1
  else wake_selecting awaiter w1.   (* worker.rs:556; before the repair of F71: mark_active *)

(* Worker::handle_command *)
Definition handle_cmd (c : cmd) (w : worker) : result (worker * list event) :=
  match c with
  | CNoop => Good (w, [])
  | CInspect req => Good (w, [EInspect req])
  | CStart p sleeping =>
    (* Executor::spawn_process(id, None | Some f, .., persistent = true), executor.rs:645 *)
    if sleeping then Good (set_procs w (aset p (new_proc true (Some (ROk 0))) (w_procs w)), [])
    else Good (enqueue p (set_procs w (aset p (new_proc true None) (w_procs w))), [])
  | CSpawn p => Good (enqueue p (set_procs w (aset p (new_proc false None) (w_procs w))), [])
  | CResume p =>
    (* Worker::resume_process, worker.rs:440 *)
    match alookup p (w_procs w) with
    | None => Fault (WorkerErr 1)
    | Some pr =>
      match p_res pr with
      | Some (RErr _) => Fault (WorkerErr 2)
      | Some (ROk _) => if p_pers pr then Good (enqueue p (upd_proc p (with_res None) w), []) else Fault (WorkerErr 3)
      | None => Fault (WorkerErr 3)
      end
    end
  | CQuery awaiter targets =>
    let '(w1, rs) := fold_left (query_one awaiter) targets (w, []) in
    Good (w1, [EResults awaiter rs])
  | CUpdate awaiter results => Good (update_await awaiter results w, [])
  | CDeliver t m =>
    (* Executor::notify_message, executor.rs:831 *)
    match alookup t (w_procs w) with
    | Some _ =>
      Good (wake_selecting t (upd_proc t (fun pr => with_mail (p_mail pr ++ [m]) (p_arrived pr ++ [m]) (p_taken pr) pr)
                                (set_ghost w (w_nsent w) (w_sentlog w) (w_arrlog w ++ [(t, m)]) (w_dropped w))), [])
    | None =>
      Good (wake_selecting t (set_ghost w (w_nsent w) (w_sentlog w) (w_arrlog w ++ [(t, m)]) (w_dropped w ++ [(t, m)])), [])
    end
  | CNotifySpawn p _ =>
    (* Executor::notify_spawn, executor.rs:734 *)
    if mem p (w_spawning w)
    then Good (set_sched w (match alookup p (w_procs w) with Some _ => w_queue w ++ [p] | None => w_queue w end)
                           (sremove p (w_spawning w)) (w_selecting w), [])
    else Good (w, [])
  | CGetResult req p =>
    (* Worker::get_result, worker.rs:599 *)
    match alookup p (w_procs w) with
    | None => Fault (WorkerErr 1)
    | Some pr =>
      match p_res pr with
      | Some r => Good (w, [EResultResp req r])
      | None =>
        let l := match alookup p (w_pending w) with Some l => l | None => [] end in
        Good (set_book w (w_awaited w) (w_awaiters w) (aset p (l ++ [req]) (w_pending w)), [])
      end
    end
  end.

Fixpoint handle_cmds (cs : list cmd) (w : worker) : result (worker * list event) :=
  match cs with
  | [] => Good (w, [])
  | c :: t =>
    '(w1, e1) <- handle_cmd c w ;;
    '(w2, e2) <- handle_cmds t w1 ;;
    Good (w2, e1 ++ e2)
  end.

(* ------------------------------------------------------------------ one Executor::step *)
Inductive act := ASpawn | ADeliver (t : pid) | AAwait (ts : list pid).

(* what the executed time slice did (see the header) *)
Record did := {
  d_taken : list nat;            (* mailbox indices taken by completed selects, sequentially *)
  d_sel : option sel;            (* select_state at the end of the slice *)
  d_forget : list pid;           (* process sources of the selects completed in this slice:
                                    complete_select removes them from `awaiting` (executor.rs:2671) *)
  d_act : option act;            (* the Action returned by Executor::step *)
  d_park : bool;                 (* process_select_sources found no ready source: mark_selecting *)
  d_fin : option res;            (* frames empty at the end of the slice: the result *)
  d_heapy : bool;                (* the result value references heap binaries *)
}.
Definition did_ok (d : did) : bool :=
  match d_fin d, d_act d with
  | Some _, Some ASpawn | Some _, Some (AAwait _) => false
  | Some _, _ => negb (d_park d)
  | None, Some (AAwait _) => negb (d_park d)
  | None, Some ASpawn => negb (d_park d)
  | None, _ => true
  end.

Record woracle := {
  o_pid : option pid;            (* the process the trace says executed instructions (None: idle) *)
  o_did : did;
  o_expired : list pid;          (* priority orders for the three HashMap/HashSet iterations *)
  o_awaiters : list pid;
  o_completed : list pid;
}.

(* check_expired_timeouts, executor.rs:2674 *)
Definition timed_out (now : nat) (w : worker) (p : pid) : bool :=
  match alookup p (w_procs w) with
  | Some pr =>
    match p_sel pr with
    | Some s => match sl_start s with
                | Some t0 => existsb (fun d => d <=? now - t0) (sl_timeouts s)
                | None => false end
    | None => false
    end
  | None => false
  end.
Definition expire (now : nat) (hint : list pid) (w : worker) : result worker :=
  let ex := filter (timed_out now w) (w_selecting w) in
  match order_by hint ex with
  | None => Fault (BadOracle 1)
  | Some o => Good (set_sched w (w_queue w ++ o) (w_spawning w) (filter (fun p => negb (mem p ex)) (w_selecting w)))
  end.

(* the awaiters loop at completion, executor.rs:1244-1280 *)
Definition notify_local (p : pid) (r : res) (heapy : bool) (w : worker) (q : pid) : worker :=
  match r with
  | ROk _ => if heapy then w  (* inject_heap_data with an empty heap fails; the error is dropped (.ok()) *)
             else notify_result q p r w
  | RErr _ => upd_proc q (with_res (Some r)) w
  end.
Definition local_awaiters (p : pid) (w : worker) : list pid :=
  map fst (filter (fun e => match alookup p (p_awaiting (snd e)) with Some _ => true | None => false end) (w_procs w)).

Definition finish (p : pid) (r : res) (heapy : bool) (hint : list pid) (w : worker) : result worker :=
  let w1 := upd_proc p (with_res (Some r)) w in
  match order_by hint (local_awaiters p w1) with
  | None => Fault (BadOracle 2)
  | Some o => Good (fold_left (notify_local p r heapy) o w1)
  end.

(* apply the slice of process p (already popped from the queue) on worker i *)
Definition run_slice (i : wid) (p : pid) (pr : proc) (d : did) (hint : list pid) (w : worker)
  : result (worker * list event) :=
  if negb (did_ok d) then Fault (BadOracle 3) else
  match take_seq (d_taken d) (p_mail pr) with
  | None => Fault (BadOracle 4)
  | Some (taken, mail') =>
    let pr0 := with_sel (d_sel d) (with_mail mail' (p_arrived pr) (p_taken pr ++ taken) pr) in
    let pr1 := with_awaiting (fold_left (fun a t => aremove t a) (d_forget d) (p_awaiting pr0)) pr0 in
    let w1 := set_procs w (aset p pr1 (w_procs w)) in
    (* the action *)
    let '(w2, ev) :=
      match d_act d with
      | None => (w1, [])
      | Some ASpawn => (mark_spawning p w1, [ESpawnA p])                       (* handle_spawn, executor.rs:1977 *)
      | Some (ADeliver t) =>                                                   (* handle_send, executor.rs:2028 *)
        let m := mkMsg p i (w_nsent w1) in
        (set_ghost w1 (S (w_nsent w1)) (w_sentlog w1 ++ [(t, m)]) (w_arrlog w1) (w_dropped w1), [EDeliverA t m])
      | Some (AAwait ts) =>                                                    (* initialize_select, executor.rs:2164 *)
        let w' := upd_proc p (fun q => with_awaiting (fold_left (fun a t => aset t None a) ts (p_awaiting q)) q) w1 in
        (mark_selecting p w', [EAwaitA p ts])
      end in
    let w3 := if d_park d then mark_selecting p w2 else w2 in
    match d_fin d with
    | Some r => w4 <- finish p r (d_heapy d) hint w3 ;; Good (w4, ev)
    | None =>
      (* executor.rs:1290: re-queue unless parked *)
      if mem p (w_spawning w3) || mem p (w_selecting w3) then Good (w3, ev) else Good (enqueue p w3, ev)
    end
  end.

Definition exec_step (i : wid) (now : nat) (o : woracle) (w : worker) : result (worker * list event) :=
  w1 <- expire now (o_expired o) w ;;
  match w_queue w1 with
  | [] => Good (w1, [])
  | p :: q' =>
    let w2 := set_sched w1 q' (w_spawning w1) (w_selecting w1) in
    match alookup p (w_procs w2) with
    | None => Good (w2, [])
    | Some pr =>
      if match o_pid o with Some p' => Nat.eqb p p' | None => false end
      then run_slice i p pr (o_did o) (o_awaiters o) w2
      else
        (* a process re-queued after it had already been completed with an error by a notification
           (frames cleared): the slice executes nothing and the completion path runs again *)
        match p_res pr with
        | Some (RErr e) => w3 <- finish p (RErr e) false (o_awaiters o) w2 ;; Good (w3, [])
        | _ => Fault (BadOracle 5)
        end
    end
  end.

(* Worker::check_completed_processes, worker.rs:791 *)
Definition result_of (w : worker) (p : pid) : option res :=
  match alookup p (w_procs w) with Some pr => p_res pr | None => None end.

Definition report_completed (acc : worker * list event) (t : pid) : worker * list event :=
  let '(w, ev) := acc in
  match result_of w t with
  | None => acc
  | Some r =>
    let aws := match alookup t (w_awaiters w) with Some l => l | None => [] end in
    (set_book w (sremove t (w_awaited w)) (aremove t (w_awaiters w)) (w_pending w),
     ev ++ map (fun a => EResults a [(t, Some r)]) aws)
  end.
Definition report_pending (acc : worker * list event) (e : pid * list nat) : worker * list event :=
  let '(w, ev) := acc in
  match result_of w (fst e) with
  | None => acc
  | Some r => (set_book w (w_awaited w) (w_awaiters w) (aremove (fst e) (w_pending w)),
               ev ++ map (fun req => EResultResp req r) (snd e))
  end.
Definition check_completed (hint : list pid) (w : worker) : result (worker * list event) :=
  let done := filter (fun t => match result_of w t with Some _ => true | None => false end) (w_awaited w) in
  match order_by hint done with
  | None => Fault (BadOracle 6)
  | Some o =>
    let acc := fold_left report_completed o (w, []) in
    Good (fold_left report_pending (w_pending (fst acc)) acc)
  end.

(* Worker::step, worker.rs:119 *)
Definition node_step (i : wid) (now : nat) (k : option nat) (o : woracle) (nd : node) : result node :=
  let '(now_cmds, later) := split_at k (n_cmd nd) in
  '(w1, e1) <- handle_cmds now_cmds (n_w nd) ;;
  '(w2, e2) <- exec_step i now o w1 ;;
  '(w3, e3) <- check_completed (o_completed o) w2 ;;
  Good {| n_w := w3; n_cmd := later; n_evt := n_evt nd ++ e1 ++ e2 ++ e3 |}.

(* ------------------------------------------------------------------ environment *)
Record pend := { pa_expected : list wid; pa_resp : list (wid * list (pid * option res)) }.
Record env := {
  e_router : list (pid * wid);       (* process_router *)
  e_next : pid;                      (* next_process_id *)
  e_pending : list (pid * pend);     (* pending_awaits *)
}.

Record sys := { s_nodes : list node; s_env : env; s_clock : nat }.

Definition push_cmd (w : wid) (c : cmd) (ns : list node) : list node :=
  update_nth w (fun nd => {| n_w := n_w nd; n_cmd := n_cmd nd ++ [c]; n_evt := n_evt nd |}) ns.

(* union of the per-worker answers (the keys are disjoint: a target lives on one worker) *)
Definition merge_resp (rs : list (wid * list (pid * option res))) : list (pid * option res) :=
  fold_left (fun acc e => fold_left (fun a x => aset (fst x) (snd x) a) (snd e) acc) rs [].

(* Environment::handle_event; nw = number of workers *)
Definition handle_event (nw : nat) (ev : event) (st : env * list node) : result (env * list node) :=
  let '(e, ns) := st in
  match ev with
  | ESpawnA caller =>
    (* handle_spawn, environment.rs:1172 (no resources: round-robin placement) *)
    let new := e_next e in
    let w := new mod nw in
    let e1 := {| e_router := aset new w (e_router e); e_next := S new; e_pending := e_pending e |} in
    let ns1 := push_cmd w (CSpawn new) ns in
    match alookup caller (e_router e1) with
    | None => Fault (EnvErr 1)
    | Some cw => Good (e1, push_cmd cw (CNotifySpawn caller new) ns1)
    end
  | EDeliverA t m =>
    match alookup t (e_router e) with
    | None => Fault (EnvErr 1)
    | Some w => Good (e, push_cmd w (CDeliver t m) ns)
    end
  | EAwaitA awaiter targets =>
    (* handle_await_processes, environment.rs:1063 *)
    if forallb (fun t => match alookup t (e_router e) with Some _ => true | None => false end) targets then
      let wof t := match alookup t (e_router e) with Some w => w | None => 0 end in
      let ws := nodup Nat.eq_dec (map wof targets) in
      let e1 := {| e_router := e_router e; e_next := e_next e;
                   e_pending := aset awaiter {| pa_expected := ws; pa_resp := [] |} (e_pending e) |} in
      Good (e1, fold_left (fun ns w => push_cmd w (CQuery awaiter (filter (fun t => Nat.eqb (wof t) w) targets)) ns) ws ns)
    else Fault (EnvErr 1)
  | EResults awaiter results =>
    (* handle_process_results, environment.rs:1104 *)
    let sender := match results with [] => None | (t, _) :: _ => alookup t (e_router e) end in
    match alookup awaiter (e_pending e) with
    | Some pa =>
      match sender with
      | None => Good (e, ns)
      | Some w =>
        (* `responses.entry(worker_id).or_default().extend(results)`: a worker's later answer is merged
           into its earlier one (since the repair of F8; before, it replaced it) *)
        let old := match alookup w (pa_resp pa) with Some l => l | None => [] end in
        let resp := aset w (fold_left (fun a x => aset (fst x) (snd x) a) results old) (pa_resp pa) in
        let expected := sremove w (pa_expected pa) in
        match expected with
        | [] =>
          match alookup awaiter (e_router e) with
          | None => Fault (EnvErr 1)
          | Some aw =>
            Good ({| e_router := e_router e; e_next := e_next e; e_pending := aremove awaiter (e_pending e) |},
                  push_cmd aw (CUpdate awaiter (merge_resp resp)) ns)
          end
        | _ :: _ =>
          Good ({| e_router := e_router e; e_next := e_next e;
                   e_pending := aset awaiter {| pa_expected := expected; pa_resp := resp |} (e_pending e) |}, ns)
        end
      end
    | None =>
      match alookup awaiter (e_router e) with
      | None => Fault (EnvErr 1)
      | Some aw => Good (e, push_cmd aw (CUpdate awaiter results) ns)
      end
    end
  | EResultResp _ _ => Good (e, ns)
  | EInspect _ => Good (e, ns)
  end.

Fixpoint handle_events (nw : nat) (evs : list event) (st : env * list node) : result (env * list node) :=
  match evs with
  | [] => Good st
  | ev :: t => st1 <- handle_event nw ev st ;; handle_events nw t st1
  end.

(* collect phase of Environment::step: the first ks[j] events (all, if ks is too short) of every worker *)
Fixpoint collect (ks : list nat) (ns : list node) : list event * list node :=
  match ns with
  | [] => ([], [])
  | nd :: t =>
    let k := match ks with [] => None | k :: _ => Some k end in
    let '(now_evs, later) := split_at k (n_evt nd) in
    let '(evs, t') := collect (tl ks) t in
    (now_evs ++ evs, {| n_w := n_w nd; n_cmd := n_cmd nd; n_evt := later |} :: t')
  end.

(* ------------------------------------------------------------------ client calls (the system is open:
   Repl / `quiv run` call these Environment methods from outside) *)
Inductive client :=
| XStart (sleeping : bool)         (* Environment::start_process(None | Some bytecode) *)
| XNoop (w : wid)                  (* one UpdateProgram / CompactLocals command to worker w *)
| XInspect (w : wid) (req : nat)   (* one Get* request to worker w *)
| XResume (p : pid)                (* resume_process *)
| XGetResult (p : pid) (req : nat). (* request_result *)

Inductive sched_action :=
| W (i : wid) (k : option nat) (o : woracle)
| E (ks : list nat)
| T (d : nat)
| X (c : client).

Definition client_step (c : client) (s : sys) : result sys :=
  let e := s_env s in
  let nw := length (s_nodes s) in
  match c with
  | XStart sleeping =>
    let p := e_next e in
    let w := p mod nw in
    Good {| s_nodes := push_cmd w (CStart p sleeping) (s_nodes s);
            s_env := {| e_router := aset p w (e_router e); e_next := S p; e_pending := e_pending e |};
            s_clock := s_clock s |}
  | XNoop w => Good {| s_nodes := push_cmd w CNoop (s_nodes s); s_env := e; s_clock := s_clock s |}
  | XInspect w req => Good {| s_nodes := push_cmd w (CInspect req) (s_nodes s); s_env := e; s_clock := s_clock s |}
  | XResume p =>
    match alookup p (e_router e) with
    | None => Good s                       (* the call returns ProcessNotFound to the client *)
    | Some w => Good {| s_nodes := push_cmd w (CResume p) (s_nodes s); s_env := e; s_clock := s_clock s |}
    end
  | XGetResult p req =>
    match alookup p (e_router e) with
    | None => Good s
    | Some w => Good {| s_nodes := push_cmd w (CGetResult req p) (s_nodes s); s_env := e; s_clock := s_clock s |}
    end
  end.

Definition sys_step (s : sys) (a : sched_action) : result sys :=
  match a with
  | W i k o =>
    match nth_error (s_nodes s) i with
    | None => Good s
    | Some nd =>
      nd2 <- node_step i (s_clock s) k o nd ;;
      Good {| s_nodes := update_nth i (fun _ => nd2) (s_nodes s); s_env := s_env s; s_clock := s_clock s |}
    end
  | E ks =>
    let '(evs, ns) := collect ks (s_nodes s) in
    '(e', ns') <- handle_events (length (s_nodes s)) evs (s_env s, ns) ;;
    Good {| s_nodes := ns'; s_env := e'; s_clock := s_clock s |}
  | T d => Good {| s_nodes := s_nodes s; s_env := s_env s; s_clock := s_clock s + d |}
  | X c => client_step c s
  end.

Fixpoint run (s : sys) (sigma : list sched_action) : result sys :=
  match sigma with
  | [] => Good s
  | a :: t => s' <- sys_step s a ;; run s' t
  end.

Definition init (nw : nat) : sys :=
  {| s_nodes := repeat {| n_w := new_worker; n_cmd := []; n_evt := [] |} nw;
     s_env := {| e_router := []; e_next := 0; e_pending := [] |};
     s_clock := 0 |}.
