(* ProtoRouted.v — C15 step_never_errs on M-Sys (sys/Proto.v), for every schedule and oracle:
   Environment::step never returns Err(ProcessNotFound).

   By ProtoErrs.step_errs_only the environment step fails only when a queued event names a process
   id that is not in process_router.  Here: `events_routed` is an invariant of every run from
   `init nw`, under ONE premise on the oracle: a Send / Await action of a time slice names
   ALLOCATED process ids (below next_process_id at the time of the slice) — the VM obtains pids only
   from spawn / self / messages, all allocated.  No premise on client calls is needed for this
   (a client's misuse surfaces as WorkerErr, never as EnvErr).

   The invariant (RInv): WF (ProtoWf) and
     - every pid below next_process_id is routed;
     - every queued event is routed, INCLUDING the awaiter of an AwaitAction (it becomes the
       awaiter of QueryAndAwait commands, of awaiters_for_target entries and of ProcessResults
       events, which the environment routes back);
     - the awaiter of every queued QueryAndAwait command is routed;
     - every awaiter recorded in a worker's awaiters_for_target is routed.
   It is proved per micro-step (ProtoMicro). *)
From Quiver Require Import sys.Proto sys.ProtoMsg sys.ProtoFifo sys.ProtoFail sys.ProtoWake sys.ProtoDeliver sys.ProtoWf
  sys.ProtoErrs sys.ProtoCommute sys.ProtoMicro sys.ProtoMicroWf sys.ProtoOps.

Definition routed (e : env) (p : pid) : Prop := alookup p (e_router e) <> None.

Definition ev_ok (e : env) (ev : event) : Prop :=
  match ev with
  | ESpawnA c => routed e c
  | EDeliverA t _ => routed e t
  | EAwaitA a ts => routed e a /\ Forall (routed e) ts
  | EResults a _ => routed e a
  | _ => True
  end.
Definition cmd_ok (e : env) (c : cmd) : Prop := match c with CQuery a _ => routed e a | _ => True end.
Definition aw_ok (e : env) (w : worker) : Prop := forall t l a, alookup t (w_awaiters w) = Some l -> In a l -> routed e a.
Definition node_ok (e : env) (nd : node) : Prop :=
  Forall (cmd_ok e) (n_cmd nd) /\ Forall (ev_ok e) (n_evt nd) /\ aw_ok e (n_w nd).
Definition nodes_ok (e : env) (ns : list node) : Prop := forall i nd, nth_error ns i = Some nd -> node_ok e nd.
Definition dom_ok (e : env) : Prop := forall p, p < e_next e -> routed e p.

Definition RInv (s : sys) : Prop := WF s /\ dom_ok (s_env s) /\ nodes_ok (s_env s) (s_nodes s).

Lemma ev_ok_event_routed e ev : ev_ok e ev -> event_routed e ev.
Proof. destruct ev; simpl; auto. intros (_&H); exact H. Qed.

Lemma RInv_events_routed s : RInv s -> events_routed s.
Proof.
  intros (_&_&N) i nd ev Hn Hin. apply ev_ok_event_routed. destruct (N i nd Hn) as (_&E&_).
  rewrite Forall_forall in E. apply E, Hin.
Qed.

(* ------------------------------------------------------------------ the oracle premise *)
Definition act_allocatedb (next : pid) (a : option act) : bool :=
  match a with
  | Some (ADeliver t) => t <? next
  | Some (AAwait ts) => forallb (fun t => t <? next) ts
  | _ => true
  end.
(* as a premise of an executor micro-step / of a Worker::step *)
Definition pids_honest : env -> nat -> woracle -> worker -> Prop :=
  fun e _ o _ => act_allocatedb (e_next e) (d_act (o_did o)) = true.
(* as a boolean on schedules: every Worker::step's oracle names allocated pids only *)
Definition pid_honest_action (s : sys) (a : sched_action) : bool :=
  match a with W _ _ o => act_allocatedb (e_next (s_env s)) (d_act (o_did o)) | _ => true end.
Fixpoint pid_honest_run (s : sys) (sigma : list sched_action) : bool :=
  match sigma with
  | [] => true
  | a :: t => pid_honest_action s a && match sys_step s a with Good s' => pid_honest_run s' t | Fault _ => true end
  end.

Lemma pid_honest_hon_run : forall sigma s, pid_honest_run s sigma = true -> hon_run pids_honest s sigma.
Proof.
  induction sigma as [|a sigma IH]; intros s H; simpl in *; [exact I|].
  apply andb_true_iff in H. destruct H as (Ha&Ht). split.
  - destruct a as [i k o| | |]; simpl; auto.
    destruct (nth_error (s_nodes s) i) as [nd|]; [|exact I].
    destruct (handle_cmds _ _) as [[w1 e1]|]; [exact Ha|exact I].
  - destruct (sys_step s a) as [s'|]; [apply IH; exact Ht|exact I].
Qed.

(* ------------------------------------------------------------------ monotonicity, pushes *)
Lemma node_ok_mono e e' nd : (forall p, routed e p -> routed e' p) -> node_ok e nd -> node_ok e' nd.
Proof.
  intros M (C&E&A). split; [|split].
  - eapply Forall_impl; [|exact C]. intros c Hc. destruct c; simpl in *; auto.
  - eapply Forall_impl; [|exact E]. intros ev Hev. destruct ev; simpl in *; auto.
    destruct Hev as (H1&H2). split; [auto|]. eapply Forall_impl; [|exact H2]. auto.
  - intros t l a Hl Ha. apply M. apply (A t l a Hl Ha).
Qed.
Lemma nodes_ok_mono e e' ns : (forall p, routed e p -> routed e' p) -> nodes_ok e ns -> nodes_ok e' ns.
Proof. intros M N i nd Hn. eapply node_ok_mono; [exact M|apply (N i nd Hn)]. Qed.

Lemma nodes_ok_push e ns w c : nodes_ok e ns -> cmd_ok e c -> nodes_ok e (push_cmd w c ns).
Proof.
  intros N Hc i nd Hn. rewrite nth_error_push in Hn. destruct (nth_error ns i) as [nd0|] eqn:En; [|discriminate].
  inversion Hn; subst nd; clear Hn. destruct (N i nd0 En) as (C&E&A).
  destruct (i =? w); [|split; [|split]; assumption]. split; [|split]; simpl; try assumption.
  apply Forall_app. split; [exact C|constructor; [exact Hc|constructor]].
Qed.
Lemma nodes_ok_fold_push {A} (mk : A -> cmd) (wof : A -> wid) e l : (forall a, cmd_ok e (mk a)) -> forall ns,
  nodes_ok e ns -> nodes_ok e (fold_left (fun ns a => push_cmd (wof a) (mk a) ns) l ns).
Proof. intros Hm. induction l as [|a l IH]; intros ns H; simpl; [exact H|]. apply IH. apply nodes_ok_push; [exact H|apply Hm]. Qed.

Lemma nodes_ok_set_node e ns i nd' : nodes_ok e ns -> node_ok e nd' -> nodes_ok e (set_node i nd' ns).
Proof.
  intros N H j x Hx. destruct (Nat.eq_dec j i) as [->|Hne].
  - destruct (nth_error ns i) as [nd|] eqn:Ei.
    + rewrite (nth_set_node_same _ _ _ _ Ei) in Hx. inversion Hx; subst x. exact H.
    + unfold set_node in Hx. rewrite (update_nth_none _ _ _ Ei) in Hx. congruence.
  - rewrite nth_set_node_other in Hx by exact Hne. apply (N j x Hx).
Qed.

Lemma routed_alloc e w p : routed e p -> routed {| e_router := aset (e_next e) w (e_router e); e_next := S (e_next e); e_pending := e_pending e |} p.
Proof. unfold routed. simpl. rewrite alookup_aset. destruct (p =? e_next e); [discriminate|auto]. Qed.
Lemma dom_alloc e w : dom_ok e -> dom_ok {| e_router := aset (e_next e) w (e_router e); e_next := S (e_next e); e_pending := e_pending e |}.
Proof.
  intros D p Hp. simpl in Hp. destruct (Nat.eq_dec p (e_next e)) as [->|Hne].
  - unfold routed. simpl. rewrite alookup_aset_eq. discriminate.
  - apply routed_alloc. apply D. lia.
Qed.

(* ------------------------------------------------------------------ Worker::handle_command *)
Lemma bk_awaiters w w' : bk w' = bk w -> w_awaiters w' = w_awaiters w.
Proof. unfold bk. intros H. inversion H. reflexivity. Qed.

Lemma aw_ok_same e w w' : w_awaiters w' = w_awaiters w -> aw_ok e w -> aw_ok e w'.
Proof. intros E A t l a. rewrite E. apply A. Qed.

Lemma query_fold_routed e a : routed e a -> forall ts w rs, aw_ok e w -> aw_ok e (fst (fold_left (query_one a) ts (w, rs))).
Proof.
  intros Ha. induction ts as [|t ts IH]; intros w rs A; cbn [fold_left]; [exact A|].
  assert (Q: aw_ok e (fst (query_one a (w, rs) t))).
  { unfold query_one. destruct (completed_value w t); simpl; [exact A|].
    intros t' l x Hl Hx. simpl in Hl. rewrite alookup_aset in Hl. destruct (t' =? t) eqn:Et.
    - inversion Hl; subst l. apply in_app_or in Hx. destruct Hx as [Hx|[<-|[]]]; [|exact Ha].
      destruct (alookup t (w_awaiters w)) as [l0|] eqn:El; [apply (A t l0 x El Hx)|contradiction].
    - apply (A t' l x Hl Hx). }
  destruct (query_one a (w, rs) t) as [w1 rs1]. simpl in Q. apply IH. exact Q.
Qed.

Lemma handle_cmd_routed e c w w' evs :
  cmd_ok e c -> aw_ok e w -> handle_cmd c w = Good (w', evs) -> aw_ok e w' /\ Forall (ev_ok e) evs.
Proof.
  intros Hc A H. destruct c; simpl in H.
  - inversion H; subst. split; [exact A|constructor].
  - inversion H; subst. split; [exact A|constructor; [exact I|constructor]].
  - destruct sleeping; inversion H; subst; (split; [eapply aw_ok_same; [|exact A]; reflexivity|constructor]).
  - inversion H; subst. split; [eapply aw_ok_same; [|exact A]; reflexivity|constructor].
  - destruct (alookup p (w_procs w)) as [pr|]; [|discriminate].
    destruct (p_res pr) as [[v|e0]|]; try discriminate. destruct (p_pers pr); [|discriminate]. inversion H; subst.
    split; [|constructor]. eapply aw_ok_same; [|exact A]. simpl. apply bk_awaiters, bk_upd_proc.
  - destruct (fold_left (query_one awaiter) targets (w, [])) as [w1 rs] eqn:E. inversion H; subst.
    split; [|constructor; [exact Hc|constructor]].
    pose proof (query_fold_routed e awaiter Hc targets w [] A) as Q. rewrite E in Q. exact Q.
  - inversion H; subst. split; [|constructor]. eapply aw_ok_same; [|exact A]. apply bk_awaiters, bk_update_await.
  - destruct (alookup target (w_procs w)); inversion H; subst; (split; [|constructor]); (eapply aw_ok_same; [|exact A]).
    + apply bk_awaiters. rewrite bk_wake, bk_upd_proc. reflexivity.
    + apply bk_awaiters. rewrite bk_wake. reflexivity.
  - destruct (mem p (w_spawning w)); inversion H; subst; (split; [|constructor]); [eapply aw_ok_same; [|exact A]; reflexivity|exact A].
  - destruct (alookup p (w_procs w)) as [pr|]; [|discriminate].
    destruct (p_res pr); inversion H; subst; [split; [exact A|constructor; [exact I|constructor]]|].
    split; [|constructor]. eapply aw_ok_same; [|exact A]. reflexivity.
Qed.

(* ------------------------------------------------------------------ Environment::handle_event *)
Lemma routed_pending e pend p : routed {| e_router := e_router e; e_next := e_next e; e_pending := pend |} p <-> routed e p.
Proof. unfold routed. simpl. reflexivity. Qed.

Lemma handle_event_routed nw ev e ns e' ns' :
  ev_ok e ev -> nodes_ok e ns -> dom_ok e ->
  handle_event nw ev (e, ns) = Good (e', ns') -> nodes_ok e' ns' /\ dom_ok e'.
Proof.
  intros Hev N D H. destruct ev; unfold handle_event in H; cbn -[Nat.modulo nodup] in H.
  - (* SpawnAction *)
    revert H. match goal with |- context [@alookup ?A caller ?l] => destruct (@alookup A caller l) as [cw|] end; intros H; [|discriminate].
    inversion H; subst e' ns'; clear H. split; [|apply dom_alloc; exact D].
    apply nodes_ok_push; [apply nodes_ok_push|exact I]; [|exact I].
    eapply nodes_ok_mono; [|exact N]. intros p. apply routed_alloc.
  - destruct (alookup target (e_router e)) as [w|]; [|discriminate]. inversion H; subst e' ns'.
    split; [apply nodes_ok_push; [exact N|exact I]|exact D].
  - (* AwaitAction *)
    revert H. match goal with |- context [forallb ?f targets] => destruct (forallb f targets) end; intros H; [|discriminate].
    inversion H; subst e' ns'; clear H. destruct Hev as (Ha&_). split; [|exact D].
    set (wof := fun t => match alookup t (e_router e) with Some w => w | None => 0 end).
    apply (nodes_ok_fold_push (fun w => CQuery awaiter (filter (fun t => wof t =? w) targets)) (fun w => w)); [intros w; exact Ha|exact N].
  - (* ProcessResults *)
    destruct (alookup awaiter (e_pending e)) as [pa|].
    + destruct (match results with [] => None | (t, _) :: _ => alookup t (e_router e) end) as [w|].
      * destruct (sremove w (pa_expected pa)).
        -- destruct (alookup awaiter (e_router e)) as [aw|]; [|discriminate]. inversion H; subst e' ns'.
           split; [apply nodes_ok_push; [exact N|exact I]|exact D].
        -- inversion H; subst e' ns'. split; [exact N|exact D].
      * inversion H; subst e' ns'. split; assumption.
    + destruct (alookup awaiter (e_router e)) as [aw|]; [|discriminate]. inversion H; subst e' ns'.
      split; [apply nodes_ok_push; [exact N|exact I]|exact D].
  - inversion H; subst e' ns'. split; assumption.
  - inversion H; subst e' ns'. split; assumption.
Qed.

(* ------------------------------------------------------------------ every micro-step *)
Lemma Forall_tail {A} (P : A -> Prop) a l : Forall P (a :: l) -> Forall P l.
Proof. intros H; inversion H; assumption. Qed.

Theorem RInv_mstep s l s' : RInv s -> mstep s l s' -> hon_label pids_honest s l -> RInv s'.
Proof.
  intros (W&D&N) M Hon. split; [eapply WF_mstep; eassumption|].
  destruct M as [ns e clk i nd c rest w' evs Hn Hc Hh
                |ns e clk i nd o w' evs Hn Hx
                |ns e clk i nd hint w' evs Hn Hk
                |ns e clk i nd ev rest e' ns' Hn Hq He
                |ns e clk d
                |s c s' Hc]; simpl in *.
  - (* command *)
    split; [exact D|]. destruct (N i nd Hn) as (C&E&A). rewrite Hc in C.
    destruct (handle_cmd_routed e c (n_w nd) w' evs) as (A'&E'); [inversion C; assumption|exact A|exact Hh|].
    apply nodes_ok_set_node; [exact N|]. split; [|split]; simpl; [eapply Forall_tail; exact C|apply Forall_app; split; assumption|exact A'].
  - (* executor step *)
    split; [exact D|]. destruct (N i nd Hn) as (C&E&A).
    apply nodes_ok_set_node; [exact N|]. split; [|split]; simpl; [exact C| |].
    + apply Forall_app. split; [exact E|].
      destruct W as (_&NI). simpl in NI. destruct (NI i nd Hn) as (_&Hr&_).
      specialize (Hon nd Hn). unfold pids_honest in Hon.
      destruct (exec_step_events _ _ _ _ _ _ Hx) as [->|(p&Hp&_&Hev)]; [constructor|].
      assert (Rp: routed e p) by (unfold routed; rewrite (Hr p Hp); discriminate).
      destruct Hev as [(_&->)|[(t&m&Ha&->)|(ts&Ha&->)]]; (constructor; [|constructor]); simpl.
      * exact Rp.
      * rewrite Ha in Hon. simpl in Hon. apply D. apply Nat.ltb_lt. exact Hon.
      * split; [exact Rp|]. rewrite Ha in Hon. simpl in Hon. rewrite forallb_forall in Hon.
        apply Forall_forall. intros t Ht. apply D. apply Nat.ltb_lt. apply Hon, Ht.
    + eapply aw_ok_same; [|exact A]. apply bk_awaiters. eapply bk_exec_step; exact Hx.
  - (* check_completed *)
    split; [exact D|]. destruct (N i nd Hn) as (C&E&A).
    destruct (check_completed_spec _ _ _ _ Hk) as (_&_&_&_&S5&_&_&_&S9).
    apply nodes_ok_set_node; [exact N|]. split; [|split]; simpl; [exact C| |].
    + apply Forall_app. split; [exact E|]. apply Forall_forall. intros x Hx.
      destruct (S9 x Hx) as [(a&t&r&->&(l&Hl&Ha)&_)|(req&r&t0&->&_)]; simpl; [apply (A t l a Hl Ha)|exact I].
    + intros t l a Hl Ha. apply (A t l a (S5 t l Hl) Ha).
  - (* event *)
    destruct (N i nd Hn) as (C&E&A). rewrite Hq in E.
    assert (Hev: ev_ok e ev) by (inversion E; assumption).
    destruct (handle_event_routed _ _ _ _ _ _ Hev (nodes_ok_set_node e ns i (mk_node (n_w nd) (n_cmd nd) rest) N
                (conj C (conj (Forall_tail _ _ _ E) A))) D He) as (N'&D').
    split; assumption.
  - split; assumption.
  - (* client *)
    unfold client_step in Hc. destruct c.
    + inversion Hc; subst s'; clear Hc. simpl. split; [apply dom_alloc; exact D|].
      apply nodes_ok_push; [|exact I]. eapply nodes_ok_mono; [|exact N]. intros p. apply routed_alloc.
    + inversion Hc; subst s'. simpl. split; [exact D|apply nodes_ok_push; [exact N|exact I]].
    + inversion Hc; subst s'. simpl. split; [exact D|apply nodes_ok_push; [exact N|exact I]].
    + destruct (alookup p (e_router (s_env s))); inversion Hc; subst s'; simpl; (split; [exact D|]); [apply nodes_ok_push; [exact N|exact I]|exact N].
    + destruct (alookup p (e_router (s_env s))); inversion Hc; subst s'; simpl; (split; [exact D|]); [apply nodes_ok_push; [exact N|exact I]|exact N].
Qed.

Lemma RInv_init nw : RInv (init nw).
Proof.
  split; [apply WF_init|]. split; [intros p Hp; simpl in Hp; lia|].
  intros i nd Hn. simpl in Hn. apply nth_error_In, repeat_spec in Hn. subst nd.
  split; [constructor|]. split; [constructor|]. intros t l a Hl. discriminate.
Qed.

(* C15: in every state reachable from init under the oracle premise, every queued event is routed *)
Theorem events_always_routed : forall nw sigma s,
  pid_honest_run (init nw) sigma = true -> run (init nw) sigma = Good s -> events_routed s.
Proof.
  intros nw sigma s Hh H. apply RInv_events_routed.
  eapply (micro_invariant RInv pids_honest RInv_mstep); [apply RInv_init|apply pid_honest_hon_run; exact Hh|exact H].
Qed.

(* C15 step_never_errs: for every schedule and every oracle that names allocated pids only, no
   step of a run from init fails with an environment error *)
Lemma never_env_err : forall sigma s, RInv s -> pid_honest_run s sigma = true -> forall n, run s sigma <> Fault (EnvErr n).
Proof.
  induction sigma as [|a sigma IH]; intros s HI Hh n H; simpl in *; [discriminate|].
  apply andb_true_iff in Hh. destruct Hh as (Ha&Ht).
  destruct (sys_step s a) as [s1|f] eqn:E; cbn [rbind] in H.
  - apply (IH s1) with (n := n); [|exact Ht|exact H].
    eapply (step_inv RInv pids_honest RInv_mstep); [exact HI| |exact E].
    assert (Hr: hon_run pids_honest s [a]) by (apply pid_honest_hon_run; simpl; rewrite Ha, E; reflexivity).
    apply Hr.
  - inversion H; subst f. pose proof (step_errs_only s a _ E) as C. destruct a as [i k o|ks|d|c]; simpl in C.
    + destruct C as (nd&_&[(m&Hm)|((m&Hm)&_)]); discriminate.
    + apply C. apply RInv_events_routed. exact HI.
    + exact C.
    + exact C.
Qed.

Theorem step_never_errs : forall nw sigma,
  pid_honest_run (init nw) sigma = true -> forall n, run (init nw) sigma <> Fault (EnvErr n).
Proof. intros nw sigma Hh. apply never_env_err; [apply RInv_init|exact Hh]. Qed.

(* non-vacuity: a two-worker schedule with a spawn, a send across workers, an await across workers,
   the completion report and the update — 11 actions, the premise holds, the run is Good and ends
   with the awaiter knowing the result *)
Definition routed_schedule : list sched_action :=
  [ X (XStart false);                                                            (* pid 0 on worker 0 *)
    W 0 None (orc (Some 0) (d_act_ ASpawn));                                     (* 0: spawn *)
    E [];                                                                        (* pid 1 -> worker 1; NotifySpawn -> worker 0 *)
    W 1 None (orc (Some 1) {| d_taken := []; d_sel := Some (a_sel []); d_forget := []; d_act := None; d_park := true; d_fin := None; d_heapy := false |});
    W 0 None (orc (Some 0) (d_act_ (ADeliver 1)));                               (* 0: send to 1 *)
    W 0 None (orc (Some 0) {| d_taken := []; d_sel := Some (a_sel [1]); d_forget := []; d_act := Some (AAwait [1]); d_park := false; d_fin := None; d_heapy := false |});
    E [];                                                                        (* DeliverMessage, QueryAndAwait -> worker 1 *)
    W 1 None (orc (Some 1) {| d_taken := [0]; d_sel := None; d_forget := []; d_act := None; d_park := false; d_fin := Some (ROk 5); d_heapy := false |});
    E [];                                                                        (* the answers of worker 1 *)
    (* UpdateAwaitResults wakes 0, which completes its select and finishes *)
    W 0 None (orc (Some 0) {| d_taken := []; d_sel := None; d_forget := [1]; d_act := None; d_park := false; d_fin := Some (ROk 6); d_heapy := false |});
    E [] ].

Example step_never_errs_applies :
  pid_honest_run (init 2) routed_schedule = true /\
  exists s nd pr, run (init 2) routed_schedule = Good s /\ nth_error (s_nodes s) 0 = Some nd /\
    alookup 0 (w_procs (n_w nd)) = Some pr /\ p_res pr = Some (ROk 6) /\ e_next (s_env s) = 2.
Proof.
  split; [vm_compute; reflexivity|]. vm_compute. do 3 eexists. repeat split.
Qed.
