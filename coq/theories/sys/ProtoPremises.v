(* ProtoPremises.v — the oracle premises of the global theorems of C03/C04/C15 as BOOLEAN functions
   of (state, scheduler action), so that the trace-replay driver (coq/driver/proto_main.ml) can
   evaluate them on every action of a real qv_sim trace:
     pid_honest_action   (ProtoRouted)   Send / Await name allocated pids          C15 step_never_errs
     await_honest_stepb  (ProtoAwaitThm) no slice for a finished process; an Await leaves no stale key
                                                                                   C04 await_backed, quiescent_no_ready
     park_honest_stepb   (here)          = honest_step (ProtoParked)               C04 parked_has_no_unseen_message
     time_honest_stepb   (here)          = time_honest (ProtoParked)               C04 no_timeout_due_at_last_check
     resume_honest_stepb (here)          = okc (ProtoNoErr): an honest resume_process     C15 step_faults_only_bad_oracle_resume
   with soundness lemmas: a schedule on which the boolean holds at every action satisfies the Prop
   premise of the theorem. *)
From Quiver Require Import sys.Proto sys.ProtoMsg sys.ProtoFifo sys.ProtoFail sys.ProtoWake sys.ProtoDeliver sys.ProtoWf
  sys.ProtoParked sys.ProtoRouted sys.ProtoAwait sys.ProtoAwaitThm sys.ProtoMicro sys.ProtoSleep sys.ProtoNoErr.

Definition time_honestb (now : nat) (d : did) : bool :=
  if d_park d || match d_act d with Some (AAwait _) => true | _ => false end then
    match d_sel d with
    | Some s => match sl_start s with
                | Some t0 => forallb (fun dl => negb (dl <=? now - t0)) (sl_timeouts s)
                | None => true end
    | None => true
    end
  else true.
Lemma time_honestb_sound now d : time_honestb now d = true -> time_honest now d.
Proof.
  unfold time_honestb, time_honest. intros H Hr s Hs.
  assert (Hb: d_park d || match d_act d with Some (AAwait _) => true | _ => false end = true).
  { destruct Hr as [->|(ts&->)]; [reflexivity|apply orb_true_r]. }
  rewrite Hb, Hs in H. destruct (sl_start s); [exact H|exact I].
Qed.
(* a slice that ends runnable inside a select whose timeout is already due is NOT a violation *)
Example time_honest_ignores_runnable_slices :
  time_honestb 0 {| d_taken := []; d_sel := Some {| sl_targets := []; sl_cursors := []; sl_timeouts := [0]; sl_start := Some 0 |};
                    d_forget := []; d_act := None; d_park := false; d_fin := None; d_heapy := false |} = true /\
  time_honestb 0 {| d_taken := []; d_sel := Some {| sl_targets := []; sl_cursors := []; sl_timeouts := [0]; sl_start := Some 0 |};
                    d_forget := []; d_act := None; d_park := true; d_fin := None; d_heapy := false |} = false.
Proof. split; reflexivity. Qed.

Definition park_honestb (d : did) (mail' : list msg) : bool :=
  (if d_park d then match d_sel d with
                    | Some s => match sl_start s with Some _ => forallb (fun c => c =? length mail') (sl_cursors s) | None => true end
                    | None => true end else true) &&
  match d_act d with
  | Some (AAwait _) => match d_sel d with Some s => match sl_start s with None => true | Some _ => false end | None => true end
  | _ => true
  end.
Lemma park_honestb_sound d mail' : park_honestb d mail' = true -> park_honest d mail'.
Proof.
  unfold park_honestb, park_honest. intros H. apply andb_true_iff in H. destruct H as (H1&H2). split.
  - intros Hp s Hs Hn. rewrite Hp, Hs in H1. destruct (sl_start s); [|exfalso; apply Hn; reflexivity].
    apply Forall_forall. intros c Hc. rewrite forallb_forall in H1. apply Nat.eqb_eq. apply H1, Hc.
  - intros ts Ha s Hs. rewrite Ha, Hs in H2. destruct (sl_start s); [discriminate|reflexivity].
Qed.

(* a select woken before all its awaited targets are reported parks again without scanning (repair of
   F72): start unset, cursor not at the end of the mailbox — not a violation; with the start set it is *)
Example park_honest_ignores_unstarted_selects :
  park_honestb {| d_taken := []; d_sel := Some {| sl_targets := [1; 2]; sl_cursors := [0]; sl_timeouts := []; sl_start := None |};
                  d_forget := []; d_act := None; d_park := true; d_fin := None; d_heapy := false |} [mkMsg 3 0 0] = true /\
  park_honestb {| d_taken := []; d_sel := Some {| sl_targets := [1; 2]; sl_cursors := [0]; sl_timeouts := []; sl_start := Some 0 |};
                  d_forget := []; d_act := None; d_park := true; d_fin := None; d_heapy := false |} [mkMsg 3 0 0] = false.
Proof. split; reflexivity. Qed.

Definition park_honest_stepb (s : sys) (a : sched_action) : bool :=
  match a with
  | W i k o => match nth_error (s_nodes s) i with
               | Some nd => match slice_input i (s_clock s) k o nd with
                            | Some (_, _, mail') => park_honestb (o_did o) mail'
                            | None => true end
               | None => true end
  | _ => true
  end.
Lemma park_honest_stepb_sound s a : park_honest_stepb s a = true -> honest_step s a.
Proof.
  destruct a as [i k o| | |]; simpl; auto. destruct (nth_error (s_nodes s) i) as [nd|]; [|auto].
  destruct (slice_input i (s_clock s) k o nd) as [[[p pr] mail']|]; [apply park_honestb_sound|auto].
Qed.
Fixpoint park_honest_runb (s : sys) (sigma : list sched_action) : bool :=
  match sigma with
  | [] => true
  | a :: t => park_honest_stepb s a && match sys_step s a with Good s' => park_honest_runb s' t | Fault _ => true end
  end.
Lemma park_honest_runb_sound : forall sigma s, park_honest_runb s sigma = true -> honest_run s sigma.
Proof.
  induction sigma as [|a sigma IH]; intros s H; simpl in *; [exact I|].
  apply andb_true_iff in H. destruct H as (Ha&Ht). split; [apply park_honest_stepb_sound; exact Ha|].
  destruct (sys_step s a); [apply IH; exact Ht|exact I].
Qed.

Definition time_honest_stepb (s : sys) (a : sched_action) : bool :=
  match a with W _ _ o => time_honestb (s_clock s) (o_did o) | _ => true end.

(* an honest resume_process call *)
Definition sleepingb (q : pid) (w : worker) : bool :=
  match alookup q (w_procs w) with
  | Some pr => match p_res pr with
               | Some (ROk _) => p_pers pr && match p_awaiting pr with [] => true | _ => false end
               | _ => false end
  | None => false
  end.
Lemma sleepingb_sound q w : sleepingb q w = true -> sleeping q w.
Proof.
  unfold sleepingb, sleeping. destruct (alookup q (w_procs w)) as [pr|]; [|discriminate].
  destruct (p_res pr) as [[v|e]|] eqn:Er; try discriminate. intros H. apply andb_true_iff in H. destruct H as (H1&H2).
  exists pr, v. split; [reflexivity|]. split; [exact Er|]. split; [exact H1|]. destruct (p_awaiting pr); [reflexivity|discriminate].
Qed.
Definition resume_honest_stepb (s : sys) (a : sched_action) : bool :=
  match a with
  | X (XResume p) =>
    match alookup p (e_router (s_env s)) with
    | Some w => match nth_error (s_nodes s) w with
                | Some nd =>
                  (sleepingb p (n_w nd) || existsb (fun c => match c with CStart p' true => p' =? p | _ => false end) (n_cmd nd)) &&
                  forallb (fun c => match c with CResume p' => negb (p' =? p) | _ => true end) (n_cmd nd)
                | None => true end
    | None => true end
  | _ => true
  end.
Lemma resume_honest_stepb_sound s a : resume_honest_stepb s a = true -> match a with X c => okc s c | _ => True end.
Proof.
  destruct a as [| | |c]; simpl; auto. destruct c; simpl; auto.
  destruct (alookup p (e_router (s_env s))) as [w|]; [|auto]. destruct (nth_error (s_nodes s) w) as [nd|]; [|auto].
  intros H. apply andb_true_iff in H. destruct H as (H1&H2). split.
  - apply orb_true_iff in H1. destruct H1 as [H1|H1]; [left; apply sleepingb_sound; exact H1|right].
    apply existsb_exists in H1. destruct H1 as (c&Hc&Hm). destruct c as [| |p0 sl| | | | | | |]; try discriminate. destruct sl; [|discriminate].
    apply Nat.eqb_eq in Hm. subst. exact Hc.
  - intros c0 Hc0 ->. rewrite forallb_forall in H2. specialize (H2 _ Hc0). simpl in H2. rewrite Nat.eqb_refl in H2. discriminate.
Qed.
Fixpoint resume_honest_runb (s : sys) (sigma : list sched_action) : bool :=
  match sigma with
  | [] => true
  | a :: t => resume_honest_stepb s a && match sys_step s a with Good s' => resume_honest_runb s' t | Fault _ => true end
  end.
Lemma resume_honest_runb_sound : forall sigma s, resume_honest_runb s sigma = true -> resume_honest_run s sigma.
Proof.
  unfold resume_honest_run. induction sigma as [|a sigma IH]; intros s H; simpl in *; [exact I|].
  apply andb_true_iff in H. destruct H as (Ha&Ht). split; [apply resume_honest_stepb_sound; exact Ha|].
  destruct (sys_step s a); [apply IH; exact Ht|exact I].
Qed.

(* non-vacuity of step_faults_only_bad_oracle_resume: a process started sleeping, resumed before its
   StartProcess is handled, run to completion, and resumed again *)
Definition resume_schedule : list sched_action :=
  [ X (XStart true); X (XResume 0);
    W 0 None (orc (Some 0) {| d_taken := []; d_sel := None; d_forget := []; d_act := None; d_park := false; d_fin := Some (ROk 9); d_heapy := false |});
    X (XResume 0);
    W 0 None (orc (Some 0) {| d_taken := []; d_sel := None; d_forget := []; d_act := None; d_park := false; d_fin := Some (ROk 10); d_heapy := false |}) ].
Example honest_resumes_apply :
  pid_honest_run (init 1) resume_schedule = true /\ resume_honest_run (init 1) resume_schedule /\
  exists s nd pr, run (init 1) resume_schedule = Good s /\ nth_error (s_nodes s) 0 = Some nd /\
    alookup 0 (w_procs (n_w nd)) = Some pr /\ p_res pr = Some (ROk 10).
Proof.
  split; [vm_compute; reflexivity|]. split; [apply resume_honest_runb_sound; vm_compute; reflexivity|].
  vm_compute. do 3 eexists. repeat split.
Qed.
(* ... and a dishonest one (resume of a running process) is flagged and does fail *)
Example dishonest_resume_flagged :
  resume_honest_runb (init 1) [X (XStart false); X (XResume 0)] = false /\
  run (init 1) [X (XStart false); X (XResume 0); W 0 None (orc None idle_did)] = Fault (WorkerErr 3).
Proof. split; vm_compute; reflexivity. Qed.

(* all four, for the driver: (pid_honest, await_honest, park_honest, time_honest) *)
Definition premises_step (s : sys) (a : sched_action) : (bool * bool) * (bool * bool) :=
  ((pid_honest_action s a, await_honest_stepb s a), (park_honest_stepb s a, time_honest_stepb s a)).

(* negative control: a Send to a pid that was never allocated is flagged *)
Example pid_honest_flags_unallocated_send :
  exists s, sys_step (init 1) (X (XStart false)) = Good s /\
    pid_honest_action s (W 0 None (orc (Some 0) (d_act_ (ADeliver 7)))) = false /\
    pid_honest_action s (W 0 None (orc (Some 0) (d_act_ (ADeliver 0)))) = true.
Proof. eexists. split; [reflexivity|]. split; reflexivity. Qed.
