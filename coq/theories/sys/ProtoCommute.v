(* ProtoCommute.v — C03 ingredients on M-Sys (sys/Proto.v): steps of different workers commute;
   a time slice does not depend on the worker it runs on except for the ghost stamp. *)
From Quiver Require Import sys.Proto.

Lemma nth_error_update_nth_neq {A} (f : A -> A) l i j :
  i <> j -> nth_error (update_nth i f l) j = nth_error l j.
Proof.
  revert i j. induction l as [|a l IH]; intros i j Hij; destruct i, j; simpl; auto; try congruence.
Qed.

Lemma nth_error_update_nth_eq {A} (f : A -> A) l i a :
  nth_error l i = Some a -> nth_error (update_nth i f l) i = Some (f a).
Proof.
  revert i. induction l as [|b l IH]; intros i H; destruct i; simpl in *; try discriminate.
  - inversion H; reflexivity.
  - apply IH; exact H.
Qed.

Lemma update_nth_comm {A} (f g : A -> A) l i j :
  i <> j -> update_nth i f (update_nth j g l) = update_nth j g (update_nth i f l).
Proof.
  revert i j. induction l as [|a l IH]; intros i j Hij; destruct i, j; simpl; auto; try congruence.
  f_equal. apply IH. congruence.
Qed.

Lemma update_nth_none {A} (f : A -> A) l i : nth_error l i = None -> update_nth i f l = l.
Proof.
  revert i. induction l as [|a l IH]; intros i H; destruct i; simpl in *; auto; try discriminate.
  f_equal. apply IH; exact H.
Qed.

(* executor.rs / worker.rs: workers own disjoint state and disjoint queue ends, and Worker::step
   reads nothing else but the clock. *)
Theorem worker_steps_commute : forall s i j ki kj oi oj s1 s2,
  i <> j ->
  sys_step s (W i ki oi) = Good s1 -> sys_step s1 (W j kj oj) = Good s2 ->
  exists s1', sys_step s (W j kj oj) = Good s1' /\ sys_step s1' (W i ki oi) = Good s2.
Proof.
  intros s i j ki kj oi oj s1 s2 Hij H1 H2. unfold sys_step in *.
  destruct (nth_error (s_nodes s) i) as [ndi|] eqn:Ei.
  - destruct (node_step i (s_clock s) ki oi ndi) as [ndi'|f] eqn:Si; simpl in H1; [|discriminate].
    inversion H1; subst s1; clear H1. simpl in H2.
    rewrite nth_error_update_nth_neq in H2 by exact Hij.
    destruct (nth_error (s_nodes s) j) as [ndj|] eqn:Ej.
    + destruct (node_step j (s_clock s) kj oj ndj) as [ndj'|f] eqn:Sj; simpl in H2; [|discriminate].
      inversion H2; subst s2; clear H2.
      eexists; split; [reflexivity|]. simpl.
      rewrite nth_error_update_nth_neq by congruence. rewrite Ei, Si. simpl.
      f_equal. f_equal. apply update_nth_comm. exact Hij.
    + inversion H2; subst s2; clear H2.
      eexists; split; [reflexivity|]. rewrite Ei, Si. reflexivity.
  - inversion H1; subst s1; clear H1.
    destruct (nth_error (s_nodes s) j) as [ndj|] eqn:Ej.
    + destruct (node_step j (s_clock s) kj oj ndj) as [ndj'|f] eqn:Sj; simpl in H2; [|discriminate].
      inversion H2; subst s2; clear H2.
      eexists; split; [reflexivity|]. simpl.
      rewrite nth_error_update_nth_neq by congruence. rewrite Ei. reflexivity.
    + inversion H2; subst s2. eexists; split; [reflexivity|]. rewrite Ei. reflexivity.
Qed.

(* a clock tick commutes with nothing in general (timeouts), but two worker steps also commute
   when a fault is involved in neither order: stated above for the Good case only. *)

(* ------------------------------------------------------------------ placement *)
(* The worker id enters a time slice only through the ghost stamp of an emitted message
   (in the code: only through create_ref, C13). *)
Definition restamp (i : wid) (m : msg) : msg := mkMsg (m_from m) i (m_seq m).
Definition restamp_event (i : wid) (e : event) : event :=
  match e with EDeliverA t m => EDeliverA t (restamp i m) | _ => e end.

Definition is_deliver (d : did) : bool := match d_act d with Some (ADeliver _) => true | _ => false end.

Theorem placement_irrelevant_local : forall i i' p pr d hint w,
  is_deliver d = false ->
  run_slice i p pr d hint w = run_slice i' p pr d hint w.
Proof.
  intros i i' p pr d hint w Hd. unfold run_slice, is_deliver in *.
  destruct (negb (did_ok d)); [reflexivity|].
  destruct (take_seq (d_taken d) (p_mail pr)) as [[taken mail']|]; [|reflexivity].
  destruct (d_act d) as [[| t | ts]|]; try reflexivity. discriminate.
Qed.

(* with a Deliver the two slices differ exactly by the stamp: same events up to restamping, and the
   same worker up to its ghost send log *)
Definition forget_log (w : worker) : worker := set_ghost w (w_nsent w) [] (w_arrlog w) (w_dropped w).

Lemma forget_log_set_procs w ps : forget_log (set_procs w ps) = set_procs (forget_log w) ps.
Proof. reflexivity. Qed.

Theorem placement_only_stamps : forall i i' p pr d hint w w1 ev,
  d_fin d = None ->
  run_slice i p pr d hint w = Good (w1, ev) ->
  exists w2, run_slice i' p pr d hint w = Good (w2, map (restamp_event i') ev)
             /\ forget_log w2 = forget_log w1.
Proof.
  intros i i' p pr d hint w w1 ev Hfin H. unfold run_slice in *.
  destruct (negb (did_ok d)); [discriminate|].
  destruct (take_seq (d_taken d) (p_mail pr)) as [[taken mail']|]; [|discriminate].
  rewrite Hfin in *.
  destruct (d_act d) as [[| t | ts]|]; simpl in *.
  - eexists; split; [|reflexivity].
    destruct (d_park d); simpl in *;
      match goal with |- context [if ?c then _ else _] => destruct c end; inversion H; subst; reflexivity.
  - destruct (d_park d); simpl in *.
    + match type of H with context [if ?c then _ else _] => destruct c eqn:Ec end;
        inversion H; subst; clear H; eexists; (split; [simpl; rewrite ?Ec; reflexivity|reflexivity]).
    + match type of H with context [if ?c then _ else _] => destruct c eqn:Ec end;
        inversion H; subst; clear H; eexists; (split; [simpl; rewrite ?Ec; reflexivity|reflexivity]).
  - eexists; split; [|reflexivity].
    destruct (d_park d); simpl in *;
      match goal with |- context [if ?c then _ else _] => destruct c end; inversion H; subst; reflexivity.
  - eexists; split; [|reflexivity].
    destruct (d_park d); simpl in *;
      match goal with |- context [if ?c then _ else _] => destruct c end; inversion H; subst; reflexivity.
Qed.
