(* ProtoOps.v — shape lemmas for the worker operations of M-Sys (sys/Proto.v): what Executor::step,
   a time slice, the completion path and check_completed_processes do, stated once so that the
   invariant proofs (ProtoRouted, ProtoAwait, ProtoErrTok) need not unfold them again. *)
From Quiver Require Import sys.Proto sys.ProtoMsg sys.ProtoFail sys.ProtoWake sys.ProtoDeliver.

(* ------------------------------------------------------------------ association lists *)
Lemma alookup_aremove {A} k k' (l : list (nat * A)) : alookup k (aremove k' l) = if k =? k' then None else alookup k l.
Proof.
  induction l as [|[k0 a0] l IH]; simpl; [destruct (k =? k'); reflexivity|].
  destruct (k' =? k0) eqn:E0; simpl.
  - apply Nat.eqb_eq in E0; subst k0. rewrite IH. destruct (k =? k'); reflexivity.
  - rewrite IH. destruct (k =? k0) eqn:E1; [|reflexivity].
    apply Nat.eqb_eq in E1; subst k0. destruct (k =? k') eqn:E2; [|reflexivity].
    apply Nat.eqb_eq in E2; subst. rewrite Nat.eqb_refl in E0. discriminate.
Qed.
Lemma alookup_aremove_fold {A} t : forall ks (l : list (nat * A)),
  alookup t (fold_left (fun a k => aremove k a) ks l) = if mem t ks then None else alookup t l.
Proof.
  induction ks as [|k ks IH]; intros l; simpl; [reflexivity|].
  rewrite IH, alookup_aremove. destruct (t =? k); simpl; [destruct (mem t ks); reflexivity|reflexivity].
Qed.
Lemma alookup_aset_fold_none t : forall ts (l : list (nat * option res)),
  alookup t (fold_left (fun a k => aset k None a) ts l) = if mem t ts then Some None else alookup t l.
Proof.
  induction ts as [|k ts IH]; intros l; simpl; [reflexivity|].
  rewrite IH, alookup_aset. destruct (t =? k); simpl; [destruct (mem t ts); reflexivity|reflexivity].
Qed.

(* ------------------------------------------------------------------ the worker's bookkeeping maps *)
Definition bk (w : worker) := (w_awaited w, w_awaiters w, w_pending w).
Lemma bk_upd_proc p f w : bk (upd_proc p f w) = bk w.
Proof. unfold upd_proc. destruct (alookup p (w_procs w)); reflexivity. Qed.
Lemma bk_wake p w : bk (wake_selecting p w) = bk w.
Proof. unfold wake_selecting. destruct (mem p (w_selecting w)); reflexivity. Qed.
Lemma bk_notify_result a b r w : bk (notify_result a b r w) = bk w.
Proof. unfold notify_result. destruct (awaits a b w); rewrite bk_wake; [apply bk_upd_proc|reflexivity]. Qed.
Lemma bk_worker_notify a b r w : bk (worker_notify a b r w) = bk w.
Proof. unfold worker_notify. destruct r; [apply bk_notify_result|]. destruct (awaits a b w); [apply bk_upd_proc|apply bk_wake]. Qed.
Lemma bk_fold {A} (f : worker -> A -> worker) l : (forall w x, bk (f w x) = bk w) -> forall w, bk (fold_left f l w) = bk w.
Proof. intros Hf. induction l as [|x l IH]; intros w; simpl; [reflexivity|]. rewrite IH. apply Hf. Qed.
Lemma bk_update_await a rs w : bk (update_await a rs w) = bk w.
Proof.
  unfold update_await.
  assert (H: bk (fold_left (fun w e => match snd e with Some r => worker_notify a (fst e) r w | None => w end) rs w) = bk w).
  { apply bk_fold. intros w0 x. destruct (snd x); [apply bk_worker_notify|reflexivity]. }
  destruct (existsb _ rs); [exact H|]. rewrite bk_wake. exact H.
Qed.
Lemma bk_notify_local p r h w q : bk (notify_local p r h w q) = bk w.
Proof. unfold notify_local. destruct r; [destruct h; [reflexivity|apply bk_notify_result]|apply bk_upd_proc]. Qed.
Lemma bk_finish p r h hint w w' : finish p r h hint w = Good w' -> bk w' = bk w.
Proof.
  unfold finish. destruct (order_by hint _); [|discriminate]. intros H; inversion H; subst.
  rewrite bk_fold; [apply bk_upd_proc|]. intros; apply bk_notify_local.
Qed.
Lemma expire_same now hint w w' : expire now hint w = Good w' -> w_procs w' = w_procs w /\ bk w' = bk w.
Proof. unfold expire. destruct (order_by hint _); [|discriminate]. intros H; inversion H; subst. split; reflexivity. Qed.

(* process tables *)
Lemma procs_wake p w : w_procs (wake_selecting p w) = w_procs w.
Proof. unfold wake_selecting. destruct (mem p (w_selecting w)); reflexivity. Qed.

(* ------------------------------------------------------------------ one time slice *)
Definition slice_pr1 (pr : proc) (d : did) (taken mail' : list msg) : proc :=
  let pr0 := with_sel (d_sel d) (with_mail mail' (p_arrived pr) (p_taken pr ++ taken) pr) in
  with_awaiting (fold_left (fun a t => aremove t a) (d_forget d) (p_awaiting pr0)) pr0.

Inductive slice_act (i : wid) (p : pid) (w1 : worker) : option act -> worker -> list event -> Prop :=
| sa_none : slice_act i p w1 None w1 []
| sa_spawn : slice_act i p w1 (Some ASpawn) (mark_spawning p w1) [ESpawnA p]
| sa_deliver t :
    slice_act i p w1 (Some (ADeliver t))
      (set_ghost w1 (S (w_nsent w1)) (w_sentlog w1 ++ [(t, mkMsg p i (w_nsent w1))]) (w_arrlog w1) (w_dropped w1))
      [EDeliverA t (mkMsg p i (w_nsent w1))]
| sa_await ts :
    slice_act i p w1 (Some (AAwait ts))
      (mark_selecting p (upd_proc p (fun q => with_awaiting (fold_left (fun a t => aset t None a) ts (p_awaiting q)) q) w1))
      [EAwaitA p ts].

Lemma run_slice_shape i p pr d hint w w' ev : run_slice i p pr d hint w = Good (w', ev) ->
  exists taken mail' w2,
    take_seq (d_taken d) (p_mail pr) = Some (taken, mail') /\
    slice_act i p (set_procs w (aset p (slice_pr1 pr d taken mail') (w_procs w))) (d_act d) w2 ev /\
    match d_fin d with
    | Some r => finish p r (d_heapy d) hint (if d_park d then mark_selecting p w2 else w2) = Good w'
    | None => w' = (if d_park d then mark_selecting p w2 else w2) \/ w' = enqueue p (if d_park d then mark_selecting p w2 else w2)
    end.
Proof.
  unfold run_slice. destruct (negb (did_ok d)); [discriminate|].
  destruct (take_seq (d_taken d) (p_mail pr)) as [[taken mail']|]; [|discriminate].
  fold (slice_pr1 pr d taken mail'). set (w1 := set_procs w _).
  assert (Tail: forall w2 ev2,
            match d_fin d with
            | Some r => w4 <- finish p r (d_heapy d) hint (if d_park d then mark_selecting p w2 else w2) ;; Good (w4, ev2)
            | None => if mem p (w_spawning (if d_park d then mark_selecting p w2 else w2)) || mem p (w_selecting (if d_park d then mark_selecting p w2 else w2))
                      then Good (if d_park d then mark_selecting p w2 else w2, ev2)
                      else Good (enqueue p (if d_park d then mark_selecting p w2 else w2), ev2)
            end = Good (w', ev) ->
            ev2 = ev /\
            match d_fin d with
            | Some r => finish p r (d_heapy d) hint (if d_park d then mark_selecting p w2 else w2) = Good w'
            | None => w' = (if d_park d then mark_selecting p w2 else w2) \/ w' = enqueue p (if d_park d then mark_selecting p w2 else w2)
            end).
  { intros w2 ev2 H. destruct (d_fin d).
    - destruct (finish _ _ _ _ _) as [w4|] eqn:F; simpl in H; [|discriminate]. inversion H; subst. split; reflexivity.
    - destruct (_ || _); inversion H; subst; split; auto. }
  destruct (d_act d) as [[| t | ts]|]; intros H; apply Tail in H; destruct H as (<-&H);
    exists taken, mail'; eexists; (split; [reflexivity|]); (split; [|exact H]); constructor.
Qed.

(* one Executor::step *)
Lemma exec_step_shape i now o w w' ev : exec_step i now o w = Good (w', ev) ->
  exists w1, expire now (o_expired o) w = Good w1 /\
   ((w_queue w1 = [] /\ w' = w1 /\ ev = []) \/
    exists p q', w_queue w1 = p :: q' /\
      ((alookup p (w_procs w1) = None /\ w' = set_sched w1 q' (w_spawning w1) (w_selecting w1) /\ ev = []) \/
       exists pr, alookup p (w_procs w1) = Some pr /\
         ((o_pid o = Some p /\ run_slice i p pr (o_did o) (o_awaiters o) (set_sched w1 q' (w_spawning w1) (w_selecting w1)) = Good (w', ev)) \/
          (exists e, p_res pr = Some (RErr e) /\
                     finish p (RErr e) false (o_awaiters o) (set_sched w1 q' (w_spawning w1) (w_selecting w1)) = Good w' /\ ev = [])))).
Proof.
  unfold exec_step. destruct (expire now (o_expired o) w) as [w1|] eqn:E; simpl; [|discriminate].
  intros H. exists w1. split; [reflexivity|].
  destruct (w_queue w1) as [|p q']; [left; inversion H; auto|]. right. exists p, q'. split; [reflexivity|].
  simpl in H. destruct (alookup p (w_procs w1)) as [pr|]; [|left; inversion H; auto].
  right. exists pr. split; [reflexivity|].
  destruct (o_pid o) as [p'|].
  - destruct (p =? p') eqn:Ep.
    + apply Nat.eqb_eq in Ep. subst p'. left. split; [reflexivity|exact H].
    + right. destruct (p_res pr) as [[v|e]|]; try discriminate.
      destruct (finish _ _ _ _ _) as [w3|] eqn:F; simpl in H; [|discriminate]. inversion H; subst. exists e. auto.
  - right. destruct (p_res pr) as [[v|e]|]; try discriminate.
    destruct (finish _ _ _ _ _) as [w3|] eqn:F; simpl in H; [|discriminate]. inversion H; subst. exists e. auto.
Qed.

Lemma bk_slice_act i p w1 a w2 ev : slice_act i p w1 a w2 ev -> bk w2 = bk w1.
Proof. intros H; inversion H; subst; try reflexivity. unfold bk. simpl. apply bk_upd_proc. Qed.

Lemma bk_run_slice i p pr d hint w w' ev : run_slice i p pr d hint w = Good (w', ev) -> bk w' = bk w.
Proof.
  intros H. destruct (run_slice_shape _ _ _ _ _ _ _ _ H) as (taken&mail'&w2&_&Ha&Hf).
  apply bk_slice_act in Ha.
  assert (B3: bk (if d_park d then mark_selecting p w2 else w2) = bk w) by (destruct (d_park d); exact Ha).
  destruct (d_fin d); [rewrite (bk_finish _ _ _ _ _ _ Hf); exact B3|].
  destruct Hf as [->| ->]; [exact B3|rewrite <- B3; reflexivity].
Qed.

Lemma bk_exec_step i now o w w' ev : exec_step i now o w = Good (w', ev) -> bk w' = bk w.
Proof.
  intros H. destruct (exec_step_shape _ _ _ _ _ _ H) as (w1&E&C). apply expire_same in E. destruct E as (_&B1).
  destruct C as [(_&->&_)|(p&q'&_&[(_&->&_)|(pr&_&[(_&R)|(e&_&F&_)])])]; try exact B1.
  - rewrite (bk_run_slice _ _ _ _ _ _ _ _ R). exact B1.
  - rewrite (bk_finish _ _ _ _ _ _ F). exact B1.
Qed.

(* the events of one Executor::step: at most one, about the executed process, which exists *)
Lemma exec_step_events i now o w w' ev : exec_step i now o w = Good (w', ev) ->
  ev = [] \/
  exists p, has p w /\ o_pid o = Some p /\
    ((d_act (o_did o) = Some ASpawn /\ ev = [ESpawnA p]) \/
     (exists t m, d_act (o_did o) = Some (ADeliver t) /\ ev = [EDeliverA t m]) \/
     (exists ts, d_act (o_did o) = Some (AAwait ts) /\ ev = [EAwaitA p ts])).
Proof.
  intros H. destruct (exec_step_shape _ _ _ _ _ _ H) as (w1&E&C). apply expire_same in E. destruct E as (Ep&_).
  destruct C as [(_&_&->)|(p&q'&_&[(_&_&->)|(pr&Hl&[(Ho&R)|(e&_&_&->)])])]; auto.
  destruct (run_slice_shape _ _ _ _ _ _ _ _ R) as (taken&mail'&w2&_&Ha&_).
  inversion Ha; subst; [left; reflexivity|right..]; exists p; (split; [unfold has; rewrite <- Ep, Hl; discriminate|]); (split; [exact Ho|]).
  - left. auto.
  - right; left. eauto.
  - right; right. eauto.
Qed.

(* ------------------------------------------------------------------ check_completed_processes *)
Definition registered (a t : pid) (w : worker) : Prop := exists l, alookup t (w_awaiters w) = Some l /\ In a l.

(* the relation between the accumulator before and after some report_completed's *)
Definition RC (w : worker) (acc acc' : worker * list event) : Prop :=
  w_procs (fst acc') = w_procs (fst acc) /\
  w_queue (fst acc') = w_queue (fst acc) /\ w_spawning (fst acc') = w_spawning (fst acc) /\ w_selecting (fst acc') = w_selecting (fst acc) /\
  w_pending (fst acc') = w_pending (fst acc) /\
  (forall t l, alookup t (w_awaiters (fst acc')) = Some l -> alookup t (w_awaiters (fst acc)) = Some l) /\
  (forall t, In t (w_awaited (fst acc')) -> In t (w_awaited (fst acc))) /\
  (forall t, alookup t (w_awaiters (fst acc')) <> None -> In t (w_awaited (fst acc)) -> In t (w_awaited (fst acc'))) /\
  (forall a t, registered a t (fst acc) -> registered a t (fst acc') \/ exists r, result_of w t = Some r /\ In (EResults a [(t, Some r)]) (snd acc')) /\
  (forall x, In x (snd acc') -> In x (snd acc) \/ exists a t r, x = EResults a [(t, Some r)] /\ registered a t (fst acc) /\ result_of w t = Some r) /\
  (forall x, In x (snd acc) -> In x (snd acc')).

Lemma RC_refl w acc : RC w acc acc.
Proof. unfold RC. repeat split; auto. Qed.

Lemma RC_trans w a b c : RC w a b -> RC w b c -> RC w a c.
Proof.
  intros (A1&A2&A3&A4&A5&A6&A7&A8&A9&A10&A11) (B1&B2&B3&B4&B5&B6&B7&B8&B9&B10&B11).
  unfold RC. split; [congruence|]. split; [congruence|]. split; [congruence|]. split; [congruence|]. split; [congruence|].
  split; [intros t l H; apply A6, B6, H|]. split; [intros t H; apply A7, B7, H|].
  split.
  { intros t Hl Ht. apply B8; [exact Hl|]. apply A8; [|exact Ht].
    destruct (alookup t (w_awaiters (fst c))) as [l|] eqn:El; [|contradiction]. apply B6 in El. rewrite El. discriminate. }
  split.
  { intros x t R. destruct (A9 x t R) as [R1|(r&Hr&Hin)]; [|right; exists r; split; [exact Hr|apply B11; exact Hin]].
    apply B9. exact R1. }
  split.
  { intros x Hx. apply B10 in Hx. destruct Hx as [Hx|(p&t&r&Ex&(l&Hl&Hp)&Hr)]; [apply A10; exact Hx|].
    right. exists p, t, r. split; [exact Ex|]. split; [|exact Hr]. exists l. split; [apply A6; exact Hl|exact Hp]. }
  intros x Hx. apply B11, A11, Hx.
Qed.

Lemma RC_one w acc x : w_procs (fst acc) = w_procs w -> RC w acc (report_completed acc x).
Proof.
  destruct acc as [w0 ev0]. simpl. intros Hp.
  assert (Er: result_of w0 x = result_of w x) by (unfold result_of; rewrite Hp; reflexivity).
  unfold report_completed. rewrite Er.
  destruct (result_of w x) as [r|] eqn:Erx; [|apply RC_refl].
  unfold RC. simpl. split; [reflexivity|]. split; [reflexivity|]. split; [reflexivity|]. split; [reflexivity|]. split; [reflexivity|].
  split; [|split; [|split; [|split; [|split]]]].
  - intros t l Hl. rewrite alookup_aremove in Hl. destruct (t =? x); [discriminate|exact Hl].
  - intros t Ht. unfold sremove in Ht. apply filter_In in Ht. apply Ht.
  - intros t Hl Ht. rewrite alookup_aremove in Hl. destruct (t =? x) eqn:Etx; [exfalso; apply Hl; reflexivity|].
    unfold sremove. apply filter_In. split; [exact Ht|]. rewrite Nat.eqb_sym, Etx. reflexivity.
  - intros a t (l&Hl&Ha). destruct (Nat.eq_dec t x) as [->|Hne].
    + right. exists r. split; [exact Erx|]. apply in_or_app. right. rewrite Hl. apply in_map_iff. exists a. split; [reflexivity|exact Ha].
    + left. exists l. split; [|exact Ha]. simpl. rewrite alookup_aremove. destruct (t =? x) eqn:E; [apply Nat.eqb_eq in E; contradiction|exact Hl].
  - intros y Hy. apply in_app_or in Hy. destruct Hy as [Hy|Hy]; [left; exact Hy|right].
    apply in_map_iff in Hy. destruct Hy as (a&<-&Ha). exists a, x, r. split; [reflexivity|]. split; [|exact Erx].
    destruct (alookup x (w_awaiters w0)) as [l|] eqn:El; [|contradiction]. exists l. split; [exact El|exact Ha].
  - intros y Hy. apply in_or_app. left; exact Hy.
Qed.

Lemma report_completed_fold_spec w : forall o acc,
  w_procs (fst acc) = w_procs w -> RC w acc (fold_left report_completed o acc).
Proof.
  induction o as [|x o IH]; intros acc Hp; simpl; [apply RC_refl|].
  pose proof (RC_one w acc x Hp) as R1.
  eapply RC_trans; [exact R1|]. apply IH. destruct R1 as (R1&_). congruence.
Qed.

Lemma report_pending_fold_spec w : forall l acc,
  w_procs (fst acc) = w_procs w ->
  let acc' := fold_left report_pending l acc in
  w_procs (fst acc') = w_procs w /\
  w_queue (fst acc') = w_queue (fst acc) /\ w_spawning (fst acc') = w_spawning (fst acc) /\ w_selecting (fst acc') = w_selecting (fst acc) /\
  w_awaited (fst acc') = w_awaited (fst acc) /\ w_awaiters (fst acc') = w_awaiters (fst acc) /\
  (forall x, In x (snd acc') -> In x (snd acc) \/ exists req r t, x = EResultResp req r /\ result_of w t = Some r) /\
  (forall x, In x (snd acc) -> In x (snd acc')).
Proof.
  induction l as [|x l IH]; intros acc Hp; simpl; [repeat split; auto|].
  assert (Hp1: w_procs (fst (report_pending acc x)) = w_procs w).
  { destruct acc as [w0 ev0]. unfold report_pending. destruct (result_of w0 (fst x)); exact Hp. }
  specialize (IH (report_pending acc x) Hp1). simpl in IH. destruct IH as (I1&I2&I3&I4&I5&I6&I7&I8).
  destruct acc as [w0 ev0]. simpl in Hp.
  assert (Er: result_of w0 (fst x) = result_of w (fst x)) by (unfold result_of; rewrite Hp; reflexivity).
  unfold report_pending in *. rewrite Er in *. destruct (result_of w (fst x)) as [r|] eqn:Erx; simpl in *; [|repeat split; auto].
  repeat split; auto.
  - intros y Hy. apply I7 in Hy. destruct Hy as [Hy|Hy]; [|right; exact Hy].
    apply in_app_or in Hy. destruct Hy as [Hy|Hy]; [left; exact Hy|right]. apply in_map_iff in Hy. destruct Hy as (req&<-&_).
    exists req, r, (fst x). split; [reflexivity|exact Erx].
  - intros y Hy. apply I8. apply in_or_app. left; exact Hy.
Qed.

Theorem check_completed_spec hint w w' ev : check_completed hint w = Good (w', ev) ->
  w_procs w' = w_procs w /\
  w_queue w' = w_queue w /\ w_spawning w' = w_spawning w /\ w_selecting w' = w_selecting w /\
  (forall t l, alookup t (w_awaiters w') = Some l -> alookup t (w_awaiters w) = Some l) /\
  (forall t, In t (w_awaited w') -> In t (w_awaited w)) /\
  (forall t, alookup t (w_awaiters w') <> None -> In t (w_awaited w) -> In t (w_awaited w')) /\
  (forall a t, registered a t w -> registered a t w' \/ exists r, result_of w t = Some r /\ In (EResults a [(t, Some r)]) ev) /\
  (forall x, In x ev -> (exists a t r, x = EResults a [(t, Some r)] /\ registered a t w /\ result_of w t = Some r) \/ (exists req r t, x = EResultResp req r /\ result_of w t = Some r)).
Proof.
  unfold check_completed. destruct (order_by hint _) as [o|]; [|discriminate].
  intros H; inversion H as [H1]; clear H.
  pose proof (report_completed_fold_spec w o (w, []) eq_refl) as A. unfold RC in A. simpl in A.
  destruct A as (A1&A2&A3&A4&A5&A6&A7&A8&A9&A10&A11).
  pose proof (report_pending_fold_spec w (w_pending (fst (fold_left report_completed o (w, [])))) (fold_left report_completed o (w, [])) A1) as B.
  rewrite H1 in B. simpl in B. destruct B as (B1&B2&B3&B4&B5&B6&B7&B8).
  split; [exact B1|]. split; [congruence|]. split; [congruence|]. split; [congruence|].
  split; [intros t l Hl; rewrite B6 in Hl; apply A6; exact Hl|].
  split; [intros t Ht; rewrite B5 in Ht; apply A7; exact Ht|].
  split; [intros t Hl Ht; rewrite B5; rewrite B6 in Hl; apply A8; assumption|].
  split.
  - intros a t R. destruct (A9 a t R) as [(l&Hl&Ha)|(r&Hr&Hin)].
    + left. exists l. rewrite B6. split; assumption.
    + right. exists r. split; [exact Hr|apply B8; exact Hin].
  - intros x Hx. apply B7 in Hx. destruct Hx as [Hx|Hx]; [|right; exact Hx].
    apply A10 in Hx. destruct Hx as [[]|Hx]. left; exact Hx.
Qed.

Lemma run_slice_did_ok i p pr d hint w w' ev : run_slice i p pr d hint w = Good (w', ev) -> did_ok d = true.
Proof. unfold run_slice. destruct (did_ok d); [reflexivity|discriminate]. Qed.
Lemma did_ok_await d ts : did_ok d = true -> d_act d = Some (AAwait ts) -> d_fin d = None.
Proof. unfold did_ok. intros H E. rewrite E in H. destruct (d_fin d); [discriminate|reflexivity]. Qed.
