(* ProtoDiamond.v — C03: the diamond property for a worker step and an environment step of M-Sys
   (sys/Proto.v) that do not touch each other's part of the queues: Worker i consumes a prefix of its
   command queue that is already there, the environment collects from worker i a prefix of its event
   queue that is already there.  Then W;E and E;W end in the same state. *)
From Quiver Require Import sys.Proto sys.ProtoMsg sys.ProtoFifo sys.ProtoCommute sys.ProtoWf.

Definition wfun (w3 : worker) (n : nat) (new : list event) (nd : node) : node :=
  {| n_w := w3; n_cmd := skipn n (n_cmd nd); n_evt := n_evt nd ++ new |}.

(* Worker::step with a bound on the commands: a function of the worker and the first n commands *)
Lemma node_step_local i now n o nd nd' :
  node_step i now (Some n) o nd = Good nd' ->
  exists new, nd' = wfun (n_w nd') n new nd /\
    forall nd2, n_w nd2 = n_w nd -> firstn n (n_cmd nd2) = firstn n (n_cmd nd) ->
      node_step i now (Some n) o nd2 = Good (wfun (n_w nd') n new nd2).
Proof.
  unfold node_step. cbn [split_at].
  destruct (handle_cmds (firstn n (n_cmd nd)) (n_w nd)) as [[w1 e1]|] eqn:E1; cbn [rbind]; [|discriminate].
  destruct (exec_step i now o w1) as [[w2 e2]|] eqn:E2; cbn [rbind]; [|discriminate].
  destruct (check_completed (o_completed o) w2) as [[w3 e3]|] eqn:E3; cbn [rbind]; [|discriminate].
  intros H; inversion H; subst nd'; clear H. exists (e1 ++ e2 ++ e3). split; [reflexivity|].
  intros nd2 Hw Hc. rewrite Hw, Hc, E1. cbn [rbind]. rewrite E2. cbn [rbind]. rewrite E3. reflexivity.
Qed.

Lemma update_nth_at {A} (f g : A -> A) : forall l i a, nth_error l i = Some a -> f a = g a -> update_nth i f l = update_nth i g l.
Proof. induction l as [|b l IH]; intros [|i] a H E; simpl in *; try discriminate; [inversion H; subst; rewrite E; reflexivity|f_equal; eapply IH; eassumption]. Qed.

(* Environment::handle_event as a plan: the new environment and a list of pushes, both independent of the nodes *)
Definition pushes (l : list (wid * cmd)) (ns : list node) : list node := fold_left (fun ns x => push_cmd (fst x) (snd x) ns) l ns.
Lemma pushes_app a b ns : pushes (a ++ b) ns = pushes b (pushes a ns). Proof. apply fold_left_app. Qed.
Lemma fold_push_pushes {A} (mk : A -> cmd) (wof : A -> wid) l : forall ns,
  fold_left (fun ns a => push_cmd (wof a) (mk a) ns) l ns = pushes (map (fun a => (wof a, mk a)) l) ns.
Proof. induction l; intros ns; simpl; [reflexivity|]. apply IHl. Qed.

Lemma handle_event_plan nw ev e ns e' ns' : handle_event nw ev (e, ns) = Good (e', ns') ->
  exists l, forall ns0, handle_event nw ev (e, ns0) = Good (e', pushes l ns0).
Proof.
  intros H. destruct ev; unfold handle_event in *; cbn -[Nat.modulo nodup] in *.
  - revert H. match goal with |- context [@alookup ?A caller ?l] => destruct (@alookup A caller l) as [cw|] end; intros H; [|discriminate].
    inversion H; subst e' ns'; clear H. exists [(e_next e mod nw, CSpawn (e_next e)); (cw, CNotifySpawn caller (e_next e))]. intros ns0. reflexivity.
  - destruct (alookup target (e_router e)) as [w|]; [|discriminate]. inversion H; subst e' ns'. exists [(w, CDeliver target m)]. intros; reflexivity.
  - revert H. match goal with |- context [forallb ?f targets] => destruct (forallb f targets) end; intros H; [|discriminate].
    inversion H; subst e' ns'; clear H.
    set (wof := fun t => match alookup t (e_router e) with Some w => w | None => 0 end).
    eexists. intros ns0. rewrite (fold_push_pushes (fun w => CQuery awaiter (filter (fun t => wof t =? w) targets)) (fun w => w)). reflexivity.
  - destruct (alookup awaiter (e_pending e)) as [pa|].
    + destruct (match results with [] => None | (t, _) :: _ => alookup t (e_router e) end) as [w|].
      * destruct (sremove w (pa_expected pa)).
        -- destruct (alookup awaiter (e_router e)) as [aw|]; [|discriminate]. inversion H; subst e' ns'.
           eexists [(aw, _)]. intros; reflexivity.
        -- inversion H; subst e' ns'. exists []. intros; reflexivity.
      * inversion H; subst e' ns'. exists []. intros; reflexivity.
    + destruct (alookup awaiter (e_router e)) as [aw|]; [|discriminate]. inversion H; subst e' ns'. eexists [(aw, _)]. intros; reflexivity.
  - inversion H; subst e' ns'. exists []. intros; reflexivity.
  - inversion H; subst e' ns'. exists []. intros; reflexivity.
Qed.

Lemma handle_events_plan nw evs : forall e ns e' ns', handle_events nw evs (e, ns) = Good (e', ns') ->
  exists l, forall ns0, handle_events nw evs (e, ns0) = Good (e', pushes l ns0).
Proof.
  induction evs as [|ev evs IH]; intros e ns e' ns' H; cbn [handle_events] in *.
  - inversion H; subst. exists []. intros; reflexivity.
  - destruct (handle_event nw ev (e, ns)) as [[e1 ns1]|] eqn:E1; cbn [rbind] in H; [|discriminate].
    destruct (handle_event_plan _ _ _ _ _ _ E1) as (l1&P1). destruct (IH _ _ _ _ H) as (l2&P2).
    exists (l1 ++ l2). intros ns0. rewrite P1. cbn [rbind]. rewrite P2, pushes_app. reflexivity.
Qed.

(* a push commutes with the worker step's node function when the bound is within the queue *)
Lemma push_wfun w3 n new w c : forall ns i nd, nth_error ns i = Some nd -> n <= length (n_cmd nd) ->
  push_cmd w c (update_nth i (wfun w3 n new) ns) = update_nth i (wfun w3 n new) (push_cmd w c ns).
Proof.
  unfold push_cmd. intros ns. revert w. induction ns as [|a ns IH]; intros [|w] [|i] nd H L; simpl in *; try discriminate; try reflexivity.
  - inversion H; subst a. unfold wfun. simpl. f_equal. f_equal. rewrite skipn_app.
    replace (n - length (n_cmd nd)) with 0 by lia. reflexivity.
  - f_equal. eapply IH; eassumption.
Qed.

Definition long_enough (i n : nat) (ns : list node) : Prop := exists nd, nth_error ns i = Some nd /\ n <= length (n_cmd nd).
Lemma long_enough_push i n w c ns : long_enough i n ns -> long_enough i n (push_cmd w c ns).
Proof.
  intros (nd&H&L). unfold long_enough. rewrite nth_error_push, H.
  destruct (i =? w); eexists; (split; [reflexivity|]); simpl; [rewrite app_length; lia|exact L].
Qed.

Lemma pushes_wfun w3 n new i : forall l ns, long_enough i n ns ->
  pushes l (update_nth i (wfun w3 n new) ns) = update_nth i (wfun w3 n new) (pushes l ns).
Proof.
  induction l as [|[w c] l IH]; intros ns L; simpl; [reflexivity|].
  destruct L as (nd&H&Ln). rewrite (push_wfun w3 n new w c ns i nd H Ln).
  apply IH. apply long_enough_push. exists nd. split; assumption.
Qed.

Lemma pushes_node i : forall l ns nd, nth_error ns i = Some nd ->
  exists extra, nth_error (pushes l ns) i = Some {| n_w := n_w nd; n_cmd := n_cmd nd ++ extra; n_evt := n_evt nd |}.
Proof.
  induction l as [|[w c] l IH]; intros ns nd H; simpl.
  - exists []. rewrite app_nil_r. destruct nd; exact H.
  - assert (H1: nth_error (push_cmd w c ns) i = Some (if i =? w then {| n_w := n_w nd; n_cmd := n_cmd nd ++ [c]; n_evt := n_evt nd |} else nd))
      by (rewrite nth_error_push, H; reflexivity).
    destruct (IH _ _ H1) as (extra&E). destruct (i =? w); simpl in E.
    + exists ([c] ++ extra). rewrite app_assoc. exact E.
    + exists extra. exact E.
Qed.
Lemma pushes_length l : forall ns, length (pushes l ns) = length ns.
Proof. induction l as [|[w c] l IH]; intros ns; simpl; [reflexivity|]. rewrite IH. apply push_cmd_length. Qed.

(* the collect phase commutes with it when the bound is within the event queue *)
Lemma collect_wfun w3 n new : forall ns ks i nd m,
  nth_error ns i = Some nd -> nth_error ks i = Some m -> m <= length (n_evt nd) ->
  collect ks (update_nth i (wfun w3 n new) ns) = (fst (collect ks ns), update_nth i (wfun w3 n new) (snd (collect ks ns))).
Proof.
  induction ns as [|a ns IH]; intros ks [|i] nd m H K L; simpl in H; try discriminate.
  - inversion H; subst a. destruct ks as [|k0 ks]; [discriminate|]. simpl in K. inversion K; subst k0.
    cbn [update_nth collect tl]. cbn [split_at wfun n_evt n_w n_cmd].
    destruct (collect ks ns) as [evs t']. cbn [fst snd update_nth].
    rewrite firstn_app, skipn_app. replace (m - length (n_evt nd)) with 0 by lia. simpl. rewrite app_nil_r.
    unfold wfun. simpl. reflexivity.
  - destruct ks as [|k0 ks]; [discriminate|]. simpl in K.
    cbn [update_nth collect tl]. rewrite (IH ks i nd m H K L).
    destruct (split_at (Some k0) (n_evt a)) as [x y]. destruct (collect ks ns) as [evs t']. reflexivity.
Qed.

Lemma collect_node ks ns i nd : nth_error ns i = Some nd ->
  exists nd1, nth_error (snd (collect ks ns)) i = Some nd1 /\ n_w nd1 = n_w nd /\ n_cmd nd1 = n_cmd nd.
Proof.
  intros H. pose proof (collect_wc ks ns) as M.
  assert (Hm: nth_error (map (fun nd => (n_w nd, n_cmd nd)) ns) i = Some (n_w nd, n_cmd nd)) by (rewrite nth_error_map, H; reflexivity).
  rewrite <- M, nth_error_map in Hm. destruct (nth_error (snd (collect ks ns)) i) as [nd1|]; [|discriminate].
  simpl in Hm. injection Hm as A B. exists nd1. repeat split; assumption.
Qed.

(* C03: the diamond for independent W / E actions *)
Theorem worker_env_diamond : forall s i n o ks nd m s1 s2,
  nth_error (s_nodes s) i = Some nd ->
  n <= length (n_cmd nd) ->                       (* the worker handles only commands that are already queued *)
  nth_error ks i = Some m -> m <= length (n_evt nd) ->   (* the environment collects from i only events already queued *)
  sys_step s (W i (Some n) o) = Good s1 -> sys_step s (E ks) = Good s2 ->
  exists s', sys_step s1 (E ks) = Good s' /\ sys_step s2 (W i (Some n) o) = Good s'.
Proof.
  intros s i n o ks nd m s1 s2 Hi Hn Hk Hm HW HE. simpl in HW. rewrite Hi in HW.
  destruct (node_step i (s_clock s) (Some n) o nd) as [nd'|] eqn:Es; cbn [rbind] in HW; [|discriminate].
  inversion HW; subst s1; clear HW.
  destruct (node_step_local _ _ _ _ _ _ Es) as (new&Ef&Loc).
  set (F := wfun (n_w nd') n new) in *.
  assert (U1: update_nth i (fun _ => nd') (s_nodes s) = update_nth i F (s_nodes s)) by (eapply update_nth_at; [exact Hi|exact Ef]).
  simpl in HE. pose proof (collect_wfun (n_w nd') n new (s_nodes s) ks i nd m Hi Hk Hm) as CW. fold F in CW.
  destruct (collect_node ks (s_nodes s) i nd Hi) as (nd1&Hn1&Hw1&Hc1).
  destruct (collect ks (s_nodes s)) as [evs ns1] eqn:Ec. simpl in CW, Hn1.
  destruct (handle_events (length (s_nodes s)) evs (s_env s, ns1)) as [[e' ns2]|] eqn:Eh; cbn [rbind] in HE; [|discriminate].
  inversion HE; subst s2; clear HE.
  destruct (handle_events_plan _ _ _ _ _ _ Eh) as (l&Pl).
  assert (N2: ns2 = pushes l ns1) by (specialize (Pl ns1); rewrite Eh in Pl; inversion Pl; reflexivity).
  destruct (pushes_node i l ns1 nd1 Hn1) as (extra&Hn2). rewrite <- N2 in Hn2.
  assert (L1: long_enough i n ns1) by (exists nd1; split; [exact Hn1|rewrite Hc1; exact Hn]).
  exists {| s_nodes := update_nth i F ns2; s_env := e'; s_clock := s_clock s |}. subst F. split.
  - simpl. rewrite U1, CW, update_nth_length, Pl. cbn [rbind].
    rewrite (pushes_wfun _ _ _ _ l ns1 L1), <- N2. reflexivity.
  - simpl. rewrite Hn2.
    rewrite (Loc {| n_w := n_w nd1; n_cmd := n_cmd nd1 ++ extra; n_evt := n_evt nd1 |}).
    + cbn [rbind]. f_equal. f_equal. eapply update_nth_at; [exact Hn2|reflexivity].
    + simpl. exact Hw1.
    + simpl. rewrite Hc1, firstn_app. replace (n - length (n_cmd nd)) with 0 by lia. simpl. apply app_nil_r.
Qed.

(* non-vacuity: an instance (worker 0 handles the queued Start and spawns; the environment collects
   nothing from worker 0), computed by the kernel in both orders *)
From Quiver Require Import sys.ProtoFail.
Example diamond_instance : exists s',
  run (init 2) [X (XStart false); W 0 (Some 1) (orc (Some 0) (d_act_ ASpawn)); E [0]] = Good s' /\
  run (init 2) [X (XStart false); E [0]; W 0 (Some 1) (orc (Some 0) (d_act_ ASpawn))] = Good s' /\
  total (fun nd => length (n_evt nd)) (s_nodes s') = 1.
Proof. eexists. split; [vm_compute; reflexivity|]. split; [vm_compute; reflexivity|reflexivity]. Qed.
