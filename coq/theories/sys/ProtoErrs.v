(* ProtoErrs.v — C15 step_never_errs on M-Sys (sys/Proto.v), for every schedule and oracle: which
   steps of the model can return Err at all, and why.
     Worker.step      Err  only  from a ResumeProcess / GetResult command (client calls) among the
                                 commands it handles; every other Fault of the model's worker step is
                                 BadOracle (the oracle does not describe a possible slice)
     Environment.step Err  only  when a collected event names a process id that is not routed
     client calls / time          never. *)
From Quiver Require Import sys.Proto sys.ProtoMsg sys.ProtoFifo sys.ProtoFail.

Definition client_cmd (c : cmd) : bool := match c with CResume _ | CGetResult _ _ => true | _ => false end.
Definition is_oracle_fault (f : fault) : Prop := exists n, f = BadOracle n.
Definition is_worker_err (f : fault) : Prop := exists n, f = WorkerErr n.

Lemma handle_cmd_fault c w f : handle_cmd c w = Fault f -> is_worker_err f /\ client_cmd c = true.
Proof.
  intros H. destruct c; simpl in H; try discriminate.
  - destruct sleeping; discriminate.
  - destruct (alookup p (w_procs w)) as [pr|]; [|inversion H; split; [eexists; reflexivity|reflexivity]].
    destruct (p_res pr) as [[v|e]|]; [destruct (p_pers pr)| |]; inversion H; split; try (eexists; reflexivity); reflexivity.
  - destruct (fold_left (query_one awaiter) targets (w, [])); discriminate.
  - destruct (alookup target (w_procs w)); discriminate.
  - destruct (mem p (w_spawning w)); discriminate.
  - destruct (alookup p (w_procs w)) as [pr|]; [|inversion H; split; [eexists; reflexivity|reflexivity]].
    destruct (p_res pr); discriminate.
Qed.

Lemma handle_cmds_fault : forall cs w f, handle_cmds cs w = Fault f -> is_worker_err f /\ existsb client_cmd cs = true.
Proof.
  induction cs as [|c cs IH]; intros w f H; simpl in H; [discriminate|].
  destruct (handle_cmd c w) as [[w1 e1]|f1] eqn:E1; simpl in H.
  - destruct (handle_cmds cs w1) as [[w2 e2]|f2] eqn:E2; simpl in H; [discriminate|].
    inversion H; subst f2. destruct (IH _ _ E2) as (A&B). split; [exact A|]. simpl. rewrite B. apply orb_true_r.
  - inversion H; subst f1. destruct (handle_cmd_fault _ _ _ E1) as (A&B). split; [exact A|]. simpl. rewrite B. reflexivity.
Qed.

Lemma finish_fault p r h hint w f : finish p r h hint w = Fault f -> is_oracle_fault f.
Proof. unfold finish. destruct (order_by hint _); [discriminate|]. intros H; inversion H. eexists; reflexivity. Qed.

Lemma run_slice_fault i p pr d hint w f : run_slice i p pr d hint w = Fault f -> is_oracle_fault f.
Proof.
  unfold run_slice. destruct (negb (did_ok d)); [intros H; inversion H; eexists; reflexivity|].
  destruct (take_seq (d_taken d) (p_mail pr)) as [[taken mail']|]; [|intros H; inversion H; eexists; reflexivity].
  destruct (d_act d) as [[| t | ts]|]; (destruct (d_fin d);
    [match goal with |- context [finish ?a ?b ?c ?d ?e] => destruct (finish a b c d e) eqn:F end; simpl;
       [discriminate|intros H; inversion H; subst; eapply finish_fault; exact F]
    |match goal with |- context [if ?b then _ else _] => destruct b end; discriminate]).
Qed.

Lemma exec_step_fault i now o w f : exec_step i now o w = Fault f -> is_oracle_fault f.
Proof.
  unfold exec_step. destruct (expire now (o_expired o) w) as [w1|f1] eqn:E; simpl.
  - destruct (w_queue w1) as [|p q']; [discriminate|].
    match goal with |- context [alookup p ?l] => destruct (alookup p l) as [pr|] end; [|discriminate].
    destruct (match o_pid o with Some p' => p =? p' | None => false end); [apply run_slice_fault|].
    destruct (p_res pr) as [[v|e]|]; try (intros H; inversion H; eexists; reflexivity).
    match goal with |- context [finish ?a ?b ?c ?d ?e] => destruct (finish a b c d e) eqn:F end; simpl; [discriminate|].
    intros H; inversion H; subst. eapply finish_fault; exact F.
  - intros H; inversion H; subst. unfold expire in E. destruct (order_by _ _); [discriminate|]. inversion E. eexists; reflexivity.
Qed.

Lemma check_completed_fault hint w f : check_completed hint w = Fault f -> is_oracle_fault f.
Proof. unfold check_completed. destruct (order_by hint _); [discriminate|]. intros H; inversion H. eexists; reflexivity. Qed.

(* Worker::step *)
Theorem worker_step_errs_only_on_client_commands : forall i now k o nd f,
  node_step i now k o nd = Fault f ->
  is_oracle_fault f \/ (is_worker_err f /\ existsb client_cmd (fst (split_at k (n_cmd nd))) = true).
Proof.
  intros i now k o nd f H. unfold node_step in H. destruct (split_at k (n_cmd nd)) as [pre later]. simpl.
  destruct (handle_cmds pre (n_w nd)) as [[w1 e1]|f1] eqn:E1; simpl in H.
  - left. destruct (exec_step i now o w1) as [[w2 e2]|f2] eqn:E2; simpl in H.
    + destruct (check_completed (o_completed o) w2) as [[w3 e3]|f3] eqn:E3; simpl in H; [discriminate|].
      inversion H; subst. eapply check_completed_fault; exact E3.
    + inversion H; subst. eapply exec_step_fault; exact E2.
  - right. inversion H; subst. eapply handle_cmds_fault; exact E1.
Qed.

(* Environment::step *)
Lemma routes_kept nw ev e ns e' ns' : handle_event nw ev (e, ns) = Good (e', ns') ->
  forall p, alookup p (e_router e) <> None -> alookup p (e_router e') <> None.
Proof.
  intros H p Hp. destruct ev; unfold handle_event in H; cbn -[Nat.modulo nodup] in H.
  - revert H. match goal with |- context [@alookup ?A caller ?l] => destruct (@alookup A caller l) end; intros H; [|discriminate].
    inversion H; subst e' ns'; clear H. simpl. rewrite alookup_aset. destruct (p =? e_next e); [discriminate|exact Hp].
  - destruct (alookup target (e_router e)); [|discriminate]. inversion H; subst; exact Hp.
  - revert H. match goal with |- context [forallb ?f targets] => destruct (forallb f targets) end; intros H; [|discriminate].
    inversion H; subst; exact Hp.
  - destruct (alookup awaiter (e_pending e)) as [pa|].
    + destruct (match results with [] => None | (t, _) :: _ => alookup t (e_router e) end) as [w|].
      * destruct (sremove w (pa_expected pa)).
        -- destruct (alookup awaiter (e_router e)); [|discriminate]. inversion H; subst; exact Hp.
        -- inversion H; subst; exact Hp.
      * inversion H; subst; exact Hp.
    + destruct (alookup awaiter (e_router e)); [|discriminate]. inversion H; subst; exact Hp.
  - inversion H; subst; exact Hp.
  - inversion H; subst; exact Hp.
Qed.

Lemma event_routed_mono e e' ev : (forall p, alookup p (e_router e) <> None -> alookup p (e_router e') <> None) ->
  event_routed e ev -> event_routed e' ev.
Proof.
  intros M H. destruct ev; simpl in *; auto. rewrite Forall_forall in *. intros t Ht. apply M, H, Ht.
Qed.

Lemma handle_events_never_err nw : forall evs e ns,
  Forall (event_routed e) evs -> exists st, handle_events nw evs (e, ns) = Good st.
Proof.
  induction evs as [|ev evs IH]; intros e ns H; cbn [handle_events]; [eexists; reflexivity|].
  inversion H as [|x l H1 H2]; subst.
  destruct (handle_event_never_errs nw ev e ns H1) as ([e1 ns1]&E1). rewrite E1. cbn [rbind].
  apply IH. rewrite Forall_forall in *. intros x Hx. eapply event_routed_mono; [eapply routes_kept; exact E1|apply H2, Hx].
Qed.

Lemma collect_in : forall ns ks ev, In ev (fst (collect ks ns)) -> exists i nd, nth_error ns i = Some nd /\ In ev (n_evt nd).
Proof.
  induction ns as [|nd ns IH]; intros ks ev H; simpl in H; [contradiction|].
  set (k := match ks with [] => None | k0 :: _ => Some k0 end) in *.
  pose proof (split_at_app k (n_evt nd)) as Hs.
  destruct (split_at k (n_evt nd)) as [now_evs later]. simpl in Hs.
  specialize (IH (tl ks) ev). destruct (collect (tl ks) ns) as [evs t']. simpl in *.
  apply in_app_or in H. destruct H as [H|H].
  - exists 0, nd. split; [reflexivity|]. rewrite <- Hs. apply in_or_app. left; exact H.
  - destruct (IH H) as (i&x&Hi&Hx). exists (S i), x. split; assumption.
Qed.

Definition events_routed (s : sys) : Prop :=
  forall i nd ev, nth_error (s_nodes s) i = Some nd -> In ev (n_evt nd) -> event_routed (s_env s) ev.

Theorem env_step_never_errs_on_routed_ids : forall s ks,
  events_routed s -> exists s', sys_step s (E ks) = Good s'.
Proof.
  intros s ks H. simpl. pose proof (collect_in (s_nodes s) ks) as C.
  destruct (collect ks (s_nodes s)) as [evs ns]. simpl in C.
  destruct (handle_events_never_err (length (s_nodes s)) evs (s_env s) ns) as ([e' ns']&E1).
  - rewrite Forall_forall. intros ev Hev. destruct (C ev Hev) as (i&nd&Hi&Hin). eapply H; eassumption.
  - rewrite E1. cbn [rbind]. eexists; reflexivity.
Qed.

(* the whole step function: exactly which Faults are possible *)
Theorem step_errs_only : forall s a f, sys_step s a = Fault f ->
  match a with
  | W i k o => exists nd, nth_error (s_nodes s) i = Some nd /\
                 (is_oracle_fault f \/ (is_worker_err f /\ existsb client_cmd (fst (split_at k (n_cmd nd))) = true))
  | E ks => ~ events_routed s
  | T _ | X _ => False
  end.
Proof.
  intros s a f H. destruct a as [i k o|ks|d|c].
  - simpl in H. destruct (nth_error (s_nodes s) i) as [nd|] eqn:Ei; [|discriminate].
    exists nd. split; [reflexivity|]. destruct (node_step i (s_clock s) k o nd) as [nd'|f1] eqn:Es; cbn [rbind] in H; [discriminate|].
    inversion H; subst. eapply worker_step_errs_only_on_client_commands; exact Es.
  - intros R. destruct (env_step_never_errs_on_routed_ids s ks R) as (s'&E1). rewrite E1 in H. discriminate.
  - simpl in H. discriminate.
  - simpl in H. unfold client_step in H. destruct c; try discriminate;
      destruct (alookup p (e_router (s_env s))); discriminate.
Qed.

(* non-vacuity: both error classes exist in the model *)
Example worker_err_on_client_misuse :
  node_step 0 0 None (orc None idle_did) {| n_w := new_worker; n_cmd := [CResume 5]; n_evt := [] |} = Fault (WorkerErr 1).
Proof. reflexivity. Qed.
Example env_err_on_unrouted_id :
  sys_step {| s_nodes := [{| n_w := new_worker; n_cmd := []; n_evt := [EDeliverA 7 (mkMsg 0 0 0)] |}];
              s_env := {| e_router := []; e_next := 0; e_pending := [] |}; s_clock := 0 |} (E []) = Fault (EnvErr 1).
Proof. reflexivity. Qed.
