(* ProtoArrive.v — C04: the identity "arrival log of t = p_arrived of t" on M-Sys (sys/Proto.v), for
   every schedule and every oracle: on every worker, the DeliverMessages handled for target t (the
   ghost arrival log restricted to t) are — as a list — the messages dropped for t (none, by
   no_message_dropped) followed by everything ever appended to the mailbox of t (p_arrived).
   Needs "a process record is never replaced" (scheduler well-formedness, sys/ProtoWf.v). *)
From Quiver Require Import sys.Proto sys.ProtoMsg sys.ProtoFifo sys.ProtoFail sys.ProtoDeliver sys.ProtoWf sys.ProtoParked.

Definition arr (t : pid) (w : worker) : list msg := match alookup t (w_procs w) with Some pr => p_arrived pr | None => [] end.
Definition ae (w w' : worker) : Prop :=
  (forall t, arr t w' = arr t w) /\ w_arrlog w' = w_arrlog w /\ w_dropped w' = w_dropped w.
Lemma ae_refl w : ae w w. Proof. repeat split. Qed.
Lemma ae_trans a b c : ae a b -> ae b c -> ae a c.
Proof. intros (A1&A2&A3) (B1&B2&B3). split; [intros t; rewrite B1; apply A1|split; congruence]. Qed.
Lemma ae_same w w' : w_procs w' = w_procs w /\ w_arrlog w' = w_arrlog w /\ w_dropped w' = w_dropped w -> ae w w'.
Proof. intros (A&B&C). split; [intros t; unfold arr; rewrite A; reflexivity|split; assumption]. Qed.
Lemma ae_set_proc p pr pr1 w : alookup p (w_procs w) = Some pr -> p_arrived pr1 = p_arrived pr ->
  ae w (set_procs w (aset p pr1 (w_procs w))).
Proof.
  intros Hl Hp. split; [|split; reflexivity]. intros t. unfold arr. simpl. rewrite alookup_aset.
  destruct (t =? p) eqn:E; [|reflexivity]. apply Nat.eqb_eq in E. subst t. rewrite Hl. exact Hp.
Qed.
Lemma ae_new_proc p pr0 w : alookup p (w_procs w) = None -> p_arrived pr0 = [] ->
  ae w (set_procs w (aset p pr0 (w_procs w))).
Proof.
  intros Hl Hp. split; [|split; reflexivity]. intros t. unfold arr. simpl. rewrite alookup_aset.
  destruct (t =? p) eqn:E; [|reflexivity]. apply Nat.eqb_eq in E. subst t. rewrite Hl. exact Hp.
Qed.
Lemma ae_upd_proc p f w : (forall pr, p_arrived (f pr) = p_arrived pr) -> ae w (upd_proc p f w).
Proof.
  intros Hf. unfold upd_proc. destruct (alookup p (w_procs w)) as [pr|] eqn:E; [|apply ae_refl].
  eapply ae_set_proc; [exact E|apply Hf].
Qed.
Lemma ae_wake p w : ae w (wake_selecting p w).
Proof. unfold wake_selecting. destruct (mem p (w_selecting w)); apply ae_same; repeat split. Qed.
Lemma ae_notify_result a b r w : ae w (notify_result a b r w).
Proof. unfold notify_result. destruct (awaits a b w); [eapply ae_trans; [|apply ae_wake]; apply ae_upd_proc; intros; reflexivity|apply ae_wake]. Qed.
Lemma ae_worker_notify a b r w : ae w (worker_notify a b r w).
Proof. unfold worker_notify. destruct r; [apply ae_notify_result|]. destruct (awaits a b w); [apply ae_upd_proc; intros; reflexivity|apply ae_wake]. Qed.
Lemma ae_fold {A} (f : worker -> A -> worker) l : (forall w x, ae w (f w x)) -> forall w, ae w (fold_left f l w).
Proof. intros Hf. induction l as [|x l IH]; intros w; simpl; [apply ae_refl|]. eapply ae_trans; [apply Hf|apply IH]. Qed.
Lemma ae_update_await a rs w : ae w (update_await a rs w).
Proof.
  unfold update_await.
  assert (H: ae w (fold_left (fun w e => match snd e with Some r => worker_notify a (fst e) r w | None => w end) rs w)).
  { apply ae_fold. intros w0 x. destruct (snd x); [apply ae_worker_notify|apply ae_refl]. }
  destruct (existsb _ rs); [exact H|]. eapply ae_trans; [exact H|apply ae_wake].
Qed.
Lemma ae_query_fold a ts : forall w rs, ae w (fst (fold_left (query_one a) ts (w, rs))).
Proof.
  induction ts as [|t ts IH]; intros w rs; cbn [fold_left]; [apply ae_refl|].
  assert (Q: ae w (fst (query_one a (w, rs) t))).
  { unfold query_one. destruct (completed_value w t); simpl; apply ae_same; repeat split. }
  destruct (query_one a (w, rs) t) as [w1 rs1]. simpl in Q. eapply ae_trans; [exact Q|apply IH].
Qed.

Lemma ae_notify_local p r h w q : ae w (notify_local p r h w q).
Proof. unfold notify_local. destruct r; [destruct h; [apply ae_refl|apply ae_notify_result]|apply ae_upd_proc; intros; reflexivity]. Qed.
Lemma ae_finish p r h hint w w' : finish p r h hint w = Good w' -> ae w w'.
Proof.
  unfold finish. destruct (order_by hint _); [|discriminate]. intros H; inversion H; subst.
  eapply ae_trans; [|apply ae_fold; intros; apply ae_notify_local]. apply ae_upd_proc; intros; reflexivity.
Qed.

Lemma ae_run_slice i p pr d hint w w' ev : alookup p (w_procs w) = Some pr -> run_slice i p pr d hint w = Good (w', ev) -> ae w w'.
Proof.
  intros Hl. unfold run_slice. destruct (negb (did_ok d)); [discriminate|].
  destruct (take_seq (d_taken d) (p_mail pr)) as [[taken mail']|]; [|discriminate].
  set (pr1 := with_awaiting _ _). set (w1 := set_procs w (aset p pr1 (w_procs w))).
  assert (K1: ae w w1) by (eapply ae_set_proc; [exact Hl|reflexivity]).
  assert (Tail: forall w2 ev2, ae w w2 ->
            match d_fin d with
            | Some r => w4 <- finish p r (d_heapy d) hint (if d_park d then mark_selecting p w2 else w2) ;; Good (w4, ev2)
            | None => if mem p (w_spawning (if d_park d then mark_selecting p w2 else w2)) || mem p (w_selecting (if d_park d then mark_selecting p w2 else w2))
                      then Good (if d_park d then mark_selecting p w2 else w2, ev2)
                      else Good (enqueue p (if d_park d then mark_selecting p w2 else w2), ev2)
            end = Good (w', ev) -> ae w w').
  { intros w2 ev2 K2 H.
    assert (K3: ae w (if d_park d then mark_selecting p w2 else w2)).
    { destruct (d_park d); [eapply ae_trans; [exact K2|apply ae_same; repeat split]|exact K2]. }
    destruct (d_fin d).
    - destruct (finish _ _ _ _ _) as [w4|] eqn:F; simpl in H; [|discriminate]. inversion H; subst.
      eapply ae_trans; [exact K3|eapply ae_finish; exact F].
    - destruct (_ || _); inversion H; subst; [exact K3|eapply ae_trans; [exact K3|apply ae_same; repeat split]]. }
  destruct (d_act d) as [[| t | ts]|]; intros H.
  - eapply (Tail _ _ _ H). Unshelve. eapply ae_trans; [exact K1|apply ae_same; repeat split].
  - eapply (Tail _ _ _ H). Unshelve. eapply ae_trans; [exact K1|apply ae_same; repeat split].
  - eapply (Tail _ _ _ H). Unshelve. eapply ae_trans; [exact K1|]. eapply ae_trans; [|apply ae_same; repeat split]. apply ae_upd_proc; intros; reflexivity.
  - apply (Tail _ _ K1 H).
Qed.

Lemma ae_exec_step i now o w w' ev : exec_step i now o w = Good (w', ev) -> ae w w'.
Proof.
  unfold exec_step. destruct (expire now (o_expired o) w) as [w1|] eqn:E; simpl; [|discriminate].
  assert (K1: ae w w1).
  { unfold expire in E. destruct (order_by _ _); [|discriminate]. inversion E; subst. apply ae_same; repeat split. }
  destruct (w_queue w1) as [|p q']; [intros H; inversion H; subst; exact K1|].
  set (w2 := set_sched w1 q' _ _). assert (K2: ae w w2) by (eapply ae_trans; [exact K1|apply ae_same; repeat split]).
  destruct (alookup p (w_procs w1)) as [pr|] eqn:El; [|intros H; inversion H; subst; exact K2].
  destruct (match o_pid o with Some p' => p =? p' | None => false end).
  - intros H. eapply ae_trans; [exact K2|eapply ae_run_slice; [|exact H]]. exact El.
  - destruct (p_res pr) as [[v|e]|]; try discriminate.
    destruct (finish _ _ _ _ _) as [w3|] eqn:F; simpl; [|discriminate]. intros H; inversion H; subst.
    eapply ae_trans; [exact K2|eapply ae_finish; exact F].
Qed.

Lemma ae_check_completed hint w w' ev : check_completed hint w = Good (w', ev) -> ae w w'.
Proof.
  unfold check_completed. destruct (order_by hint _) as [o|]; [|discriminate].
  intros H; inversion H as [H1]; clear H.
  assert (A: forall l acc, ae (fst acc) (fst (fold_left report_completed l acc))).
  { induction l as [|x l IH]; intros acc; simpl; [apply ae_refl|]. eapply ae_trans; [|apply IH].
    destruct acc as [w0 ev0]. unfold report_completed. destruct (result_of w0 x); simpl; [apply ae_same; repeat split|apply ae_refl]. }
  assert (B: forall l acc, ae (fst acc) (fst (fold_left report_pending l acc))).
  { induction l as [|x l IH]; intros acc; simpl; [apply ae_refl|]. eapply ae_trans; [|apply IH].
    destruct acc as [w0 ev0]. unfold report_pending. destruct (result_of w0 (fst x)); simpl; [apply ae_same; repeat split|apply ae_refl]. }
  pose proof (A o (w, [])) as HA. pose proof (B (w_pending (fst (fold_left report_completed o (w, [])))) (fold_left report_completed o (w, []))) as HB.
  rewrite H1 in HB. simpl in *. eapply ae_trans; eassumption.
Qed.

(* ---- the identity *)
Definition tgt (t : pid) (l : list (pid * msg)) : list msg := map snd (ft t l).
Lemma tgt_app t a b : tgt t (a ++ b) = tgt t a ++ tgt t b.
Proof. unfold tgt. rewrite ft_app, map_app. reflexivity. Qed.
Lemma tgt_one t t' m : tgt t [(t', m)] = if t' =? t then [m] else [].
Proof. unfold tgt, ft. simpl. destruct (t' =? t); reflexivity. Qed.

Definition AL (w : worker) : Prop := forall t, tgt t (w_arrlog w) = tgt t (w_dropped w) ++ arr t w.

Lemma AL_ae w w' : ae w w' -> AL w -> AL w'.
Proof. intros (A&B&C) H t. rewrite A, B, C. apply H. Qed.

Lemma ae_handle_cmd c w w' ev : handle_cmd c w = Good (w', ev) ->
  (forall p, spawns c = Some p -> ~ has p w) -> AL w -> AL w'.
Proof.
  intros H Hf HA.
  assert (New: forall p pr0, ~ has p w -> p_arrived pr0 = [] -> ae w (set_procs w (aset p pr0 (w_procs w)))).
  { intros p pr0 Hn Hp. apply ae_new_proc; [|exact Hp]. unfold has in Hn. destruct (alookup p (w_procs w)); [exfalso; apply Hn; discriminate|reflexivity]. }
  destruct c; simpl in H.
  - inversion H; subst. exact HA.
  - inversion H; subst. exact HA.
  - destruct sleeping; inversion H; subst; (eapply AL_ae; [|exact HA]).
    + apply New; [apply Hf; reflexivity|reflexivity].
    + apply (ae_trans _ (set_procs w (aset p (new_proc true None) (w_procs w)))); [apply New; [apply Hf; reflexivity|reflexivity]|apply ae_same; repeat split].
  - inversion H; subst. eapply AL_ae; [|exact HA].
    apply (ae_trans _ (set_procs w (aset p (new_proc false None) (w_procs w)))); [apply New; [apply Hf; reflexivity|reflexivity]|apply ae_same; repeat split].
  - destruct (alookup p (w_procs w)) as [pr|]; [|discriminate].
    destruct (p_res pr) as [[v|e]|]; try discriminate. destruct (p_pers pr); [|discriminate]. inversion H; subst.
    eapply AL_ae; [|exact HA]. eapply ae_trans; [|apply ae_same; repeat split]. apply ae_upd_proc; intros; reflexivity.
  - destruct (fold_left (query_one awaiter) targets (w, [])) as [w1 rs] eqn:E. inversion H; subst.
    eapply AL_ae; [|exact HA]. pose proof (ae_query_fold awaiter targets w []) as Q. rewrite E in Q. exact Q.
  - inversion H; subst. eapply AL_ae; [apply ae_update_await|exact HA].
  - destruct (alookup target (w_procs w)) as [pr|] eqn:El; inversion H; subst; clear H.
    + eapply AL_ae; [apply ae_wake|]. intros t. unfold upd_proc. simpl. rewrite El. simpl.
      rewrite tgt_app, tgt_one, (HA t). unfold arr. simpl. rewrite alookup_aset. rewrite (Nat.eqb_sym t target).
      destruct (target =? t) eqn:Et.
      * apply Nat.eqb_eq in Et. subst t. rewrite El. simpl. rewrite app_assoc. reflexivity.
      * rewrite app_nil_r. reflexivity.
    + eapply AL_ae; [apply ae_wake|]. intros t. simpl. rewrite !tgt_app, tgt_one, (HA t). unfold arr. simpl.
      destruct (target =? t) eqn:Et.
      * apply Nat.eqb_eq in Et. subst t. rewrite El. rewrite !app_nil_r. reflexivity.
      * rewrite !app_nil_r. reflexivity.
  - destruct (mem p (w_spawning w)); inversion H; subst; [eapply AL_ae; [apply ae_same; repeat split|exact HA]|exact HA].
  - destruct (alookup p (w_procs w)) as [pr|]; [|discriminate].
    destruct (p_res pr); inversion H; subst; [exact HA|eapply AL_ae; [apply ae_same; repeat split|exact HA]].
Qed.

Lemma AL_handle_cmds e i : forall pre w rest w' ev,
  NInv e i w (pre ++ rest) -> AL w -> handle_cmds pre w = Good (w', ev) -> AL w'.
Proof.
  induction pre as [|c pre IH]; intros w rest w' ev HI HA H; simpl in H.
  - inversion H; subst. exact HA.
  - destruct (handle_cmd c w) as [[w1 e1]|] eqn:E1; simpl in H; [|discriminate].
    destruct (handle_cmds pre w1) as [[w2 e2]|] eqn:E2; simpl in H; [|discriminate].
    inversion H; subst w' ev; clear H.
    assert (Hfresh: forall p, spawns c = Some p -> ~ has p w).
    { intros p Hp. destruct HI as (_&_&_&U). apply (U p). simpl. rewrite Hp. left; reflexivity. }
    assert (H1: NInv e i w1 (pre ++ rest)).
    { apply (NInv_handle_cmds e i [c] w (pre ++ rest) w1 (e1 ++ [])); [exact HI|]. simpl. rewrite E1. reflexivity. }
    apply (IH w1 rest w2 e2 H1); [|exact E2]. eapply ae_handle_cmd; eassumption.
Qed.

Lemma AL_node_step e i now k o nd nd' :
  NInv e i (n_w nd) (n_cmd nd) -> AL (n_w nd) -> node_step i now k o nd = Good nd' -> AL (n_w nd').
Proof.
  intros HI HA H. unfold node_step in H. pose proof (split_at_app k (n_cmd nd)) as Hs.
  destruct (split_at k (n_cmd nd)) as [pre later]. simpl in Hs.
  destruct (handle_cmds pre (n_w nd)) as [[w1 e1]|] eqn:E1; simpl in H; [|discriminate].
  destruct (exec_step i now o w1) as [[w2 e2]|] eqn:E2; simpl in H; [|discriminate].
  destruct (check_completed (o_completed o) w2) as [[w3 e3]|] eqn:E3; simpl in H; [|discriminate].
  inversion H; subst nd'; clear H. simpl. rewrite <- Hs in HI.
  eapply AL_ae; [eapply ae_check_completed; exact E3|]. eapply AL_ae; [eapply ae_exec_step; exact E2|].
  eapply AL_handle_cmds; eassumption.
Qed.

Definition arrive_inv (s : sys) : Prop := WF s /\ all_workers AL s.

Lemma arrive_step s a s' : arrive_inv s -> sys_step s a = Good s' -> arrive_inv s'.
Proof.
  intros (W0&P0) E. split; [eapply WF_step; eassumption|].
  destruct a as [i k o|ks|d|c]; simpl in E.
  - destruct (nth_error (s_nodes s) i) as [nd|] eqn:Ei; [|inversion E; subst; exact P0].
    destruct (node_step i (s_clock s) k o nd) as [nd'|] eqn:Es; cbn [rbind] in E; [|discriminate].
    inversion E; subst s'. intros j x Hx. simpl in Hx. destruct (Nat.eq_dec j i) as [->|Hne].
    + rewrite (nth_error_update_same _ _ _ _ Ei) in Hx. inversion Hx; subst x.
      destruct W0 as (_&N). eapply AL_node_step; [apply (N i nd Ei)|apply (P0 i nd Ei)|exact Es].
    + rewrite nth_error_update_other in Hx by exact Hne. apply (P0 j x Hx).
  - destruct (collect ks (s_nodes s)) as [evs ns] eqn:Ec.
    destruct (handle_events (length (s_nodes s)) evs (s_env s, ns)) as [[e' ns']|] eqn:Eh; cbn [rbind] in E; [|discriminate].
    inversion E; subst s'. intros j x Hx. simpl in Hx.
    apply handle_events_nw in Eh. pose proof (collect_totals ks (s_nodes s) (0, mkMsg 0 0 0)) as (_&_&_&_&_&M). rewrite Ec in M. simpl in M.
    destruct (map_nw_nth _ _ (eq_trans Eh M) j x Hx) as (nd&Hn&En). rewrite <- En. apply (P0 j nd Hn).
  - inversion E; subst. exact P0.
  - assert (Push: forall w c0 j x, nth_error (push_cmd w c0 (s_nodes s)) j = Some x -> AL (n_w x)).
    { intros w c0 j x Hx. rewrite nth_error_push in Hx. destruct (nth_error (s_nodes s) j) as [nd|] eqn:En; [|discriminate].
      inversion Hx; subst. destruct (j =? w); simpl; apply (P0 j nd En). }
    unfold client_step in E. destruct c.
    + inversion E; subst s'. intros j x Hx. eapply Push; exact Hx.
    + inversion E; subst s'. intros j x Hx. eapply Push; exact Hx.
    + inversion E; subst s'. intros j x Hx. eapply Push; exact Hx.
    + destruct (alookup p (e_router (s_env s))); inversion E; subst s'; [intros j x Hx; eapply Push; exact Hx|exact P0].
    + destruct (alookup p (e_router (s_env s))); inversion E; subst s'; [intros j x Hx; eapply Push; exact Hx|exact P0].
Qed.

(* C04: the arrival log of a worker restricted to a target IS the p_arrived of that process (every
   handled DeliverMessage was appended to the mailbox of its target, in order, nothing else was) *)
Theorem arrival_log_is_mailbox_history : forall nw sigma s,
  0 < nw -> run (init nw) sigma = Good s ->
  forall i nd t, nth_error (s_nodes s) i = Some nd ->
    tgt t (w_arrlog (n_w nd)) = arr t (n_w nd).
Proof.
  intros nw sigma s Hnw H i nd t Hn.
  assert (Inv: arrive_inv s).
  { assert (I0: arrive_inv (init nw)) by (split; [apply WF_init|apply all_workers_init; intros x; reflexivity]).
    revert H I0. generalize (init nw). induction sigma as [|a sigma IH]; intros s0 H I0; simpl in H.
    - inversion H; subst. exact I0.
    - destruct (sys_step s0 a) as [s1|] eqn:E; cbn [rbind] in H; [|discriminate].
      apply (IH s1 H). eapply arrive_step; eassumption. }
  destruct Inv as (_&P). specialize (P i nd Hn t).
  destruct (no_message_dropped nw sigma s Hnw H) as (D&_). rewrite (D i nd Hn) in P. exact P.
Qed.

(* non-vacuity: in the fan-in run (ProtoExamples) one message has arrived at process 1 on worker 1 *)
From Quiver Require Import sys.ProtoExamples.
Example arrival_history_nonempty : exists s nd,
  run (init 2) fanin_schedule = Good s /\ nth_error (s_nodes s) 1 = Some nd /\
  tgt 1 (w_arrlog (n_w nd)) = [mkMsg 2 0 0] /\ arr 1 (n_w nd) = [mkMsg 2 0 0].
Proof. eexists. eexists. split; [vm_compute; reflexivity|]. split; [reflexivity|]. split; reflexivity. Qed.
