(* ProtoExamples.v — non-vacuity: concrete reachable states of M-Sys that meet the hypotheses of
   the C03/C04/C15 theorems in a non-trivial way (all by computation). *)
From Quiver Require Import sys.Proto sys.ProtoMsg sys.ProtoFail.

Definition park_did (s : sel) : did :=
  {| d_taken := []; d_sel := Some s; d_forget := []; d_act := None; d_park := true; d_fin := None; d_heapy := false |}.

(* a 3-process fan-in on two workers, mid-flight: root 0 (worker 0) spawned the receiver 1
   (worker 1) and the sender 2 (worker 0); three messages to 1 have been sent: one has arrived in
   1's mailbox, one is a DeliverMessage in worker 1's command queue, one is still a DeliverAction
   in worker 0's event queue. *)
Definition fanin_schedule : list sched_action :=
  [ X (XStart false);
    W 0 None (orc (Some 0) (d_act_ ASpawn)); E [];
    W 0 None (orc (Some 0) (d_act_ ASpawn)); E [];
    W 1 None (orc (Some 1) (park_did {| sl_targets := []; sl_cursors := [0]; sl_timeouts := []; sl_start := Some 0 |}));
    W 0 None (orc (Some 2) (d_act_ (ADeliver 1))); E [];       (* message (2,0,0) *)
    W 1 (Some 1) (orc (Some 1) (park_did {| sl_targets := []; sl_cursors := [1]; sl_timeouts := []; sl_start := Some 0 |}));
                                                               (* ... arrives: worker 1 handles only it *)
    W 0 None (orc (Some 0) (d_act_ (ADeliver 1))); E [];       (* message (0,0,1): now a command of worker 1 *)
    W 0 None (orc (Some 2) (d_act_ (ADeliver 1))) ].           (* message (2,0,2): still an event of worker 0 *)

Example fanin_midflight :
  exists s, run (init 2) fanin_schedule = Good s /\
    let x1 := (1, mkMsg 2 0 0) in let x2 := (1, mkMsg 0 0 1) in let x3 := (1, mkMsg 2 0 2) in
    total (g_arr x1) (s_nodes s) = 1 /\ total (g_cmd x2) (s_nodes s) = 1 /\ total (g_evt x3) (s_nodes s) = 1 /\
    total (g_sent x1) (s_nodes s) = 1 /\ total (g_sent x2) (s_nodes s) = 1 /\ total (g_sent x3) (s_nodes s) = 1.
Proof. vm_compute. eexists. split; [reflexivity|]. repeat split. Qed.

(* a parked select with two sources (a receive source and an awaited process) whose awaited
   target then fails: the failure reaches exactly the awaiter *)
Definition two_source_proc : proc :=
  {| p_mail := []; p_res := None; p_awaiting := [(1, None)];
     p_sel := Some {| sl_targets := [1]; sl_cursors := [0]; sl_timeouts := []; sl_start := Some 0 |};
     p_pers := false; p_arrived := []; p_taken := [] |}.
Definition bystander_proc : proc := new_proc false None.
Definition fail_worker : worker :=
  set_sched (set_procs new_worker [(0, two_source_proc); (1, new_proc false None); (2, bystander_proc)]) [] [] [0].

Example failure_local_applies :
  NoDup (map fst (w_procs fail_worker)) /\
  exists w', finish 1 (RErr 7) false [0; 1; 2] fail_worker = Good w' /\
    (exists pr, alookup 0 (w_procs w') = Some pr /\ p_res pr = Some (RErr 7) /\ p_sel pr = p_sel two_source_proc) /\
    alookup 2 (w_procs w') = Some bystander_proc /\ w_selecting w' = [0].
Proof.
  split.
  - simpl. repeat constructor; simpl; intuition discriminate.
  - vm_compute. eexists. split; [reflexivity|]. split; [eexists; repeat split|split; reflexivity].
Qed.
