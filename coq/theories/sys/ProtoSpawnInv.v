(* ProtoSpawnInv.v — C04 spawner_gets_pid on M-Sys (sys/Proto.v) in its global invariant form, for
   every schedule and every oracle: a process c is in `spawning` (on some worker) iff exactly one of
   {a SpawnAction of c queued in an event queue (or being handled by the environment), a
   NotifySpawn for c queued in a command queue} holds — and never more than one. *)
From Quiver Require Import sys.Proto sys.ProtoMsg sys.ProtoFifo sys.ProtoFail sys.ProtoWake sys.ProtoDeliver sys.ProtoWf sys.ProtoParked.

Definition is_sevt (c : pid) (e : event) : bool := match e with ESpawnA c' => c =? c' | _ => false end.
Definition is_notif (c : pid) (x : cmd) : bool := match x with CNotifySpawn c' _ => c =? c' | _ => false end.
Definition nse (c : pid) (es : list event) : nat := length (filter (is_sevt c) es).
Definition nnc (c : pid) (cs : list cmd) : nat := length (filter (is_notif c) cs).
Lemma nse_app c a b : nse c (a ++ b) = nse c a + nse c b. Proof. unfold nse. rewrite filter_app, app_length. reflexivity. Qed.
Lemma nnc_app c a b : nnc c (a ++ b) = nnc c a + nnc c b. Proof. unfold nnc. rewrite filter_app, app_length. reflexivity. Qed.

Definition ind (b : bool) : nat := if b then 1 else 0.
Definition g_sp c (nd : node) := ind (mem c (w_spawning (n_w nd))).
Definition g_se c (nd : node) := nse c (n_evt nd).
Definition g_nc c (nd : node) := nnc c (n_cmd nd).

(* ---- the spawning set through the worker operations *)
Definition spe (w w' : worker) : Prop := w_spawning w' = w_spawning w.
Lemma spe_refl w : spe w w. Proof. reflexivity. Qed.
Lemma spe_trans a b c : spe a b -> spe b c -> spe a c. Proof. unfold spe; congruence. Qed.
Lemma spe_upd_proc p f w : spe w (upd_proc p f w). Proof. apply upd_proc_sched. Qed.
Lemma spe_wake p w : spe w (wake_selecting p w).
Proof. unfold wake_selecting. destruct (mem p (w_selecting w)); reflexivity. Qed.
Lemma spe_notify_result a b r w : spe w (notify_result a b r w).
Proof. unfold notify_result. destruct (awaits a b w); [eapply spe_trans; [apply spe_upd_proc|apply spe_wake]|apply spe_wake]. Qed.
Lemma spe_worker_notify a b r w : spe w (worker_notify a b r w).
Proof. unfold worker_notify. destruct r; [apply spe_notify_result|]. destruct (awaits a b w); [apply spe_upd_proc|apply spe_wake]. Qed.
Lemma spe_fold {A} (f : worker -> A -> worker) l : (forall w x, spe w (f w x)) -> forall w, spe w (fold_left f l w).
Proof. intros Hf. induction l as [|x l IH]; intros w; simpl; [apply spe_refl|]. eapply spe_trans; [apply Hf|apply IH]. Qed.
Lemma spe_update_await a rs w : spe w (update_await a rs w).
Proof.
  unfold update_await.
  assert (H: spe w (fold_left (fun w e => match snd e with Some r => worker_notify a (fst e) r w | None => w end) rs w)).
  { apply spe_fold. intros w0 x. destruct (snd x); [apply spe_worker_notify|apply spe_refl]. }
  destruct (existsb _ rs); [exact H|]. eapply spe_trans; [exact H|apply spe_wake].
Qed.
Lemma spe_query_fold a ts : forall w rs, spe w (fst (fold_left (query_one a) ts (w, rs))).
Proof.
  induction ts as [|t ts IH]; intros w rs; cbn [fold_left]; [apply spe_refl|].
  assert (Q: spe w (fst (query_one a (w, rs) t))) by (unfold query_one; destruct (completed_value w t); reflexivity).
  destruct (query_one a (w, rs) t) as [w1 rs1]. simpl in Q. eapply spe_trans; [exact Q|apply IH].
Qed.

(* one command: only a NotifySpawn changes the spawning set, and no command emits a SpawnAction *)
Lemma handle_cmd_spawning c0 w w' ev : handle_cmd c0 w = Good (w', ev) ->
  (forall c, nse c ev = 0) /\
  match c0 with
  | CNotifySpawn p _ => w_spawning w' = if mem p (w_spawning w) then sremove p (w_spawning w) else w_spawning w
  | _ => w_spawning w' = w_spawning w
  end.
Proof.
  intros H. destruct c0; simpl in H.
  - inversion H; subst. split; [reflexivity|reflexivity].
  - inversion H; subst. split; reflexivity.
  - destruct sleeping; inversion H; subst; split; reflexivity.
  - inversion H; subst; split; reflexivity.
  - destruct (alookup p (w_procs w)) as [pr|]; [|discriminate].
    destruct (p_res pr) as [[v|e]|]; try discriminate. destruct (p_pers pr); [|discriminate]. inversion H; subst.
    split; [reflexivity|]. unfold enqueue. simpl. apply spe_upd_proc.
  - destruct (fold_left (query_one awaiter) targets (w, [])) as [w1 rs] eqn:E. inversion H; subst.
    split; [reflexivity|]. pose proof (spe_query_fold awaiter targets w []) as Q. rewrite E in Q. exact Q.
  - inversion H; subst. split; [reflexivity|apply spe_update_await].
  - destruct (alookup target (w_procs w)); inversion H; subst; (split; [reflexivity|]).
    + eapply spe_trans; [|apply spe_wake]. eapply spe_trans; [|apply spe_upd_proc]. reflexivity.
    + eapply spe_trans; [|apply spe_wake]. reflexivity.
  - destruct (mem p (w_spawning w)); inversion H; subst; split; reflexivity.
  - destruct (alookup p (w_procs w)) as [pr|]; [|discriminate].
    destruct (p_res pr); inversion H; subst; split; reflexivity.
Qed.

Lemma ind_sremove c p l : NoDup l \/ True -> mem p l = true -> ind (mem c (sremove p l)) + ind (c =? p) = ind (mem c l).
Proof.
  intros _ Hp. rewrite mem_sremove. destruct (c =? p) eqn:E.
  - apply Nat.eqb_eq in E. subst c. rewrite Hp, Nat.eqb_refl. reflexivity.
  - rewrite Nat.eqb_sym, E. simpl. rewrite andb_true_r, Nat.add_0_r. reflexivity.
Qed.

(* a prefix of the queue: every NotifySpawn in it finds its process in `spawning` *)
Lemma handle_cmds_spawning : forall pre w rest w' ev,
  (forall c, nnc c (pre ++ rest) <= 1 /\ (1 <= nnc c (pre ++ rest) -> mem c (w_spawning w) = true)) ->
  handle_cmds pre w = Good (w', ev) ->
  (forall c, ind (mem c (w_spawning w')) + nnc c pre = ind (mem c (w_spawning w))) /\
  (forall c, nse c ev = 0) /\
  (forall c, 1 <= nnc c rest -> mem c (w_spawning w') = true).
Proof.
  induction pre as [|c0 pre IH]; intros w rest w' ev Hyp H; simpl in H.
  - inversion H; subst. repeat split; [intros c; unfold nnc; simpl; lia|intros c Hc; apply Hyp; exact Hc].
  - destruct (handle_cmd c0 w) as [[w1 e1]|] eqn:E1; simpl in H; [|discriminate].
    destruct (handle_cmds pre w1) as [[w2 e2]|] eqn:E2; simpl in H; [|discriminate].
    inversion H; subst w' ev; clear H.
    destruct (handle_cmd_spawning _ _ _ _ E1) as (N1&S1).
    assert (Step: forall c, ind (mem c (w_spawning w1)) + ind (is_notif c c0) = ind (mem c (w_spawning w))).
    { intros c. destruct c0; simpl; try (rewrite S1; lia).
      destruct (Hyp p) as (_&Hp). assert (Mp: mem p (w_spawning w) = true).
      { apply Hp. change ((CNotifySpawn p spawned :: pre) ++ rest) with ([CNotifySpawn p spawned] ++ (pre ++ rest)).
        rewrite nnc_app. unfold nnc at 1. simpl. rewrite Nat.eqb_refl. simpl. lia. }
      rewrite S1, Mp. apply ind_sremove; [right; exact I|exact Mp]. }
    destruct (IH w1 rest w2 e2) as (A&B&C); [|exact E2|].
    + intros c. destruct (Hyp c) as (H1&H2).
      change ((c0 :: pre) ++ rest) with ([c0] ++ (pre ++ rest)) in H1, H2. rewrite nnc_app in H1, H2.
      assert (Hc0: nnc c [c0] = ind (is_notif c c0)) by (unfold nnc; simpl; destruct (is_notif c c0); reflexivity).
      rewrite Hc0 in H1, H2. split; [lia|]. intros Hge. specialize (Step c).
      destruct (is_notif c c0); simpl in *; [lia|]. rewrite Nat.add_0_r in Step.
      assert (Hm: mem c (w_spawning w) = true) by (apply H2; lia).
      rewrite Hm in Step. destruct (mem c (w_spawning w1)); [reflexivity|discriminate].
    + repeat split.
      * intros c. specialize (A c). specialize (Step c).
        change (c0 :: pre) with ([c0] ++ pre). rewrite nnc_app.
        assert (Hc0: nnc c [c0] = ind (is_notif c c0)) by (unfold nnc; simpl; destruct (is_notif c c0); reflexivity).
        rewrite Hc0. lia.
      * intros c. rewrite nse_app, N1, B. reflexivity.
      * exact C.
Qed.

(* the completion path and the completion check leave `spawning` alone and emit no SpawnAction *)
Lemma spe_notify_local p r h w q : spe w (notify_local p r h w q).
Proof. unfold notify_local. destruct r; [destruct h; [apply spe_refl|apply spe_notify_result]|apply spe_upd_proc]. Qed.
Lemma spe_finish p r h hint w w' : finish p r h hint w = Good w' -> spe w w'.
Proof.
  unfold finish. destruct (order_by hint _); [|discriminate]. intros H; inversion H; subst.
  eapply spe_trans; [apply spe_upd_proc|]. apply spe_fold. intros; apply spe_notify_local.
Qed.
Lemma nse_map_results c (f : pid -> event) l : (forall a, is_sevt c (f a) = false) -> nse c (map f l) = 0.
Proof. intros H. unfold nse. induction l; simpl; [reflexivity|]. rewrite H. exact IHl. Qed.

Lemma check_completed_spawning hint w w' ev : check_completed hint w = Good (w', ev) -> spe w w' /\ forall c, nse c ev = 0.
Proof.
  unfold check_completed. destruct (order_by hint _) as [o|]; [|discriminate].
  intros H; inversion H as [H1]; clear H.
  assert (A: forall l acc, spe (fst acc) (fst (fold_left report_completed l acc)) /\ forall c, nse c (snd (fold_left report_completed l acc)) = nse c (snd acc)).
  { induction l as [|y l IH]; intros acc; simpl; [split; [apply spe_refl|reflexivity]|].
    destruct (IH (report_completed acc y)) as (I1&I2).
    assert (S: spe (fst acc) (fst (report_completed acc y)) /\ forall c, nse c (snd (report_completed acc y)) = nse c (snd acc)).
    { destruct acc as [w0 ev0]. unfold report_completed. destruct (result_of w0 y); simpl; [|split; [apply spe_refl|reflexivity]].
      split; [reflexivity|]. intros c. rewrite nse_app, nse_map_results by reflexivity. lia. }
    destruct S as (S1&S2). split; [eapply spe_trans; eassumption|intros c; rewrite I2; apply S2]. }
  assert (B: forall l acc, spe (fst acc) (fst (fold_left report_pending l acc)) /\ forall c, nse c (snd (fold_left report_pending l acc)) = nse c (snd acc)).
  { induction l as [|y l IH]; intros acc; simpl; [split; [apply spe_refl|reflexivity]|].
    destruct (IH (report_pending acc y)) as (I1&I2).
    assert (S: spe (fst acc) (fst (report_pending acc y)) /\ forall c, nse c (snd (report_pending acc y)) = nse c (snd acc)).
    { destruct acc as [w0 ev0]. unfold report_pending. destruct (result_of w0 (fst y)); simpl; [|split; [apply spe_refl|reflexivity]].
      split; [reflexivity|]. intros c. rewrite nse_app, nse_map_results by reflexivity. lia. }
    destruct S as (S1&S2). split; [eapply spe_trans; eassumption|intros c; rewrite I2; apply S2]. }
  destruct (A o (w, [])) as (A1&A2).
  destruct (B (w_pending (fst (fold_left report_completed o (w, [])))) (fold_left report_completed o (w, []))) as (B1&B2).
  rewrite H1 in B1, B2. simpl in *. split; [eapply spe_trans; eassumption|]. intros c. rewrite B2, A2. reflexivity.
Qed.

(* one slice: a Spawn action adds the executed process to `spawning` and emits its SpawnAction; nothing else touches either *)
Lemma run_slice_spawning i p pr d hint w w' ev :
  mem p (w_spawning w) = false ->
  run_slice i p pr d hint w = Good (w', ev) ->
  forall c, ind (mem c (w_spawning w')) = ind (mem c (w_spawning w)) + nse c ev.
Proof.
  intros Hp. unfold run_slice. destruct (negb (did_ok d)); [discriminate|].
  destruct (take_seq (d_taken d) (p_mail pr)) as [[taken mail']|]; [|discriminate].
  set (pr1 := with_awaiting _ _). set (w1 := set_procs w (aset p pr1 (w_procs w))).
  assert (Tail: forall w2 ev2,
            match d_fin d with
            | Some r => w4 <- finish p r (d_heapy d) hint (if d_park d then mark_selecting p w2 else w2) ;; Good (w4, ev2)
            | None => if mem p (w_spawning (if d_park d then mark_selecting p w2 else w2)) || mem p (w_selecting (if d_park d then mark_selecting p w2 else w2))
                      then Good (if d_park d then mark_selecting p w2 else w2, ev2)
                      else Good (enqueue p (if d_park d then mark_selecting p w2 else w2), ev2)
            end = Good (w', ev) -> w_spawning w' = w_spawning w2 /\ ev = ev2).
  { intros w2 ev2 H.
    assert (K3: w_spawning (if d_park d then mark_selecting p w2 else w2) = w_spawning w2) by (destruct (d_park d); reflexivity).
    destruct (d_fin d).
    - destruct (finish _ _ _ _ _) as [w4|] eqn:F; simpl in H; [|discriminate]. inversion H; subst.
      apply spe_finish in F. unfold spe in F. split; [congruence|reflexivity].
    - destruct (_ || _); inversion H; subst; split; try reflexivity; exact K3. }
  destruct (d_act d) as [[| t | ts]|]; intros H c.
  - destruct (Tail _ _ H) as (S&->). rewrite S. simpl. rewrite mem_sadd. unfold nse. simpl.
    destruct (c =? p) eqn:E.
    + apply Nat.eqb_eq in E. subst c. rewrite Hp. reflexivity.
    + rewrite orb_false_r. simpl. lia.
  - destruct (Tail _ _ H) as (S&->). rewrite S. simpl. unfold nse. simpl. lia.
  - destruct (Tail _ _ H) as (S&->). rewrite S. simpl.
    destruct (upd_proc_sched p (fun q => with_awaiting (fold_left (fun a t => aset t None a) ts (p_awaiting q)) q) w1) as (_&S2&_).
    rewrite S2. unfold nse. simpl. lia.
  - destruct (Tail _ _ H) as (S&->). rewrite S. simpl. unfold nse. simpl. lia.
Qed.

Lemma exec_step_spawning i now o w w' ev : SW w ->
  exec_step i now o w = Good (w', ev) ->
  forall c, ind (mem c (w_spawning w')) = ind (mem c (w_spawning w)) + nse c ev.
Proof.
  intros HS. unfold exec_step. destruct (expire now (o_expired o) w) as [w1|] eqn:E; simpl; [|discriminate].
  pose proof (SW_expire _ _ _ _ E HS) as HS1.
  assert (S1: w_spawning w1 = w_spawning w).
  { unfold expire in E. destruct (order_by _ _); [|discriminate]. inversion E; subst. reflexivity. }
  destruct (w_queue w1) as [|p q'] eqn:Eq; [intros H c; inversion H; subst; rewrite S1; unfold nse; simpl; lia|].
  destruct (SW_pop p q' w1 Eq HS1) as (_&_&Psp&_&_&_).
  set (w2 := set_sched w1 q' (w_spawning w1) (w_selecting w1)).
  destruct (alookup p (w_procs w1)) as [pr|]; [|intros H c; inversion H; subst; simpl; rewrite S1; unfold nse; simpl; lia].
  destruct (match o_pid o with Some p' => p =? p' | None => false end).
  - intros H c. assert (Psp2: mem p (w_spawning w2) = false) by exact Psp.
    rewrite (run_slice_spawning _ _ _ _ _ _ _ _ Psp2 H c). simpl. rewrite S1. reflexivity.
  - destruct (p_res pr) as [[v|e]|]; try discriminate.
    destruct (finish _ _ _ _ _) as [w3|] eqn:F; simpl; [|discriminate]. intros H c; inversion H; subst.
    apply spe_finish in F. unfold spe in F. rewrite F. simpl. rewrite S1. unfold nse. simpl. lia.
Qed.

(* Worker::step as a whole *)
Lemma node_step_spawning e i now k o nd nd' :
  NInv e i (n_w nd) (n_cmd nd) ->
  (forall c, nnc c (n_cmd nd) <= 1 /\ (1 <= nnc c (n_cmd nd) -> mem c (w_spawning (n_w nd)) = true)) ->
  node_step i now k o nd = Good nd' ->
  forall c, g_sp c nd' + g_nc c nd + g_se c nd = g_sp c nd + g_nc c nd' + g_se c nd'.
Proof.
  intros HI Hyp H. unfold node_step in H. pose proof (split_at_app k (n_cmd nd)) as Hs.
  destruct (split_at k (n_cmd nd)) as [pre later]. simpl in Hs.
  destruct (handle_cmds pre (n_w nd)) as [[w1 e1]|] eqn:E1; simpl in H; [|discriminate].
  destruct (exec_step i now o w1) as [[w2 e2]|] eqn:E2; simpl in H; [|discriminate].
  destruct (check_completed (o_completed o) w2) as [[w3 e3]|] eqn:E3; simpl in H; [|discriminate].
  inversion H; subst nd'; clear H. intros c. unfold g_sp, g_nc, g_se. simpl.
  rewrite <- Hs in Hyp, HI.
  destruct (handle_cmds_spawning pre (n_w nd) later w1 e1 Hyp E1) as (A&B&_).
  pose proof (NInv_handle_cmds e i pre (n_w nd) later w1 e1 HI E1) as (HS1&_).
  pose proof (exec_step_spawning _ _ _ _ _ _ HS1 E2 c) as C.
  destruct (check_completed_spawning _ _ _ _ E3) as (D1&D2). unfold spe in D1.
  rewrite D1, <- Hs, nnc_app, !nse_app, B, D2. specialize (A c). lia.
Qed.

Lemma node_step_notif_ok e i now k o nd nd' :
  NInv e i (n_w nd) (n_cmd nd) ->
  (forall c, nnc c (n_cmd nd) <= 1 /\ (1 <= nnc c (n_cmd nd) -> mem c (w_spawning (n_w nd)) = true)) ->
  node_step i now k o nd = Good nd' ->
  forall c, 1 <= nnc c (n_cmd nd') -> mem c (w_spawning (n_w nd')) = true.
Proof.
  intros HI Hyp H. unfold node_step in H. pose proof (split_at_app k (n_cmd nd)) as Hs.
  destruct (split_at k (n_cmd nd)) as [pre later]. simpl in Hs.
  destruct (handle_cmds pre (n_w nd)) as [[w1 e1]|] eqn:E1; simpl in H; [|discriminate].
  destruct (exec_step i now o w1) as [[w2 e2]|] eqn:E2; simpl in H; [|discriminate].
  destruct (check_completed (o_completed o) w2) as [[w3 e3]|] eqn:E3; simpl in H; [|discriminate].
  inversion H; subst nd'; clear H. intros c Hc. simpl in *.
  rewrite <- Hs in Hyp, HI.
  destruct (handle_cmds_spawning pre (n_w nd) later w1 e1 Hyp E1) as (_&_&C).
  pose proof (NInv_handle_cmds e i pre (n_w nd) later w1 e1 HI E1) as (HS1&_).
  pose proof (exec_step_spawning _ _ _ _ _ _ HS1 E2 c) as D.
  destruct (check_completed_spawning _ _ _ _ E3) as (D1&_). unfold spe in D1. rewrite D1.
  specialize (C c Hc). rewrite C in D. destruct (mem c (w_spawning w2)); [reflexivity|simpl in D; lia].
Qed.

(* ---- system level *)
Lemma total_pos g ns : 1 <= total g ns -> exists i nd, nth_error ns i = Some nd /\ 1 <= g nd.
Proof.
  induction ns as [|a ns IH]; simpl; intros H; [lia|].
  destruct (g a) eqn:Ea.
  - destruct (IH H) as (i&nd&Hn&Hg). exists (S i), nd. split; assumption.
  - exists 0, a. split; [reflexivity|lia].
Qed.
Lemma total_ge g ns : forall i nd, nth_error ns i = Some nd -> g nd <= total g ns.
Proof. induction ns as [|a ns IH]; intros [|i] nd H; simpl in *; try discriminate; [inversion H; subst; lia|specialize (IH _ _ H); lia]. Qed.
Lemma total_zero g ns : (forall j b, nth_error ns j = Some b -> g b = 0) -> total g ns = 0.
Proof.
  induction ns as [|a ns IH]; intros H; simpl; [reflexivity|]. rewrite (H 0 a eq_refl), IH; [reflexivity|].
  intros j b Hj. apply (H (S j) b Hj).
Qed.
Lemma total_le1 g ns : (forall nd, g nd <= 1) ->
  (forall i j a b, nth_error ns i = Some a -> nth_error ns j = Some b -> 1 <= g a -> 1 <= g b -> i = j) ->
  total g ns <= 1.
Proof.
  intros Hg. induction ns as [|a ns IH]; intros H; simpl; [lia|].
  destruct (g a) eqn:Ea.
  - simpl. apply IH. intros i j x y Hi Hj Gx Gy. specialize (H (S i) (S j) x y Hi Hj Gx Gy). lia.
  - rewrite total_zero; [specialize (Hg a); lia|]. intros j b Hj. destruct (g b) eqn:Eb; [reflexivity|].
    specialize (H 0 (S j) a b eq_refl Hj). lia.
Qed.

Lemma ind_le1 b : ind b <= 1. Proof. destruct b; simpl; lia. Qed.
Lemma ind_true b : 1 <= ind b -> b = true. Proof. destruct b; simpl; [reflexivity|lia]. Qed.

(* from well-formedness: a process is in `spawning` on at most one worker, the one the router names *)
Lemma spawning_where e ns c : WFe e ns -> 1 <= total (g_sp c) ns ->
  exists i nd, nth_error ns i = Some nd /\ mem c (w_spawning (n_w nd)) = true /\ alookup c (e_router e) = Some i.
Proof.
  intros (_&N) H. destruct (total_pos _ _ H) as (i&nd&Hn&Hg). exists i, nd. apply ind_true in Hg.
  destruct (N i nd Hn) as (S&L&_). repeat split; [exact Hn|exact Hg|]. apply L. apply (sw_has _ S). right; left; exact Hg.
Qed.
Lemma spawning_unique e ns c : WFe e ns -> total (g_sp c) ns <= 1.
Proof.
  intros (_&N). apply total_le1; [intros nd; apply ind_le1|].
  intros i j a b Hi Hj Ga Gb. apply ind_true in Ga, Gb.
  destruct (N i a Hi) as (Sa&La&_). destruct (N j b Hj) as (Sb&Lb&_).
  assert (alookup c (e_router e) = Some i) by (apply La, (sw_has _ Sa); right; left; exact Ga).
  assert (alookup c (e_router e) = Some j) by (apply Lb, (sw_has _ Sb); right; left; exact Gb).
  congruence.
Qed.

(* the invariant, with the SpawnActions the environment has collected and not yet handled *)
Definition Sp (ns : list node) (extra : pid -> nat) : Prop :=
  (forall i nd c, nth_error ns i = Some nd -> 1 <= nnc c (n_cmd nd) -> mem c (w_spawning (n_w nd)) = true) /\
  (forall c, total (g_sp c) ns = total (g_se c) ns + total (g_nc c) ns + extra c).

Lemma Sp_ext ns f g : (forall c, f c = g c) -> Sp ns f -> Sp ns g.
Proof. intros H (A&B). split; [exact A|]. intros c. rewrite <- H. apply B. Qed.

Lemma Sp_push_other ns extra w x : (forall c, is_notif c x = false) -> Sp ns extra -> Sp (push_cmd w x ns) extra.
Proof.
  intros Hx (A&B). split.
  - intros i nd c Hn Hc. rewrite nth_error_push in Hn. destruct (nth_error ns i) as [nd0|] eqn:En; [|discriminate].
    injection Hn as Hn. destruct (i =? w); subst nd; simpl in *; [|eapply A; eassumption].
    rewrite nnc_app in Hc. unfold nnc at 2 in Hc. simpl in Hc. rewrite Hx in Hc. simpl in Hc. rewrite Nat.add_0_r in Hc. eapply A; eassumption.
  - intros c. rewrite (total_push_other (g_sp c)), (total_push_other (g_se c)) by reflexivity.
    rewrite (total_push_other (g_nc c)); [apply B|].
    intros nd. unfold g_nc. simpl. rewrite nnc_app. unfold nnc at 2. simpl. rewrite Hx. simpl. lia.
Qed.

Lemma Sp_fold_push {A} (mk : A -> cmd) (wof : A -> wid) extra : (forall a c, is_notif c (mk a) = false) ->
  forall l ns, Sp ns extra -> Sp (fold_left (fun ns a => push_cmd (wof a) (mk a) ns) l ns) extra.
Proof. intros Hmk. induction l as [|a l IH]; intros ns H; simpl; [exact H|]. apply IH. apply Sp_push_other; [apply Hmk|exact H]. Qed.

Lemma total_push_notif c w x ns nd : nth_error ns w = Some nd ->
  total (g_nc c) (push_cmd w x ns) = total (g_nc c) ns + ind (is_notif c x).
Proof.
  unfold push_cmd. revert w. induction ns as [|a ns IH]; intros [|w] H; simpl in *; try discriminate.
  - unfold g_nc at 1. simpl. rewrite nnc_app. unfold nnc at 2. simpl. unfold g_nc. destruct (is_notif c x); simpl; lia.
  - rewrite (IH _ H). lia.
Qed.

Lemma Sp_push_notif ns extra w c n nd :
  nth_error ns w = Some nd -> mem c (w_spawning (n_w nd)) = true ->
  Sp ns (fun c' => extra c' + ind (c' =? c)) -> Sp (push_cmd w (CNotifySpawn c n) ns) extra.
Proof.
  intros Hw Hm (A&B). split.
  - intros i nd1 c1 Hn Hc. rewrite nth_error_push in Hn. destruct (nth_error ns i) as [nd0|] eqn:En; [|discriminate].
    injection Hn as Hn. destruct (i =? w) eqn:Ei; subst nd1; simpl in *; [|eapply A; eassumption].
    apply Nat.eqb_eq in Ei. subst i. rewrite En in Hw. injection Hw as ->.
    rewrite nnc_app in Hc. unfold nnc at 2 in Hc. simpl in Hc.
    destruct (c1 =? c) eqn:Ec; [apply Nat.eqb_eq in Ec; subst c1; exact Hm|].
    simpl in Hc. rewrite Nat.add_0_r in Hc. eapply A; eassumption.
  - intros c1. rewrite (total_push_other (g_sp c1)), (total_push_other (g_se c1)) by reflexivity.
    rewrite (total_push_notif c1 _ _ _ _ Hw). simpl. specialize (B c1). simpl in B. lia.
Qed.

Lemma handle_event_Sp nw ev e ns e' ns' extra :
  handle_event nw ev (e, ns) = Good (e', ns') -> WFe e ns ->
  Sp ns (fun c => extra c + ind (is_sevt c ev)) -> Sp ns' extra.
Proof.
  intros H W S. destruct ev; unfold handle_event in H; cbn -[Nat.modulo nodup] in H.
  - (* SpawnAction of `caller` *)
    assert (T1: 1 <= total (g_sp caller) ns).
    { destruct S as (_&B). specialize (B caller). simpl in B. rewrite Nat.eqb_refl in B. simpl in B. lia. }
    destruct (spawning_where _ _ _ W T1) as (i&nd&Hn&Hm&Hr).
    assert (Hlt: caller < e_next e) by (destruct W as (Bd&_); eapply Bd; exact Hr).
    revert H. rewrite alookup_aset. destruct (caller =? e_next e) eqn:Ec; [apply Nat.eqb_eq in Ec; lia|].
    match goal with |- context [@alookup ?A caller ?l] => replace (@alookup A caller l) with (Some i) end.
    intros H. inversion H; subst e' ns'; clear H.
    eapply Sp_push_notif with (nd := if i =? e_next e mod nw then _ else nd).
    + rewrite nth_error_push, Hn. reflexivity.
    + destruct (i =? e_next e mod nw); simpl; exact Hm.
    + apply Sp_push_other; [reflexivity|]. eapply Sp_ext; [|exact S]. intros c. simpl. reflexivity.
  - destruct (alookup target (e_router e)) as [w|]; [|discriminate]. inversion H; subst e' ns'.
    apply Sp_push_other; [reflexivity|]. eapply Sp_ext; [|exact S]. intros c; simpl; lia.
  - revert H. match goal with |- context [forallb ?f targets] => destruct (forallb f targets) end; intros H; [|discriminate].
    inversion H; subst e' ns'; clear H.
    set (wof := fun t => match alookup t (e_router e) with Some w => w | None => 0 end).
    apply (Sp_fold_push (fun w => CQuery awaiter (filter (fun t => wof t =? w) targets)) (fun w => w)); [reflexivity|].
    eapply Sp_ext; [|exact S]. intros c; simpl; lia.
  - assert (S0: Sp ns extra) by (eapply Sp_ext; [|exact S]; intros c; simpl; lia).
    destruct (alookup awaiter (e_pending e)) as [pa|].
    + destruct (match results with [] => None | (t, _) :: _ => alookup t (e_router e) end) as [w|].
      * destruct (sremove w (pa_expected pa)).
        -- destruct (alookup awaiter (e_router e)) as [aw|]; [|discriminate]. inversion H; subst e' ns'.
           apply Sp_push_other; [reflexivity|exact S0].
        -- inversion H; subst e' ns'. exact S0.
      * inversion H; subst e' ns'. exact S0.
    + destruct (alookup awaiter (e_router e)) as [aw|]; [|discriminate]. inversion H; subst e' ns'. apply Sp_push_other; [reflexivity|exact S0].
  - inversion H; subst e' ns'. eapply Sp_ext; [|exact S]. intros c; simpl; lia.
  - inversion H; subst e' ns'. eapply Sp_ext; [|exact S]. intros c; simpl; lia.
Qed.

Lemma nse_cons c ev evs : nse c (ev :: evs) = ind (is_sevt c ev) + nse c evs.
Proof. unfold nse. simpl. destruct (is_sevt c ev); reflexivity. Qed.

Lemma handle_events_Sp nw evs : forall e ns e' ns',
  handle_events nw evs (e, ns) = Good (e', ns') -> WFe e ns ->
  Sp ns (fun c => nse c evs) -> Sp ns' (fun _ => 0).
Proof.
  induction evs as [|ev evs IH]; intros e ns e' ns' H W S; cbn [handle_events] in H.
  - inversion H; subst. eapply Sp_ext; [|exact S]. reflexivity.
  - destruct (handle_event nw ev (e, ns)) as [[e1 ns1]|] eqn:E1; cbn [rbind] in H; [|discriminate].
    eapply IH; [exact H|eapply handle_event_WFe; eassumption|].
    eapply handle_event_Sp; [exact E1|exact W|]. eapply Sp_ext; [|exact S]. intros c. cbn beta. rewrite nse_cons. lia.
Qed.

Lemma collect_Sp : forall ns ks,
  (forall i nd', nth_error (snd (collect ks ns)) i = Some nd' ->
     exists nd, nth_error ns i = Some nd /\ n_w nd' = n_w nd /\ n_cmd nd' = n_cmd nd) /\
  (forall c, total (g_sp c) (snd (collect ks ns)) = total (g_sp c) ns /\
             total (g_nc c) (snd (collect ks ns)) = total (g_nc c) ns /\
             total (g_se c) (snd (collect ks ns)) + nse c (fst (collect ks ns)) = total (g_se c) ns).
Proof.
  induction ns as [|nd ns IH]; intros ks; simpl.
  - split; [intros [|i] nd' H; discriminate|]. intros c. repeat split; reflexivity.
  - set (k := match ks with [] => None | k0 :: _ => Some k0 end).
    pose proof (split_at_app k (n_evt nd)) as Hs.
    destruct (split_at k (n_evt nd)) as [now_evs later]. simpl in Hs.
    specialize (IH (tl ks)). destruct (collect (tl ks) ns) as [evs t']. simpl in *.
    destruct IH as (I1&I2). split.
    + intros [|i] nd' H; simpl in H.
      * injection H as <-. exists nd. repeat split; reflexivity.
      * apply I1. exact H.
    + intros c. destruct (I2 c) as (A&B&C). repeat split.
      * unfold g_sp at 1. simpl. fold (g_sp c nd). rewrite A. reflexivity.
      * unfold g_nc at 1. simpl. fold (g_nc c nd). rewrite B. reflexivity.
      * unfold g_se at 1. simpl. rewrite nse_app. unfold g_se at 2. rewrite <- Hs, nse_app. lia.
Qed.

Definition SPI (s : sys) : Prop := WF s /\ Sp (s_nodes s) (fun _ => 0).

Lemma SPI_init nw : SPI (init nw).
Proof.
  split; [apply WF_init|]. split.
  - intros i nd c Hn Hc. simpl in Hn. apply nth_error_In, repeat_spec in Hn. subst nd. simpl in Hc. unfold nnc in Hc. simpl in Hc. lia.
  - intros c. simpl. rewrite !total_repeat by reflexivity. reflexivity.
Qed.

Lemma SPI_step s a s' : SPI s -> sys_step s a = Good s' -> SPI s'.
Proof.
  intros (W&S) H. split; [eapply WF_step; eassumption|]. destruct a as [i k o|ks|d|c]; simpl in H.
  - destruct (nth_error (s_nodes s) i) as [nd|] eqn:Ei; [|inversion H; subst; exact S].
    destruct (node_step i (s_clock s) k o nd) as [nd'|] eqn:Es; cbn [rbind] in H; [|discriminate].
    inversion H; subst s'; clear H. simpl. destruct S as (A&B).
    assert (HI: NInv (s_env s) i (n_w nd) (n_cmd nd)) by (destruct W as (_&N); apply N; exact Ei).
    assert (Hyp: forall c, nnc c (n_cmd nd) <= 1 /\ (1 <= nnc c (n_cmd nd) -> mem c (w_spawning (n_w nd)) = true)).
    { intros c. split; [|intros Hc; eapply A; eassumption].
      pose proof (total_ge (g_nc c) _ _ _ Ei) as G. unfold g_nc at 1 in G.
      pose proof (spawning_unique _ _ c W) as U. specialize (B c). lia. }
    split.
    + intros j x c Hx Hc. destruct (Nat.eq_dec j i) as [->|Hne].
      * rewrite (nth_error_update_same _ _ _ _ Ei) in Hx. injection Hx as <-.
        eapply node_step_notif_ok; eassumption.
      * rewrite nth_error_update_other in Hx by exact Hne. eapply A; eassumption.
    + intros c. pose proof (node_step_spawning _ _ _ _ _ _ _ HI Hyp Es c) as Q.
      pose proof (total_update (g_sp c) _ _ _ nd' Ei). pose proof (total_update (g_se c) _ _ _ nd' Ei).
      pose proof (total_update (g_nc c) _ _ _ nd' Ei). specialize (B c). lia.
  - pose proof (collect_Sp (s_nodes s) ks) as (C1&C2).
    pose proof (WFe_collect _ _ ks W) as W1.
    destruct (collect ks (s_nodes s)) as [evs ns] eqn:Ec. simpl in *.
    destruct (handle_events (length (s_nodes s)) evs (s_env s, ns)) as [[e' ns']|] eqn:Eh; cbn [rbind] in H; [|discriminate].
    inversion H; subst s'; clear H. simpl.
    eapply handle_events_Sp; [exact Eh|exact W1|]. destruct S as (A&B). split.
    + intros i nd' c Hn Hc. destruct (C1 i nd' Hn) as (nd&Hn0&Ew&Ecm). rewrite Ew. rewrite Ecm in Hc. eapply A; eassumption.
    + intros c. destruct (C2 c) as (P&Q&R). specialize (B c). lia.
  - inversion H; subst; exact S.
  - unfold client_step in H. destruct c; simpl in H.
    + inversion H; subst; simpl. apply Sp_push_other; [reflexivity|exact S].
    + inversion H; subst; simpl. apply Sp_push_other; [reflexivity|exact S].
    + inversion H; subst; simpl. apply Sp_push_other; [reflexivity|exact S].
    + destruct (alookup p (e_router (s_env s))); inversion H; subst; simpl; [apply Sp_push_other; [reflexivity|exact S]|exact S].
    + destruct (alookup p (e_router (s_env s))); inversion H; subst; simpl; [apply Sp_push_other; [reflexivity|exact S]|exact S].
Qed.

Lemma SPI_run sigma : forall s s', SPI s -> run s sigma = Good s' -> SPI s'.
Proof.
  induction sigma as [|a sigma IH]; intros s s' Hc H; simpl in H.
  - inversion H; subst. exact Hc.
  - destruct (sys_step s a) as [s1|] eqn:E; cbn [rbind] in H; [|discriminate].
    eapply IH; [eapply SPI_step; eassumption|exact H].
Qed.

(* C04 spawner_gets_pid, global form.  For every worker count, schedule and oracle, in every
   reachable state and for every process c:
     #workers with c in `spawning`  =  #SpawnAction(c) in event queues + #NotifySpawn(c,_) in command queues
   and that number is at most 1 (the Spawn instruction itself adds c to `spawning` and emits the
   SpawnAction in one atomic slice, so "Spawn action pending" is not a separate state of the model);
   a queued NotifySpawn sits in the queue of the worker that holds the spawner. *)
Definition in_spawning (s : sys) (c : pid) : Prop :=
  exists i nd, nth_error (s_nodes s) i = Some nd /\ mem c (w_spawning (n_w nd)) = true.
Definition spawn_pending (s : sys) (c : pid) : nat :=
  total (g_se c) (s_nodes s) + total (g_nc c) (s_nodes s).

Theorem spawner_gets_pid_global : forall nw sigma s,
  run (init nw) sigma = Good s ->
  forall c,
    spawn_pending s c <= 1 /\
    (in_spawning s c <-> spawn_pending s c = 1) /\
    (forall i nd, nth_error (s_nodes s) i = Some nd -> 1 <= nnc c (n_cmd nd) -> mem c (w_spawning (n_w nd)) = true).
Proof.
  intros nw sigma s H c. destruct (SPI_run sigma _ _ (SPI_init nw) H) as (W&A&B).
  pose proof (spawning_unique _ _ c W) as U. specialize (B c). unfold spawn_pending.
  split; [lia|]. split; [split|].
  - intros (i&nd&Hn&Hm). pose proof (total_ge (g_sp c) _ _ _ Hn) as G. unfold g_sp at 1 in G. rewrite Hm in G. simpl in G. lia.
  - intros E. assert (T1: 1 <= total (g_sp c) (s_nodes s)) by lia.
    destruct (spawning_where _ _ _ W T1) as (i&nd&Hn&Hm&_). exists i, nd. split; assumption.
  - intros i nd Hn Hc. eapply A; eassumption.
Qed.

(* non-vacuity: both pending states are reachable, and so is the state after the answer *)
Example spawn_evt_pending : exists s, run (init 2) [X (XStart false); W 0 None (orc (Some 0) (d_act_ ASpawn))] = Good s /\
  in_spawning s 0 /\ total (g_se 0) (s_nodes s) = 1 /\ total (g_nc 0) (s_nodes s) = 0.
Proof. eexists. split; [vm_compute; reflexivity|]. split; [exists 0; eexists; split; reflexivity|split; reflexivity]. Qed.
Example spawn_notif_pending : exists s, run (init 2) [X (XStart false); W 0 None (orc (Some 0) (d_act_ ASpawn)); E []] = Good s /\
  in_spawning s 0 /\ total (g_se 0) (s_nodes s) = 0 /\ total (g_nc 0) (s_nodes s) = 1.
Proof. eexists. split; [vm_compute; reflexivity|]. split; [exists 0; eexists; split; reflexivity|split; reflexivity]. Qed.
Example spawn_answered : exists s, run (init 2) [X (XStart false); W 0 None (orc (Some 0) (d_act_ ASpawn)); E []; W 0 None (orc (Some 0) idle_did)] = Good s /\
  spawn_pending s 0 = 0 /\ w_queue (n_w (nth 0 (s_nodes s) {| n_w := new_worker; n_cmd := []; n_evt := [] |})) = [0].
Proof. eexists. split; [vm_compute; reflexivity|]. split; reflexivity. Qed.

(* non-vacuity of the premises of parked_has_no_unseen_message / no_timeout_due_at_last_check: an
   honest run that parks process 0 in an evaluated select (start time set, a timeout of 5) *)
Definition parked_sel : sel := {| sl_targets := []; sl_cursors := [0]; sl_timeouts := [5]; sl_start := Some 0 |}.
Definition park_schedule : list sched_action :=
  [ X (XStart false);
    W 0 None (orc (Some 0) {| d_taken := []; d_sel := Some parked_sel; d_forget := []; d_act := None; d_park := true; d_fin := None; d_heapy := false |}) ].
Example parked_premises_hold : exists s nd pr,
  honest_run (init 1) park_schedule /\ run (init 1) park_schedule = Good s /\
  nth_error (s_nodes s) 0 = Some nd /\ mem 0 (w_selecting (n_w nd)) = true /\
  alookup 0 (w_procs (n_w nd)) = Some pr /\ p_sel pr = Some parked_sel /\ sl_start parked_sel <> None /\
  time_honest 0 {| d_taken := []; d_sel := Some parked_sel; d_forget := []; d_act := None; d_park := true; d_fin := None; d_heapy := false |}.
Proof.
  eexists. eexists. eexists. split.
  - simpl. split; [exact I|]. split; [|exact I]. split.
    + intros _ s Hs. injection Hs as <-. repeat constructor.
    + intros ts Hts. discriminate.
  - split; [vm_compute; reflexivity|]. split; [reflexivity|]. split; [reflexivity|]. split; [reflexivity|].
    split; [reflexivity|]. split; [discriminate|]. intros _ s Hs. injection Hs as <-. reflexivity.
Qed.
