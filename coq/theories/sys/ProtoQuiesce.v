(* ProtoQuiesce.v — C04 quiescent_no_ready (the await part) on M-Sys (sys/Proto.v).
   A pending_awaits entry is LIVE: every worker it still expects an answer from has the
   QueryAndAwait command or a ProcessResults event for that awaiter in its queues, and an entry that
   expects nobody stores nothing.  With the fourth clause of Inv_parked (ProtoAwaitThm) this gives:
   in a quiescent state (all command and event queues empty) no parked, unfailed process awaits a
   process that has finished — for every schedule and every await_honest oracle. *)
From Quiver Require Import sys.Proto sys.ProtoMsg sys.ProtoFifo sys.ProtoFail sys.ProtoWake sys.ProtoDeliver sys.ProtoWf
  sys.ProtoParked sys.ProtoCommute sys.ProtoRouted sys.ProtoMicro sys.ProtoMicroWf sys.ProtoOps sys.ProtoAwait sys.ProtoAwaitInv sys.ProtoAwaitThm.

Definition wit (ns : list node) (w : wid) (p : pid) : Prop :=
  exists ndw, nth_error ns w = Some ndw /\
    ((exists ts, In (CQuery p ts) (n_cmd ndw)) \/ (exists rs, In (EResults p rs) (n_evt ndw))).
Definition pl_ok (e : env) (ns : list node) : Prop :=
  forall p pa, alookup p (e_pending e) = Some pa ->
    (pa_expected pa = [] -> pa_resp pa = []) /\ forall w, In w (pa_expected pa) -> wit ns w p.

Definition QI (s : sys) : Prop := AI s /\ pl_ok (s_env s) (s_nodes s).

Lemma wit_wstep ns i nd nd' w p :
  nth_error ns i = Some nd ->
  (forall ev, In ev (n_evt nd) -> In ev (n_evt nd')) ->
  (forall a ts, In (CQuery a ts) (n_cmd nd) -> In (CQuery a ts) (n_cmd nd') \/ exists rs, In (EResults a rs) (n_evt nd')) ->
  wit ns w p -> wit (set_node i nd' ns) w p.
Proof.
  intros Hi T1 T3 (ndw&Hw&Hc).
  destruct (nth_set_cases nd' Hi Hw) as [(->&->&Hn)|(_&Hn)]; [|exists ndw; split; assumption].
  exists nd'. split; [exact Hn|]. destruct Hc as [(ts&Hin)|(rs&Hin)].
  - destruct (T3 p ts Hin) as [H1|H2]; [left; exists ts; exact H1|right; exact H2].
  - right. exists rs. apply T1. exact Hin.
Qed.

Lemma pl_wstep e ns i nd nd' :
  nth_error ns i = Some nd ->
  (forall ev, In ev (n_evt nd) -> In ev (n_evt nd')) ->
  (forall a ts, In (CQuery a ts) (n_cmd nd) -> In (CQuery a ts) (n_cmd nd') \/ exists rs, In (EResults a rs) (n_evt nd')) ->
  pl_ok e ns -> pl_ok e (set_node i nd' ns).
Proof.
  intros Hi T1 T3 PL p pa Hp. destruct (PL p pa Hp) as (P1&P2). split; [exact P1|].
  intros w Hw. eapply wit_wstep; [exact Hi|exact T1|exact T3|apply P2; exact Hw].
Qed.

Lemma wit_pop ns i nd ev rest w p :
  nth_error ns i = Some nd -> n_evt nd = ev :: rest ->
  (forall rs, ev <> EResults p rs) \/ w <> i ->
  wit ns w p -> wit (set_node i (mk_node (n_w nd) (n_cmd nd) rest) ns) w p.
Proof.
  intros Hi He Hc (ndw&Hw&Hq).
  destruct (nth_set_cases (mk_node (n_w nd) (n_cmd nd) rest) Hi Hw) as [(->&->&Hn)|(_&Hn)]; [|exists ndw; split; assumption].
  eexists. split; [exact Hn|]. simpl. destruct Hq as [Hq|(rs&Hin)]; [left; exact Hq|right].
  rewrite He in Hin. destruct Hin as [->|Hin]; [|exists rs; exact Hin].
  destruct Hc as [Hc|Hc]; [exfalso; apply (Hc rs); reflexivity|contradiction].
Qed.

Lemma wit_ext P nsm ns' w p : ext P nsm ns' -> wit nsm w p -> wit ns' w p.
Proof.
  intros Hx (ndw&Hw&Hq). destruct (ext_node _ _ _ _ _ Hx Hw) as (nd2&N2&_&Ee&Hc).
  exists nd2. split; [exact N2|]. destruct Hq as [(ts&Hin)|(rs&Hin)]; [left; exists ts; apply Hc; exact Hin|right; exists rs; rewrite Ee; exact Hin].
Qed.

Theorem QI_mstep s l s' : QI s -> mstep s l s' -> hon_label await_honest s l -> QI s'.
Proof.
  intros (HA&PL) M Hon. split; [eapply AI_mstep; eassumption|].
  destruct HA as (Lp&HA).
  destruct M as [ns e clk i nd c rest w' evs Hn Hc Hh
                |ns e clk i nd o w' evs Hn Hx
                |ns e clk i nd hint w' evs Hn Hk
                |ns e clk i nd ev rest e' ns' Hn Hq He
                |ns e clk d
                |s c s' Hc]; simpl in *.
  - (* command *)
    apply (pl_wstep e ns i nd _ Hn); [intros ev Hin; simpl; apply in_or_app; left; exact Hin| |exact PL].
    intros a ts Hin. rewrite Hc in Hin. simpl. destruct Hin as [->|Hin]; [|left; exact Hin].
    right. simpl in Hh. destruct (fold_left (query_one a) ts (n_w nd, [])) as [w1 rs]. inversion Hh; subst.
    exists rs. apply in_or_app. right. left; reflexivity.
  - apply (pl_wstep e ns i nd _ Hn); [intros ev Hin; simpl; apply in_or_app; left; exact Hin|intros a ts Hin; left; exact Hin|exact PL].
  - apply (pl_wstep e ns i nd _ Hn); [intros ev Hin; simpl; apply in_or_app; left; exact Hin|intros a ts Hin; left; exact Hin|exact PL].
  - (* event *)
    destruct HA as (W&RB&PR&NI&IO). simpl in RB, PR, NI, IO.
    destruct (NI i nd Hn) as (_&_&EV&_).
    set (nsm := set_node i (mk_node (n_w nd) (n_cmd nd) rest) ns) in *.
    assert (Lm: length nsm = length ns) by apply set_node_length.
    assert (Keep: forall P, ext P nsm ns' -> forall p pa, alookup p (e_pending e) = Some pa -> (forall rs, ev <> EResults p rs) ->
              (pa_expected pa = [] -> pa_resp pa = []) /\ forall w, In w (pa_expected pa) -> wit ns' w p).
    { intros P Hx p pa Hp Hne. destruct (PL p pa Hp) as (P1&P2). split; [exact P1|]. intros w Hw.
      apply (wit_ext P nsm ns' w p Hx). apply (wit_pop ns i nd ev rest w p Hn Hq); [left; exact Hne|apply P2; exact Hw]. }
    destruct ev.
    + unfold handle_event in He. cbn -[Nat.modulo] in He.
      revert He. match goal with |- context [@alookup ?A caller ?l] => destruct (@alookup A caller l) as [cw|] end; intros He; [|discriminate].
      inversion He; subst e' ns'; clear He. simpl.
      intros p pa Hp. simpl in Hp. apply (Keep (fun _ _ => True)); [|exact Hp|intros; discriminate].
      apply (ext_trans _ _ (push_cmd (e_next e mod length ns) (CSpawn (e_next e)) nsm)); apply ext_push; exact I.
    + unfold handle_event in He. destruct (alookup target (e_router e)) as [w|]; [|discriminate]. inversion He; subst e' ns'; clear He.
      intros p pa Hp. apply (Keep (fun _ _ => True)); [apply ext_push; exact I|exact Hp|intros; discriminate].
    + (* AwaitAction *)
      unfold handle_event in He. cbn -[nodup] in He.
      destruct (forallb (fun t => match alookup t (e_router e) with Some _ => true | None => false end) targets) eqn:Ef; [|discriminate].
      inversion He; subst e' ns'; clear He.
      set (wof := fun t => match alookup t (e_router e) with Some w => w | None => 0 end) in *.
      set (ws := nodup Nat.eq_dec (map wof targets)) in *.
      set (mkq := fun w => CQuery awaiter (filter (fun t => wof t =? w) targets)) in *.
      assert (Hx: ext (fun _ _ => True) nsm (fold_left (fun ns0 w => push_cmd w (mkq w) ns0) ws nsm)).
      { apply (ext_fold_push (fun _ _ => True) mkq (fun w => w)). intros; exact I. }
      intros p pa Hp. simpl in Hp. rewrite alookup_aset in Hp. destruct (p =? awaiter) eqn:Epa.
      * apply Nat.eqb_eq in Epa. subst p. inversion Hp; subst pa; clear Hp. simpl. split; [reflexivity|].
        intros w Hw.
        assert (Lw: w < length nsm).
        { rewrite Lm. apply nodup_In, in_map_iff in Hw. destruct Hw as (t&Et&Ht).
          rewrite forallb_forall in Ef. specialize (Ef t Ht). apply (RB t w). unfold wrouted. unfold wof in Et.
          destruct (alookup t (e_router e)); [subst; reflexivity|discriminate]. }
        destruct (fold_push_in mkq (fun w0 => w0) ws nsm w Hw Lw) as (nd2&N2&Hc2).
        exists nd2. split; [exact N2|]. left. eexists. exact Hc2.
      * apply (Keep _ Hx p pa Hp). intros; discriminate.
    + (* ProcessResults *)
      destruct (EV awaiter results) as (Rn&Rd&Rr); [rewrite Hq; left; reflexivity|].
      assert (Hs: match results with [] => None | (t, _) :: _ => alookup t (e_router e) end = Some i).
      { destruct results as [|[t0 v0] rs1]; [contradiction|]. apply Rr. left; reflexivity. }
      unfold handle_event in He. rewrite Hs in He.
      destruct (alookup awaiter (e_pending e)) as [pa0|] eqn:Epa.
      * destruct (sremove i (pa_expected pa0)) as [|x xs] eqn:Ex.
        -- destruct (alookup awaiter (e_router e)) as [aw|]; [|discriminate]. inversion He; subst e' ns'; clear He.
           intros p pa Hp. simpl in Hp. rewrite alookup_aremove in Hp. destruct (p =? awaiter) eqn:E; [discriminate|].
           apply (Keep (fun _ _ => True)); [apply ext_push; exact I|exact Hp|].
           intros rs C. inversion C; subst. rewrite Nat.eqb_refl in E. discriminate.
        -- inversion He; subst e' ns'; clear He.
           intros p pa Hp. simpl in Hp. rewrite alookup_aset in Hp. destruct (p =? awaiter) eqn:E.
           ++ apply Nat.eqb_eq in E. subst p. inversion Hp; subst pa; clear Hp. split; [simpl; discriminate|].
              intros w Hw. cbn [pa_expected] in Hw. rewrite <- Ex in Hw. unfold sremove in Hw. apply filter_In in Hw. destruct Hw as (Hw&Hne).
              destruct (PL awaiter pa0 Epa) as (_&P2).
              apply (wit_pop ns i nd _ rest w awaiter Hn Hq); [right|apply P2; exact Hw].
              intros ->. rewrite Nat.eqb_refl in Hne. discriminate.
           ++ apply (Keep (fun _ _ => True) (ext_refl _ nsm) p pa Hp).
              intros rs C. inversion C; subst. rewrite Nat.eqb_refl in E. discriminate.
      * destruct (alookup awaiter (e_router e)) as [aw|]; [|discriminate]. inversion He; subst e' ns'; clear He.
        intros p pa Hp. apply (Keep (fun _ _ => True)); [apply ext_push; exact I|exact Hp|].
        intros rs C. inversion C; subst. rewrite Epa in Hp. discriminate.
    + unfold handle_event in He. inversion He; subst e' ns'; clear He.
      intros p pa Hp. apply (Keep (fun _ _ => True) (ext_refl _ nsm) p pa Hp). intros; discriminate.
    + unfold handle_event in He. inversion He; subst e' ns'; clear He.
      intros p pa Hp. apply (Keep (fun _ _ => True) (ext_refl _ nsm) p pa Hp). intros; discriminate.
  - exact PL.
  - (* client *)
    assert (Push: forall w c0 e2, e_pending e2 = e_pending (s_env s) -> pl_ok e2 (push_cmd w c0 (s_nodes s))).
    { intros w c0 e2 Ep p pa Hp. rewrite Ep in Hp. destruct (PL p pa Hp) as (P1&P2). split; [exact P1|]. intros w0 Hw0.
      apply (wit_ext (fun _ _ => True) (s_nodes s)); [apply ext_push; exact I|apply P2; exact Hw0]. }
    unfold client_step in Hc. destruct c.
    + inversion Hc; subst s'; simpl. apply Push. reflexivity.
    + inversion Hc; subst s'; simpl. apply Push. reflexivity.
    + inversion Hc; subst s'; simpl. apply Push. reflexivity.
    + destruct (alookup p (e_router (s_env s))); inversion Hc; subst s'; simpl; [apply Push; reflexivity|exact PL].
    + destruct (alookup p (e_router (s_env s))); inversion Hc; subst s'; simpl; [apply Push; reflexivity|exact PL].
Qed.

Lemma QI_init nw : 0 < nw -> QI (init nw).
Proof. intros H. split; [apply AI_init; exact H|]. intros p pa Hp. discriminate. Qed.

(* C04 quiescent_no_ready, the await part: when every command queue and every event queue is empty,
   no unfailed process has a None entry for a process that has finished on its worker (in
   particular no process parked in a select) *)
Theorem quiescent_no_unseen_result : forall nw sigma s,
  0 < nw -> await_honest_run (init nw) sigma -> run (init nw) sigma = Good s ->
  (forall i nd, nth_error (s_nodes s) i = Some nd -> n_cmd nd = [] /\ n_evt nd = []) ->
  forall i nd p pr t j ndj, nth_error (s_nodes s) i = Some nd ->
    alookup p (w_procs (n_w nd)) = Some pr -> alookup t (p_awaiting pr) = Some None -> ~ failed pr ->
    nth_error (s_nodes s) j = Some ndj -> result_of (n_w ndj) t = None.
Proof.
  intros nw sigma s Hnw Hh H Hq i nd p pr t j ndj Hn Hl Ht NF Hj.
  destruct (result_of (n_w ndj) t) as [r|] eqn:Er; [|reflexivity]. exfalso.
  assert (Q: QI s) by (eapply (micro_invariant QI await_honest QI_mstep); [apply QI_init; exact Hnw|exact Hh|exact H]).
  destruct Q as (_&PL).
  (* p need not be parked for the argument: use the backing invariant directly *)
  destruct (await_backed nw sigma s Hnw Hh H i nd p pr t Hn Hl Ht) as [F|[(j'&nd'&Hw&Hj'&R&Haw)|B]]; [contradiction| |].
  - pose proof (awaited_completion_never_unseen nw sigma s H j' nd' t Hj' Haw) as Hnone.
    destruct (scheduler_well_formed nw sigma s H j ndj Hj) as (_&Hrt).
    assert (Hh2: has t (n_w ndj)) by (unfold has; unfold result_of in Er; destruct (alookup t (w_procs (n_w ndj))); discriminate).
    rewrite (Hrt t Hh2) in Hw. inversion Hw; subst j'. rewrite Hj in Hj'. inversion Hj'; subst nd'. congruence.
  - destruct B as [B|[B|[B|[B|B]]]].
    + destruct B as (k&ndk&ts&Hk&Hin&_). destruct (Hq k ndk Hk) as (_&E). rewrite E in Hin. destruct Hin.
    + destruct B as (k&ndk&ts&Hk&Hin&_). destruct (Hq k ndk Hk) as (E&_). rewrite E in Hin. destruct Hin.
    + destruct B as (k&ndk&rs&r0&Hk&Hin&_). destruct (Hq k ndk Hk) as (_&E). rewrite E in Hin. destruct Hin.
    + destruct B as (pa&k&rs&r0&Hp&_&Hlk&_). destruct (PL p pa Hp) as (P1&P2).
      destruct (pa_expected pa) as [|w ws] eqn:Ee.
      * rewrite (P1 eq_refl) in Hlk. discriminate.
      * destruct (P2 w (or_introl eq_refl)) as (ndw&Hw&[(ts&Hin)|(rs'&Hin)]); destruct (Hq w ndw Hw) as (E1&E2).
        -- rewrite E1 in Hin. destruct Hin.
        -- rewrite E2 in Hin. destruct Hin.
    + destruct B as (k&ndk&rs&r0&_&Hk&Hin&_). destruct (Hq k ndk Hk) as (E&_). rewrite E in Hin. destruct Hin.
Qed.

(* C04 quiescent_no_ready: in a quiescent state no parked process has a ready source it has not
   seen — neither a message (every receive cursor of an evaluated select is at the end of the
   mailbox: ProtoParked, premise honest_run) nor the result of an awaited process (premise
   await_honest_run).  Timeouts: see no_timeout_due_at_last_check. *)
Theorem quiescent_no_ready : forall nw sigma s,
  0 < nw -> honest_run (init nw) sigma -> await_honest_run (init nw) sigma -> run (init nw) sigma = Good s ->
  (forall i nd, nth_error (s_nodes s) i = Some nd -> n_cmd nd = [] /\ n_evt nd = []) ->
  forall i nd p pr, nth_error (s_nodes s) i = Some nd ->
    mem p (w_selecting (n_w nd)) = true -> alookup p (w_procs (n_w nd)) = Some pr ->
    (forall sl, p_sel pr = Some sl -> sl_start sl <> None -> Forall (fun c => c = length (p_mail pr)) (sl_cursors sl)) /\
    (~ failed pr -> forall t j ndj, alookup t (p_awaiting pr) = Some None ->
       nth_error (s_nodes s) j = Some ndj -> result_of (n_w ndj) t = None).
Proof.
  intros nw sigma s Hnw Hh1 Hh2 H Hq i nd p pr Hn Hp Hl. split.
  - intros sl Hs Hst. apply (parked_has_no_unseen_message sigma nw s Hh1 H i nd p pr sl Hn Hp Hl Hs Hst).
  - intros NF t j ndj Ht Hj. apply (quiescent_no_unseen_result nw sigma s Hnw Hh2 H Hq i nd p pr t j ndj Hn Hl Ht NF Hj).
Qed.
