(* ProtoMicro.v — a small-step view of M-Sys (sys/Proto.v), used to prove global invariants.

   One scheduler action of the model is a big step: Worker::step drains a prefix of its command
   queue, runs one executor step and checks for completed processes; Environment::step collects a
   prefix of every event queue and handles the events one after the other.  Here every big step is
   decomposed into MICRO-STEPS that each touch one queue element:
     MCmd i        pop the head command of worker i and handle it          (Worker::handle_command)
     MExec i o     one Executor::step on worker i with oracle o
     MChk i hint   Worker::check_completed_processes on worker i
     MEvt i        pop the head event of worker i and handle it            (Environment::handle_event)
     MTime d / MClient c
   `step_msteps`: sys_step s a = Good s' implies a sequence of micro-steps from s to s' (the
   collect phase of Environment::step commutes with the handlers because a handler only appends to
   command queues).  `micro_invariant`: a predicate preserved by every micro-step is an invariant
   of every run; a premise on the oracle (honesty of the executed slice) is evaluated on the worker
   state the executor step starts from, and on the big-step side it is `hon_run`. *)
From Quiver Require Import sys.Proto sys.ProtoMsg sys.ProtoFifo sys.ProtoCommute sys.ProtoWf sys.ProtoDiamond.

Definition mk_sys (ns : list node) (e : env) (c : nat) : sys := {| s_nodes := ns; s_env := e; s_clock := c |}.
Definition mk_node (w : worker) (cs : list cmd) (es : list event) : node := {| n_w := w; n_cmd := cs; n_evt := es |}.
Definition set_node (i : nat) (nd : node) (ns : list node) : list node := update_nth i (fun _ => nd) ns.

Inductive mlabel :=
| MCmd (i : wid)
| MExec (i : wid) (o : woracle)
| MChk (i : wid) (hint : list pid)
| MEvt (i : wid)
| MTime (d : nat)
| MClient (c : client).

Inductive mstep : sys -> mlabel -> sys -> Prop :=
| ms_cmd ns e clk i nd c rest w' evs :
    nth_error ns i = Some nd -> n_cmd nd = c :: rest ->
    handle_cmd c (n_w nd) = Good (w', evs) ->
    mstep (mk_sys ns e clk) (MCmd i) (mk_sys (set_node i (mk_node w' rest (n_evt nd ++ evs)) ns) e clk)
| ms_exec ns e clk i nd o w' evs :
    nth_error ns i = Some nd ->
    exec_step i clk o (n_w nd) = Good (w', evs) ->
    mstep (mk_sys ns e clk) (MExec i o) (mk_sys (set_node i (mk_node w' (n_cmd nd) (n_evt nd ++ evs)) ns) e clk)
| ms_chk ns e clk i nd hint w' evs :
    nth_error ns i = Some nd ->
    check_completed hint (n_w nd) = Good (w', evs) ->
    mstep (mk_sys ns e clk) (MChk i hint) (mk_sys (set_node i (mk_node w' (n_cmd nd) (n_evt nd ++ evs)) ns) e clk)
| ms_evt ns e clk i nd ev rest e' ns' :
    nth_error ns i = Some nd -> n_evt nd = ev :: rest ->
    handle_event (length ns) ev (e, set_node i (mk_node (n_w nd) (n_cmd nd) rest) ns) = Good (e', ns') ->
    mstep (mk_sys ns e clk) (MEvt i) (mk_sys ns' e' clk)
| ms_time ns e clk d : mstep (mk_sys ns e clk) (MTime d) (mk_sys ns e (clk + d))
| ms_client s c s' : client_step c s = Good s' -> mstep s (MClient c) s'.

Inductive msteps : sys -> list mlabel -> sys -> Prop :=
| mss_nil s : msteps s [] s
| mss_cons s l s1 ls s2 : mstep s l s1 -> msteps s1 ls s2 -> msteps s (l :: ls) s2.

Lemma msteps_app s ls1 s1 ls2 s2 : msteps s ls1 s1 -> msteps s1 ls2 s2 -> msteps s (ls1 ++ ls2) s2.
Proof. intros H. induction H as [|s l sa ls sb Hs Hr IH]; intros H2; simpl; [exact H2|]. econstructor; [exact Hs|apply IH; exact H2]. Qed.
Lemma msteps_one s l s' : mstep s l s' -> msteps s [l] s'.
Proof. intros H. econstructor; [exact H|constructor]. Qed.

(* ------------------------------------------------------------------ list utilities *)
Lemma update_nth_twice {A} (f g : A -> A) : forall l i, update_nth i f (update_nth i g l) = update_nth i (fun x => f (g x)) l.
Proof. induction l as [|a l IH]; intros [|i]; simpl; try reflexivity. f_equal. apply IH. Qed.
Lemma update_nth_ext {A} (f g : A -> A) : (forall a, f a = g a) -> forall l i, update_nth i f l = update_nth i g l.
Proof. intros H. induction l as [|a l IH]; intros [|i]; simpl; try reflexivity; [rewrite H; reflexivity|f_equal; apply IH]. Qed.
Lemma update_nth_same {A} (l : list A) : forall i a, nth_error l i = Some a -> update_nth i (fun _ => a) l = l.
Proof. induction l as [|b l IH]; intros [|i] a H; simpl in *; try discriminate; [inversion H; reflexivity|f_equal; apply IH; exact H]. Qed.
Lemma set_node_twice i a b ns : set_node i a (set_node i b ns) = set_node i a ns.
Proof. unfold set_node. rewrite update_nth_twice. reflexivity. Qed.
Lemma set_node_length i a ns : length (set_node i a ns) = length ns.
Proof. apply update_nth_length. Qed.
Lemma nth_set_node_same i a ns nd : nth_error ns i = Some nd -> nth_error (set_node i a ns) i = Some a.
Proof. apply nth_error_update_same. Qed.
Lemma nth_set_node_other i j a ns : j <> i -> nth_error (set_node i a ns) j = nth_error ns j.
Proof. apply nth_error_update_other. Qed.

(* ------------------------------------------------------------------ Worker::step *)
Lemma cmds_msteps : forall pre ns e c i nd later w1 e1,
  nth_error ns i = Some nd -> n_cmd nd = pre ++ later ->
  handle_cmds pre (n_w nd) = Good (w1, e1) ->
  msteps (mk_sys ns e c) (repeat (MCmd i) (length pre)) (mk_sys (set_node i (mk_node w1 later (n_evt nd ++ e1)) ns) e c).
Proof.
  induction pre as [|c0 pre IH]; intros ns e c i nd later w1 e1 Hn Hc H; simpl in H.
  - inversion H; subst w1 e1. simpl in *. rewrite app_nil_r.
    replace (mk_node (n_w nd) later (n_evt nd)) with nd by (destruct nd; simpl in *; subst; reflexivity).
    unfold set_node. rewrite (update_nth_same _ _ _ Hn). constructor.
  - destruct (handle_cmd c0 (n_w nd)) as [[wa ea]|] eqn:E1; simpl in H; [|discriminate].
    destruct (handle_cmds pre wa) as [[wb eb]|] eqn:E2; simpl in H; [|discriminate].
    inversion H; subst w1 e1; clear H. simpl.
    econstructor.
    + eapply ms_cmd; [exact Hn|exact Hc|exact E1].
    + set (nda := mk_node wa (pre ++ later) (n_evt nd ++ ea)).
      pose proof (IH (set_node i nda ns) e c i nda later wb eb (nth_set_node_same _ _ _ _ Hn) eq_refl E2) as M.
      rewrite set_node_twice in M. simpl in M. rewrite <- app_assoc in M. exact M.
Qed.

Theorem node_step_msteps : forall ns e c i k o nd nd',
  nth_error ns i = Some nd -> node_step i c k o nd = Good nd' ->
  exists w1 e1 s1,
    handle_cmds (fst (split_at k (n_cmd nd))) (n_w nd) = Good (w1, e1) /\
    msteps (mk_sys ns e c) (repeat (MCmd i) (length (fst (split_at k (n_cmd nd))))) s1 /\
    s1 = mk_sys (set_node i (mk_node w1 (snd (split_at k (n_cmd nd))) (n_evt nd ++ e1)) ns) e c /\
    msteps s1 [MExec i o; MChk i (o_completed o)] (mk_sys (set_node i nd' ns) e c).
Proof.
  intros ns e c i k o nd nd' Hn H. unfold node_step in H.
  pose proof (split_at_app k (n_cmd nd)) as Hs.
  destruct (split_at k (n_cmd nd)) as [pre later]. simpl in Hs. simpl.
  destruct (handle_cmds pre (n_w nd)) as [[w1 e1]|] eqn:E1; simpl in H; [|discriminate].
  destruct (exec_step i c o w1) as [[w2 e2]|] eqn:E2; simpl in H; [|discriminate].
  destruct (check_completed (o_completed o) w2) as [[w3 e3]|] eqn:E3; simpl in H; [|discriminate].
  inversion H; subst nd'; clear H.
  exists w1, e1. eexists. split; [reflexivity|]. split; [|split; [reflexivity|]].
  - apply cmds_msteps; [exact Hn|symmetry; exact Hs|exact E1].
  - set (nd1 := mk_node w1 later (n_evt nd ++ e1)).
    econstructor.
    + eapply (ms_exec _ e c i nd1 o w2 e2); [apply (nth_set_node_same _ _ _ _ Hn)|exact E2].
    + rewrite set_node_twice. simpl.
      set (nd2 := mk_node w2 later ((n_evt nd ++ e1) ++ e2)).
      apply msteps_one.
      pose proof (ms_chk (set_node i nd2 ns) e c i nd2 (o_completed o) w3 e3 (nth_set_node_same _ _ _ _ Hn) E3) as M.
      rewrite set_node_twice in M. simpl in M.
      replace (((n_evt nd ++ e1) ++ e2) ++ e3) with (n_evt nd ++ e1 ++ e2 ++ e3) in M by (rewrite !app_assoc; reflexivity).
      exact M.
Qed.

(* ------------------------------------------------------------------ Environment::step *)
Definition prepend (p : list event) (nd : node) : node := mk_node (n_w nd) (n_cmd nd) (p ++ n_evt nd).

Lemma push_cmd_prepend w c k p X : push_cmd w c (update_nth k (prepend p) X) = update_nth k (prepend p) (push_cmd w c X).
Proof.
  unfold push_cmd. destruct (Nat.eq_dec k w) as [->|Hne].
  - rewrite !update_nth_twice. apply update_nth_ext. intros a. reflexivity.
  - symmetry. apply update_nth_comm. exact Hne.
Qed.
Lemma pushes_prepend k p : forall l X, pushes l (update_nth k (prepend p) X) = update_nth k (prepend p) (pushes l X).
Proof. induction l as [|[w c] l IH]; intros X; simpl; [reflexivity|]. rewrite push_cmd_prepend. apply IH. Qed.

Lemma handle_events_app nw : forall a b st,
  handle_events nw (a ++ b) st = (st1 <- handle_events nw a st ;; handle_events nw b st1).
Proof.
  induction a as [|ev a IH]; intros b st; simpl; [reflexivity|].
  destruct (handle_event nw ev st) as [st1|]; simpl; [apply IH|reflexivity].
Qed.

Lemma prepend_nil nd : prepend [] nd = nd. Proof. destruct nd; reflexivity. Qed.
Lemma update_nth_id {A} (f : A -> A) : (forall a, f a = a) -> forall l i, update_nth i f l = l.
Proof. intros H. induction l as [|a l IH]; intros [|i]; simpl; try reflexivity; [rewrite H; reflexivity|f_equal; apply IH]. Qed.

Lemma pop_prepend j ev now X nd : nth_error X j = Some nd ->
  set_node j (mk_node (n_w (prepend (ev :: now) nd)) (n_cmd (prepend (ev :: now) nd)) (now ++ n_evt nd)) (update_nth j (prepend (ev :: now)) X)
  = update_nth j (prepend now) X.
Proof. intros Hn. unfold set_node. rewrite update_nth_twice. eapply update_nth_at; [exact Hn|reflexivity]. Qed.

(* drain the events `now` sitting at the head of worker j's event queue, one micro-step each *)
Lemma drain j clk : forall now e X e' X',
  handle_events (length X) now (e, X) = Good (e', X') ->
  (now <> [] -> exists nd, nth_error X j = Some nd) ->
  msteps (mk_sys (update_nth j (prepend now) X) e clk) (repeat (MEvt j) (length now)) (mk_sys X' e' clk).
Proof.
  induction now as [|ev now IH]; intros e X e' X' H Hj; cbn [handle_events] in H.
  - inversion H; subst. simpl. rewrite (update_nth_id _ prepend_nil). constructor.
  - destruct (handle_event (length X) ev (e, X)) as [[e1 X1]|] eqn:E1; cbn [rbind] in H; [|discriminate].
    destruct Hj as (nd&Hn); [discriminate|].
    destruct (handle_event_plan _ _ _ _ _ _ E1) as (l&Pl).
    assert (EX1: X1 = pushes l X) by (specialize (Pl X); rewrite E1 in Pl; inversion Pl; reflexivity).
    assert (L1: length X1 = length X) by (rewrite EX1; apply pushes_length).
    simpl. apply (mss_cons _ _ (mk_sys (update_nth j (prepend now) X1) e1 clk)).
    + eapply (ms_evt _ e clk j (prepend (ev :: now) nd) ev (now ++ n_evt nd)).
      * apply nth_error_update_nth_eq. exact Hn.
      * reflexivity.
      * rewrite update_nth_length, (pop_prepend _ _ _ _ _ Hn), Pl, pushes_prepend, <- EX1. reflexivity.
    + rewrite <- L1 in H. apply (IH e1 X1 e' X' H).
      intros _. destruct (pushes_node j l X nd Hn) as (extra&Hx). rewrite <- EX1 in Hx. eexists; exact Hx.
Qed.

(* the collect phase: every worker's queue is a collected prefix in front of what stays *)
Fixpoint addp_from (k : nat) (pre : list (list event)) (X : list node) : list node :=
  match pre with
  | [] => X
  | p :: pre' => update_nth k (prepend p) (addp_from (S k) pre' X)
  end.

Lemma addp_from_cons : forall pre k x X, addp_from (S k) pre (x :: X) = x :: addp_from k pre X.
Proof. induction pre as [|p pre IH]; intros k x X; simpl; [reflexivity|]. rewrite IH. reflexivity. Qed.
Lemma addp_from_length : forall pre k X, length (addp_from k pre X) = length X.
Proof. induction pre as [|p pre IH]; intros k X; simpl; [reflexivity|]. rewrite update_nth_length. apply IH. Qed.
Lemma pushes_addp : forall pre k l X, pushes l (addp_from k pre X) = addp_from k pre (pushes l X).
Proof. induction pre as [|p pre IH]; intros k l X; simpl; [reflexivity|]. rewrite pushes_prepend, IH. reflexivity. Qed.

Lemma collect_addp : forall ns ks evs ns1, collect ks ns = (evs, ns1) ->
  exists pre, evs = concat pre /\ length pre = length ns /\ length ns1 = length ns /\ ns = addp_from 0 pre ns1.
Proof.
  induction ns as [|nd ns IH]; intros ks evs ns1 H; simpl in H.
  - inversion H; subst. exists []. repeat split.
  - set (k0 := match ks with [] => None | k1 :: _ => Some k1 end) in H.
    pose proof (split_at_app k0 (n_evt nd)) as Hs.
    destruct (split_at k0 (n_evt nd)) as [now later]. simpl in Hs.
    destruct (collect (tl ks) ns) as [evs_t t1] eqn:Ec. inversion H; subst evs ns1; clear H.
    destruct (IH _ _ _ Ec) as (pre&P1&P2&P3&P4).
    exists (now :: pre). simpl. rewrite P1, P2, P3. repeat split.
    rewrite addp_from_cons. simpl. rewrite <- P4. f_equal.
    unfold prepend, mk_node. simpl. rewrite Hs. destruct nd; reflexivity.
Qed.

Lemma drain_all clk : forall pre k e X e' X',
  handle_events (length X) (concat pre) (e, X) = Good (e', X') -> k + length pre <= length X ->
  exists ls, msteps (mk_sys (addp_from k pre X) e clk) ls (mk_sys X' e' clk) /\ Forall (fun l => exists j, l = MEvt j) ls.
Proof.
  induction pre as [|p pre IH]; intros k e X e' X' H L; simpl in *.
  - inversion H; subst. exists []. split; constructor.
  - rewrite handle_events_app in H.
    destruct (handle_events (length X) p (e, X)) as [[e1 X1]|] eqn:E1; cbn [rbind] in H; [|discriminate].
    destruct (handle_events_plan _ _ _ _ _ _ E1) as (l&Pl).
    assert (EX1: X1 = pushes l X) by (specialize (Pl X); rewrite E1 in Pl; inversion Pl; reflexivity).
    assert (L1: length X1 = length X) by (rewrite EX1; apply pushes_length).
    set (Y := addp_from (S k) pre X).
    assert (LY: length Y = length X) by apply addp_from_length.
    assert (EY: handle_events (length Y) p (e, Y) = Good (e1, addp_from (S k) pre X1)).
    { rewrite LY, Pl. unfold Y. rewrite pushes_addp, <- EX1. reflexivity. }
    pose proof (drain k clk p e Y e1 _ EY) as D.
    rewrite <- L1 in H. destruct (IH (S k) e1 X1 e' X' H) as (ls&M&F); [lia|].
    exists (repeat (MEvt k) (length p) ++ ls). split.
    + eapply msteps_app; [apply D|exact M].
      intros _. destruct (nth_error Y k) as [nd|] eqn:En; [eexists; reflexivity|].
      apply nth_error_None in En. lia.
    + apply Forall_app. split; [|exact F]. apply Forall_forall. intros x Hx. apply repeat_spec in Hx. eexists; exact Hx.
Qed.

Theorem env_step_msteps : forall s ks s', sys_step s (E ks) = Good s' ->
  exists ls, msteps s ls s' /\ Forall (fun l => exists j, l = MEvt j) ls.
Proof.
  intros [ns e clk] ks s' H. simpl in H.
  destruct (collect ks ns) as [evs ns1] eqn:Ec.
  destruct (collect_addp _ _ _ _ Ec) as (pre&P1&P2&P3&P4).
  destruct (handle_events (length ns) evs (e, ns1)) as [[e' ns']|] eqn:Eh; cbn [rbind] in H; [|discriminate].
  inversion H; subst s'; clear H.
  rewrite <- P3, P1 in Eh. destruct (drain_all clk pre 0 e ns1 e' ns' Eh) as (ls&M&F); [simpl; lia|].
  exists ls. split; [|exact F]. rewrite P4. exact M.
Qed.

(* ------------------------------------------------------------------ invariants by micro-steps *)
(* the premise on the oracle of an executor step, as seen on the worker state the step starts from *)
Definition hon_label (HonW : env -> nat -> woracle -> worker -> Prop) (s : sys) (l : mlabel) : Prop :=
  match l with
  | MExec i o => forall nd, nth_error (s_nodes s) i = Some nd -> HonW (s_env s) (s_clock s) o (n_w nd)
  | _ => True
  end.
(* ... and on a schedule: the worker state is the one after the commands of that Worker::step *)
Definition hon_step (HonW : env -> nat -> woracle -> worker -> Prop) (s : sys) (a : sched_action) : Prop :=
  match a with
  | W i k o =>
    match nth_error (s_nodes s) i with
    | Some nd =>
      match handle_cmds (fst (split_at k (n_cmd nd))) (n_w nd) with
      | Good (w1, _) => HonW (s_env s) (s_clock s) o w1
      | Fault _ => True
      end
    | None => True
    end
  | _ => True
  end.
Fixpoint hon_run (HonW : env -> nat -> woracle -> worker -> Prop) (s : sys) (sigma : list sched_action) : Prop :=
  match sigma with
  | [] => True
  | a :: t => hon_step HonW s a /\ match sys_step s a with Good s' => hon_run HonW s' t | Fault _ => True end
  end.

Section Invariant.
  Variable Inv : sys -> Prop.
  Variable HonW : env -> nat -> woracle -> worker -> Prop.
  Hypothesis Hstep : forall s l s', Inv s -> mstep s l s' -> hon_label HonW s l -> Inv s'.

  Lemma msteps_inv : forall s ls s', msteps s ls s' -> Inv s ->
    Forall (fun l => match l with MExec _ _ => False | _ => True end) ls -> Inv s'.
  Proof.
    intros s ls s' M. induction M as [|s l s1 ls s2 Hs Hr IH]; intros HI F; [exact HI|].
    inversion F as [|x y F1 F2]; subst. apply IH; [|exact F2].
    eapply Hstep; [exact HI|exact Hs|]. destruct l; simpl; auto. contradiction.
  Qed.

  Lemma step_inv s a s' : Inv s -> hon_step HonW s a -> sys_step s a = Good s' -> Inv s'.
  Proof.
    intros HI Hh H. destruct a as [i k o|ks|d|c].
    - destruct s as [ns e clk]. simpl in H, Hh.
      destruct (nth_error ns i) as [nd|] eqn:Ei; [|inversion H; subst; exact HI].
      destruct (node_step i clk k o nd) as [nd'|] eqn:Es; cbn [rbind] in H; [|discriminate].
      inversion H; subst s'; clear H.
      destruct (node_step_msteps ns e clk i k o nd nd' Ei Es) as (w1&e1&s1&E1&M1&Es1&M2).
      rewrite E1 in Hh.
      assert (I1: Inv s1).
      { eapply msteps_inv; [exact M1|exact HI|]. apply Forall_forall. intros x Hx. apply repeat_spec in Hx. subst x. exact I. }
      inversion M2 as [|sa l sb ls sc Ha Hb]; subst.
      inversion Hb as [|sa' l' sb' ls' sc' Ha' Hb']; subst. inversion Hb'; subst.
      assert (I2: Inv sb).
      { eapply Hstep; [exact I1|exact Ha|]. simpl. intros nd1 Hn1.
        rewrite (nth_set_node_same _ _ _ _ Ei) in Hn1. inversion Hn1; subst nd1. simpl. exact Hh. }
      eapply Hstep; [exact I2|exact Ha'|exact I].
    - destruct (env_step_msteps s ks s' H) as (ls&M&F).
      eapply msteps_inv; [exact M|exact HI|]. eapply Forall_impl; [|exact F]. intros x (j&->). exact I.
    - destruct s as [ns e clk]. simpl in H. inversion H; subst s'.
      eapply Hstep; [exact HI|apply ms_time|exact I].
    - simpl in H. eapply Hstep; [exact HI|apply ms_client; exact H|exact I].
  Qed.

  Theorem micro_invariant : forall sigma s s', Inv s -> hon_run HonW s sigma -> run s sigma = Good s' -> Inv s'.
  Proof.
    induction sigma as [|a sigma IH]; intros s s' HI Hh H; simpl in H.
    - inversion H; subst. exact HI.
    - simpl in Hh. destruct Hh as (Ha&Ht).
      destruct (sys_step s a) as [s1|] eqn:E; cbn [rbind] in H; [|discriminate].
      apply (IH s1 s'); [eapply step_inv; eassumption|exact Ht|exact H].
  Qed.
End Invariant.

(* ------------------------------------------------------------------ the same with a premise on client calls *)
(* the premise on a client call may depend on the state in which the call is made *)
Definition hon_label2 (HonW : env -> nat -> woracle -> worker -> Prop) (OkC : sys -> client -> Prop) (s : sys) (l : mlabel) : Prop :=
  match l with
  | MClient c => OkC s c
  | _ => hon_label HonW s l
  end.
Fixpoint clients_ok (OkC : sys -> client -> Prop) (s : sys) (sigma : list sched_action) : Prop :=
  match sigma with
  | [] => True
  | a :: t => match a with X c => OkC s c | _ => True end /\
              match sys_step s a with Good s' => clients_ok OkC s' t | Fault _ => True end
  end.

Section Invariant2.
  Variable Inv : sys -> Prop.
  Variable HonW : env -> nat -> woracle -> worker -> Prop.
  Variable OkC : sys -> client -> Prop.
  Hypothesis Hstep : forall s l s', Inv s -> mstep s l s' -> hon_label2 HonW OkC s l -> Inv s'.

  Lemma msteps_inv2 : forall s ls s', msteps s ls s' -> Inv s ->
    Forall (fun l => match l with MExec _ _ | MClient _ => False | _ => True end) ls -> Inv s'.
  Proof.
    intros s ls s' M. induction M as [|s l s1 ls s2 Hs Hr IH]; intros HI F; [exact HI|].
    inversion F as [|x y F1 F2]; subst. apply IH; [|exact F2].
    eapply Hstep; [exact HI|exact Hs|]. destruct l; simpl; auto; contradiction.
  Qed.

  Lemma step_inv2 s a s' : Inv s -> hon_step HonW s a -> match a with X c => OkC s c | _ => True end -> sys_step s a = Good s' -> Inv s'.
  Proof.
    intros HI Hh Hc H. destruct a as [i k o|ks|d|c].
    - destruct s as [ns e clk]. simpl in H, Hh.
      destruct (nth_error ns i) as [nd|] eqn:Ei; [|inversion H; subst; exact HI].
      destruct (node_step i clk k o nd) as [nd'|] eqn:Es; cbn [rbind] in H; [|discriminate].
      inversion H; subst s'; clear H.
      destruct (node_step_msteps ns e clk i k o nd nd' Ei Es) as (w1&e1&s1&E1&M1&Es1&M2).
      rewrite E1 in Hh.
      assert (I1: Inv s1).
      { eapply msteps_inv2; [exact M1|exact HI|]. apply Forall_forall. intros x Hx. apply repeat_spec in Hx. subst x. exact I. }
      inversion M2 as [|sa l sb ls sc Ha Hb]; subst.
      inversion Hb as [|sa' l' sb' ls' sc' Ha' Hb']; subst. inversion Hb'; subst.
      assert (I2: Inv sb).
      { eapply Hstep; [exact I1|exact Ha|]. simpl. intros nd1 Hn1.
        rewrite (nth_set_node_same _ _ _ _ Ei) in Hn1. inversion Hn1; subst nd1. simpl. exact Hh. }
      eapply Hstep; [exact I2|exact Ha'|exact I].
    - destruct (env_step_msteps s ks s' H) as (ls&M&F).
      eapply msteps_inv2; [exact M|exact HI|]. eapply Forall_impl; [|exact F]. intros x (j&->). exact I.
    - destruct s as [ns e clk]. simpl in H. inversion H; subst s'.
      eapply Hstep; [exact HI|apply ms_time|exact I].
    - simpl in H. eapply Hstep; [exact HI|apply ms_client; exact H|exact Hc].
  Qed.

  Theorem micro_invariant2 : forall sigma s s', Inv s -> hon_run HonW s sigma -> clients_ok OkC s sigma -> run s sigma = Good s' -> Inv s'.
  Proof.
    induction sigma as [|a sigma IH]; intros s s' HI Hh Hc H; simpl in H.
    - inversion H; subst. exact HI.
    - simpl in Hh, Hc. destruct Hh as (Ha&Ht). destruct Hc as (C1&C2).
      destruct (sys_step s a) as [s1|] eqn:E; cbn [rbind] in H; [|discriminate].
      apply (IH s1 s'); [eapply step_inv2; eassumption|exact Ht|exact C2|exact H].
  Qed.
End Invariant2.
