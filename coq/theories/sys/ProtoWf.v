(* ProtoWf.v — well-formedness of the executor's scheduling state in M-Sys (sys/Proto.v), an
   invariant of every run: process ids are unique, the run queue has no duplicates, the run queue
   and the parked sets `spawning` / `selecting` are pairwise disjoint and only hold existing
   processes, and a process that has completed successfully is in none of them. *)
From Quiver Require Import sys.Proto sys.ProtoMsg sys.ProtoFifo sys.ProtoFail sys.ProtoWake sys.ProtoDeliver.

Definition okres (w : worker) (p : pid) : Prop :=
  forall pr v, alookup p (w_procs w) = Some pr -> p_res pr <> Some (ROk v).

Record SW (w : worker) : Prop := {
  sw_keys : NoDup (map fst (w_procs w));
  sw_nq : NoDup (w_queue w);
  sw_sp : forall p, mem p (w_spawning w) = true -> ~ In p (w_queue w) /\ mem p (w_selecting w) = false;
  sw_se : forall p, mem p (w_selecting w) = true -> ~ In p (w_queue w);
  sw_has : forall p, In p (w_queue w) \/ mem p (w_spawning w) = true \/ mem p (w_selecting w) = true -> has p w;
  sw_res : forall p, In p (w_queue w) \/ mem p (w_spawning w) = true \/ mem p (w_selecting w) = true -> okres w p;
}.

Lemma in_sremove x y l : In x (sremove y l) <-> In x l /\ x <> y.
Proof.
  unfold sremove. rewrite filter_In. split; intros (A&B); split; auto.
  - intros ->. rewrite Nat.eqb_refl in B. discriminate.
  - apply Bool.negb_true_iff. apply Nat.eqb_neq. auto.
Qed.
Lemma NoDup_sremove y l : NoDup l -> NoDup (sremove y l).
Proof. apply NoDup_filter. Qed.
Lemma mem_false_in x l : mem x l = false <-> ~ In x l.
Proof.
  rewrite <- mem_in. destruct (mem x l); split; intros H; try discriminate; auto;
    try (exfalso; apply H; reflexivity); try (intros E; discriminate).
Qed.
Lemma NoDup_snoc {A} (l : list A) x : NoDup l -> ~ In x l -> NoDup (l ++ [x]).
Proof. apply ProtoMsg.NoDup_app_one. Qed.

(* ---- primitives *)
Lemma SW_same_sched w w' :
  w_procs w' = w_procs w -> w_queue w' = w_queue w -> w_spawning w' = w_spawning w -> w_selecting w' = w_selecting w ->
  SW w -> SW w'.
Proof.
  intros E1 E2 E3 E4 [K N S1 S2 H R].
  constructor; unfold has, okres in *; rewrite ?E1, ?E2, ?E3, ?E4; auto.
Qed.

Lemma keys_aset_same {A} k (a b : A) l : alookup k l = Some b -> map fst (aset k a l) = map fst l.
Proof.
  induction l as [|[k0 a0] l IH]; simpl; [discriminate|].
  destruct (k =? k0) eqn:E; simpl.
  - apply Nat.eqb_eq in E; subst. reflexivity.
  - intros H. f_equal. apply IH. exact H.
Qed.
Lemma keys_aset_new {A} k (a : A) l : alookup k l = None -> map fst (aset k a l) = map fst l ++ [k].
Proof.
  induction l as [|[k0 a0] l IH]; simpl; [reflexivity|].
  destruct (k =? k0) eqn:E; simpl; [discriminate|]. intros H. f_equal. apply IH. exact H.
Qed.
Lemma alookup_none_notin {A} k (l : list (nat * A)) : alookup k l = None -> ~ In k (map fst l).
Proof.
  induction l as [|[k0 a0] l IH]; simpl; [auto|]. destruct (k =? k0) eqn:E; [discriminate|].
  intros H [H1|H1]; [subst; rewrite Nat.eqb_refl in E; discriminate|apply IH; assumption].
Qed.

(* updating an existing process with a function that never creates an Ok result *)
Definition no_ok (f : proc -> proc) : Prop := forall pr v, p_res (f pr) = Some (ROk v) -> p_res pr = Some (ROk v).

Lemma SW_upd_proc p f w : no_ok f -> SW w -> SW (upd_proc p f w).
Proof.
  intros Hf [K N S1 S2 H R]. unfold upd_proc. destruct (alookup p (w_procs w)) as [pr|] eqn:El; [|constructor; assumption].
  constructor; simpl; auto.
  - rewrite (keys_aset_same _ _ _ _ El). exact K.
  - intros q Hq. unfold has. simpl. rewrite alookup_aset. destruct (q =? p); [discriminate|apply (H q Hq)].
  - intros q Hq pr' v. simpl. rewrite alookup_aset. destruct (q =? p) eqn:E.
    + intros E1 E2. inversion E1; subst pr'. apply Nat.eqb_eq in E; subst q. apply Hf in E2. exact (R p Hq pr v El E2).
    + apply (R q Hq).
Qed.

Lemma no_ok_with_awaiting a : no_ok (fun pr => with_awaiting a pr). Proof. intros pr v H; exact H. Qed.
Lemma no_ok_with_awaiting_f (g : proc -> list (pid * option res)) : no_ok (fun pr => with_awaiting (g pr) pr).
Proof. intros pr v H; exact H. Qed.
Lemma no_ok_with_mail (g1 g2 g3 : proc -> list msg) : no_ok (fun pr => with_mail (g1 pr) (g2 pr) (g3 pr) pr).
Proof. intros pr v H; exact H. Qed.
Lemma no_ok_err e : no_ok (with_res (Some (RErr e))). Proof. intros pr v H; discriminate. Qed.
Lemma no_ok_none : no_ok (with_res None). Proof. intros pr v H; discriminate. Qed.

Lemma SW_wake p w : SW w -> SW (wake_selecting p w).
Proof.
  intros [K N S1 S2 H R]. unfold wake_selecting. destruct (mem p (w_selecting w)) eqn:Ep; [|constructor; assumption].
  constructor; simpl; auto.
  - apply NoDup_snoc; [exact N|apply S2; exact Ep].
  - intros q Hq. destruct (S1 q Hq) as (A&B). split.
    + intros Hin. apply in_app_or in Hin. destruct Hin as [Hin|[->|[]]]; [contradiction|]. congruence.
    + rewrite mem_sremove, B. reflexivity.
  - intros q Hq. rewrite mem_sremove in Hq. apply andb_true_iff in Hq. destruct Hq as (A&B).
    intros Hin. apply in_app_or in Hin. destruct Hin as [Hin|[->|[]]]; [apply (S2 q A); exact Hin|].
    rewrite Nat.eqb_refl in B. discriminate.
  - intros q [Hq|[Hq|Hq]].
    + apply in_app_or in Hq. destruct Hq as [Hq|[->|[]]]; [apply H; auto|apply H; auto].
    + apply H; auto.
    + rewrite mem_sremove in Hq. apply andb_true_iff in Hq. apply H; right; right; apply Hq.
  - intros q [Hq|[Hq|Hq]].
    + apply in_app_or in Hq. destruct Hq as [Hq|[->|[]]]; [apply R; auto|apply R; auto].
    + apply R; auto.
    + rewrite mem_sremove in Hq. apply andb_true_iff in Hq. apply R; right; right; apply Hq.
Qed.

(* push a process that is in no set yet *)
Lemma SW_enqueue p w :
  has p w -> okres w p -> ~ In p (w_queue w) -> mem p (w_spawning w) = false -> mem p (w_selecting w) = false ->
  SW w -> SW (enqueue p w).
Proof.
  intros Hh Ho Hq Hs1 Hs2 [K N S1 S2 H R]. constructor; simpl; auto.
  - apply NoDup_snoc; assumption.
  - intros q Hq'. destruct (S1 q Hq') as (A&B). split; [|exact B].
    intros Hin. apply in_app_or in Hin. destruct Hin as [Hin|[->|[]]]; [contradiction|congruence].
  - intros q Hq' Hin. apply in_app_or in Hin. destruct Hin as [Hin|[->|[]]]; [apply (S2 q Hq'); exact Hin|congruence].
  - intros q [Hq'|Hq']; [apply in_app_or in Hq'; destruct Hq' as [Hq'|[->|[]]]; [apply H; auto|exact Hh]|apply H; auto].
  - intros q [Hq'|Hq']; [apply in_app_or in Hq'; destruct Hq' as [Hq'|[->|[]]]; [apply R; auto|exact Ho]|apply R; auto].
Qed.

Lemma SW_mark_selecting p w :
  has p w -> okres w p -> mem p (w_spawning w) = false -> SW w -> SW (mark_selecting p w).
Proof.
  intros Hh Ho Hs1 [K N S1 S2 H R]. constructor; simpl; auto.
  - apply NoDup_sremove; exact N.
  - intros q Hq. destruct (S1 q Hq) as (A&B). split.
    + intros Hin. apply in_sremove in Hin. apply A, Hin.
    + rewrite mem_sadd, B. simpl. apply Nat.eqb_neq. intros ->. congruence.
  - intros q Hq Hin. apply in_sremove in Hin. destruct Hin as (Hin&Hne).
    rewrite mem_sadd in Hq. apply orb_true_iff in Hq. destruct Hq as [Hq|Hq]; [apply (S2 q Hq); exact Hin|].
    apply Nat.eqb_eq in Hq. contradiction.
  - intros q [Hq|[Hq|Hq]].
    + apply in_sremove in Hq. apply H; left; apply Hq.
    + apply H; auto.
    + rewrite mem_sadd in Hq. apply orb_true_iff in Hq. destruct Hq as [Hq|Hq]; [apply H; auto|apply Nat.eqb_eq in Hq; subst; exact Hh].
  - intros q [Hq|[Hq|Hq]].
    + apply in_sremove in Hq. apply R; left; apply Hq.
    + apply R; auto.
    + rewrite mem_sadd in Hq. apply orb_true_iff in Hq. destruct Hq as [Hq|Hq]; [apply R; auto|apply Nat.eqb_eq in Hq; subst; exact Ho].
Qed.

Lemma SW_mark_spawning p w :
  has p w -> okres w p -> mem p (w_selecting w) = false -> SW w -> SW (mark_spawning p w).
Proof.
  intros Hh Ho Hs2 [K N S1 S2 H R]. constructor; simpl; auto.
  - apply NoDup_sremove; exact N.
  - intros q Hq. rewrite mem_sadd in Hq. apply orb_true_iff in Hq. destruct Hq as [Hq|Hq].
    + destruct (S1 q Hq) as (A&B). split; [|exact B]. intros Hin. apply in_sremove in Hin. apply A, Hin.
    + apply Nat.eqb_eq in Hq; subst q. split; [|exact Hs2]. intros Hin. apply in_sremove in Hin. destruct Hin as (_&Hne). congruence.
  - intros q Hq Hin. apply in_sremove in Hin. apply (S2 q Hq), Hin.
  - intros q [Hq|[Hq|Hq]].
    + apply in_sremove in Hq. apply H; left; apply Hq.
    + rewrite mem_sadd in Hq. apply orb_true_iff in Hq. destruct Hq as [Hq|Hq]; [apply H; auto|apply Nat.eqb_eq in Hq; subst; exact Hh].
    + apply H; auto.
  - intros q [Hq|[Hq|Hq]].
    + apply in_sremove in Hq. apply R; left; apply Hq.
    + rewrite mem_sadd in Hq. apply orb_true_iff in Hq. destruct Hq as [Hq|Hq]; [apply R; auto|apply Nat.eqb_eq in Hq; subst; exact Ho].
    + apply R; auto.
Qed.

(* pop the head of the run queue *)
Lemma SW_pop p q' w : w_queue w = p :: q' -> SW w ->
  SW (set_sched w q' (w_spawning w) (w_selecting w)) /\ ~ In p q' /\ mem p (w_spawning w) = false /\ mem p (w_selecting w) = false
  /\ has p w /\ okres w p.
Proof.
  intros Eq [K N S1 S2 H R]. rewrite Eq in *. inversion N; subst.
  assert (Hsp: mem p (w_spawning w) = false).
  { destruct (mem p (w_spawning w)) eqn:E; [|reflexivity]. destruct (S1 p E) as (A&_). exfalso. apply A. left; reflexivity. }
  assert (Hse: mem p (w_selecting w) = false).
  { destruct (mem p (w_selecting w)) eqn:E; [|reflexivity]. exfalso. apply (S2 p E). left; reflexivity. }
  split; [|repeat split; auto; [apply H|apply R]; left; left; reflexivity].
  constructor; simpl; auto.
  - intros q Hq. destruct (S1 q Hq) as (A&B). split; [|exact B]. intros Hin. apply A. right; exact Hin.
  - intros q Hq Hin. apply (S2 q Hq). right; exact Hin.
  - intros q [Hq|Hq]; [apply H; left; right; exact Hq|apply H; right; exact Hq].
  - intros q [Hq|Hq]; [apply R; left; right; exact Hq|apply R; right; exact Hq].
Qed.

(* replace the record of a process that is in no set *)
Lemma SW_set_proc p pr1 w :
  has p w -> ~ In p (w_queue w) -> mem p (w_spawning w) = false -> mem p (w_selecting w) = false ->
  SW w -> SW (set_procs w (aset p pr1 (w_procs w))).
Proof.
  intros Hh Hq Hs1 Hs2 [K N S1 S2 H R]. unfold has in Hh. destruct (alookup p (w_procs w)) as [pr|] eqn:El; [|contradiction].
  constructor; simpl; auto.
  - rewrite (keys_aset_same _ _ _ _ El). exact K.
  - intros q Hq'. unfold has. simpl. rewrite alookup_aset. destruct (q =? p); [discriminate|apply (H q Hq')].
  - intros q Hq' pr' v. simpl. rewrite alookup_aset. destruct (q =? p) eqn:E; [|apply (R q Hq')].
    apply Nat.eqb_eq in E; subst q. exfalso. destruct Hq' as [A|[A|A]]; [contradiction|congruence|congruence].
Qed.

(* a brand-new process *)
Lemma SW_new_proc p pr0 w : ~ has p w -> SW w -> SW (set_procs w (aset p pr0 (w_procs w))).
Proof.
  intros Hn [K N S1 S2 H R].
  assert (El: alookup p (w_procs w) = None) by (unfold has in Hn; destruct (alookup p (w_procs w)); [exfalso; apply Hn; discriminate|reflexivity]).
  constructor; simpl; auto.
  - rewrite (keys_aset_new _ _ _ El). apply NoDup_snoc; [exact K|apply alookup_none_notin; exact El].
  - intros q Hq. unfold has. simpl. rewrite alookup_aset. destruct (q =? p); [discriminate|apply (H q Hq)].
  - intros q Hq pr' v. simpl. rewrite alookup_aset. destruct (q =? p) eqn:E; [|apply (R q Hq)].
    apply Nat.eqb_eq in E; subst q. exfalso. apply Hn. apply H. exact Hq.
Qed.

(* ---- composite operations *)
Lemma SW_notify_result a b r w : SW w -> SW (notify_result a b r w).
Proof.
  intros H. unfold notify_result. destruct (awaits a b w); [|apply SW_wake; exact H].
  apply SW_wake. apply SW_upd_proc; [apply (no_ok_with_awaiting_f (fun pr => aset b (Some r) (p_awaiting pr)))|exact H].
Qed.
Lemma SW_worker_notify a b r w : SW w -> SW (worker_notify a b r w).
Proof.
  intros H. unfold worker_notify. destruct r as [v|e]; [apply SW_notify_result; exact H|].
  destruct (awaits a b w); [apply SW_upd_proc; [apply no_ok_err|exact H]|apply SW_wake; exact H].
Qed.
Lemma SW_fold {A} (f : worker -> A -> worker) l : (forall w x, SW w -> SW (f w x)) -> forall w, SW w -> SW (fold_left f l w).
Proof. intros Hf. induction l as [|x l IH]; intros w H; simpl; [exact H|]. apply IH, Hf, H. Qed.
Lemma SW_update_await a rs w : SW w -> SW (update_await a rs w).
Proof.
  intros H. unfold update_await.
  assert (H1: SW (fold_left (fun w e => match snd e with Some r => worker_notify a (fst e) r w | None => w end) rs w)).
  { apply SW_fold; [|exact H]. intros w0 x H0. destruct (snd x); [apply SW_worker_notify; exact H0|exact H0]. }
  destruct (existsb _ rs); [exact H1|apply SW_wake; exact H1].
Qed.
Lemma SW_query_fold a ts : forall w rs, SW w -> SW (fst (fold_left (query_one a) ts (w, rs))).
Proof.
  induction ts as [|t ts IH]; intros w rs H; cbn [fold_left]; [exact H|].
  assert (Q: SW (fst (query_one a (w, rs) t))).
  { unfold query_one. destruct (completed_value w t); simpl; [exact H|]. eapply SW_same_sched; [| | | |exact H]; reflexivity. }
  destruct (query_one a (w, rs) t) as [w1 rs1]. simpl in Q. apply IH. exact Q.
Qed.

Lemma okres_none_has p w : has p w -> (forall pr, alookup p (w_procs w) = Some pr -> p_res pr = None) -> okres w p.
Proof. intros _ H pr v Hl E. rewrite (H pr Hl) in E. discriminate. Qed.

Lemma not_in_sets_of_nohas p w : SW w -> ~ has p w ->
  ~ In p (w_queue w) /\ mem p (w_spawning w) = false /\ mem p (w_selecting w) = false.
Proof.
  intros [K N S1 S2 H R] Hn. repeat split.
  - intros Hin. apply Hn, H. auto.
  - destruct (mem p (w_spawning w)) eqn:E; [exfalso; apply Hn, H; auto|reflexivity].
  - destruct (mem p (w_selecting w)) eqn:E; [exfalso; apply Hn, H; auto|reflexivity].
Qed.

Lemma not_in_sets_of_ok p w pr v : SW w -> alookup p (w_procs w) = Some pr -> p_res pr = Some (ROk v) ->
  ~ In p (w_queue w) /\ mem p (w_spawning w) = false /\ mem p (w_selecting w) = false.
Proof.
  intros [K N S1 S2 H R] Hl Hr. repeat split.
  - intros Hin. apply (R p (or_introl Hin) pr v Hl Hr).
  - destruct (mem p (w_spawning w)) eqn:E; [exfalso; apply (R p (or_intror (or_introl E)) pr v Hl Hr)|reflexivity].
  - destruct (mem p (w_selecting w)) eqn:E; [exfalso; apply (R p (or_intror (or_intror E)) pr v Hl Hr)|reflexivity].
Qed.

(* Worker::handle_command, given that a spawn command names a process that does not exist yet *)
Lemma SW_handle_cmd c w w' ev :
  (forall p, spawns c = Some p -> ~ has p w) ->
  handle_cmd c w = Good (w', ev) -> SW w -> SW w'.
Proof.
  intros Hfresh H HS. destruct c; simpl in H.
  - inversion H; subst; exact HS.
  - inversion H; subst; exact HS.
  - (* start *)
    assert (Hn: ~ has p w) by (apply Hfresh; reflexivity).
    destruct (not_in_sets_of_nohas p w HS Hn) as (A&B&C).
    destruct sleeping; inversion H; subst; clear H.
    + apply SW_new_proc; assumption.
    + apply SW_enqueue; simpl; try assumption.
      * unfold has. simpl. rewrite alookup_aset_eq. discriminate.
      * intros pr v. simpl. rewrite alookup_aset_eq. intros E; inversion E; subst. discriminate.
      * apply SW_new_proc; assumption.
  - (* spawn *)
    assert (Hn: ~ has p w) by (apply Hfresh; reflexivity).
    destruct (not_in_sets_of_nohas p w HS Hn) as (A&B&C).
    inversion H; subst; clear H.
    apply SW_enqueue; simpl; try assumption.
    + unfold has. simpl. rewrite alookup_aset_eq. discriminate.
    + intros pr v. simpl. rewrite alookup_aset_eq. intros E; inversion E; subst. discriminate.
    + apply SW_new_proc; assumption.
  - (* resume *)
    destruct (alookup p (w_procs w)) as [pr|] eqn:El; [|discriminate].
    destruct (p_res pr) as [[v|e]|] eqn:Er; try discriminate. destruct (p_pers pr); [|discriminate].
    inversion H; subst; clear H.
    destruct (not_in_sets_of_ok p w pr v HS El Er) as (A&B&C).
    destruct (upd_proc_sched p (with_res None) w) as (S1&S2&S3).
    apply SW_enqueue; rewrite ?S1, ?S2, ?S3; try assumption.
    + unfold has. rewrite (upd_proc_same p (with_res None) w pr El). discriminate.
    + intros pr' v'. rewrite (upd_proc_same p (with_res None) w pr El). intros E; inversion E; subst. discriminate.
    + apply SW_upd_proc; [apply no_ok_none|exact HS].
  - destruct (fold_left (query_one awaiter) targets (w, [])) as [w1 rs] eqn:E. inversion H; subst.
    pose proof (SW_query_fold awaiter targets w [] HS) as Q. rewrite E in Q. exact Q.
  - inversion H; subst. apply SW_update_await; exact HS.
  - destruct (alookup target (w_procs w)) as [pr|]; inversion H; subst; clear H.
    + apply SW_wake. apply SW_upd_proc.
      * apply (no_ok_with_mail (fun pr0 => p_mail pr0 ++ [m]) (fun pr0 => p_arrived pr0 ++ [m]) (fun pr0 => p_taken pr0)).
      * eapply SW_same_sched; [| | | |exact HS]; reflexivity.
    + apply SW_wake. eapply SW_same_sched; [| | | |exact HS]; reflexivity.
  - (* notify spawn *)
    destruct (mem p (w_spawning w)) eqn:Ep; inversion H; subst; clear H; [|exact HS].
    destruct HS as [K N S1 S2 Hh R]. destruct (S1 p Ep) as (A&B).
    assert (Hp: has p w) by (apply Hh; auto).
    unfold has in Hp. destruct (alookup p (w_procs w)) as [pr|] eqn:El; [|contradiction].
    constructor; simpl; auto.
    + apply NoDup_snoc; assumption.
    + intros q Hq. rewrite mem_sremove in Hq. apply andb_true_iff in Hq. destruct Hq as (Hq&Hne).
      destruct (S1 q Hq) as (A1&B1). split; [|exact B1].
      intros Hin. apply in_app_or in Hin. destruct Hin as [Hin|[->|[]]]; [contradiction|]. rewrite Nat.eqb_refl in Hne. discriminate.
    + intros q Hq Hin. apply in_app_or in Hin. destruct Hin as [Hin|[->|[]]]; [apply (S2 q Hq); exact Hin|congruence].
    + intros q [Hq|[Hq|Hq]].
      * apply in_app_or in Hq. destruct Hq as [Hq|[->|[]]]; [apply Hh; auto|unfold has; simpl; rewrite El; discriminate].
      * rewrite mem_sremove in Hq. apply andb_true_iff in Hq. apply Hh; right; left; apply Hq.
      * apply Hh; auto.
    + intros q [Hq|[Hq|Hq]].
      * apply in_app_or in Hq. destruct Hq as [Hq|[->|[]]]; [apply R; auto|apply R; auto].
      * rewrite mem_sremove in Hq. apply andb_true_iff in Hq. apply R; right; left; apply Hq.
      * apply R; auto.
  - destruct (alookup p (w_procs w)) as [pr|]; [|discriminate].
    destruct (p_res pr); inversion H; subst; [exact HS|]. eapply SW_same_sched; [| | | |exact HS]; reflexivity.
Qed.

(* check_expired_timeouts *)
Lemma order_by_nodup hint set o : order_by hint set = Some o -> NoDup o.
Proof.
  unfold order_by. destruct (_ && _); [|discriminate]. intros H; inversion H; subst.
  apply NoDup_filter. apply NoDup_nodup.
Qed.

Lemma NoDup_snoc_inv {A} (l : list A) a : NoDup (l ++ [a]) -> NoDup l /\ ~ In a l.
Proof. intros H. apply NoDup_remove in H. rewrite app_nil_r in H. exact H. Qed.

Lemma SW_expire now hint w w' : expire now hint w = Good w' -> SW w -> SW w'.
Proof.
  unfold expire. set (ex := filter (timed_out now w) (w_selecting w)).
  destruct (order_by hint ex) as [o|] eqn:Eo; [|discriminate]. intros H; inversion H; subst w'; clear H.
  intros [K N S1 S2 Hh R].
  assert (Osub: forall x, In x o -> mem x (w_selecting w) = true /\ mem x ex = true).
  { intros x Hx. pose proof (order_by_sub _ _ _ Eo x Hx) as Hm. split; [|exact Hm].
    apply mem_in in Hm. unfold ex in Hm. apply filter_In in Hm. apply mem_in. apply Hm. }
  assert (Sel': forall q, mem q (filter (fun p => negb (mem p ex)) (w_selecting w)) = true -> mem q (w_selecting w) = true /\ mem q ex = false).
  { intros q Hq. apply mem_in, filter_In in Hq. destruct Hq as (A&B). split; [apply mem_in; exact A|]. apply Bool.negb_true_iff in B. exact B. }
  constructor; simpl; auto.
  - (* NoDup (queue ++ o) *)
    clear -N S2 Osub Eo. pose proof (order_by_nodup _ _ _ Eo) as No.
    revert No Osub. generalize o. intros l. induction l as [|a l IH] using rev_ind; intros No Osub; [rewrite app_nil_r; exact N|].
    destruct (NoDup_snoc_inv _ _ No) as (No1&No2).
    rewrite app_assoc. apply NoDup_snoc.
    + apply IH; [exact No1|]. intros x Hx. apply Osub. apply in_or_app; left; exact Hx.
    + intros Hin. apply in_app_or in Hin. destruct Hin as [Hin|Hin]; [|contradiction].
      destruct (Osub a) as (A&_); [apply in_or_app; right; left; reflexivity|]. apply (S2 a A). exact Hin.
  - intros q Hq. destruct (S1 q Hq) as (A&B). split.
    + intros Hin. apply in_app_or in Hin. destruct Hin as [Hin|Hin]; [contradiction|]. destruct (Osub q Hin) as (C&_). congruence.
    + destruct (mem q (filter (fun p => negb (mem p ex)) (w_selecting w))) eqn:E; [|reflexivity]. destruct (Sel' q E) as (C&_). congruence.
  - intros q Hq Hin. destruct (Sel' q Hq) as (A&B). apply in_app_or in Hin. destruct Hin as [Hin|Hin]; [apply (S2 q A); exact Hin|].
    destruct (Osub q Hin) as (_&C). congruence.
  - intros q [Hq|[Hq|Hq]].
    + apply in_app_or in Hq. destruct Hq as [Hq|Hq]; [apply Hh; auto|apply Hh; right; right; apply (Osub q Hq)].
    + apply Hh; auto.
    + apply Hh; right; right; apply (Sel' q Hq).
  - intros q [Hq|[Hq|Hq]].
    + apply in_app_or in Hq. destruct Hq as [Hq|Hq]; [apply R; auto|apply R; right; right; apply (Osub q Hq)].
    + apply R; auto.
    + apply R; right; right; apply (Sel' q Hq).
Qed.

(* the completion path *)
Lemma SW_notify_local p r h w q : SW w -> SW (notify_local p r h w q).
Proof.
  intros H. unfold notify_local. destruct r as [v|e]; [destruct h; [exact H|apply SW_notify_result; exact H]|].
  apply SW_upd_proc; [apply no_ok_err|exact H].
Qed.

Definition free (p : pid) (w : worker) : Prop :=
  ~ In p (w_queue w) /\ mem p (w_spawning w) = false /\ mem p (w_selecting w) = false.

Lemma SW_finish p r h hint w w' : finish p r h hint w = Good w' -> has p w -> free p w -> SW w -> SW w'.
Proof.
  unfold finish. destruct (order_by hint _) as [o|]; [|discriminate]. intros H; inversion H; subst; clear H.
  intros Hh (F1&F2&F3) HS. apply SW_fold; [intros; apply SW_notify_local; assumption|].
  unfold upd_proc. destruct (alookup p (w_procs w)) as [pr|]; [|exact HS].
  apply SW_set_proc; assumption.
Qed.

Lemma SW_check_completed hint w w' ev : check_completed hint w = Good (w', ev) -> SW w -> SW w'.
Proof.
  unfold check_completed. destruct (order_by hint _) as [o|]; [|discriminate].
  intros H; inversion H as [H1]; clear H. intros HS.
  assert (A: forall l acc, SW (fst acc) -> SW (fst (fold_left report_completed l acc))).
  { induction l as [|x l IH]; intros acc Ha; simpl; [exact Ha|]. apply IH.
    destruct acc as [w0 ev0]. unfold report_completed. destruct (result_of w0 x); simpl; [|exact Ha].
    eapply SW_same_sched; [| | | |exact Ha]; reflexivity. }
  assert (B: forall l acc, SW (fst acc) -> SW (fst (fold_left report_pending l acc))).
  { induction l as [|x l IH]; intros acc Ha; simpl; [exact Ha|]. apply IH.
    destruct acc as [w0 ev0]. unfold report_pending. destruct (result_of w0 (fst x)); simpl; [|exact Ha].
    eapply SW_same_sched; [| | | |exact Ha]; reflexivity. }
  pose proof (B (w_pending (fst (fold_left report_completed o (w, [])))) _ (A o (w, []) HS)) as HB.
  rewrite H1 in HB. exact HB.
Qed.

(* one time slice of a process that has just been popped from the run queue *)
Lemma okres_w1 p pr pr1 w : alookup p (w_procs w) = Some pr -> okres w p -> p_res pr1 = p_res pr ->
  okres (set_procs w (aset p pr1 (w_procs w))) p.
Proof.
  intros Hl Ho Hr pr' v. simpl. rewrite alookup_aset_eq. intros E; inversion E; subst pr'. rewrite Hr. apply (Ho pr v Hl).
Qed.

Lemma SW_run_slice i p pr d hint w w' ev :
  run_slice i p pr d hint w = Good (w', ev) ->
  alookup p (w_procs w) = Some pr -> free p w -> okres w p -> SW w -> SW w'.
Proof.
  unfold run_slice. destruct (did_ok d) eqn:Edid; simpl; [|discriminate].
  destruct (take_seq (d_taken d) (p_mail pr)) as [[taken mail']|]; [|discriminate].
  set (pr1 := with_awaiting _ _). set (w1 := set_procs w (aset p pr1 (w_procs w))).
  intros H Hl (F1&F2&F3) Ho HS.
  assert (Hh: has p w) by (unfold has; rewrite Hl; discriminate).
  assert (HS1: SW w1) by (apply SW_set_proc; assumption).
  assert (Hh1: has p w1) by (unfold has, w1; simpl; rewrite alookup_aset_eq; discriminate).
  assert (Ho1: okres w1 p) by (apply (okres_w1 p pr pr1 w Hl Ho); reflexivity).
  unfold did_ok in Edid.
  destruct (d_act d) as [[| t | ts]|]; destruct (d_fin d) as [r|]; destruct (d_park d); simpl in Edid; try discriminate; simpl in H.
  - (* spawn, running on *)
    assert (HS2: SW (mark_spawning p w1)) by (apply SW_mark_spawning; assumption).
    simpl in H. rewrite mem_sadd, Nat.eqb_refl, orb_true_r in H. simpl in H. inversion H; subst. exact HS2.
  - (* deliver + finish *)
    set (w2 := set_ghost w1 _ _ _ _) in H.
    assert (HS2: SW w2) by (eapply SW_same_sched; [| | | |exact HS1]; reflexivity).
    destruct (finish p r (d_heapy d) hint w2) as [w4|] eqn:F; simpl in H; [|discriminate]. inversion H; subst.
    eapply SW_finish; [exact F|exact Hh1|repeat split; assumption|exact HS2].
  - (* deliver + park *)
    set (w2 := set_ghost w1 _ _ _ _) in H.
    assert (HS2: SW w2) by (eapply SW_same_sched; [| | | |exact HS1]; reflexivity).
    assert (HS3: SW (mark_selecting p w2)) by (apply SW_mark_selecting; assumption).
    simpl in H. rewrite mem_sadd, Nat.eqb_refl, orb_true_r, orb_true_r in H. inversion H; subst. exact HS3.
  - (* deliver, running on *)
    set (w2 := set_ghost w1 _ _ _ _) in H.
    assert (HS2: SW w2) by (eapply SW_same_sched; [| | | |exact HS1]; reflexivity).
    simpl in H. rewrite F2, F3 in H. simpl in H. inversion H; subst.
    apply SW_enqueue; try assumption.
  - (* await *)
    set (w2 := upd_proc p _ w1) in H.
    assert (HS2: SW w2) by (apply SW_upd_proc; [apply (no_ok_with_awaiting_f (fun q => fold_left (fun a t => aset t None a) ts (p_awaiting q)))|exact HS1]).
    destruct (upd_proc_sched p (fun q => with_awaiting (fold_left (fun a t => aset t None a) ts (p_awaiting q)) q) w1) as (S1&S2&S3). fold w2 in S1, S2, S3.
    assert (Hh2: has p w2) by (apply (pk_upd_proc p _ w1); exact Hh1).
    assert (Ho2: okres w2 p).
    { intros pr' v. unfold w2. rewrite (upd_proc_same p _ w1 pr1); [|unfold w1; simpl; apply alookup_aset_eq].
      intros E; inversion E; subst pr'. simpl. apply (Ho pr v Hl). }
    assert (HS3: SW (mark_selecting p w2)) by (apply SW_mark_selecting; [exact Hh2|exact Ho2|rewrite S2; exact F2|exact HS2]).
    simpl in H. rewrite mem_sadd, Nat.eqb_refl, orb_true_r, orb_true_r in H. inversion H; subst. exact HS3.
  - (* finish *)
    destruct (finish p r (d_heapy d) hint w1) as [w4|] eqn:F; simpl in H; [|discriminate]. inversion H; subst.
    eapply SW_finish; [exact F|exact Hh1|repeat split; assumption|exact HS1].
  - (* park *)
    assert (HS3: SW (mark_selecting p w1)) by (apply SW_mark_selecting; assumption).
    simpl in H. rewrite mem_sadd, Nat.eqb_refl, orb_true_r, orb_true_r in H. inversion H; subst. exact HS3.
  - (* running on *)
    simpl in H. rewrite F2, F3 in H. simpl in H. inversion H; subst. apply SW_enqueue; assumption.
Qed.

Theorem SW_exec_step i now o w w' ev : exec_step i now o w = Good (w', ev) -> SW w -> SW w'.
Proof.
  unfold exec_step. destruct (expire now (o_expired o) w) as [w1|] eqn:E; simpl; [|discriminate].
  intros H HS. pose proof (SW_expire _ _ _ _ E HS) as HS1.
  destruct (w_queue w1) as [|p q'] eqn:Eq; [inversion H; subst; exact HS1|].
  destruct (SW_pop p q' w1 Eq HS1) as (HS2&P1&P2&P3&P4&P5).
  set (w2 := set_sched w1 q' (w_spawning w1) (w_selecting w1)) in *.
  simpl in H. destruct (alookup p (w_procs w1)) as [pr|] eqn:El; [|inversion H; subst; exact HS2].
  destruct (match o_pid o with Some p' => p =? p' | None => false end).
  - eapply SW_run_slice; [exact H|exact El|repeat split; assumption|exact P5|exact HS2].
  - destruct (p_res pr) as [[v|e]|]; try discriminate.
    destruct (finish p (RErr e) false (o_awaiters o) w2) as [w3|] eqn:F; simpl in H; [|discriminate]. inversion H; subst.
    eapply SW_finish; [exact F|exact P4|repeat split; assumption|exact HS2].
Qed.

(* ------------------------------------------------------------------ process ids: where they live, and that they are unique *)
Definition keys (w : worker) : list pid := map fst (w_procs w).
Lemma has_keys p w : has p w <-> In p (keys w).
Proof.
  unfold has, keys. induction (w_procs w) as [|[k a] l IH]; simpl; [split; [intros H; apply H; reflexivity|intros []]|].
  destruct (p =? k) eqn:E.
  - apply Nat.eqb_eq in E; subst. split; [intros _; left; reflexivity|intros _; discriminate].
  - rewrite IH. split; [intros H; right; exact H|intros [H|H]; [subst; rewrite Nat.eqb_refl in E; discriminate|exact H]].
Qed.

Definition ke (w w' : worker) : Prop := keys w' = keys w.
Lemma ke_refl w : ke w w. Proof. reflexivity. Qed.
Lemma ke_trans a b c : ke a b -> ke b c -> ke a c. Proof. unfold ke; congruence. Qed.
Lemma ke_same w w' : w_procs w' = w_procs w -> ke w w'. Proof. unfold ke, keys; intros ->; reflexivity. Qed.
Lemma ke_upd_proc p f w : ke w (upd_proc p f w).
Proof.
  unfold upd_proc. destruct (alookup p (w_procs w)) as [pr|] eqn:E; [|apply ke_refl].
  unfold ke, keys. simpl. apply (keys_aset_same _ _ _ _ E).
Qed.
Lemma ke_wake p w : ke w (wake_selecting p w).
Proof. unfold wake_selecting. destruct (mem p (w_selecting w)); apply ke_same; reflexivity. Qed.
Lemma ke_notify_result a b r w : ke w (notify_result a b r w).
Proof. unfold notify_result. destruct (awaits a b w); [eapply ke_trans; [apply ke_upd_proc|apply ke_wake]|apply ke_wake]. Qed.
Lemma ke_worker_notify a b r w : ke w (worker_notify a b r w).
Proof. unfold worker_notify. destruct r; [apply ke_notify_result|]. destruct (awaits a b w); [apply ke_upd_proc|apply ke_wake]. Qed.
Lemma ke_fold {A} (f : worker -> A -> worker) l : (forall w x, ke w (f w x)) -> forall w, ke w (fold_left f l w).
Proof. intros Hf. induction l as [|x l IH]; intros w; simpl; [apply ke_refl|]. eapply ke_trans; [apply Hf|apply IH]. Qed.
Lemma ke_update_await a rs w : ke w (update_await a rs w).
Proof.
  unfold update_await.
  assert (H: ke w (fold_left (fun w e => match snd e with Some r => worker_notify a (fst e) r w | None => w end) rs w)).
  { apply ke_fold. intros w0 x. destruct (snd x); [apply ke_worker_notify|apply ke_refl]. }
  destruct (existsb _ rs); [exact H|]. eapply ke_trans; [exact H|apply ke_wake].
Qed.
Lemma ke_query_fold a ts : forall w rs, ke w (fst (fold_left (query_one a) ts (w, rs))).
Proof.
  induction ts as [|t ts IH]; intros w rs; cbn [fold_left]; [apply ke_refl|].
  assert (Q: ke w (fst (query_one a (w, rs) t))).
  { unfold query_one. destruct (completed_value w t); simpl; apply ke_same; reflexivity. }
  destruct (query_one a (w, rs) t) as [w1 rs1]. simpl in Q. eapply ke_trans; [exact Q|apply IH].
Qed.

(* a command adds exactly the process it spawns (if that is new) *)
Lemma handle_cmd_keys c w w' ev : handle_cmd c w = Good (w', ev) ->
  (forall p, spawns c = Some p -> ~ has p w) ->
  keys w' = keys w ++ match spawns c with Some p => [p] | None => [] end.
Proof.
  intros H Hf.
  assert (N: forall w0, ke w w0 -> keys w0 = keys w ++ []) by (intros w0 E; rewrite app_nil_r; exact E).
  assert (New: forall p pr0, ~ has p w -> keys (set_procs w (aset p pr0 (w_procs w))) = keys w ++ [p]).
  { intros p pr0 Hn. unfold keys. simpl. apply keys_aset_new. unfold has in Hn. destruct (alookup p (w_procs w)); [exfalso; apply Hn; discriminate|reflexivity]. }
  destruct c; simpl in H; simpl.
  - inversion H; subst. apply N, ke_refl.
  - inversion H; subst. apply N, ke_refl.
  - destruct sleeping; inversion H; subst; [apply New|]; [apply Hf; reflexivity|].
    change (keys (enqueue p (set_procs w (aset p (new_proc true None) (w_procs w))))) with (keys (set_procs w (aset p (new_proc true None) (w_procs w)))).
    apply New. apply Hf; reflexivity.
  - inversion H; subst.
    change (keys (enqueue p (set_procs w (aset p (new_proc false None) (w_procs w))))) with (keys (set_procs w (aset p (new_proc false None) (w_procs w)))).
    apply New. apply Hf; reflexivity.
  - destruct (alookup p (w_procs w)) as [pr|]; [|discriminate].
    destruct (p_res pr) as [[v|e]|]; try discriminate. destruct (p_pers pr); [|discriminate]. inversion H; subst.
    apply N. eapply ke_trans; [apply ke_upd_proc|apply ke_same; reflexivity].
  - destruct (fold_left (query_one awaiter) targets (w, [])) as [w1 rs] eqn:E. inversion H; subst.
    apply N. pose proof (ke_query_fold awaiter targets w []) as Q. rewrite E in Q. exact Q.
  - inversion H; subst. apply N, ke_update_await.
  - destruct (alookup target (w_procs w)); inversion H; subst; apply N.
    + eapply ke_trans; [|apply ke_wake]. eapply ke_trans; [|apply ke_upd_proc]. apply ke_same; reflexivity.
    + eapply ke_trans; [|apply ke_wake]. apply ke_same; reflexivity.
  - destruct (mem p (w_spawning w)); inversion H; subst; apply N; [apply ke_same; reflexivity|apply ke_refl].
  - destruct (alookup p (w_procs w)) as [pr|]; [|discriminate].
    destruct (p_res pr); inversion H; subst; apply N; [apply ke_refl|apply ke_same; reflexivity].
Qed.

Lemma ke_notify_local p r h w q : ke w (notify_local p r h w q).
Proof. unfold notify_local. destruct r; [destruct h; [apply ke_refl|apply ke_notify_result]|apply ke_upd_proc]. Qed.
Lemma ke_finish p r h hint w w' : finish p r h hint w = Good w' -> ke w w'.
Proof.
  unfold finish. destruct (order_by hint _); [|discriminate]. intros H; inversion H; subst.
  eapply ke_trans; [apply ke_upd_proc|]. apply ke_fold. intros; apply ke_notify_local.
Qed.

Lemma ke_run_slice i p pr d hint w w' ev : alookup p (w_procs w) = Some pr -> run_slice i p pr d hint w = Good (w', ev) -> ke w w'.
Proof.
  intros Hl. unfold run_slice. destruct (negb (did_ok d)); [discriminate|].
  destruct (take_seq (d_taken d) (p_mail pr)) as [[taken mail']|]; [|discriminate].
  set (pr1 := with_awaiting _ _). set (w1 := set_procs w (aset p pr1 (w_procs w))).
  assert (K1: ke w w1) by (unfold ke, keys, w1; simpl; apply (keys_aset_same _ _ _ _ Hl)).
  assert (Tail: forall w2 ev2, ke w w2 ->
            match d_fin d with
            | Some r => w4 <- finish p r (d_heapy d) hint (if d_park d then mark_selecting p w2 else w2) ;; Good (w4, ev2)
            | None => if mem p (w_spawning (if d_park d then mark_selecting p w2 else w2)) || mem p (w_selecting (if d_park d then mark_selecting p w2 else w2))
                      then Good (if d_park d then mark_selecting p w2 else w2, ev2)
                      else Good (enqueue p (if d_park d then mark_selecting p w2 else w2), ev2)
            end = Good (w', ev) -> ke w w').
  { intros w2 ev2 K2 H.
    assert (K3: ke w (if d_park d then mark_selecting p w2 else w2)).
    { destruct (d_park d); [eapply ke_trans; [exact K2|apply ke_same; reflexivity]|exact K2]. }
    destruct (d_fin d).
    - destruct (finish _ _ _ _ _) as [w4|] eqn:F; simpl in H; [|discriminate]. inversion H; subst.
      eapply ke_trans; [exact K3|eapply ke_finish; exact F].
    - destruct (_ || _); inversion H; subst; [exact K3|eapply ke_trans; [exact K3|apply ke_same; reflexivity]]. }
  destruct (d_act d) as [[| t | ts]|]; intros H.
  - eapply (Tail _ _ _ H). Unshelve. eapply ke_trans; [exact K1|apply ke_same; reflexivity].
  - eapply (Tail _ _ _ H). Unshelve. eapply ke_trans; [exact K1|apply ke_same; reflexivity].
  - eapply (Tail _ _ _ H). Unshelve. eapply ke_trans; [exact K1|]. eapply ke_trans; [apply ke_upd_proc|apply ke_same; reflexivity].
  - apply (Tail _ _ K1 H).
Qed.

Lemma ke_exec_step i now o w w' ev : exec_step i now o w = Good (w', ev) -> ke w w'.
Proof.
  unfold exec_step. destruct (expire now (o_expired o) w) as [w1|] eqn:E; simpl; [|discriminate].
  assert (K1: ke w w1).
  { unfold expire in E. destruct (order_by _ _); [|discriminate]. inversion E; subst. apply ke_same; reflexivity. }
  destruct (w_queue w1) as [|p q']; [intros H; inversion H; subst; exact K1|].
  set (w2 := set_sched w1 q' _ _). assert (K2: ke w w2) by (eapply ke_trans; [exact K1|apply ke_same; reflexivity]).
  destruct (alookup p (w_procs w1)) as [pr|] eqn:El; [|intros H; inversion H; subst; exact K2].
  destruct (match o_pid o with Some p' => p =? p' | None => false end).
  - intros H. eapply ke_trans; [exact K2|eapply ke_run_slice; [|exact H]]. exact El.
  - destruct (p_res pr) as [[v|e]|]; try discriminate.
    destruct (finish _ _ _ _ _) as [w3|] eqn:F; simpl; [|discriminate]. intros H; inversion H; subst.
    eapply ke_trans; [exact K2|eapply ke_finish; exact F].
Qed.

Lemma ke_check_completed hint w w' ev : check_completed hint w = Good (w', ev) -> ke w w'.
Proof.
  unfold check_completed. destruct (order_by hint _) as [o|]; [|discriminate].
  intros H; inversion H as [H1]; clear H.
  assert (A: forall l acc, ke (fst acc) (fst (fold_left report_completed l acc))).
  { induction l as [|x l IH]; intros acc; simpl; [apply ke_refl|]. eapply ke_trans; [|apply IH].
    destruct acc as [w0 ev0]. unfold report_completed. destruct (result_of w0 x); simpl; [apply ke_same; reflexivity|apply ke_refl]. }
  assert (B: forall l acc, ke (fst acc) (fst (fold_left report_pending l acc))).
  { induction l as [|x l IH]; intros acc; simpl; [apply ke_refl|]. eapply ke_trans; [|apply IH].
    destruct acc as [w0 ev0]. unfold report_pending. destruct (result_of w0 (fst x)); simpl; [apply ke_same; reflexivity|apply ke_refl]. }
  pose proof (A o (w, [])) as HA. pose proof (B (w_pending (fst (fold_left report_completed o (w, [])))) (fold_left report_completed o (w, []))) as HB.
  rewrite H1 in HB. simpl in *. eapply ke_trans; eassumption.
Qed.

Lemma NoDup_app_tail {A} (a b : list A) : NoDup (a ++ b) -> NoDup b.
Proof. induction a as [|x a IH]; simpl; intros H; [exact H|]. inversion H; subst. apply IH. assumption. Qed.

Definition spawn_pids (cs : list cmd) : list pid :=
  flat_map (fun c => match spawns c with Some p => [p] | None => [] end) cs.
Lemma spawn_pids_app a b : spawn_pids (a ++ b) = spawn_pids a ++ spawn_pids b.
Proof. apply flat_map_app. Qed.

Lemma spawn_pids_snoc cs c : spawn_pids (cs ++ [c]) = spawn_pids cs ++ match spawns c with Some p => [p] | None => [] end.
Proof. rewrite spawn_pids_app. unfold spawn_pids at 2. simpl. rewrite app_nil_r. reflexivity. Qed.

(* a worker with its command queue, as seen from the router: scheduling state well-formed, every
   process it has is routed to it, the spawn commands queued for it name distinct, new, routed pids *)
Definition NInv (e : env) (i : wid) (w : worker) (cs : list cmd) : Prop :=
  SW w /\
  (forall p, has p w -> alookup p (e_router e) = Some i) /\
  NoDup (spawn_pids cs) /\
  (forall p, In p (spawn_pids cs) -> ~ has p w /\ alookup p (e_router e) = Some i).

Lemma NInv_handle_cmds e i : forall pre w rest w' ev,
  NInv e i w (pre ++ rest) -> handle_cmds pre w = Good (w', ev) -> NInv e i w' rest.
Proof.
  induction pre as [|c pre IH]; intros w rest w' ev HI H; simpl in H.
  - inversion H; subst. exact HI.
  - destruct (handle_cmd c w) as [[w1 e1]|] eqn:E1; simpl in H; [|discriminate].
    destruct (handle_cmds pre w1) as [[w2 e2]|] eqn:E2; simpl in H; [|discriminate].
    inversion H; subst w' ev; clear H.
    destruct HI as (HS&L&N&U).
    change (spawn_pids ((c :: pre) ++ rest)) with (match spawns c with Some p => [p] | None => [] end ++ spawn_pids (pre ++ rest)) in N, U.
    assert (Hhead: forall p, spawns c = Some p -> ~ has p w /\ alookup p (e_router e) = Some i).
    { intros p Hp. apply U. rewrite Hp. left; reflexivity. }
    assert (Htail: forall p, In p (spawn_pids (pre ++ rest)) -> ~ has p w /\ alookup p (e_router e) = Some i).
    { intros p Hp. apply U. apply in_or_app. right; exact Hp. }
    assert (Hfresh: forall p, spawns c = Some p -> ~ has p w) by (intros p Hp; apply (Hhead p Hp)).
    pose proof (SW_handle_cmd _ _ _ _ Hfresh E1 HS) as HS1.
    pose proof (handle_cmd_keys _ _ _ _ E1 Hfresh) as K1.
    apply (IH w1 rest w2 e2); [|exact E2]. split; [exact HS1|]. split; [|split].
    + intros p Hp. apply has_keys in Hp. rewrite K1 in Hp. apply in_app_or in Hp. destruct Hp as [Hp|Hp].
      * apply L. apply has_keys. exact Hp.
      * destruct (spawns c) as [p0|] eqn:Es; [|destruct Hp]. destruct Hp as [<-|[]]. apply (Hhead p0 eq_refl).
    + apply NoDup_app_tail in N. exact N.
    + intros p Hp. destruct (Htail p Hp) as (U1&U2). split; [|exact U2].
      intros Hh. apply has_keys in Hh. rewrite K1 in Hh. apply in_app_or in Hh. destruct Hh as [Hh|Hh].
      * apply U1. apply has_keys. exact Hh.
      * destruct (spawns c) as [p0|] eqn:Es; [|destruct Hh]. destruct Hh as [<-|[]].
        simpl in N. inversion N; subst. contradiction.
Qed.

Lemma NInv_ke e i w w' cs : ke w w' -> SW w' -> NInv e i w cs -> NInv e i w' cs.
Proof.
  intros K HS (_&L&N&U). split; [exact HS|]. split; [|split; [exact N|]].
  - intros p Hp. apply L. apply has_keys. apply has_keys in Hp. rewrite K in Hp. exact Hp.
  - intros p Hp. destruct (U p Hp) as (U1&U2). split; [|exact U2]. intros Hh. apply U1.
    apply has_keys. apply has_keys in Hh. rewrite K in Hh. exact Hh.
Qed.

Lemma NInv_node_step e i now k o nd nd' :
  node_step i now k o nd = Good nd' -> NInv e i (n_w nd) (n_cmd nd) -> NInv e i (n_w nd') (n_cmd nd').
Proof.
  unfold node_step. pose proof (split_at_app k (n_cmd nd)) as Hs.
  destruct (split_at k (n_cmd nd)) as [pre later]. simpl in Hs.
  destruct (handle_cmds pre (n_w nd)) as [[w1 e1]|] eqn:E1; simpl; [|discriminate].
  destruct (exec_step i now o w1) as [[w2 e2]|] eqn:E2; simpl; [|discriminate].
  destruct (check_completed (o_completed o) w2) as [[w3 e3]|] eqn:E3; simpl; [|discriminate].
  intros H HI; inversion H; subst nd'; clear H. simpl. rewrite <- Hs in HI.
  pose proof (NInv_handle_cmds e i pre (n_w nd) later w1 e1 HI E1) as H1.
  assert (S2: SW w2) by (eapply SW_exec_step; [exact E2|apply H1]).
  assert (S3: SW w3) by (eapply SW_check_completed; [exact E3|exact S2]).
  eapply NInv_ke; [|exact S3|exact H1].
  eapply ke_trans; [eapply ke_exec_step; exact E2|eapply ke_check_completed; exact E3].
Qed.

(* ------------------------------------------------------------------ the whole system *)
Definition WFe (e : env) (ns : list node) : Prop :=
  (forall p w, alookup p (e_router e) = Some w -> p < e_next e) /\
  (forall i nd, nth_error ns i = Some nd -> NInv e i (n_w nd) (n_cmd nd)).

Lemma WFe_push_nospawn e ns w c : spawns c = None -> WFe e ns -> WFe e (push_cmd w c ns).
Proof.
  intros Hc (B&N). split; [exact B|]. intros i nd Hn. rewrite nth_error_push in Hn.
  destruct (nth_error ns i) as [nd0|] eqn:En; [|discriminate]. inversion Hn; subst nd; clear Hn.
  destruct (i =? w); simpl; [|apply (N i nd0 En)].
  destruct (N i nd0 En) as (A1&A2&A3&A4). unfold NInv. simpl. rewrite spawn_pids_snoc, Hc, app_nil_r. auto.
Qed.
Lemma WFe_fold_push {A} (mk : A -> cmd) (wof : A -> wid) e l : (forall a, spawns (mk a) = None) -> forall ns,
  WFe e ns -> WFe e (fold_left (fun ns a => push_cmd (wof a) (mk a) ns) l ns).
Proof. intros Hm. induction l as [|a l IH]; intros ns H; simpl; [exact H|]. apply IH. apply WFe_push_nospawn; [apply Hm|exact H]. Qed.
Lemma WFe_pending e ns pend : WFe e ns -> WFe {| e_router := e_router e; e_next := e_next e; e_pending := pend |} ns.
Proof. intros H; exact H. Qed.

(* allocating the next pid and queueing its spawn command on worker w *)
Lemma WFe_alloc e ns w c :
  spawns c = Some (e_next e) -> WFe e ns ->
  WFe {| e_router := aset (e_next e) w (e_router e); e_next := S (e_next e); e_pending := e_pending e |} (push_cmd w c ns).
Proof.
  intros Hc (B&N).
  assert (Hfresh: alookup (e_next e) (e_router e) = None).
  { destruct (alookup (e_next e) (e_router e)) eqn:E; [|reflexivity]. apply B in E. lia. }
  assert (Old: forall p x, alookup p (e_router e) = Some x -> alookup p (aset (e_next e) w (e_router e)) = Some x).
  { intros p x Hp. rewrite alookup_aset. destruct (p =? e_next e) eqn:E; [|exact Hp].
    apply Nat.eqb_eq in E. subst. apply B in Hp. lia. }
  split.
  - intros p x Hp. simpl in *. rewrite alookup_aset in Hp. destruct (p =? e_next e) eqn:E; [apply Nat.eqb_eq in E; lia|].
    apply B in Hp. lia.
  - intros i nd Hn. rewrite nth_error_push in Hn.
    destruct (nth_error ns i) as [nd0|] eqn:En; [|discriminate]. inversion Hn; subst nd; clear Hn.
    destruct (N i nd0 En) as (A1&A2&A3&A4).
    destruct (i =? w) eqn:Eiw; simpl.
    + apply Nat.eqb_eq in Eiw. subst i. unfold NInv. simpl. rewrite spawn_pids_snoc, Hc.
      split; [exact A1|]. split; [intros p Hp; apply Old, A2, Hp|]. split.
      * apply NoDup_snoc; [exact A3|]. intros Hin. destruct (A4 _ Hin) as (_&R). rewrite Hfresh in R. discriminate.
      * intros p Hp. apply in_app_or in Hp. destruct Hp as [Hp|[<-|[]]].
        -- destruct (A4 p Hp) as (U1&U2). split; [exact U1|apply Old; exact U2].
        -- split; [|apply alookup_aset_eq]. intros Hh. apply A2 in Hh. rewrite Hfresh in Hh. discriminate.
    + unfold NInv. simpl. split; [exact A1|]. split; [intros p Hp; apply Old, A2, Hp|]. split; [exact A3|].
      intros p Hp. destruct (A4 p Hp) as (U1&U2). split; [exact U1|apply Old; exact U2].
Qed.

Lemma handle_event_WFe nw ev e ns e' ns' :
  handle_event nw ev (e, ns) = Good (e', ns') -> WFe e ns -> WFe e' ns'.
Proof.
  intros H W. destruct ev; unfold handle_event in H; cbn -[Nat.modulo nodup] in H.
  - revert H. match goal with |- context [@alookup ?A caller ?l] => destruct (@alookup A caller l) as [cw|] end; intros H; [|discriminate].
    inversion H; subst e' ns'; clear H. apply WFe_push_nospawn; [reflexivity|]. apply WFe_alloc; [reflexivity|exact W].
  - destruct (alookup target (e_router e)) as [w|]; [|discriminate]. inversion H; subst e' ns'. apply WFe_push_nospawn; [reflexivity|exact W].
  - revert H. match goal with |- context [forallb ?f targets] => destruct (forallb f targets) end; intros H; [|discriminate].
    inversion H; subst e' ns'; clear H.
    set (wof := fun t => match alookup t (e_router e) with Some w => w | None => 0 end).
    apply (WFe_fold_push (fun w => CQuery awaiter (filter (fun t => wof t =? w) targets)) (fun w => w)); [reflexivity|].
    apply WFe_pending. exact W.
  - destruct (alookup awaiter (e_pending e)) as [pa|].
    + destruct (match results with [] => None | (t, _) :: _ => alookup t (e_router e) end) as [w|].
      * destruct (sremove w (pa_expected pa)).
        -- destruct (alookup awaiter (e_router e)) as [aw|]; [|discriminate]. inversion H; subst e' ns'.
           apply WFe_push_nospawn; [reflexivity|]. apply WFe_pending. exact W.
        -- inversion H; subst e' ns'. apply WFe_pending. exact W.
      * inversion H; subst e' ns'. exact W.
    + destruct (alookup awaiter (e_router e)) as [aw|]; [|discriminate]. inversion H; subst e' ns'. apply WFe_push_nospawn; [reflexivity|exact W].
  - inversion H; subst e' ns'. exact W.
  - inversion H; subst e' ns'. exact W.
Qed.

Lemma handle_events_WFe nw evs : forall e ns e' ns',
  handle_events nw evs (e, ns) = Good (e', ns') -> WFe e ns -> WFe e' ns'.
Proof.
  induction evs as [|ev evs IH]; intros e ns e' ns' H W; cbn [handle_events] in H.
  - inversion H; subst. exact W.
  - destruct (handle_event nw ev (e, ns)) as [[e1 ns1]|] eqn:E1; cbn [rbind] in H; [|discriminate].
    eapply IH; [exact H|]. eapply handle_event_WFe; eassumption.
Qed.

Lemma collect_wc ks : forall ns, map (fun nd => (n_w nd, n_cmd nd)) (snd (collect ks ns)) = map (fun nd => (n_w nd, n_cmd nd)) ns.
Proof.
  intros ns. revert ks. induction ns as [|nd ns IH]; intros ks; simpl; [reflexivity|].
  destruct (split_at _ (n_evt nd)) as [a b]. specialize (IH (tl ks)). destruct (collect (tl ks) ns) as [evs t']. simpl in *.
  rewrite IH. reflexivity.
Qed.

Lemma WFe_collect e ns ks : WFe e ns -> WFe e (snd (collect ks ns)).
Proof.
  intros (B&N). split; [exact B|]. intros i nd' Hn.
  pose proof (collect_wc ks ns) as M.
  assert (Hm: nth_error (map (fun nd => (n_w nd, n_cmd nd)) (snd (collect ks ns))) i = Some (n_w nd', n_cmd nd')) by (rewrite nth_error_map, Hn; reflexivity).
  rewrite M, nth_error_map in Hm. destruct (nth_error ns i) as [nd|] eqn:En; [|discriminate].
  simpl in Hm. injection Hm as Hm1 Hm2. rewrite <- Hm1, <- Hm2. apply (N i nd En).
Qed.

Definition WF (s : sys) : Prop := WFe (s_env s) (s_nodes s).

Lemma SW_new : SW new_worker.
Proof.
  constructor; simpl.
  - constructor.
  - constructor.
  - intros p H; discriminate.
  - intros p H; discriminate.
  - intros p [[]|[H|H]]; discriminate.
  - intros p [[]|[H|H]]; discriminate.
Qed.

Lemma WF_init nw : WF (init nw).
Proof.
  split; [intros p w H; discriminate|]. intros i nd Hn. simpl in Hn. apply nth_error_In, repeat_spec in Hn. subst nd. simpl.
  split; [exact SW_new|]. split; [intros p H; exfalso; apply H; reflexivity|]. split; [constructor|intros p []].
Qed.

Lemma WF_step s a s' : WF s -> sys_step s a = Good s' -> WF s'.
Proof.
  intros W H. destruct a as [i k o|ks|d|c]; simpl in H.
  - destruct (nth_error (s_nodes s) i) as [nd|] eqn:Ei.
    + destruct (node_step i (s_clock s) k o nd) as [nd'|] eqn:Es; cbn [rbind] in H; [|discriminate].
      inversion H; subst s'; clear H. destruct W as (B&N). split; [exact B|]. simpl. intros j x Hx.
      destruct (Nat.eq_dec j i) as [->|Hne].
      * rewrite (nth_error_update_same _ _ _ _ Ei) in Hx. inversion Hx; subst x. eapply NInv_node_step; [exact Es|apply (N i nd Ei)].
      * rewrite nth_error_update_other in Hx by exact Hne. apply (N j x Hx).
    + inversion H; subst. exact W.
  - pose proof (WFe_collect _ _ ks W) as W1.
    destruct (collect ks (s_nodes s)) as [evs ns]. simpl in W1.
    destruct (handle_events (length (s_nodes s)) evs (s_env s, ns)) as [[e' ns']|] eqn:Eh; cbn [rbind] in H; [|discriminate].
    inversion H; subst s'; clear H. eapply handle_events_WFe; eassumption.
  - inversion H; subst s'. exact W.
  - unfold client_step in H. destruct c.
    + inversion H; subst s'; clear H. apply WFe_alloc; [reflexivity|exact W].
    + inversion H; subst s'. apply WFe_push_nospawn; [reflexivity|exact W].
    + inversion H; subst s'. apply WFe_push_nospawn; [reflexivity|exact W].
    + destruct (alookup p (e_router (s_env s))); inversion H; subst s'; [apply WFe_push_nospawn; [reflexivity|exact W]|exact W].
    + destruct (alookup p (e_router (s_env s))); inversion H; subst s'; [apply WFe_push_nospawn; [reflexivity|exact W]|exact W].
Qed.

Lemma WF_run sigma : forall s s', WF s -> run s sigma = Good s' -> WF s'.
Proof.
  induction sigma as [|a sigma IH]; intros s s' Hc H; simpl in H.
  - inversion H; subst. exact Hc.
  - destruct (sys_step s a) as [s1|] eqn:E; cbn [rbind] in H; [|discriminate].
    eapply IH; [eapply WF_step; eassumption|exact H].
Qed.

(* C04/C15: for every schedule and every oracle the scheduling state of every worker is well-formed *)
Theorem scheduler_well_formed : forall nw sigma s,
  run (init nw) sigma = Good s ->
  forall i nd, nth_error (s_nodes s) i = Some nd ->
    SW (n_w nd) /\ (forall p, has p (n_w nd) -> alookup p (e_router (s_env s)) = Some i).
Proof.
  intros nw sigma s H i nd Hn. destruct (WF_run sigma _ _ (WF_init nw) H) as (_&N).
  destruct (N i nd Hn) as (A&B&_). split; assumption.
Qed.
