(* ProtoNoErr.v — C15 "workers never crash", the Worker::step half, on M-Sys (sys/Proto.v):
   for every schedule and oracle, the ONLY client call that can make a Worker::step return Err is
   resume_process.  request_result (GetResult) never fails: the environment sends it to the worker
   the process is routed to, and that worker has the process or has its Start/Spawn command queued
   AHEAD of the request.

     step_faults_only_bad_oracle : under pid_honest_run (ProtoRouted) and a schedule without
       XResume, every Fault of run (init nw) sigma is BadOracle — i.e. neither Worker::step nor
       Environment::step ever returns Err; the remaining Faults of the model say that the oracle
       does not describe a possible slice / iteration order, not that the code fails.
     step_faults_only_bad_oracle_resume : the same when the client DOES resume, honestly
       (`resume_honest_run`, a premise on the state in which resume_process is called): the process is
       routed, it is sleeping on its worker (finished Ok, persistent, awaiting nothing) or its
       StartProcess(sleeping) command is queued there, and no ResumeProcess for it is queued already.
       A sleeping process stays sleeping under every worker operation but its own resume
       (ProtoSleep.v), so the queued ResumeProcess finds it sleeping. *)
From Quiver Require Import sys.Proto sys.ProtoMsg sys.ProtoFifo sys.ProtoFail sys.ProtoWake sys.ProtoDeliver sys.ProtoWf
  sys.ProtoErrs sys.ProtoCommute sys.ProtoMicro sys.ProtoMicroWf sys.ProtoOps sys.ProtoRouted sys.ProtoAwait sys.ProtoAwaitInv sys.ProtoSleep.

(* every GetResult in the queue finds its process: it exists (H) or is spawned by an earlier command *)
Fixpoint gr_ok (H : pid -> Prop) (cs : list cmd) : Prop :=
  match cs with
  | [] => True
  | c :: rest =>
    match c with CGetResult _ p => H p | _ => True end /\ gr_ok (fun q => H q \/ spawns c = Some q) rest
  end.

Lemma gr_ok_mono : forall cs (H H' : pid -> Prop), (forall q, H q -> H' q) -> gr_ok H cs -> gr_ok H' cs.
Proof.
  induction cs as [|c cs IH]; intros H H' M G; simpl in *; [exact I|]. destruct G as (G1&G2). split.
  - destruct c; auto.
  - apply (IH (fun q => H q \/ spawns c = Some q)); [|exact G2]. intros q [A|A]; [left; apply M; exact A|right; exact A].
Qed.

Lemma spawn_pids_cons c cs : spawn_pids (c :: cs) = match spawns c with Some p => [p] | None => [] end ++ spawn_pids cs.
Proof. reflexivity. Qed.

Lemma gr_ok_snoc : forall cs (H : pid -> Prop) c,
  gr_ok H cs -> match c with CGetResult _ p => H p \/ In p (spawn_pids cs) | _ => True end -> gr_ok H (cs ++ [c]).
Proof.
  induction cs as [|c0 cs IH]; intros H c G Hc; simpl.
  - split; [|exact I]. destruct c; auto. destruct Hc as [A|[]]. exact A.
  - destruct G as (G1&G2). split; [exact G1|]. apply IH; [exact G2|].
    destruct c; auto. rewrite spawn_pids_cons in Hc. destruct Hc as [A|A]; [left; left; exact A|].
    apply in_app_or in A. destruct A as [A|A]; [|right; exact A].
    left; right. destruct (spawns c0) as [x|]; [destruct A as [->|[]]; reflexivity|destruct A].
Qed.

Definition plain (c : cmd) : Prop := (forall p, c <> CResume p) /\ (forall r p, c <> CGetResult r p).
Lemma gr_ok_app_plain : forall extra cs (H : pid -> Prop), Forall plain extra -> gr_ok H cs -> gr_ok H (cs ++ extra).
Proof.
  induction extra as [|c extra IH]; intros cs H F G; [rewrite app_nil_r; exact G|].
  inversion F as [|x y F1 F2]; subst. replace (cs ++ c :: extra) with ((cs ++ [c]) ++ extra) by (rewrite <- app_assoc; reflexivity).
  apply IH; [exact F2|]. apply gr_ok_snoc; [exact G|]. destruct c; auto. exfalso. destruct F1 as (_&F1). apply (F1 req p). reflexivity.
Qed.

(* every ResumeProcess in the queue finds its process sleeping (S), given what the earlier commands do *)
Definition rs_next (c : cmd) (S : pid -> Prop) : pid -> Prop :=
  fun q => match c with
           | CResume p => q <> p /\ S q
           | CStart p true => q = p \/ S q
           | _ => S q
           end.
Fixpoint rs_ok (S : pid -> Prop) (cs : list cmd) : Prop :=
  match cs with
  | [] => True
  | c :: rest => match c with CResume p => S p | _ => True end /\ rs_ok (rs_next c S) rest
  end.

Lemma rs_next_mono c (S S' : pid -> Prop) : (forall q, S q -> S' q) -> forall q, rs_next c S q -> rs_next c S' q.
Proof.
  intros M q. unfold rs_next. destruct c as [| |p0 sl| |p0| | | | |]; try apply M.
  - destruct sl; [intros [A|A]; [left; exact A|right; apply M; exact A]|apply M].
  - intros (A&B). split; [exact A|apply M; exact B].
Qed.
Lemma rs_ok_mono : forall cs (S S' : pid -> Prop), (forall q, S q -> S' q) -> rs_ok S cs -> rs_ok S' cs.
Proof.
  induction cs as [|c cs IH]; intros S S' M G; simpl in *; [exact I|]. destruct G as (G1&G2). split.
  - destruct c; auto.
  - apply (IH (rs_next c S)); [apply rs_next_mono; exact M|exact G2].
Qed.
Lemma rs_ok_snoc_plain : forall cs (S : pid -> Prop) c, (forall p, c <> CResume p) -> rs_ok S cs -> rs_ok S (cs ++ [c]).
Proof.
  induction cs as [|c0 cs IH]; intros S c Hc G; simpl.
  - split; [|exact I]. destruct c; auto. exfalso. apply (Hc p). reflexivity.
  - destruct G as (G1&G2). split; [exact G1|apply IH; assumption].
Qed.
Lemma rs_ok_app_plain : forall extra cs (S : pid -> Prop), Forall plain extra -> rs_ok S cs -> rs_ok S (cs ++ extra).
Proof.
  induction extra as [|c extra IH]; intros cs S F G; [rewrite app_nil_r; exact G|].
  inversion F as [|x y F1 F2]; subst. replace (cs ++ c :: extra) with ((cs ++ [c]) ++ extra) by (rewrite <- app_assoc; reflexivity).
  apply IH; [exact F2|]. apply rs_ok_snoc_plain; [apply F1|exact G].
Qed.
Lemma rs_ok_snoc_resume : forall cs (S : pid -> Prop) p,
  rs_ok S cs -> (S p \/ In (CStart p true) cs) -> (forall c, In c cs -> c <> CResume p) -> rs_ok S (cs ++ [CResume p]).
Proof.
  induction cs as [|c0 cs IH]; intros S p G Hs Hn; simpl.
  - split; [|exact I]. destruct Hs as [A|[]]. exact A.
  - destruct G as (G1&G2). split; [exact G1|]. apply IH; [exact G2| |intros c Hc; apply Hn; right; exact Hc].
    assert (N0: c0 <> CResume p) by (apply Hn; left; reflexivity).
    destruct Hs as [A|[A|A]].
    + left. unfold rs_next. destruct c0 as [| |p0 sl| |p0| | | | |]; try exact A.
      * destruct sl; [right; exact A|exact A].
      * split; [|exact A]. intros ->. apply N0. reflexivity.
    + subst c0. left. simpl. left; reflexivity.
    + right; exact A.
Qed.

(* what one handled command does to the sleeping processes *)
Lemma rs_step c w w' ev :
  (forall p, spawns c = Some p -> ~ has p w) -> handle_cmd c w = Good (w', ev) ->
  forall q, rs_next c (fun x => sleeping x w) q -> sleeping q w'.
Proof.
  intros Hf H q Hq. unfold rs_next in Hq. destruct c as [| |p0 sl| |p0| | | | |];
    try (apply (sleeping_handle_cmd q _ w w' ev Hf); [discriminate|exact H|exact Hq]).
  - destruct sl.
    + destruct Hq as [->|Hq]; [eapply start_sleeping; exact H|apply (sleeping_handle_cmd q _ w w' ev Hf); [discriminate|exact H|exact Hq]].
    + apply (sleeping_handle_cmd q _ w w' ev Hf); [discriminate|exact H|exact Hq].
  - destruct Hq as (Hne&Hq). apply (sleeping_handle_cmd q _ w w' ev Hf); [intros C; inversion C; subst; apply Hne; reflexivity|exact H|exact Hq].
Qed.

Definition rd_ok (e : env) (j : wid) (nd : node) : Prop :=
  forall p, alookup p (e_router e) = Some j -> has p (n_w nd) \/ In p (spawn_pids (n_cmd nd)).
Definition c_node (e : env) (j : wid) (nd : node) : Prop :=
  gr_ok (fun q => has q (n_w nd)) (n_cmd nd) /\ rs_ok (fun q => sleeping q (n_w nd)) (n_cmd nd) /\ rd_ok e j nd.
Definition CInv (s : sys) : Prop := WF s /\ forall j nd, nth_error (s_nodes s) j = Some nd -> c_node (s_env s) j nd.

(* ------------------------------------------------------------------ the commands of a Worker::step do not fail *)
Lemma handle_cmds_no_fault e i : forall pre w rest,
  NInv e i w (pre ++ rest) ->
  gr_ok (fun q => has q w) (pre ++ rest) -> rs_ok (fun q => sleeping q w) (pre ++ rest) -> exists r, handle_cmds pre w = Good r.
Proof.
  induction pre as [|c pre IH]; intros w rest HI G R; simpl; [eexists; reflexivity|].
  simpl in G, R. destruct G as (G1&G2). destruct R as (R1&R2).
  assert (Fresh: forall p, spawns c = Some p -> ~ has p w).
  { intros p Hp. destruct HI as (_&_&_&U). apply U. simpl. unfold spawn_pids. simpl. rewrite Hp. left; reflexivity. }
  assert (Hc: exists r, handle_cmd c w = Good r).
  { destruct (handle_cmd c w) as [r|f] eqn:E; [eexists; reflexivity|]. exfalso.
    destruct (handle_cmd_errs_only_on_client_commands c w f E) as [(p&->)|(r&p&->)].
    - destruct R1 as (pr&v&Hl&Hr&Hp&_). simpl in E. rewrite Hl, Hr, Hp in E. discriminate.
    - simpl in E. unfold has in G1. destruct (alookup p (w_procs w)) as [pr|]; [|apply G1; reflexivity].
      destruct (p_res pr); discriminate. }
  destruct Hc as ([w1 e1]&E1). rewrite E1. cbn [rbind].
  destruct (handle_cmd_pk c w w1 e1 E1) as (PK&Sp&_).
  assert (HI1: NInv e i w1 (pre ++ rest)).
  { apply (NInv_handle_cmds e i [c] w (pre ++ rest) w1 (e1 ++ [])); [exact HI|]. simpl. rewrite E1. reflexivity. }
  destruct (IH w1 rest HI1) as ([w2 e2]&E2).
  - eapply gr_ok_mono; [|exact G2]. intros q [A|A]; [apply PK; exact A|apply Sp; exact A].
  - eapply rs_ok_mono; [|exact R2]. apply (rs_step c w w1 e1 Fresh E1).
  - rewrite E2. cbn [rbind]. eexists; reflexivity.
Qed.

Lemma node_step_fault_oracle e i now k o nd f :
  NInv e i (n_w nd) (n_cmd nd) -> c_node e i nd -> node_step i now k o nd = Fault f -> is_oracle_fault f.
Proof.
  intros HI (G&R&_) H. unfold node_step in H. pose proof (split_at_app k (n_cmd nd)) as Hs.
  destruct (split_at k (n_cmd nd)) as [pre later]. simpl in Hs. rewrite <- Hs in G, R, HI.
  destruct (handle_cmds_no_fault e i pre (n_w nd) later HI G R) as ([w1 e1]&E1). rewrite E1 in H. cbn [rbind] in H.
  destruct (exec_step i now o w1) as [[w2 e2]|f2] eqn:E2; cbn [rbind] in H.
  - destruct (check_completed (o_completed o) w2) as [[w3 e3]|f3] eqn:E3; cbn [rbind] in H; [discriminate|].
    inversion H; subst. eapply check_completed_fault; exact E3.
  - inversion H; subst. eapply exec_step_fault; exact E2.
Qed.

(* ------------------------------------------------------------------ preservation *)
Lemma c_node_ext e e' j nd extra :
  c_node e j nd -> Forall plain extra ->
  (forall p, alookup p (e_router e') = Some j -> alookup p (e_router e) = Some j \/ In p (spawn_pids extra)) ->
  c_node e' j (mk_node (n_w nd) (n_cmd nd ++ extra) (n_evt nd)).
Proof.
  intros (G&N&R) F Hr. split; [|split]; simpl.
  - apply gr_ok_app_plain; assumption.
  - apply rs_ok_app_plain; assumption.
  - intros p Hp. simpl. rewrite spawn_pids_app. destruct (Hr p Hp) as [A|A].
    + destruct (R p A) as [B|B]; [left; exact B|right; apply in_or_app; left; exact B].
    + right. apply in_or_app. right; exact A.
Qed.

Lemma plain_nospawn c :
  match c with CResume _ | CGetResult _ _ | CStart _ _ | CSpawn _ => False | _ => True end -> plain c /\ spawns c = None.
Proof. destruct c; intros H; try contradiction; (split; [split; intros; discriminate|reflexivity]). Qed.

(* the premise on a client call: an honest resume_process *)
Definition okc (s : sys) (c : client) : Prop :=
  match c with
  | XResume p =>
    match alookup p (e_router (s_env s)) with
    | Some w => match nth_error (s_nodes s) w with
                | Some nd => (sleeping p (n_w nd) \/ In (CStart p true) (n_cmd nd)) /\ forall c0, In c0 (n_cmd nd) -> c0 <> CResume p
                | None => True
                end
    | None => True
    end
  | _ => True
  end.

Theorem CInv_mstep s l s' : CInv s -> mstep s l s' -> hon_label2 (fun _ _ _ _ => True) okc s l -> CInv s'.
Proof.
  intros (W&N) M Hon. split; [eapply WF_mstep; eassumption|].
  destruct M as [ns e clk i nd c rest w' evs Hn Hc Hh
                |ns e clk i nd o w' evs Hn Hx
                |ns e clk i nd hint w' evs Hn Hk
                |ns e clk i nd ev rest e' ns' Hn Hq He
                |ns e clk d
                |s c s' Hc]; simpl in *.
  - (* command *)
    intros j x Hx. destruct (Nat.eq_dec j i) as [->|Hne]; [|rewrite nth_set_node_other in Hx by exact Hne; apply (N j x Hx)].
    rewrite (nth_set_node_same _ _ _ _ Hn) in Hx. inversion Hx; subst x; clear Hx.
    destruct (N i nd Hn) as (G&Nr&R). unfold rd_ok in R. rewrite Hc in G, Nr, R. simpl in G, Nr. destruct G as (_&G2). destruct Nr as (_&Nr2).
    destruct (handle_cmd_pk c (n_w nd) w' evs Hh) as (PK&Sp&_).
    assert (Fresh: forall p, spawns c = Some p -> ~ has p (n_w nd)).
    { intros p Hp. destruct W as (_&WN). simpl in WN. destruct (WN i nd Hn) as (_&_&_&U). apply U.
      rewrite Hc. unfold spawn_pids. simpl. rewrite Hp. left; reflexivity. }
    split; [|split]; simpl.
    + eapply gr_ok_mono; [|exact G2]. intros q [A|A]; [apply PK; exact A|apply Sp; exact A].
    + eapply rs_ok_mono; [|exact Nr2]. apply (rs_step c (n_w nd) w' evs Fresh Hh).
    + intros p Hp. destruct (R p Hp) as [A|A]; [left; apply PK; exact A|].
      rewrite spawn_pids_cons in A. apply in_app_or in A. destruct A as [A|A]; [left|right; exact A].
      destruct (spawns c) as [x|] eqn:Es; [destruct A as [->|[]]; apply Sp; reflexivity|destruct A].
  - (* executor step *)
    intros j x Hj. destruct (Nat.eq_dec j i) as [->|Hne]; [|rewrite nth_set_node_other in Hj by exact Hne; apply (N j x Hj)].
    rewrite (nth_set_node_same _ _ _ _ Hn) in Hj. inversion Hj; subst x; clear Hj.
    destruct (N i nd Hn) as (G&Nr&R). pose proof (pk_exec_step _ _ _ _ _ _ Hx) as PK.
    assert (HS: SW (n_w nd)) by (destruct W as (_&WN); simpl in WN; apply (WN i nd Hn)).
    split; [|split]; simpl; [eapply gr_ok_mono; [|exact G]; intros q A; apply PK; exact A| |].
    { eapply rs_ok_mono; [|exact Nr]. intros q A. eapply sleeping_exec_step; [exact HS|exact Hx|exact A]. }
    intros p Hp. destruct (R p Hp) as [A|A]; [left; apply PK; exact A|right; exact A].
  - (* check_completed *)
    intros j x Hj. destruct (Nat.eq_dec j i) as [->|Hne]; [|rewrite nth_set_node_other in Hj by exact Hne; apply (N j x Hj)].
    rewrite (nth_set_node_same _ _ _ _ Hn) in Hj. inversion Hj; subst x; clear Hj.
    destruct (N i nd Hn) as (G&Nr&R). pose proof (pk_check_completed _ _ _ _ Hk) as PK.
    split; [|split]; simpl; [eapply gr_ok_mono; [|exact G]; intros q A; apply PK; exact A| |].
    { eapply rs_ok_mono; [|exact Nr]. intros q A. eapply sleeping_check_completed; [exact Hk|exact A]. }
    intros p Hp. destruct (R p Hp) as [A|A]; [left; apply PK; exact A|right; exact A].
  - (* event *)
    set (nsm := set_node i (mk_node (n_w nd) (n_cmd nd) rest) ns) in *.
    assert (Nm: forall j x, nth_error nsm j = Some x -> c_node e j x).
    { intros j x Hj. destruct (Nat.eq_dec j i) as [->|Hne]; [|unfold nsm in Hj; rewrite nth_set_node_other in Hj by exact Hne; apply (N j x Hj)].
      unfold nsm in Hj. rewrite (nth_set_node_same _ _ _ _ Hn) in Hj. inversion Hj; subst x. apply (N i nd Hn). }
    assert (Keep: forall ns2, ext (fun _ c => plain c /\ spawns c = None) nsm ns2 -> forall j x, nth_error ns2 j = Some x -> c_node e j x).
    { intros ns2 Hx j x Hj. destruct (ext_back _ _ _ _ _ Hx Hj) as (ndm&extra&Hjm&->&F).
      apply (c_node_ext e e j ndm extra (Nm j ndm Hjm)); [eapply Forall_impl; [|exact F]; intros c (A&_); exact A|]. intros p Hp. left; exact Hp. }
    destruct ev.
    + (* SpawnAction: a new pid is routed and its Spawn command pushed *)
      unfold handle_event in He. cbn -[Nat.modulo] in He.
      revert He. match goal with |- context [@alookup ?A caller ?l] => destruct (@alookup A caller l) as [cw|] end; intros He; [|discriminate].
      inversion He; subst e' ns'; clear He. simpl.
      set (w := e_next e mod length ns) in *.
      intros j x Hj. rewrite nth_error_push in Hj.
      destruct (nth_error (push_cmd w (CSpawn (e_next e)) nsm) j) as [x1|] eqn:E1; [|discriminate].
      rewrite nth_error_push in E1. destruct (nth_error nsm j) as [x0|] eqn:E0; [|discriminate].
      inversion E1; subst x1; clear E1. inversion Hj; subst x; clear Hj.
      assert (Fresh: alookup (e_next e) (e_router e) = None).
      { destruct (alookup (e_next e) (e_router e)) eqn:Ef; [|reflexivity]. destruct W as (B&_). simpl in B. apply B in Ef. lia. }
      assert (C1: c_node {| e_router := aset (e_next e) w (e_router e); e_next := S (e_next e); e_pending := e_pending e |} j
                    (if j =? w then mk_node (n_w x0) (n_cmd x0 ++ [CSpawn (e_next e)]) (n_evt x0) else x0)).
      { destruct (j =? w) eqn:Ejw.
        - apply Nat.eqb_eq in Ejw. subst j. apply (c_node_ext e _ w x0 [CSpawn (e_next e)] (Nm w x0 E0)).
          + constructor; [split; intros; discriminate|constructor].
          + intros p Hp. simpl in Hp. rewrite alookup_aset in Hp. destruct (p =? e_next e) eqn:Ep; [right; apply Nat.eqb_eq in Ep; subst; left; reflexivity|left; exact Hp].
        - replace x0 with (mk_node (n_w x0) (n_cmd x0 ++ []) (n_evt x0)) by (rewrite app_nil_r; destruct x0; reflexivity).
          apply (c_node_ext e _ j x0 [] (Nm j x0 E0)); [constructor|].
          intros p Hp. simpl in Hp. rewrite alookup_aset in Hp. destruct (p =? e_next e) eqn:Ep; [|left; exact Hp].
          inversion Hp; subst. rewrite Nat.eqb_refl in Ejw. discriminate. }
      set (X := if j =? w then mk_node (n_w x0) (n_cmd x0 ++ [CSpawn (e_next e)]) (n_evt x0) else x0) in *.
      destruct (j =? cw) eqn:Ejc; [|exact C1].
      apply (c_node_ext _ _ j X [CNotifySpawn caller (e_next e)] C1); [constructor; [split; intros; discriminate|constructor]|].
      intros p Hp. left; exact Hp.
    + unfold handle_event in He. destruct (alookup target (e_router e)) as [w|]; [|discriminate]. inversion He; subst e' ns'; clear He.
      apply (Keep _ (ext_push (fun _ c => plain c /\ spawns c = None) nsm w (CDeliver target m) (plain_nospawn (CDeliver target m) I))).
    + unfold handle_event in He. cbn -[nodup] in He.
      destruct (forallb (fun t => match alookup t (e_router e) with Some _ => true | None => false end) targets); [|discriminate].
      inversion He; subst e' ns'; clear He. simpl.
      match goal with |- forall j x, nth_error (fold_left ?f ?l nsm) j = Some x -> _ =>
        pose proof (ext_fold_push (fun _ c => plain c /\ spawns c = None)
                      (fun w => CQuery awaiter (filter (fun t => (match alookup t (e_router e) with Some w0 => w0 | None => 0 end) =? w) targets)) (fun w => w) l) as Hx end.
      intros j x Hj. apply (Keep _ (Hx (fun a _ => plain_nospawn (CQuery awaiter _) I) nsm) j x Hj).
    + unfold handle_event in He.
      destruct (alookup awaiter (e_pending e)) as [pa|].
      * destruct (match results with [] => None | (t, _) :: _ => alookup t (e_router e) end) as [w|]; [|inversion He; subst; apply (Keep _ (ext_refl _ nsm))].
        destruct (sremove w (pa_expected pa)).
        -- destruct (alookup awaiter (e_router e)) as [aw|]; [|discriminate]. inversion He; subst e' ns'; clear He. simpl.
           apply (Keep _ (ext_push (fun _ c => plain c /\ spawns c = None) nsm aw (CUpdate awaiter _) (plain_nospawn (CUpdate awaiter _) I))).
        -- inversion He; subst e' ns'; clear He. simpl. apply (Keep _ (ext_refl _ nsm)).
      * destruct (alookup awaiter (e_router e)) as [aw|]; [|discriminate]. inversion He; subst e' ns'; clear He.
        apply (Keep _ (ext_push (fun _ c => plain c /\ spawns c = None) nsm aw (CUpdate awaiter results) (plain_nospawn (CUpdate awaiter results) I))).
    + unfold handle_event in He. inversion He; subst e' ns'. apply (Keep _ (ext_refl _ nsm)).
    + unfold handle_event in He. inversion He; subst e' ns'. apply (Keep _ (ext_refl _ nsm)).
  - exact N.
  - (* client *)
    assert (Keep: forall w c0, plain c0 -> spawns c0 = None -> forall j x, nth_error (push_cmd w c0 (s_nodes s)) j = Some x -> c_node (s_env s) j x).
    { intros w c0 Pc Sc j x Hj. rewrite nth_error_push in Hj. destruct (nth_error (s_nodes s) j) as [x0|] eqn:E0; [|discriminate].
      inversion Hj; subst x; clear Hj. destruct (j =? w); [|apply (N j x0 E0)].
      apply (c_node_ext (s_env s) (s_env s) j x0 [c0] (N j x0 E0)); [constructor; [exact Pc|constructor]|]. intros p Hp. left; exact Hp. }
    unfold client_step in Hc. destruct c.
    + inversion Hc; subst s'; clear Hc. simpl.
      set (w := e_next (s_env s) mod length (s_nodes s)) in *.
      assert (Fresh: alookup (e_next (s_env s)) (e_router (s_env s)) = None).
      { destruct (alookup (e_next (s_env s)) (e_router (s_env s))) eqn:Ef; [|reflexivity]. destruct W as (B&_). apply B in Ef. lia. }
      intros j x Hj. rewrite nth_error_push in Hj. destruct (nth_error (s_nodes s) j) as [x0|] eqn:E0; [|discriminate].
      inversion Hj; subst x; clear Hj. destruct (j =? w) eqn:Ejw.
      * apply Nat.eqb_eq in Ejw. subst j. apply (c_node_ext (s_env s) _ w x0 [CStart (e_next (s_env s)) sleeping] (N w x0 E0)).
        -- constructor; [split; intros; discriminate|constructor].
        -- intros p Hp. simpl in Hp. rewrite alookup_aset in Hp. destruct (p =? e_next (s_env s)) eqn:Ep; [right; apply Nat.eqb_eq in Ep; subst; left; reflexivity|left; exact Hp].
      * replace x0 with (mk_node (n_w x0) (n_cmd x0 ++ []) (n_evt x0)) by (rewrite app_nil_r; destruct x0; reflexivity).
        apply (c_node_ext (s_env s) _ j x0 [] (N j x0 E0)); [constructor|].
        intros p Hp. simpl in Hp. rewrite alookup_aset in Hp. destruct (p =? e_next (s_env s)) eqn:Ep; [|left; exact Hp].
        inversion Hp; subst. rewrite Nat.eqb_refl in Ejw. discriminate.
    + inversion Hc; subst s'; simpl. apply Keep; [split; intros; discriminate|reflexivity].
    + inversion Hc; subst s'; simpl. apply Keep; [split; intros; discriminate|reflexivity].
    + (* resume_process, honestly *)
      simpl in Hon. destruct (alookup p (e_router (s_env s))) as [w|] eqn:Er; inversion Hc; subst s'; clear Hc; simpl; [|exact N].
      intros j x Hj. rewrite nth_error_push in Hj. destruct (nth_error (s_nodes s) j) as [x0|] eqn:E0; [|discriminate].
      inversion Hj; subst x; clear Hj. destruct (j =? w) eqn:Ejw; [|apply (N j x0 E0)].
      apply Nat.eqb_eq in Ejw. subst j. rewrite E0 in Hon. destruct Hon as (Hs&Hnr). destruct (N w x0 E0) as (G&Nr&R). split; [|split]; simpl.
      * apply gr_ok_snoc; [exact G|exact I].
      * apply rs_ok_snoc_resume; assumption.
      * intros q Hq. simpl. rewrite spawn_pids_app. destruct (R q Hq) as [A|A]; [left; exact A|right; apply in_or_app; left; exact A].
    + destruct (alookup p (e_router (s_env s))) as [w|] eqn:Er; inversion Hc; subst s'; clear Hc; simpl; [|exact N].
      intros j x Hj. rewrite nth_error_push in Hj. destruct (nth_error (s_nodes s) j) as [x0|] eqn:E0; [|discriminate].
      inversion Hj; subst x; clear Hj. destruct (j =? w) eqn:Ejw; [|apply (N j x0 E0)].
      apply Nat.eqb_eq in Ejw. subst j. destruct (N w x0 E0) as (G&Nr&R). split; [|split]; simpl.
      * apply gr_ok_snoc; [exact G|]. apply (R p Er).
      * apply rs_ok_snoc_plain; [intros q C; discriminate|exact Nr].
      * intros q Hq. simpl. rewrite spawn_pids_app. destruct (R q Hq) as [A|A]; [left; exact A|right; apply in_or_app; left; exact A].
Qed.

Lemma CInv_init nw : CInv (init nw).
Proof.
  split; [apply WF_init|]. intros j nd Hn. simpl in Hn. apply nth_error_In, repeat_spec in Hn. subst nd.
  split; [exact I|]. split; [exact I|intros p Hp; discriminate].
Qed.

Definition resume_honest_run (s : sys) (sigma : list sched_action) : Prop := clients_ok okc s sigma.
Definition no_resume (sigma : list sched_action) : Prop := Forall (fun a => forall p, a <> X (XResume p)) sigma.

Lemma no_resume_honest : forall sigma s, no_resume sigma -> resume_honest_run s sigma.
Proof.
  induction sigma as [|a sigma IH]; intros s H; simpl; [exact I|]. inversion H as [|x y H1 H2]; subst. split.
  - destruct a as [| | |c]; auto. destruct c; simpl; auto. exfalso. apply (H1 p). reflexivity.
  - destruct (sys_step s a); [apply IH; exact H2|exact I].
Qed.

Lemma hon_run_true : forall sigma s, hon_run (fun _ _ _ _ => True) s sigma.
Proof.
  induction sigma as [|a sigma IH]; intros s; simpl; [exact I|]. split.
  - destruct a as [i k o| | |]; simpl; auto. destruct (nth_error (s_nodes s) i); [|exact I]. destruct (handle_cmds _ _) as [[w1 e1]|]; exact I.
  - destruct (sys_step s a); [apply IH|exact I].
Qed.

(* C15: the only Faults of a run whose oracle names allocated pids and whose client resumes only
   honestly are BadOracle: no Worker::step and no Environment::step returns Err *)
Lemma faults_only_bad_oracle : forall sigma s f,
  CInv s -> RInv s -> pid_honest_run s sigma = true -> resume_honest_run s sigma -> run s sigma = Fault f -> is_oracle_fault f.
Proof.
  induction sigma as [|a sigma IH]; intros s f HC HR Hh Hn H; simpl in *; [discriminate|].
  apply andb_true_iff in Hh. destruct Hh as (Ha&Ht). destruct Hn as (N1&N2).
  destruct (sys_step s a) as [s1|f1] eqn:Est; cbn [rbind] in H.
  - apply (IH s1 f); [| |exact Ht|exact N2|exact H].
    + eapply (step_inv2 CInv (fun _ _ _ _ => True) okc CInv_mstep); [exact HC| |exact N1|exact Est].
      assert (Hr: hon_run (fun _ _ _ _ => True) s [a]) by apply hon_run_true. apply Hr.
    + eapply (step_inv RInv pids_honest RInv_mstep); [exact HR| |exact Est].
      assert (Hr: hon_run pids_honest s [a]) by (apply pid_honest_hon_run; simpl; rewrite Ha, Est; reflexivity). apply Hr.
  - inversion H; subst f1. destruct a as [i k o|ks|d|c].
    + simpl in Est. destruct (nth_error (s_nodes s) i) as [nd|] eqn:Ei; [|discriminate].
      destruct (node_step i (s_clock s) k o nd) as [nd'|f2] eqn:Es; cbn [rbind] in Est; [discriminate|]. inversion Est; subst f2.
      destruct HC as ((_&WN)&NC). eapply node_step_fault_oracle; [apply (WN i nd Ei)|apply (NC i nd Ei)|exact Es].
    + exfalso. apply (step_errs_only s (E ks) f Est). apply RInv_events_routed. exact HR.
    + exfalso. apply (step_errs_only s (T d) f Est).
    + exfalso. apply (step_errs_only s (X c) f Est).
Qed.

Theorem step_faults_only_bad_oracle_resume : forall nw sigma f,
  pid_honest_run (init nw) sigma = true -> resume_honest_run (init nw) sigma -> run (init nw) sigma = Fault f -> is_oracle_fault f.
Proof. intros nw sigma f Hh Hn H. eapply faults_only_bad_oracle; [apply CInv_init|apply RInv_init|exact Hh|exact Hn|exact H]. Qed.

Theorem step_faults_only_bad_oracle : forall nw sigma f,
  pid_honest_run (init nw) sigma = true -> no_resume sigma -> run (init nw) sigma = Fault f -> is_oracle_fault f.
Proof. intros nw sigma f Hh Hn. apply step_faults_only_bad_oracle_resume; [exact Hh|apply no_resume_honest; exact Hn]. Qed.

(* non-vacuity: the routed schedule of ProtoRouted with a request_result issued BEFORE the target's
   Spawn command is handled and one after it has finished *)
Definition getresult_schedule : list sched_action :=
  [ X (XStart false);
    X (XGetResult 0 70);                                                          (* queued behind StartProcess *)
    W 0 None (orc (Some 0) (d_act_ ASpawn)); E [];
    X (XGetResult 1 71);                                                          (* pid 1: Spawn command still queued on worker 1 *)
    W 1 None (orc (Some 1) {| d_taken := []; d_sel := None; d_forget := []; d_act := None; d_park := false; d_fin := Some (ROk 5); d_heapy := false |});
    E [] ].

Example step_faults_only_bad_oracle_applies :
  pid_honest_run (init 2) getresult_schedule = true /\ no_resume getresult_schedule /\
  exists s, run (init 2) getresult_schedule = Good s.
Proof.
  split; [vm_compute; reflexivity|]. split.
  - unfold no_resume, getresult_schedule. repeat constructor; intros p C; discriminate.
  - vm_compute. eexists; reflexivity.
Qed.
