(* ProtoWake.v — C04 on M-Sys (sys/Proto.v), the parked sets: who may take a process out of
   `spawning` (only its NotifySpawn — or the stale empty UpdateAwaitResults of finding F71), that
   every SpawnAction is answered by exactly one NotifySpawn carrying a fresh pid, and that each
   wake-up source of a parked select re-queues it (no missing push_back in the notify_* family). *)
From Quiver Require Import sys.Proto sys.ProtoFail.

Lemma mem_sremove x y l : mem x (sremove y l) = mem x l && negb (y =? x).
Proof.
  unfold mem, sremove. induction l as [|a l IH]; simpl; [reflexivity|].
  destruct (y =? a) eqn:E; simpl.
  - rewrite IH. apply Nat.eqb_eq in E. subst a. destruct (x =? y) eqn:E2; simpl.
    + apply Nat.eqb_eq in E2. subst. rewrite Nat.eqb_refl. rewrite andb_false_r. reflexivity.
    + reflexivity.
  - rewrite IH. destruct (x =? a) eqn:E2; simpl; [|reflexivity].
    apply Nat.eqb_eq in E2. subst a. rewrite E. reflexivity.
Qed.
Lemma mem_sadd x y l : mem x (sadd y l) = mem x l || (x =? y).
Proof.
  unfold sadd. destruct (mem y l) eqn:E.
  - destruct (x =? y) eqn:E2; [apply Nat.eqb_eq in E2; subst; rewrite E; reflexivity|rewrite orb_false_r; reflexivity].
  - unfold mem. rewrite existsb_app. simpl. rewrite orb_false_r. reflexivity.
Qed.

(* the spawning set after a worker-level operation *)
Definition keeps_spawning (w w' : worker) : Prop := forall c, mem c (w_spawning w) = true -> mem c (w_spawning w') = true.

Lemma ks_refl w : keeps_spawning w w. Proof. intros c H; exact H. Qed.
Lemma ks_trans a b c : keeps_spawning a b -> keeps_spawning b c -> keeps_spawning a c.
Proof. intros H1 H2 x Hx. apply H2, H1, Hx. Qed.
Lemma ks_same w w' : w_spawning w' = w_spawning w -> keeps_spawning w w'.
Proof. intros H c Hc. rewrite H. exact Hc. Qed.

Lemma ks_upd_proc p f w : keeps_spawning w (upd_proc p f w).
Proof. apply ks_same. apply upd_proc_sched. Qed.
Lemma ks_wake p w : keeps_spawning w (wake_selecting p w).
Proof. unfold wake_selecting. destruct (mem p (w_selecting w)); apply ks_same; reflexivity. Qed.
Lemma ks_notify_result a b r w : keeps_spawning w (notify_result a b r w).
Proof. unfold notify_result. destruct (awaits a b w); [eapply ks_trans; [apply ks_upd_proc|apply ks_wake]|apply ks_wake]. Qed.
Lemma ks_worker_notify a b r w : keeps_spawning w (worker_notify a b r w).
Proof. unfold worker_notify. destruct r; [apply ks_notify_result|]. destruct (awaits a b w); [apply ks_upd_proc|apply ks_wake]. Qed.
Lemma ks_fold {A} (f : worker -> A -> worker) l : (forall w x, keeps_spawning w (f w x)) -> forall w, keeps_spawning w (fold_left f l w).
Proof. intros Hf. induction l as [|x l IH]; intros w; simpl; [apply ks_refl|]. eapply ks_trans; [apply Hf|apply IH]. Qed.

Lemma ks_query_fold a ts : forall w rs, keeps_spawning w (fst (fold_left (query_one a) ts (w, rs))).
Proof.
  induction ts as [|t ts IH]; intros w rs; cbn [fold_left]; [apply ks_refl|].
  assert (Q: keeps_spawning w (fst (query_one a (w, rs) t))).
  { unfold query_one. destruct (completed_value w t); simpl; apply ks_same; reflexivity. }
  destruct (query_one a (w, rs) t) as [w1 rs1]. simpl in Q. eapply ks_trans; [exact Q|apply IH].
Qed.

Lemma ks_update_await a rs w : keeps_spawning w (update_await a rs w).
Proof.
  unfold update_await.
  assert (H: keeps_spawning w (fold_left (fun w e => match snd e with Some r => worker_notify a (fst e) r w | None => w end) rs w)).
  { apply ks_fold. intros w0 x. destruct (snd x); [apply ks_worker_notify|apply ks_refl]. }
  destruct (existsb _ rs); [exact H|]. eapply ks_trans; [exact H|apply ks_wake].
Qed.

(* C04 spawner_gets_pid, handler form: Worker::handle_command takes a process c out of `spawning`
   ONLY when it handles c's NotifySpawn. (Before the repair of F71 a result-less UpdateAwaitResults
   for c — `mark_active` — did so too.) *)
Theorem spawning_left_only_by_notify : forall cmd w w' ev c,
  handle_cmd cmd w = Good (w', ev) ->
  mem c (w_spawning w) = true -> mem c (w_spawning w') = false ->
  exists sp, cmd = CNotifySpawn c sp.
Proof.
  intros cmd w w' ev c H Hin Hout.
  assert (K: forall w0, keeps_spawning w w0 -> w' = w0 -> False).
  { intros w0 Hk ->. rewrite (Hk c Hin) in Hout. discriminate. }
  destruct cmd; simpl in H.
  - inversion H; subst. exfalso. eapply K; [apply ks_refl|reflexivity].
  - inversion H; subst. exfalso. eapply K; [apply ks_refl|reflexivity].
  - destruct sleeping; inversion H; subst; exfalso; (eapply K; [|reflexivity]); apply ks_same; reflexivity.
  - inversion H; subst. exfalso. (eapply K; [|reflexivity]). apply ks_same; reflexivity.
  - destruct (alookup p (w_procs w)) as [pr|]; [|discriminate].
    destruct (p_res pr) as [[v|e]|]; try discriminate. destruct (p_pers pr); [|discriminate].
    inversion H; subst. exfalso. (eapply K; [|reflexivity]).
    eapply ks_trans; [apply ks_upd_proc|apply ks_same; reflexivity].
  - destruct (fold_left (query_one awaiter) targets (w, [])) as [w1 rs] eqn:E. inversion H; subst.
    exfalso. (eapply K; [|reflexivity]). pose proof (ks_query_fold awaiter targets w []) as Q. rewrite E in Q. exact Q.
  - inversion H; subst. exfalso. (eapply K; [|reflexivity]). apply ks_update_await.
  - destruct (alookup target (w_procs w)); inversion H; subst; exfalso; (eapply K; [|reflexivity]).
    + eapply ks_trans; [|apply ks_wake]. eapply ks_trans; [|apply ks_upd_proc]. apply ks_same; reflexivity.
    + eapply ks_trans; [|apply ks_wake]. apply ks_same; reflexivity.
  - destruct (mem p (w_spawning w)) eqn:Ep; inversion H; subst; clear H.
    + simpl in Hout. rewrite mem_sremove, Hin in Hout. simpl in Hout.
      destruct (p =? c) eqn:E; [apply Nat.eqb_eq in E; subst; eexists; reflexivity|discriminate].
    + rewrite Hin in Hout. discriminate.
  - destruct (alookup p (w_procs w)) as [pr|]; [|discriminate].
    destruct (p_res pr); inversion H; subst; exfalso; (eapply K; [|reflexivity]); [apply ks_refl|apply ks_same; reflexivity].
Qed.

(* the executor step and the completion check never take a process out of `spawning` *)
Lemma ks_notify_local p r h w q : keeps_spawning w (notify_local p r h w q).
Proof. unfold notify_local. destruct r; [destruct h; [apply ks_refl|apply ks_notify_result]|apply ks_upd_proc]. Qed.
Lemma ks_finish p r h hint w w' : finish p r h hint w = Good w' -> keeps_spawning w w'.
Proof.
  unfold finish. destruct (order_by hint _); [|discriminate]. intros H; inversion H; subst.
  eapply ks_trans; [apply ks_upd_proc|]. apply ks_fold. intros; apply ks_notify_local.
Qed.
Lemma ks_mark_selecting p w : keeps_spawning w (mark_selecting p w). Proof. apply ks_same; reflexivity. Qed.
Lemma ks_mark_spawning p w : keeps_spawning w (mark_spawning p w).
Proof. intros c Hc. simpl. rewrite mem_sadd, Hc. reflexivity. Qed.
Lemma ks_enqueue p w : keeps_spawning w (enqueue p w). Proof. apply ks_same; reflexivity. Qed.

Lemma ks_run_slice i p pr d hint w w' ev : run_slice i p pr d hint w = Good (w', ev) -> keeps_spawning w w'.
Proof.
  unfold run_slice. destruct (negb (did_ok d)); [discriminate|].
  destruct (take_seq (d_taken d) (p_mail pr)) as [[taken mail']|]; [|discriminate].
  set (w1 := set_procs w _). assert (K1: keeps_spawning w w1) by (apply ks_same; reflexivity).
  assert (Tail: forall w2 ev2, keeps_spawning w w2 ->
            match d_fin d with
            | Some r => w4 <- finish p r (d_heapy d) hint (if d_park d then mark_selecting p w2 else w2) ;; Good (w4, ev2)
            | None => if mem p (w_spawning (if d_park d then mark_selecting p w2 else w2)) || mem p (w_selecting (if d_park d then mark_selecting p w2 else w2))
                      then Good (if d_park d then mark_selecting p w2 else w2, ev2)
                      else Good (enqueue p (if d_park d then mark_selecting p w2 else w2), ev2)
            end = Good (w', ev) -> keeps_spawning w w').
  { intros w2 ev2 K2 H.
    assert (K3: keeps_spawning w (if d_park d then mark_selecting p w2 else w2)).
    { destruct (d_park d); [eapply ks_trans; [exact K2|apply ks_mark_selecting]|exact K2]. }
    destruct (d_fin d).
    - destruct (finish _ _ _ _ _) as [w4|] eqn:F; simpl in H; [|discriminate]. inversion H; subst.
      eapply ks_trans; [exact K3|eapply ks_finish; exact F].
    - destruct (_ || _); inversion H; subst; [exact K3|eapply ks_trans; [exact K3|apply ks_enqueue]]. }
  destruct (d_act d) as [[| t | ts]|]; intros H.
  - apply (Tail _ _ (ks_trans _ _ _ K1 (ks_mark_spawning p w1)) H).
  - eapply (Tail _ _ _ H). Unshelve. eapply ks_trans; [exact K1|apply ks_same; reflexivity].
  - eapply (Tail _ _ _ H). Unshelve. eapply ks_trans; [exact K1|]. eapply ks_trans; [apply ks_upd_proc|apply ks_mark_selecting].
  - apply (Tail _ _ K1 H).
Qed.

Theorem exec_step_keeps_spawning : forall i now o w w' ev,
  exec_step i now o w = Good (w', ev) -> keeps_spawning w w'.
Proof.
  intros i now o w w' ev. unfold exec_step.
  destruct (expire now (o_expired o) w) as [w1|] eqn:E; simpl; [|discriminate].
  assert (K1: keeps_spawning w w1).
  { unfold expire in E. destruct (order_by _ _); [|discriminate]. inversion E; subst. apply ks_same; reflexivity. }
  destruct (w_queue w1) as [|p q']; [intros H; inversion H; subst; exact K1|].
  set (w2 := set_sched w1 q' _ _). assert (K2: keeps_spawning w w2) by (eapply ks_trans; [exact K1|apply ks_same; reflexivity]).
  destruct (alookup p (w_procs w1)) as [pr|]; [|intros H; inversion H; subst; exact K2].
  destruct (match o_pid o with Some p' => p =? p' | None => false end).
  - intros H. eapply ks_trans; [exact K2|eapply ks_run_slice; exact H].
  - destruct (p_res pr) as [[v|e]|]; try discriminate.
    destruct (finish _ _ _ _ _) as [w3|] eqn:F; simpl; [|discriminate]. intros H; inversion H; subst.
    eapply ks_trans; [exact K2|eapply ks_finish; exact F].
Qed.

(* the environment answers every SpawnAction with exactly one SpawnProcess and one NotifySpawn for
   the caller, carrying the same fresh pid (environment.rs:1172-1235) *)
Theorem spawn_answered_once : forall nw caller e ns e' ns',
  handle_event nw (ESpawnA caller) (e, ns) = Good (e', ns') ->
  exists cw, alookup caller (e_router e') = Some cw /\
    ns' = push_cmd cw (CNotifySpawn caller (e_next e)) (push_cmd (e_next e mod nw) (CSpawn (e_next e)) ns) /\
    e_next e' = S (e_next e) /\ alookup (e_next e) (e_router e') = Some (e_next e mod nw).
Proof.
  intros nw caller e ns e' ns' H. unfold handle_event in H. cbn -[Nat.modulo] in H.
  revert H. match goal with |- context [@alookup ?A caller ?l] => destruct (@alookup A caller l) as [cw|] eqn:Ec end; intros H; [|discriminate].
  inversion H; subst. exists cw. repeat split; try assumption. simpl. apply alookup_aset_eq.
Qed.

(* ------------------------------------------------------------------ each wake-up source re-queues a parked select *)
Lemma wake_selecting_spec p w :
  mem p (w_selecting w) = true ->
  w_queue (wake_selecting p w) = w_queue w ++ [p] /\ mem p (w_selecting (wake_selecting p w)) = false /\
  w_procs (wake_selecting p w) = w_procs w.
Proof.
  intros H. unfold wake_selecting. rewrite H. simpl. repeat split.
  rewrite mem_sremove, Nat.eqb_refl. simpl. apply andb_false_r.
Qed.

(* a message for a process parked in `selecting` (executor.rs:849) *)
Theorem wakeup_on_message : forall t m w w' ev pr,
  alookup t (w_procs w) = Some pr -> mem t (w_selecting w) = true ->
  handle_cmd (CDeliver t m) w = Good (w', ev) ->
  w_queue w' = w_queue w ++ [t] /\ mem t (w_selecting w') = false /\
  exists pr', alookup t (w_procs w') = Some pr' /\ p_mail pr' = p_mail pr ++ [m].
Proof.
  intros t m w w' ev pr Hl Hs H. unfold handle_cmd in H. rewrite Hl in H. inversion H; subst w' ev; clear H.
  set (w0 := upd_proc t _ _).
  assert (S0: w_queue w0 = w_queue w /\ w_selecting w0 = w_selecting w).
  { unfold w0, upd_proc.
    match goal with |- context [match ?x with Some _ => _ | None => _ end] => destruct x end; simpl; split; reflexivity. }
  destruct S0 as (Q0&L0).
  destruct (wake_selecting_spec t w0) as (A&B&C); [rewrite L0; exact Hs|].
  rewrite A, B, C, Q0. repeat split.
  eexists. split; [unfold w0; apply upd_proc_same; simpl; exact Hl|reflexivity].
Qed.

(* a result for an awaiter parked in `selecting` that still awaits the target (executor.rs:774) *)
Theorem wakeup_on_result : forall awaiter t v w pr,
  alookup awaiter (w_procs w) = Some pr -> alookup t (p_awaiting pr) <> None -> mem awaiter (w_selecting w) = true ->
  let w' := update_await awaiter [(t, Some (ROk v))] w in
  w_queue w' = w_queue w ++ [awaiter] /\ mem awaiter (w_selecting w') = false /\
  exists pr', alookup awaiter (w_procs w') = Some pr' /\ alookup t (p_awaiting pr') = Some (Some (ROk v)).
Proof.
  intros awaiter t v w pr Hl Ha Hs. unfold update_await. cbn [fold_left existsb snd fst orb worker_notify].
  unfold notify_result, awaits. rewrite Hl. destruct (alookup t (p_awaiting pr)) eqn:Ea; [|contradiction].
  set (w0 := upd_proc awaiter _ w).
  destruct (upd_proc_sched awaiter (fun pr0 => with_awaiting (aset t (Some (ROk v)) (p_awaiting pr0)) pr0) w) as (S1&S2&S3).
  fold w0 in S1, S2, S3.
  destruct (wake_selecting_spec awaiter w0) as (A&B&C); [rewrite S3; exact Hs|].
  rewrite A, B, C, S1. repeat split.
  eexists. split; [unfold w0; apply upd_proc_same; exact Hl|]. simpl. apply alookup_aset_eq.
Qed.

(* ... and a stale answer (no result, or a result for a target no longer awaited) wakes a parked
   select as well, but never a process waiting for its spawn notification (the repair of F71) *)
Theorem stale_update_leaves_spawner : forall c t w,
  mem c (w_spawning w) = true -> mem c (w_selecting w) = false ->
  update_await c [(t, None)] w = w.
Proof.
  intros c t w H1 H2. unfold update_await. simpl. unfold wake_selecting. rewrite H2. reflexivity.
Qed.

(* an elapsed timeout (check_expired_timeouts, executor.rs:2674) *)
Theorem wakeup_on_timeout : forall now hint w w' p,
  expire now hint w = Good w' -> mem p (w_selecting w) = true -> timed_out now w p = true ->
  In p (w_queue w') /\ mem p (w_selecting w') = false.
Proof.
  intros now hint w w' p H Hs Ht. unfold expire in H.
  destruct (order_by hint _) as [o|] eqn:Eo; [|discriminate]. inversion H; subst; clear H. simpl.
  assert (Hin: mem p (filter (timed_out now w) (w_selecting w)) = true).
  { apply mem_in. apply filter_In. split; [apply mem_in; exact Hs|exact Ht]. }
  split.
  - apply in_or_app. right. apply (order_by_all _ _ _ Eo). exact Hin.
  - destruct (mem p (filter (fun p0 => negb (mem p0 (filter (timed_out now w) (w_selecting w)))) (w_selecting w))) eqn:E; [|reflexivity].
    apply mem_in, filter_In in E. destruct E as (_&E). rewrite Hin in E. discriminate.
Qed.

