(* ProtoFifo.v — C04 per_sender_fifo on M-Sys (sys/Proto.v): for every source worker i and every
   target t, the messages worker i has sent to t are, AS A LIST (in sending order), exactly
   what has arrived at t's worker, followed by what waits in that worker's command queue,
   followed by what waits in worker i's event queue. For every schedule and every oracle. *)
From Quiver Require Import sys.Proto sys.ProtoMsg.

Definition fw (i : wid) (l : list (pid * msg)) : list (pid * msg) := filter (fun x => m_w (snd x) =? i) l.
Definition ft (t : pid) (l : list (pid * msg)) : list (pid * msg) := filter (fun x => fst x =? t) l.
Definition link (i : wid) (t : pid) (l : list (pid * msg)) := fw i (ft t l).

Lemma ft_app t a b : ft t (a ++ b) = ft t a ++ ft t b. Proof. apply filter_app. Qed.
Lemma fw_app i a b : fw i (a ++ b) = fw i a ++ fw i b. Proof. apply filter_app. Qed.
Lemma link_app i t a b : link i t (a ++ b) = link i t a ++ link i t b.
Proof. unfold link. rewrite ft_app, fw_app. reflexivity. Qed.

Lemma fw_all i l : Forall (fun x => m_w (snd x) = i) l -> fw i l = l.
Proof.
  induction l as [|a l IH]; intros H; simpl; [reflexivity|]. inversion H; subst.
  rewrite Nat.eqb_refl. f_equal. apply IH. assumption.
Qed.
Lemma fw_none i j l : i <> j -> Forall (fun x => m_w (snd x) = j) l -> fw i l = [].
Proof.
  intros Hij. induction l as [|a l IH]; intros H; simpl; [reflexivity|]. inversion H; subst.
  destruct (m_w (snd a) =? i) eqn:E; [apply Nat.eqb_eq in E; congruence|]. apply IH. assumption.
Qed.
Lemma Forall_ft {P : pid * msg -> Prop} t l : Forall P l -> Forall P (ft t l).
Proof. intros H. apply Forall_forall. intros x Hx. apply filter_In in Hx. rewrite Forall_forall in H. apply H, Hx. Qed.
Lemma link_all i t l : Forall (fun x => m_w (snd x) = i) l -> link i t l = ft t l.
Proof. intros H. unfold link. apply fw_all. apply Forall_ft. exact H. Qed.
Lemma link_none i j t l : i <> j -> Forall (fun x => m_w (snd x) = j) l -> link i t l = [].
Proof. intros Hij H. unfold link. eapply fw_none; [exact Hij|]. apply Forall_ft. exact H. Qed.
Lemma ft_nil_app t a b : ft t (a ++ b) = [] -> ft t a = [] /\ ft t b = [].
Proof. rewrite ft_app. apply app_eq_nil. Qed.
Lemma link_of_ft_nil i t l : ft t l = [] -> link i t l = [].
Proof. intros H. unfold link. rewrite H. reflexivity. Qed.

(* what the invariant sees of a node *)
Definition view (nd : node) := (n_w nd, delivs (n_cmd nd), n_evt nd).

Definition Jpart (e : env) (ns : list node) (i : wid) (t : pid) : list (pid * msg) :=
  match alookup t (e_router e) with
  | Some j => match nth_error ns j with
              | Some ndj => link i t (w_arrlog (n_w ndj)) ++ link i t (delivs (n_cmd ndj))
              | None => []
              end
  | None => []
  end.

Definition GInv (e : env) (ns : list node) (evs : list event) : Prop :=
  (forall p w, alookup p (e_router e) = Some w -> p < e_next e /\ w < length ns) /\
  (forall n nd t, nth_error ns n = Some nd -> alookup t (e_router e) <> Some n ->
      ft t (delivs (n_cmd nd)) = [] /\ ft t (w_arrlog (n_w nd)) = []) /\
  (forall n nd, nth_error ns n = Some nd ->
      Forall (fun x => m_w (snd x) = n) (w_sentlog (n_w nd)) /\ Forall (fun x => m_w (snd x) = n) (edelivs (n_evt nd))) /\
  (forall i ndi t, nth_error ns i = Some ndi ->
      ft t (w_sentlog (n_w ndi)) = Jpart e ns i t ++ link i t (edelivs evs) ++ ft t (edelivs (n_evt ndi))).

(* GInv depends on the nodes only through their views *)
Lemma nth_view ns ns' : map view ns = map view ns' ->
  forall n nd', nth_error ns' n = Some nd' -> exists nd, nth_error ns n = Some nd /\ view nd = view nd'.
Proof.
  intros H n nd' Hn.
  assert (Hm: nth_error (map view ns') n = Some (view nd')) by (rewrite nth_error_map, Hn; reflexivity).
  rewrite <- H, nth_error_map in Hm. destruct (nth_error ns n) as [nd|]; [|discriminate].
  exists nd. split; [reflexivity|]. simpl in Hm. congruence.
Qed.

Lemma Jpart_view e ns ns' i t : map view ns = map view ns' -> Jpart e ns' i t = Jpart e ns i t.
Proof.
  intros H. unfold Jpart. destruct (alookup t (e_router e)) as [j|]; [|reflexivity].
  assert (Hm: nth_error (map view ns) j = nth_error (map view ns') j) by (rewrite H; reflexivity).
  rewrite !nth_error_map in Hm.
  destruct (nth_error ns j) as [a|], (nth_error ns' j) as [b|]; simpl in Hm; try discriminate; [|reflexivity].
  unfold view in Hm. injection Hm as Hv1 Hv2 Hv3. rewrite Hv1, Hv2. reflexivity.
Qed.

Lemma GInv_view e ns ns' evs : map view ns = map view ns' -> GInv e ns evs -> GInv e ns' evs.
Proof.
  intros H (B&D&S&Q).
  assert (L: length ns' = length ns) by (rewrite <- (map_length view ns'), <- H, map_length; reflexivity).
  split; [|split; [|split]].
  - intros p w Hp. rewrite L. apply (B p w Hp).
  - intros n nd' t Hn Hr. destruct (nth_view _ _ H _ _ Hn) as (nd0&Hn0&Hv). unfold view in Hv. injection Hv as Hv1 Hv2 Hv3.
    rewrite <- Hv1, <- Hv2. apply (D n nd0 t Hn0 Hr).
  - intros n nd' Hn. destruct (nth_view _ _ H _ _ Hn) as (nd0&Hn0&Hv). unfold view in Hv. injection Hv as Hv1 Hv2 Hv3.
    rewrite <- Hv1, <- Hv3. apply (S n nd0 Hn0).
  - intros i ndi t Hi. destruct (nth_view _ _ H _ _ Hi) as (nd0&Hn&Hv). unfold view in Hv. injection Hv as Hv1 Hv2 Hv3.
    rewrite (Jpart_view e ns ns' i t H). rewrite <- Hv1, <- Hv3. apply (Q i nd0 t Hn).
Qed.

Lemma view_push_nodeliv w c ns : deliv c = [] -> map view (push_cmd w c ns) = map view ns.
Proof.
  intros Hc. unfold push_cmd. revert w. induction ns as [|a ns IH]; intros [|w]; simpl; auto.
  - f_equal. unfold view. simpl. rewrite delivs_app. simpl. rewrite Hc. rewrite app_nil_r. reflexivity.
  - f_equal. apply IH.
Qed.
Lemma view_fold_push {A} (mk : A -> cmd) (wof : A -> wid) l : (forall a, deliv (mk a) = []) -> forall ns,
  map view (fold_left (fun ns a => push_cmd (wof a) (mk a) ns) l ns) = map view ns.
Proof.
  intros Hmk. induction l as [|a l IH]; intros ns; simpl; [reflexivity|].
  rewrite IH. apply view_push_nodeliv. apply Hmk.
Qed.

Lemma nth_error_push w c ns k :
  nth_error (push_cmd w c ns) k =
  match nth_error ns k with
  | Some nd => Some (if k =? w then {| n_w := n_w nd; n_cmd := n_cmd nd ++ [c]; n_evt := n_evt nd |} else nd)
  | None => None
  end.
Proof.
  unfold push_cmd. revert w k. induction ns as [|a ns IH]; intros [|w] [|k]; simpl; auto;
    try (destruct (nth_error ns k); reflexivity); try (rewrite IH; destruct (nth_error ns k); reflexivity).
Qed.

(* a fresh router entry does not disturb the invariant *)
Lemma GInv_route e ns evs w :
  w < length ns -> GInv e ns evs ->
  GInv {| e_router := aset (e_next e) w (e_router e); e_next := S (e_next e); e_pending := e_pending e |} ns evs.
Proof.
  intros Hw (B&D&S&Q).
  assert (Hfresh: alookup (e_next e) (e_router e) = None).
  { destruct (alookup (e_next e) (e_router e)) eqn:E; [|reflexivity]. apply B in E. lia. }
  split; [|split; [|split]].
  - intros p w0 Hp. simpl in Hp. rewrite alookup_aset in Hp. destruct (p =? e_next e) eqn:E.
    + apply Nat.eqb_eq in E. subst. inversion Hp; subst. simpl. split; [lia|exact Hw].
    + apply B in Hp. simpl. split; [lia|apply Hp].
  - intros n nd t Hn Hr. simpl in Hr. rewrite alookup_aset in Hr. destruct (t =? e_next e) eqn:E.
    + apply Nat.eqb_eq in E. subst t. apply (D n nd (e_next e) Hn). rewrite Hfresh. discriminate.
    + apply (D n nd t Hn Hr).
  - exact S.
  - intros i ndi t Hi. rewrite (Q i ndi t Hi). f_equal.
    unfold Jpart. simpl. rewrite alookup_aset. destruct (t =? e_next e) eqn:E; [|reflexivity].
    apply Nat.eqb_eq in E. subst t. rewrite Hfresh.
    destruct (nth_error ns w) as [ndw|] eqn:Ew; [|reflexivity].
    destruct (D w ndw (e_next e) Ew) as (D1&D2); [rewrite Hfresh; discriminate|].
    rewrite (link_of_ft_nil _ _ _ D1), (link_of_ft_nil _ _ _ D2). reflexivity.
Qed.

Lemma link_one_neq i t t0 m : t0 <> t -> link i t [(t0, m)] = [].
Proof. intros H. unfold link. simpl. apply Nat.eqb_neq in H. rewrite H. reflexivity. Qed.

Lemma push_length w c ns : length (push_cmd w c ns) = length ns.
Proof. apply push_cmd_length. Qed.

(* handling one DeliverAction: the message moves from the head of the pending events to the tail of
   its target worker's command queue *)
Lemma GInv_deliver e ns evs t0 m j :
  alookup t0 (e_router e) = Some j ->
  GInv e ns (EDeliverA t0 m :: evs) -> GInv e (push_cmd j (CDeliver t0 m) ns) evs.
Proof.
  intros Hr (B&D&S&Q). split; [|split; [|split]].
  - intros p w Hp. rewrite push_length. apply (B p w Hp).
  - intros n nd t Hn Hrt. rewrite nth_error_push in Hn. destruct (nth_error ns n) as [nd0|] eqn:En; [|discriminate].
    inversion Hn; subst nd; clear Hn. destruct (D n nd0 t En Hrt) as (D1&D2).
    destruct (n =? j) eqn:E; simpl; [|split; assumption].
    apply Nat.eqb_eq in E. subst n. split; [|exact D2]. rewrite delivs_app, ft_app, D1. simpl.
    destruct (t0 =? t) eqn:Et; [|reflexivity]. apply Nat.eqb_eq in Et. subst t0. exfalso. apply Hrt. exact Hr.
  - intros n nd Hn. rewrite nth_error_push in Hn. destruct (nth_error ns n) as [nd0|] eqn:En; [|discriminate].
    inversion Hn; subst nd; clear Hn. destruct (n =? j); simpl; apply (S n nd0 En).
  - intros i ndi t Hi. rewrite nth_error_push in Hi. destruct (nth_error ns i) as [nd0|] eqn:En; [|discriminate].
    assert (Hs: w_sentlog (n_w ndi) = w_sentlog (n_w nd0) /\ n_evt ndi = n_evt nd0).
    { inversion Hi; subst ndi. destruct (i =? j); simpl; split; reflexivity. }
    destruct Hs as (Hs1&Hs2). rewrite Hs1, Hs2. rewrite (Q i nd0 t En). clear Hs1 Hs2 Hi.
    change (edelivs (EDeliverA t0 m :: evs)) with ([(t0, m)] ++ edelivs evs). rewrite link_app.
    assert (HJ: Jpart e (push_cmd j (CDeliver t0 m) ns) i t = Jpart e ns i t ++ link i t [(t0, m)]).
    { unfold Jpart. destruct (alookup t (e_router e)) as [jt|] eqn:Ert.
      - rewrite nth_error_push. destruct (nth_error ns jt) as [ndj|] eqn:Ej.
        + destruct (jt =? j) eqn:Ejj; simpl.
          * rewrite delivs_app, link_app. simpl. rewrite app_assoc. reflexivity.
          * rewrite link_one_neq, app_nil_r; [reflexivity|].
            intros ->. rewrite Hr in Ert. inversion Ert; subst. rewrite Nat.eqb_refl in Ejj. discriminate.
        + destruct (B t jt Ert) as (_&Hlt). apply nth_error_None in Ej. lia.
      - rewrite link_one_neq; [reflexivity|]. intros ->. congruence. }
    rewrite HJ. rewrite <- !app_assoc. reflexivity.
Qed.

Lemma GInv_skip e ns ev evs : edeliv ev = [] -> GInv e ns (ev :: evs) -> GInv e ns evs.
Proof.
  intros He (B&D&S&Q). split; [exact B|split; [exact D|split; [exact S|]]].
  intros i ndi t Hi. rewrite (Q i ndi t Hi). simpl. rewrite He. reflexivity.
Qed.

Lemma GInv_pending e ns evs pend :
  GInv e ns evs -> GInv {| e_router := e_router e; e_next := e_next e; e_pending := pend |} ns evs.
Proof. intros H. exact H. Qed.

(* Environment::handle_event preserves the invariant, consuming the head of the pending events *)
Lemma handle_event_GInv nw ev evs e ns e' ns' :
  0 < nw -> length ns = nw ->
  handle_event nw ev (e, ns) = Good (e', ns') ->
  GInv e ns (ev :: evs) -> GInv e' ns' evs /\ length ns' = nw.
Proof.
  intros Hnw Hlen H G. destruct ev; unfold handle_event in H; cbn -[Nat.modulo nodup] in H.
  - (* spawn *)
    revert H. match goal with |- context [@alookup ?A caller ?l] => destruct (@alookup A caller l) as [cw|] end; intros H; [|discriminate].
    inversion H; subst e' ns'; clear H. split; [|rewrite !push_cmd_length; exact Hlen].
    apply (GInv_view _ ns).
    + rewrite !view_push_nodeliv by reflexivity. reflexivity.
    + apply GInv_route; [rewrite Hlen; apply Nat.mod_upper_bound; lia|]. eapply GInv_skip; [|exact G]. reflexivity.
  - (* deliver *)
    destruct (alookup target (e_router e)) as [w|] eqn:Ew; [|discriminate].
    inversion H; subst e' ns'; clear H. split; [|rewrite push_cmd_length; exact Hlen].
    apply GInv_deliver; assumption.
  - (* await *)
    revert H. match goal with |- context [forallb ?f targets] => destruct (forallb f targets) end; intros H; [|discriminate].
    inversion H; subst e' ns'; clear H.
    set (wof := fun t => match alookup t (e_router e) with Some w => w | None => 0 end).
    split.
    + apply (GInv_view _ ns).
      * symmetry. apply (view_fold_push (fun w => CQuery awaiter (filter (fun t => wof t =? w) targets)) (fun w => w)). reflexivity.
      * apply GInv_pending. eapply GInv_skip; [|exact G]. reflexivity.
    + rewrite (fold_push_length (fun w => CQuery awaiter (filter (fun t => wof t =? w) targets)) (fun w => w)). exact Hlen.
  - (* results *)
    assert (G0: GInv e ns evs) by (eapply GInv_skip; [|exact G]; reflexivity).
    destruct (alookup awaiter (e_pending e)) as [pa|].
    + destruct (match results with [] => None | (t, _) :: _ => alookup t (e_router e) end) as [w|].
      * destruct (sremove w (pa_expected pa)).
        -- destruct (alookup awaiter (e_router e)) as [aw|]; [|discriminate]. inversion H; subst e' ns'; clear H.
           split; [|rewrite push_cmd_length; exact Hlen].
           apply (GInv_view _ ns); [rewrite view_push_nodeliv by reflexivity; reflexivity|apply GInv_pending; exact G0].
        -- inversion H; subst e' ns'; clear H. split; [apply GInv_pending; exact G0|exact Hlen].
      * inversion H; subst e' ns'; clear H. split; [exact G0|exact Hlen].
    + destruct (alookup awaiter (e_router e)) as [aw|]; [|discriminate]. inversion H; subst e' ns'; clear H.
      split; [|rewrite push_cmd_length; exact Hlen].
      apply (GInv_view _ ns); [rewrite view_push_nodeliv by reflexivity; reflexivity|exact G0].
  - inversion H; subst e' ns'. split; [eapply GInv_skip; [|exact G]; reflexivity|exact Hlen].
  - inversion H; subst e' ns'. split; [eapply GInv_skip; [|exact G]; reflexivity|exact Hlen].
Qed.

Lemma handle_events_GInv nw evs : forall e ns e' ns',
  0 < nw -> length ns = nw ->
  handle_events nw evs (e, ns) = Good (e', ns') ->
  GInv e ns evs -> GInv e' ns' [] /\ length ns' = nw.
Proof.
  induction evs as [|ev evs IH]; intros e ns e' ns' Hnw Hlen H G; cbn [handle_events] in H.
  - inversion H; subst e' ns'. split; [exact G|exact Hlen].
  - destruct (handle_event nw ev (e, ns)) as [[e1 ns1]|] eqn:E1; cbn [rbind] in H; [|discriminate].
    destruct (handle_event_GInv nw ev evs e ns e1 ns1 Hnw Hlen E1 G) as (G1&L1).
    eapply IH; eassumption.
Qed.

(* ------------------------------------------------------------------ the collect phase *)
Lemma fw_nil_forall i l : Forall (fun x => m_w (snd x) <> i) l -> fw i l = [].
Proof.
  induction l as [|a l IH]; intros H; simpl; [reflexivity|]. inversion H; subst.
  destruct (m_w (snd a) =? i) eqn:E; [apply Nat.eqb_eq in E; contradiction|]. apply IH. assumption.
Qed.
Lemma filter_comm {A} (f g : A -> bool) l : filter f (filter g l) = filter g (filter f l).
Proof.
  induction l as [|a l IH]; simpl; [reflexivity|].
  destruct (g a) eqn:Eg; destruct (f a) eqn:Ef; simpl; rewrite ?Eg, ?Ef, ?IH; reflexivity.
Qed.
Lemma ft_fw_comm i t l : ft t (fw i l) = fw i (ft t l).
Proof. unfold ft, fw. apply filter_comm. Qed.

Lemma collect_spec : forall ns ks b evs ns',
  (forall k nd, nth_error ns k = Some nd -> Forall (fun x => m_w (snd x) = b + k) (edelivs (n_evt nd))) ->
  collect ks ns = (evs, ns') ->
  length ns' = length ns /\
  Forall (fun x => b <= m_w (snd x) < b + length ns) (edelivs evs) /\
  (forall k nd, nth_error ns k = Some nd -> exists nd', nth_error ns' k = Some nd' /\ n_w nd' = n_w nd /\ n_cmd nd' = n_cmd nd /\
       edelivs (n_evt nd) = fw (b + k) (edelivs evs) ++ edelivs (n_evt nd') /\
       Forall (fun x => m_w (snd x) = b + k) (edelivs (n_evt nd'))).
Proof.
  induction ns as [|nd ns IH]; intros ks b evs ns' Hst Hc; simpl in Hc.
  - inversion Hc; subst. simpl. repeat split; [constructor|]. intros k nd H. destruct k; discriminate.
  - set (k0 := match ks with [] => None | k1 :: _ => Some k1 end) in Hc.
    pose proof (split_at_app k0 (n_evt nd)) as Hs.
    destruct (split_at k0 (n_evt nd)) as [now_evs later]. simpl in Hs.
    destruct (collect (tl ks) ns) as [evs_t ns_t] eqn:Ec. inversion Hc; subst evs ns'; clear Hc.
    destruct (IH (tl ks) (S b) evs_t ns_t) as (L&R&N); [|exact Ec|].
    { intros k nd0 Hk. replace (S b + k) with (b + S k) by lia. apply (Hst (S k) nd0 Hk). }
    pose proof (Hst 0 nd eq_refl) as H0. rewrite Nat.add_0_r in H0.
    rewrite <- Hs, edelivs_app in H0. apply Forall_app in H0. destruct H0 as (Hnow&Hlater).
    split; [simpl; rewrite L; reflexivity|]. split.
    + rewrite edelivs_app. apply Forall_app. split.
      * eapply Forall_impl; [|exact Hnow]. intros x Hx. simpl in *. lia.
      * eapply Forall_impl; [|exact R]. intros x Hx. simpl in *. lia.
    + intros k nd0 Hk. destruct k as [|k]; simpl in Hk.
      * inversion Hk; subst nd0. eexists. split; [reflexivity|]. simpl. repeat split.
        -- rewrite Nat.add_0_r, edelivs_app, fw_app, (fw_all b _ Hnow).
           rewrite (fw_nil_forall b (edelivs evs_t)), app_nil_r, <- edelivs_app, Hs; [reflexivity|].
           eapply Forall_impl; [|exact R]. intros x Hx. simpl in *. lia.
        -- rewrite Nat.add_0_r. exact Hlater.
      * destruct (N k nd0 Hk) as (nd'&A1&A2&A3&A4&A5). exists nd'. simpl. repeat split; try assumption.
        -- replace (b + S k) with (S b + k) by lia. rewrite edelivs_app, fw_app.
           rewrite (fw_nil_forall (S b + k) (edelivs now_evs)); [exact A4|].
           eapply Forall_impl; [|exact Hnow]. intros x Hx. simpl in *. lia.
        -- replace (b + S k) with (S b + k) by lia. exact A5.
Qed.

Lemma Jpart_same e ns ns' i t :
  (forall j ndj, nth_error ns j = Some ndj -> exists ndj', nth_error ns' j = Some ndj' /\ n_w ndj' = n_w ndj /\ n_cmd ndj' = n_cmd ndj) ->
  length ns' = length ns -> Jpart e ns' i t = Jpart e ns i t.
Proof.
  intros H L. unfold Jpart. destruct (alookup t (e_router e)) as [j|]; [|reflexivity].
  destruct (nth_error ns j) as [ndj|] eqn:Ej.
  - destruct (H j ndj Ej) as (ndj'&A&B&C). rewrite A, B, C. reflexivity.
  - apply nth_error_None in Ej. rewrite <- L in Ej. apply nth_error_None in Ej. rewrite Ej. reflexivity.
Qed.

Lemma collect_GInv e ns ks evs ns' :
  GInv e ns [] -> collect ks ns = (evs, ns') -> GInv e ns' evs /\ length ns' = length ns.
Proof.
  intros (B&D&S&Q) Hc.
  destruct (collect_spec ns ks 0 evs ns') as (L&R&N); [intros k nd Hk; apply (S k nd Hk)|exact Hc|].
  assert (Back: forall k nd', nth_error ns' k = Some nd' -> exists nd, nth_error ns k = Some nd /\ n_w nd' = n_w nd /\ n_cmd nd' = n_cmd nd /\
              edelivs (n_evt nd) = fw k (edelivs evs) ++ edelivs (n_evt nd') /\ Forall (fun x => m_w (snd x) = k) (edelivs (n_evt nd'))).
  { intros k nd' Hk. destruct (nth_error ns k) as [nd|] eqn:Ek.
    - destruct (N k nd Ek) as (nd2&A1&A2&A3&A4&A5). rewrite Hk in A1. inversion A1; subst nd2. exists nd. repeat split; assumption.
    - apply nth_error_None in Ek. rewrite <- L in Ek. apply nth_error_None in Ek. congruence. }
  split; [|exact L]. split; [|split; [|split]].
  - intros p w Hp. rewrite L. apply (B p w Hp).
  - intros n nd' t Hn Hr. destruct (Back n nd' Hn) as (nd&Hk&A2&A3&_&_). rewrite A2, A3. apply (D n nd t Hk Hr).
  - intros n nd' Hn. destruct (Back n nd' Hn) as (nd&Hk&A2&_&_&A5). rewrite A2. split; [apply (S n nd Hk)|exact A5].
  - intros i ndi t Hi. destruct (Back i ndi Hi) as (nd&Hk&A2&A3&A4&A5).
    rewrite A2, (Q i nd t Hk), A4. simpl.
    rewrite (Jpart_same e ns ns' i t); [|intros j ndj Hj; destruct (N j ndj Hj) as (x&X1&X2&X3&_); exists x; auto|exact L].
    rewrite ft_app, ft_fw_comm. reflexivity.
Qed.

(* ------------------------------------------------------------------ a worker step *)
Lemma nth_error_update_same {A} (l : list A) n a a' : nth_error l n = Some a -> nth_error (update_nth n (fun _ => a') l) n = Some a'.
Proof.
  revert n. induction l as [|b l IH]; intros [|n] H; simpl in *; try discriminate; [reflexivity|apply IH; exact H].
Qed.
Lemma nth_error_update_other {A} (l : list A) n k (f : A -> A) : k <> n -> nth_error (update_nth n f l) k = nth_error l k.
Proof.
  revert n k. induction l as [|b l IH]; intros [|n] [|k] H; simpl; auto; try congruence.
Qed.

Lemma worker_step_GInv e ns n nd nd' i0 now k o :
  nth_error ns n = Some nd -> node_step i0 now k o nd = Good nd' -> i0 = n ->
  GInv e ns [] -> GInv e (update_nth n (fun _ => nd') ns) [].
Proof.
  intros Hn Hs -> (B&D&S&Q).
  destruct (node_step_ghost _ _ _ _ _ _ Hs) as (pre&new&C1&C2&C3&C4&Hnew).
  assert (Hstamp: Forall (fun x => m_w (snd x) = n) new).
  { destruct Hnew as [(->&_)|(t&p&->&_)]; repeat constructor. }
  assert (Look: forall k0 x, nth_error (update_nth n (fun _ => nd') ns) k0 = Some x ->
                 (k0 = n /\ x = nd') \/ (k0 <> n /\ nth_error ns k0 = Some x)).
  { intros k0 x Hx. destruct (Nat.eq_dec k0 n) as [->|Hne].
    - rewrite (nth_error_update_same _ _ _ _ Hn) in Hx. inversion Hx. left; auto.
    - rewrite nth_error_update_other in Hx by exact Hne. right; auto. }
  assert (HJ: forall i t, Jpart e (update_nth n (fun _ => nd') ns) i t = Jpart e ns i t).
  { intros i t. unfold Jpart. destruct (alookup t (e_router e)) as [j|]; [|reflexivity].
    destruct (Nat.eq_dec j n) as [->|Hne].
    - rewrite (nth_error_update_same _ _ _ _ Hn), Hn. rewrite C2, C1, delivs_app, !link_app, <- app_assoc. reflexivity.
    - rewrite nth_error_update_other by exact Hne. reflexivity. }
  split; [|split; [|split]].
  - intros p w Hp. rewrite update_nth_length. apply (B p w Hp).
  - intros k0 x t Hx Hr. destruct (Look k0 x Hx) as [(->&->)|(Hne&Hk)]; [|apply (D k0 x t Hk Hr)].
    destruct (D n nd t Hn Hr) as (D1&D2). rewrite C1, delivs_app in D1. apply ft_nil_app in D1. destruct D1 as (D1a&D1b).
    split; [exact D1b|]. rewrite C2, ft_app, D2, D1a. reflexivity.
  - intros k0 x Hx. destruct (Look k0 x Hx) as [(->&->)|(Hne&Hk)]; [|apply (S k0 x Hk)].
    destruct (S n nd Hn) as (S1&S2). rewrite C4, C3. split; apply Forall_app; split; assumption.
  - intros i x t Hx. rewrite HJ. destruct (Look i x Hx) as [(->&->)|(Hne&Hk)]; [|apply (Q i x t Hk)].
    rewrite C4, C3, !ft_app, (Q n nd t Hn). simpl. rewrite <- !app_assoc. reflexivity.
Qed.

(* ------------------------------------------------------------------ the system invariant *)
Definition fifo_inv (s : sys) : Prop := 0 < length (s_nodes s) /\ GInv (s_env s) (s_nodes s) [].

Lemma fifo_init nw : 0 < nw -> fifo_inv (init nw).
Proof.
  intros H. unfold fifo_inv, init. simpl. rewrite repeat_length. split; [exact H|].
  assert (Hn: forall k nd, nth_error (repeat {| n_w := new_worker; n_cmd := []; n_evt := [] |} nw) k = Some nd ->
               nd = {| n_w := new_worker; n_cmd := []; n_evt := [] |}).
  { intros k nd Hk. apply nth_error_In, repeat_spec in Hk. exact Hk. }
  split; [|split; [|split]].
  - intros p w Hp. discriminate.
  - intros n nd t Hk _. rewrite (Hn _ _ Hk). split; reflexivity.
  - intros n nd Hk. rewrite (Hn _ _ Hk). split; constructor.
  - intros i ndi t Hk. rewrite (Hn _ _ Hk). unfold Jpart. reflexivity.
Qed.

Lemma fifo_step s a s' : fifo_inv s -> sys_step s a = Good s' -> fifo_inv s'.
Proof.
  intros (Hn&G) H. destruct a as [i k o|ks|d|c]; simpl in H.
  - destruct (nth_error (s_nodes s) i) as [nd|] eqn:Ei.
    + destruct (node_step i (s_clock s) k o nd) as [nd'|] eqn:Es; cbn [rbind] in H; [|discriminate].
      inversion H; subst s'; clear H. split; simpl; [rewrite update_nth_length; exact Hn|].
      eapply worker_step_GInv; try eassumption. reflexivity.
    + inversion H; subst. split; assumption.
  - destruct (collect ks (s_nodes s)) as [evs ns] eqn:Ec.
    destruct (handle_events (length (s_nodes s)) evs (s_env s, ns)) as [[e' ns']|] eqn:Eh; cbn [rbind] in H; [|discriminate].
    inversion H; subst s'; clear H. simpl.
    destruct (collect_GInv _ _ _ _ _ G Ec) as (G1&L1).
    destruct (handle_events_GInv _ _ _ _ _ _ Hn L1 Eh G1) as (G2&L2).
    split; simpl; [rewrite L2; exact Hn|exact G2].
  - inversion H; subst s'. split; assumption.
  - unfold client_step in H. destruct c.
    + inversion H; subst s'; clear H. split; cbn -[Nat.modulo]; [rewrite push_cmd_length; exact Hn|].
      apply (GInv_view _ (s_nodes s)); [rewrite view_push_nodeliv by reflexivity; reflexivity|].
      apply GInv_route; [apply Nat.mod_upper_bound; lia|exact G].
    + inversion H; subst s'; clear H. split; simpl; [rewrite push_cmd_length; exact Hn|].
      apply (GInv_view _ (s_nodes s)); [rewrite view_push_nodeliv by reflexivity; reflexivity|exact G].
    + inversion H; subst s'; clear H. split; simpl; [rewrite push_cmd_length; exact Hn|].
      apply (GInv_view _ (s_nodes s)); [rewrite view_push_nodeliv by reflexivity; reflexivity|exact G].
    + destruct (alookup p (e_router (s_env s))); inversion H; subst s'; clear H; [|split; assumption].
      split; simpl; [rewrite push_cmd_length; exact Hn|].
      apply (GInv_view _ (s_nodes s)); [rewrite view_push_nodeliv by reflexivity; reflexivity|exact G].
    + destruct (alookup p (e_router (s_env s))); inversion H; subst s'; clear H; [|split; assumption].
      split; simpl; [rewrite push_cmd_length; exact Hn|].
      apply (GInv_view _ (s_nodes s)); [rewrite view_push_nodeliv by reflexivity; reflexivity|exact G].
Qed.

Lemma fifo_run sigma : forall s s', fifo_inv s -> run s sigma = Good s' -> fifo_inv s'.
Proof.
  induction sigma as [|a sigma IH]; intros s s' Hc H; simpl in H.
  - inversion H; subst. exact Hc.
  - destruct (sys_step s a) as [s1|] eqn:E; cbn [rbind] in H; [|discriminate].
    eapply IH; [eapply fifo_step; eassumption|exact H].
Qed.

(* C04 per_sender_fifo. For every schedule and every oracle, for every source worker i and target t
   routed to worker j: the list of messages worker i has sent to t (in sending order) IS the list
   of those that arrived at worker j for t, followed by those in worker j's command queue, followed
   by those in worker i's event queue — each in order. Exactly-once and FIFO on the whole link. *)
Theorem per_link_fifo : forall nw sigma s,
  0 < nw -> run (init nw) sigma = Good s ->
  forall i ndi t j ndj,
    nth_error (s_nodes s) i = Some ndi -> alookup t (e_router (s_env s)) = Some j -> nth_error (s_nodes s) j = Some ndj ->
    ft t (w_sentlog (n_w ndi)) =
    link i t (w_arrlog (n_w ndj)) ++ link i t (delivs (n_cmd ndj)) ++ ft t (edelivs (n_evt ndi)).
Proof.
  intros nw sigma s Hnw H i ndi t j ndj Hi Hr Hj.
  destruct (fifo_run sigma _ _ (fifo_init nw Hnw) H) as (_&(_&_&_&Q)).
  rewrite (Q i ndi t Hi). unfold Jpart. rewrite Hr, Hj. simpl. rewrite <- app_assoc. reflexivity.
Qed.

(* restricted to one sender process p: what has arrived from p is a PREFIX of what p sent, in p's
   sending order *)
Definition from (p : pid) (l : list (pid * msg)) := filter (fun x => m_from (snd x) =? p) l.

Theorem per_sender_fifo : forall nw sigma s,
  0 < nw -> run (init nw) sigma = Good s ->
  forall i ndi t j ndj p,
    nth_error (s_nodes s) i = Some ndi -> alookup t (e_router (s_env s)) = Some j -> nth_error (s_nodes s) j = Some ndj ->
    exists in_flight,
      from p (ft t (w_sentlog (n_w ndi))) = from p (link i t (w_arrlog (n_w ndj))) ++ in_flight.
Proof.
  intros nw sigma s Hnw H i ndi t j ndj p Hi Hr Hj.
  rewrite (per_link_fifo nw sigma s Hnw H i ndi t j ndj Hi Hr Hj).
  unfold from. rewrite filter_app. eexists. reflexivity.
Qed.

(* C03 single_sender_mailbox_order: if everything that arrived for t was stamped by one worker i
   (one sender per mailbox), the arrival sequence of t is a prefix of that worker's send sequence to
   t — a function of the sender's behaviour alone, whatever the schedule *)
Theorem single_sender_mailbox_order : forall nw sigma s,
  0 < nw -> run (init nw) sigma = Good s ->
  forall i ndi t j ndj,
    nth_error (s_nodes s) i = Some ndi -> alookup t (e_router (s_env s)) = Some j -> nth_error (s_nodes s) j = Some ndj ->
    Forall (fun x => m_w (snd x) = i) (ft t (w_arrlog (n_w ndj))) ->
    exists in_flight, ft t (w_sentlog (n_w ndi)) = ft t (w_arrlog (n_w ndj)) ++ in_flight.
Proof.
  intros nw sigma s Hnw H i ndi t j ndj Hi Hr Hj Hone.
  rewrite (per_link_fifo nw sigma s Hnw H i ndi t j ndj Hi Hr Hj).
  unfold link at 1. rewrite (fw_all i _ Hone). eexists. reflexivity.
Qed.
