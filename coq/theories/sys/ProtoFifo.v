(* ProtoFifo.v — C04 per_sender_fifo on M-Sys (sys/Proto.v): for every source worker i and every
   target t, the messages worker i has sent to t are, AS A LIST (in sending order), exactly
   what has arrived at t's worker, followed by what waits in that worker's command queue,
   followed by what waits in worker i's event queue. For every schedule and every oracle. *)
From Quiver Require Import sys.Proto sys.ProtoMsg.

Definition fw (i : wid) (l : list (pid * msg)) : list (pid * msg) := filter (fun x => m_w (snd x) =? i) l.
Definition ft (t : pid) (l : list (pid * msg)) : list (pid * msg) := filter (fun x => fst x =? t) l.
Definition link (i : wid) (t : pid) (l : list (pid * msg)) := fw i (ft t l).

Lemma ft_app t a b : ft t (a ++ b) = ft t a ++ ft t b. Proof. apply filter_app. Qed.
Lemma fw_app i a b : fw i (a ++ b) = fw i a ++ fw i b. Proof. apply filter_app. Qed.
Lemma link_app i t a b : link i t (a ++ b) = link i t a ++ link i t b.
Proof. unfold link. rewrite ft_app, fw_app. reflexivity. Qed.

Lemma fw_all i l : Forall (fun x => m_w (snd x) = i) l -> fw i l = l.
Proof.
  induction l as [|a l IH]; intros H; simpl; [reflexivity|]. inversion H; subst.
  rewrite Nat.eqb_refl. f_equal. apply IH. assumption.
Qed.
Lemma fw_none i j l : i <> j -> Forall (fun x => m_w (snd x) = j) l -> fw i l = [].
Proof.
  intros Hij. induction l as [|a l IH]; intros H; simpl; [reflexivity|]. inversion H; subst.
  destruct (m_w (snd a) =? i) eqn:E; [apply Nat.eqb_eq in E; congruence|]. apply IH. assumption.
Qed.
Lemma Forall_ft {P : pid * msg -> Prop} t l : Forall P l -> Forall P (ft t l).
Proof. intros H. apply Forall_forall. intros x Hx. apply filter_In in Hx. rewrite Forall_forall in H. apply H, Hx. Qed.
Lemma link_all i t l : Forall (fun x => m_w (snd x) = i) l -> link i t l = ft t l.
Proof. intros H. unfold link. apply fw_all. apply Forall_ft. exact H. Qed.
Lemma link_none i j t l : i <> j -> Forall (fun x => m_w (snd x) = j) l -> link i t l = [].
Proof. intros Hij H. unfold link. eapply fw_none; [exact Hij|]. apply Forall_ft. exact H. Qed.
Lemma ft_nil_app t a b : ft t (a ++ b) = [] -> ft t a = [] /\ ft t b = [].
Proof. rewrite ft_app. apply app_eq_nil. Qed.
Lemma link_of_ft_nil i t l : ft t l = [] -> link i t l = [].
Proof. intros H. unfold link. rewrite H. reflexivity. Qed.

(* what the invariant sees of a node *)
Definition view (nd : node) := (n_w nd, delivs (n_cmd nd), n_evt nd).

Definition Jpart (e : env) (ns : list node) (i : wid) (t : pid) : list (pid * msg) :=
  match alookup t (e_router e) with
  | Some j => match nth_error ns j with
              | Some ndj => link i t (w_arrlog (n_w ndj)) ++ link i t (delivs (n_cmd ndj))
              | None => []
              end
  | None => []
  end.

Definition GInv (e : env) (ns : list node) (evs : list event) : Prop :=
  (forall p w, alookup p (e_router e) = Some w -> p < e_next e /\ w < length ns) /\
  (forall n nd t, nth_error ns n = Some nd -> alookup t (e_router e) <> Some n ->
      ft t (delivs (n_cmd nd)) = [] /\ ft t (w_arrlog (n_w nd)) = []) /\
  (forall n nd, nth_error ns n = Some nd ->
      Forall (fun x => m_w (snd x) = n) (w_sentlog (n_w nd)) /\ Forall (fun x => m_w (snd x) = n) (edelivs (n_evt nd))) /\
  (forall i ndi t, nth_error ns i = Some ndi ->
      ft t (w_sentlog (n_w ndi)) = Jpart e ns i t ++ link i t (edelivs evs) ++ ft t (edelivs (n_evt ndi))).

(* GInv depends on the nodes only through their views *)
Lemma nth_view ns ns' : map view ns = map view ns' ->
  forall n nd', nth_error ns' n = Some nd' -> exists nd, nth_error ns n = Some nd /\ view nd = view nd'.
Proof.
  intros H n nd' Hn.
  assert (Hm: nth_error (map view ns') n = Some (view nd')) by (rewrite nth_error_map, Hn; reflexivity).
  rewrite <- H, nth_error_map in Hm. destruct (nth_error ns n) as [nd|]; [|discriminate].
  exists nd. split; [reflexivity|]. simpl in Hm. congruence.
Qed.

Lemma Jpart_view e ns ns' i t : map view ns = map view ns' -> Jpart e ns' i t = Jpart e ns i t.
Proof.
  intros H. unfold Jpart. destruct (alookup t (e_router e)) as [j|]; [|reflexivity].
  assert (Hm: nth_error (map view ns) j = nth_error (map view ns') j) by (rewrite H; reflexivity).
  rewrite !nth_error_map in Hm.
  destruct (nth_error ns j) as [a|], (nth_error ns' j) as [b|]; simpl in Hm; try discriminate; [|reflexivity].
  unfold view in Hm. injection Hm as Hv1 Hv2 Hv3. rewrite Hv1, Hv2. reflexivity.
Qed.

Lemma GInv_view e ns ns' evs : map view ns = map view ns' -> GInv e ns evs -> GInv e ns' evs.
Proof.
  intros H (B&D&S&Q).
  assert (L: length ns' = length ns) by (rewrite <- (map_length view ns'), <- H, map_length; reflexivity).
  split; [|split; [|split]].
  - intros p w Hp. rewrite L. apply (B p w Hp).
  - intros n nd' t Hn Hr. destruct (nth_view _ _ H _ _ Hn) as (nd0&Hn0&Hv). unfold view in Hv. injection Hv as Hv1 Hv2 Hv3.
    rewrite <- Hv1, <- Hv2. apply (D n nd0 t Hn0 Hr).
  - intros n nd' Hn. destruct (nth_view _ _ H _ _ Hn) as (nd0&Hn0&Hv). unfold view in Hv. injection Hv as Hv1 Hv2 Hv3.
    rewrite <- Hv1, <- Hv3. apply (S n nd0 Hn0).
  - intros i ndi t Hi. destruct (nth_view _ _ H _ _ Hi) as (nd0&Hn&Hv). unfold view in Hv. injection Hv as Hv1 Hv2 Hv3.
    rewrite (Jpart_view e ns ns' i t H). rewrite <- Hv1, <- Hv3. apply (Q i nd0 t Hn).
Qed.

Lemma view_push_nodeliv w c ns : deliv c = [] -> map view (push_cmd w c ns) = map view ns.
Proof.
  intros Hc. unfold push_cmd. revert w. induction ns as [|a ns IH]; intros [|w]; simpl; auto.
  - f_equal. unfold view. simpl. rewrite delivs_app. simpl. rewrite Hc. rewrite app_nil_r. reflexivity.
  - f_equal. apply IH.
Qed.
Lemma view_fold_push {A} (mk : A -> cmd) (wof : A -> wid) l : (forall a, deliv (mk a) = []) -> forall ns,
  map view (fold_left (fun ns a => push_cmd (wof a) (mk a) ns) l ns) = map view ns.
Proof.
  intros Hmk. induction l as [|a l IH]; intros ns; simpl; [reflexivity|].
  rewrite IH. apply view_push_nodeliv. apply Hmk.
Qed.

Lemma nth_error_push w c ns k :
  nth_error (push_cmd w c ns) k =
  match nth_error ns k with
  | Some nd => Some (if k =? w then {| n_w := n_w nd; n_cmd := n_cmd nd ++ [c]; n_evt := n_evt nd |} else nd)
  | None => None
  end.
Proof.
  unfold push_cmd. revert w k. induction ns as [|a ns IH]; intros [|w] [|k]; simpl; auto;
    try (destruct (nth_error ns k); reflexivity); try (rewrite IH; destruct (nth_error ns k); reflexivity).
Qed.

(* a fresh router entry does not disturb the invariant *)
Lemma GInv_route e ns evs w :
  w < length ns -> GInv e ns evs ->
  GInv {| e_router := aset (e_next e) w (e_router e); e_next := S (e_next e); e_pending := e_pending e |} ns evs.
Proof.
  intros Hw (B&D&S&Q).
  assert (Hfresh: alookup (e_next e) (e_router e) = None).
  { destruct (alookup (e_next e) (e_router e)) eqn:E; [|reflexivity]. apply B in E. lia. }
  split; [|split; [|split]].
  - intros p w0 Hp. simpl in Hp. rewrite alookup_aset in Hp. destruct (p =? e_next e) eqn:E.
    + apply Nat.eqb_eq in E. subst. inversion Hp; subst. simpl. split; [lia|exact Hw].
    + apply B in Hp. simpl. split; [lia|apply Hp].
  - intros n nd t Hn Hr. simpl in Hr. rewrite alookup_aset in Hr. destruct (t =? e_next e) eqn:E.
    + apply Nat.eqb_eq in E. subst t. apply (D n nd (e_next e) Hn). rewrite Hfresh. discriminate.
    + apply (D n nd t Hn Hr).
  - exact S.
  - intros i ndi t Hi. rewrite (Q i ndi t Hi). f_equal.
    unfold Jpart. simpl. rewrite alookup_aset. destruct (t =? e_next e) eqn:E; [|reflexivity].
    apply Nat.eqb_eq in E. subst t. rewrite Hfresh.
    destruct (nth_error ns w) as [ndw|] eqn:Ew; [|reflexivity].
    destruct (D w ndw (e_next e) Ew) as (D1&D2); [rewrite Hfresh; discriminate|].
    rewrite (link_of_ft_nil _ _ _ D1), (link_of_ft_nil _ _ _ D2). reflexivity.
Qed.

Lemma link_one_neq i t t0 m : t0 <> t -> link i t [(t0, m)] = [].
Proof. intros H. unfold link. simpl. apply Nat.eqb_neq in H. rewrite H. reflexivity. Qed.

Lemma push_length w c ns : length (push_cmd w c ns) = length ns.
Proof. apply push_cmd_length. Qed.

(* handling one DeliverAction: the message moves from the head of the pending events to the tail of
   its target worker's command queue *)
Lemma GInv_deliver e ns evs t0 m j :
  alookup t0 (e_router e) = Some j ->
  GInv e ns (EDeliverA t0 m :: evs) -> GInv e (push_cmd j (CDeliver t0 m) ns) evs.
Proof.
  intros Hr (B&D&S&Q). split; [|split; [|split]].
  - intros p w Hp. rewrite push_length. apply (B p w Hp).
  - intros n nd t Hn Hrt. rewrite nth_error_push in Hn. destruct (nth_error ns n) as [nd0|] eqn:En; [|discriminate].
    inversion Hn; subst nd; clear Hn. destruct (D n nd0 t En Hrt) as (D1&D2).
    destruct (n =? j) eqn:E; simpl; [|split; assumption].
    apply Nat.eqb_eq in E. subst n. split; [|exact D2]. rewrite delivs_app, ft_app, D1. simpl.
    destruct (t0 =? t) eqn:Et; [|reflexivity]. apply Nat.eqb_eq in Et. subst t0. congruence.
  - intros n nd Hn. rewrite nth_error_push in Hn. destruct (nth_error ns n) as [nd0|] eqn:En; [|discriminate].
    inversion Hn; subst nd; clear Hn. destruct (n =? j); simpl; apply (S n nd0 En).
  - intros i ndi t Hi. rewrite nth_error_push in Hi. destruct (nth_error ns i) as [nd0|] eqn:En; [|discriminate].
    assert (Hs: w_sentlog (n_w ndi) = w_sentlog (n_w nd0) /\ n_evt ndi = n_evt nd0).
    { inversion Hi; subst ndi. destruct (i =? j); simpl; split; reflexivity. }
    destruct Hs as (Hs1&Hs2). rewrite Hs1, Hs2. rewrite (Q i nd0 t En). clear Hs1 Hs2 Hi.
    change (edelivs (EDeliverA t0 m :: evs)) with ([(t0, m)] ++ edelivs evs). rewrite link_app.
    assert (HJ: Jpart e (push_cmd j (CDeliver t0 m) ns) i t = Jpart e ns i t ++ link i t [(t0, m)]).
    { unfold Jpart. destruct (alookup t (e_router e)) as [jt|] eqn:Ert.
      - rewrite nth_error_push. destruct (nth_error ns jt) as [ndj|] eqn:Ej.
        + destruct (jt =? j) eqn:Ejj; simpl.
          * rewrite delivs_app, link_app. simpl. rewrite app_assoc. reflexivity.
          * rewrite link_one_neq, app_nil_r; [reflexivity|].
            intros ->. rewrite Hr in Ert. inversion Ert; subst. rewrite Nat.eqb_refl in Ejj. discriminate.
        + destruct (B t jt Ert) as (_&Hlt). apply nth_error_None in Ej. lia.
      - rewrite link_one_neq; [reflexivity|]. intros ->. congruence. }
    rewrite HJ. rewrite <- !app_assoc. reflexivity.
Qed.

Lemma GInv_skip e ns ev evs : edeliv ev = [] -> GInv e ns (ev :: evs) -> GInv e ns evs.
Proof.
  intros He (B&D&S&Q). split; [exact B|split; [exact D|split; [exact S|]]].
  intros i ndi t Hi. rewrite (Q i ndi t Hi). simpl. rewrite He. reflexivity.
Qed.

Lemma GInv_pending e ns evs pend :
  GInv e ns evs -> GInv {| e_router := e_router e; e_next := e_next e; e_pending := pend |} ns evs.
Proof. intros H. exact H. Qed.

(* Environment::handle_event preserves the invariant, consuming the head of the pending events *)
Lemma handle_event_GInv nw ev evs e ns e' ns' :
  0 < nw -> length ns = nw ->
  handle_event nw ev (e, ns) = Good (e', ns') ->
  GInv e ns (ev :: evs) -> GInv e' ns' evs /\ length ns' = nw.
Proof.
  intros Hnw Hlen H G. destruct ev; unfold handle_event in H; cbn -[Nat.modulo nodup] in H.
  - (* spawn *)
    revert H. match goal with |- context [@alookup ?A caller ?l] => destruct (@alookup A caller l) as [cw|] end; intros H; [|discriminate].
    inversion H; subst e' ns'; clear H. split; [|rewrite !push_cmd_length; exact Hlen].
    apply (GInv_view _ ns).
    + rewrite !view_push_nodeliv by reflexivity. reflexivity.
    + apply GInv_route; [rewrite Hlen; apply Nat.mod_upper_bound; lia|]. eapply GInv_skip; [|exact G]. reflexivity.
  - (* deliver *)
    destruct (alookup target (e_router e)) as [w|] eqn:Ew; [|discriminate].
    inversion H; subst e' ns'; clear H. split; [|rewrite push_cmd_length; exact Hlen].
    apply GInv_deliver; assumption.
  - (* await *)
    revert H. match goal with |- context [forallb ?f targets] => destruct (forallb f targets) end; intros H; [|discriminate].
    inversion H; subst e' ns'; clear H.
    set (wof := fun t => match alookup t (e_router e) with Some w => w | None => 0 end).
    split.
    + apply (GInv_view _ ns).
      * symmetry. apply (view_fold_push (fun w => CQuery awaiter (filter (fun t => wof t =? w) targets)) (fun w => w)). reflexivity.
      * apply GInv_pending. eapply GInv_skip; [|exact G]. reflexivity.
    + rewrite (fold_push_length (fun w => CQuery awaiter (filter (fun t => wof t =? w) targets)) (fun w => w)). exact Hlen.
  - (* results *)
    assert (G0: GInv e ns evs) by (eapply GInv_skip; [|exact G]; reflexivity).
    destruct (alookup awaiter (e_pending e)) as [pa|].
    + destruct (match results with [] => None | (t, _) :: _ => alookup t (e_router e) end) as [w|].
      * destruct (sremove w (pa_expected pa)).
        -- destruct (alookup awaiter (e_router e)) as [aw|]; [|discriminate]. inversion H; subst e' ns'; clear H.
           split; [|rewrite push_cmd_length; exact Hlen].
           apply (GInv_view _ ns); [rewrite view_push_nodeliv by reflexivity; reflexivity|apply GInv_pending; exact G0].
        -- inversion H; subst e' ns'; clear H. split; [apply GInv_pending; exact G0|exact Hlen].
      * inversion H; subst e' ns'; clear H. split; [exact G0|exact Hlen].
    + destruct (alookup awaiter (e_router e)) as [aw|]; [|discriminate]. inversion H; subst e' ns'; clear H.
      split; [|rewrite push_cmd_length; exact Hlen].
      apply (GInv_view _ ns); [rewrite view_push_nodeliv by reflexivity; reflexivity|exact G0].
  - inversion H; subst e' ns'. split; [eapply GInv_skip; [|exact G]; reflexivity|exact Hlen].
  - inversion H; subst e' ns'. split; [eapply GInv_skip; [|exact G]; reflexivity|exact Hlen].
Qed.

Lemma handle_events_GInv nw evs : forall e ns e' ns',
  0 < nw -> length ns = nw ->
  handle_events nw evs (e, ns) = Good (e', ns') ->
  GInv e ns evs -> GInv e' ns' [] /\ length ns' = nw.
Proof.
  induction evs as [|ev evs IH]; intros e ns e' ns' Hnw Hlen H G; cbn [handle_events] in H.
  - inversion H; subst. split; assumption.
  - destruct (handle_event nw ev (e, ns)) as [[e1 ns1]|] eqn:E1; cbn [rbind] in H; [|discriminate].
    destruct (handle_event_GInv nw ev evs e ns e1 ns1 Hnw Hlen E1 G) as (G1&L1).
    eapply IH; eassumption.
Qed.
