(* ProtoFail.v — C15 on M-Sys (sys/Proto.v): a failure changes only the failed process and its
   awaiters; the error an awaiter ends with is the error of the awaited process at every hop of
   the protocol; Worker::step / Environment::step fail only on a client's misuse; and the two
   refutation witnesses of the protocol as it is (F71, F72), computed by the kernel. *)
From Quiver Require Import sys.Proto.

Lemma alookup_aset_eq {A} k (a : A) l : alookup k (aset k a l) = Some a.
Proof.
  induction l as [|[k0 a0] l IH]; simpl; [rewrite Nat.eqb_refl; reflexivity|].
  destruct (k =? k0) eqn:E; simpl; [rewrite Nat.eqb_refl; reflexivity|rewrite E; exact IH].
Qed.
Lemma alookup_aset_neq {A} k k' (a : A) l : k <> k' -> alookup k (aset k' a l) = alookup k l.
Proof.
  intros Hk. induction l as [|[k0 a0] l IH]; simpl.
  - destruct (k =? k') eqn:E; [apply Nat.eqb_eq in E; contradiction|reflexivity].
  - destruct (k' =? k0) eqn:E0; simpl.
    + apply Nat.eqb_eq in E0; subst k0.
      destruct (k =? k') eqn:E; [apply Nat.eqb_eq in E; contradiction|reflexivity].
    + destruct (k =? k0); [reflexivity|exact IH].
Qed.

Lemma upd_proc_other p f w q : q <> p -> alookup q (w_procs (upd_proc p f w)) = alookup q (w_procs w).
Proof.
  intros H. unfold upd_proc. destruct (alookup p (w_procs w)); [|reflexivity].
  simpl. apply alookup_aset_neq. exact H.
Qed.
Lemma upd_proc_same p f w pr : alookup p (w_procs w) = Some pr -> alookup p (w_procs (upd_proc p f w)) = Some (f pr).
Proof. intros H. unfold upd_proc. rewrite H. simpl. apply alookup_aset_eq. Qed.
Lemma upd_proc_sched p f w :
  w_queue (upd_proc p f w) = w_queue w /\ w_spawning (upd_proc p f w) = w_spawning w /\ w_selecting (upd_proc p f w) = w_selecting w.
Proof. unfold upd_proc. destruct (alookup p (w_procs w)); repeat split. Qed.

(* the awaiters loop with an error: exactly the listed processes are completed with it *)
Lemma fold_err p e h : forall o w,
  let w' := fold_left (notify_local p (RErr e) h) o w in
  (forall q, ~ In q o -> alookup q (w_procs w') = alookup q (w_procs w)) /\
  (forall q pr, In q o -> alookup q (w_procs w) = Some pr ->
       exists pr', alookup q (w_procs w') = Some pr' /\ p_res pr' = Some (RErr e)
                   /\ p_mail pr' = p_mail pr /\ p_awaiting pr' = p_awaiting pr /\ p_sel pr' = p_sel pr) /\
  w_queue w' = w_queue w /\ w_spawning w' = w_spawning w /\ w_selecting w' = w_selecting w.
Proof.
  induction o as [|a o IH]; intros w; simpl.
  - repeat split; auto. intros q pr [].
  - specialize (IH (upd_proc a (with_res (Some (RErr e))) w)). simpl in IH.
    destruct IH as (I1&I2&I3&I4&I5).
    destruct (upd_proc_sched a (with_res (Some (RErr e))) w) as (S1&S2&S3).
    repeat split; try congruence.
    + intros q Hq. rewrite I1 by (intros Hin; apply Hq; right; exact Hin).
      apply upd_proc_other. intros ->. apply Hq. left; reflexivity.
    + intros q pr Hin Hl.
      destruct (Nat.eq_dec q a) as [->|Hne].
      * pose proof (upd_proc_same a (with_res (Some (RErr e))) w pr Hl) as Hu.
        destruct (in_dec Nat.eq_dec a o) as [Hio|Hno].
        -- destruct (I2 a _ Hio Hu) as (pr'&A&B&C&D&E). exists pr'. repeat split; assumption.
        -- exists (with_res (Some (RErr e)) pr). rewrite I1 by exact Hno. repeat split; assumption.
      * destruct Hin as [->|Hin]; [contradiction|].
        apply (I2 q pr Hin). rewrite upd_proc_other by exact Hne. exact Hl.
Qed.

Lemma order_by_sub hint set o : order_by hint set = Some o -> forall x, In x o -> mem x set = true.
Proof.
  unfold order_by. destruct (_ && _); [|discriminate]. intros H; inversion H; subst.
  intros x Hx. apply filter_In in Hx. apply Hx.
Qed.
Lemma order_by_all hint set o : order_by hint set = Some o -> forall x, mem x set = true -> In x o.
Proof.
  unfold order_by. destruct (forallb _ set) eqn:F; simpl; [|discriminate].
  destruct (_ =? _); [|discriminate]. intros H; inversion H; subst. intros x Hx.
  rewrite forallb_forall in F. unfold mem in Hx. apply existsb_exists in Hx. destruct Hx as (y&Hy&E).
  apply Nat.eqb_eq in E; subst y. specialize (F x Hy). unfold mem in F. apply existsb_exists in F.
  destruct F as (z&Hz&E). apply Nat.eqb_eq in E; subst z. exact Hz.
Qed.

Lemma mem_in x l : mem x l = true <-> In x l.
Proof.
  unfold mem. rewrite existsb_exists. split.
  - intros (y&Hy&E). apply Nat.eqb_eq in E; subst; exact Hy.
  - intros H. exists x. split; [exact H|apply Nat.eqb_refl].
Qed.

Lemma alookup_in {A} k (a : A) l : alookup k l = Some a -> In (k, a) l.
Proof.
  induction l as [|[k0 a0] l IH]; simpl; [discriminate|].
  destruct (k =? k0) eqn:E; [apply Nat.eqb_eq in E; subst; intros H; inversion H; left; reflexivity|].
  intros H; right; apply IH; exact H.
Qed.
Lemma in_alookup {A} k (a : A) l : NoDup (map fst l) -> In (k, a) l -> alookup k l = Some a.
Proof.
  induction l as [|[k0 a0] l IH]; simpl; intros N H; [contradiction|].
  inversion N; subst. destruct H as [H|H].
  - inversion H; subst. rewrite Nat.eqb_refl. reflexivity.
  - destruct (k =? k0) eqn:E.
    + apply Nat.eqb_eq in E; subst. exfalso. apply H2. apply in_map_iff. exists (k0, a). split; [reflexivity|exact H].
    + apply IH; assumption.
Qed.

(* C15 failure_local (executor.rs:1146-1149, 1244-1280): when the slice of p ends with an error,
   the completion changes ONLY p (result := Err e) and the processes that have p in their
   `awaiting` map (result := Err e, nothing else of them); the run queue and the parked sets are
   not touched; every other process is exactly as before. *)
Theorem failure_local : forall p e h hint w w',
  NoDup (map fst (w_procs w)) ->
  finish p (RErr e) h hint w = Good w' ->
  w_queue w' = w_queue w /\ w_spawning w' = w_spawning w /\ w_selecting w' = w_selecting w /\
  (forall q pr, q <> p -> alookup q (w_procs w) = Some pr -> alookup p (p_awaiting pr) = None ->
      alookup q (w_procs w') = Some pr) /\
  (forall q pr, q <> p -> alookup q (w_procs w) = Some pr -> alookup p (p_awaiting pr) <> None ->
      exists pr', alookup q (w_procs w') = Some pr' /\ p_res pr' = Some (RErr e) /\
                  p_mail pr' = p_mail pr /\ p_awaiting pr' = p_awaiting pr /\ p_sel pr' = p_sel pr).
Proof.
  intros p e h hint w w' ND H. unfold finish in H.
  set (w1 := upd_proc p (with_res (Some (RErr e))) w) in *.
  destruct (order_by hint (local_awaiters p w1)) as [o|] eqn:Eo; [|discriminate].
  inversion H; subst w'; clear H.
  destruct (fold_err p e h o w1) as (F1&F2&F3&F4&F5).
  destruct (upd_proc_sched p (with_res (Some (RErr e))) w) as (S1&S2&S3). fold w1 in S1, S2, S3.
  assert (ND1: NoDup (map fst (w_procs w1))).
  { unfold w1, upd_proc. destruct (alookup p (w_procs w)) as [pr0|] eqn:E0; [|exact ND]. simpl.
    clear -ND. induction (w_procs w) as [|[k a] l IH]; simpl in *; [constructor; [intros []|constructor]|].
    inversion ND; subst. destruct (p =? k) eqn:E; simpl.
    - apply Nat.eqb_eq in E; subst. constructor; assumption.
    - constructor; [|apply IH; assumption].
      intros Hin. apply H1. clear -Hin E. induction l as [|[k1 a1] l IH]; simpl in *.
      + destruct Hin as [Hin|[]]. subst. rewrite Nat.eqb_refl in E. discriminate.
      + destruct (p =? k1) eqn:E1; simpl in *.
        * apply Nat.eqb_eq in E1; subst. destruct Hin as [Hin|Hin]; [left; exact Hin|right; exact Hin].
        * destruct Hin as [Hin|Hin]; [left; exact Hin|right; apply IH; exact Hin]. }
  repeat split; try congruence.
  - intros q pr Hq Hl Hno.
    rewrite F1; [unfold w1; rewrite upd_proc_other by exact Hq; exact Hl|].
    intros Hin. apply (order_by_sub _ _ _ Eo), mem_in in Hin.
    unfold local_awaiters in Hin. apply in_map_iff in Hin. destruct Hin as ([q0 pr0]&Eq&Hf). simpl in Eq; subst q0.
    apply filter_In in Hf. destruct Hf as (Hin&Hc). simpl in Hc.
    apply (in_alookup _ _ _ ND1) in Hin. unfold w1 in Hin. rewrite upd_proc_other in Hin by exact Hq.
    rewrite Hl in Hin. inversion Hin; subst pr0. rewrite Hno in Hc. discriminate.
  - intros q pr Hq Hl Hyes.
    apply (F2 q pr).
    + apply (order_by_all _ _ _ Eo), mem_in. unfold local_awaiters. apply in_map_iff. exists (q, pr). split; [reflexivity|].
      apply filter_In. split.
      * apply alookup_in. unfold w1. rewrite upd_proc_other by exact Hq. exact Hl.
      * simpl. destruct (alookup p (p_awaiting pr)); [reflexivity|contradiction].
    + unfold w1. rewrite upd_proc_other by exact Hq. exact Hl.
Qed.

(* ------------------------------------------------------------------ the error travels unchanged *)
(* same worker: see failure_local. Other worker, hop 1: check_completed_processes reports the
   target's own result to every registered awaiter *)
Lemma report_completed_same_error w ev t r :
  result_of w t = Some r ->
  snd (report_completed (w, ev) t) =
  ev ++ map (fun a => EResults a [(t, Some r)]) (match alookup t (w_awaiters w) with Some l => l | None => [] end).
Proof. intros H. unfold report_completed. rewrite H. reflexivity. Qed.

(* hop 2: the environment forwards a later completion verbatim (environment.rs:1157-1167) *)
Lemma env_forwards_results nw e ns awaiter results aw :
  alookup awaiter (e_pending e) = None -> alookup awaiter (e_router e) = Some aw ->
  handle_event nw (EResults awaiter results) (e, ns) = Good (e, push_cmd aw (CUpdate awaiter results) ns).
Proof. intros H1 H2. unfold handle_event. rewrite H1, H2. reflexivity. Qed.

(* hop 3: Worker::notify_result with an error completes the awaiter with that very error
   (worker.rs:576-582) *)
Lemma worker_notify_same_error awaiter awaited e w pr :
  alookup awaiter (w_procs w) = Some pr -> alookup awaited (p_awaiting pr) <> None ->
  exists pr', alookup awaiter (w_procs (worker_notify awaiter awaited (RErr e) w)) = Some pr' /\ p_res pr' = Some (RErr e).
Proof.
  intros H Ha. simpl. unfold awaits. rewrite H. destruct (alookup awaited (p_awaiting pr)); [|contradiction].
  exists (with_res (Some (RErr e)) pr). split; [apply upd_proc_same; exact H|reflexivity].
Qed.

(* ... and a failure of a process that is no longer awaited (its select has completed) does NOT
   fail the former awaiter: it is only woken (the repair of F45) *)
Lemma stale_failure_is_harmless awaiter awaited e w pr :
  alookup awaiter (w_procs w) = Some pr -> alookup awaited (p_awaiting pr) = None ->
  w_procs (worker_notify awaiter awaited (RErr e) w) = w_procs w.
Proof.
  intros H Ha. simpl. unfold awaits. rewrite H, Ha. unfold wake_selecting. destruct (mem awaiter (w_selecting w)); reflexivity.
Qed.

(* a query that finds the target failed registers the awaiter (status Failed is not "completed",
   worker.rs:492-495), so the answer comes through hop 1 in the same Worker::step *)
Lemma query_failed_registers awaiter t w rs pr e :
  alookup t (w_procs w) = Some pr -> p_res pr = Some (RErr e) ->
  let '(w', rs') := query_one awaiter (w, rs) t in
  In t (w_awaited w') /\ (exists l, alookup t (w_awaiters w') = Some (l ++ [awaiter])) /\ alookup t rs' = Some None.
Proof.
  intros Hl Hr. unfold query_one, completed_value. rewrite Hl, Hr.
  destruct (mem t (w_queue w) || mem t (w_spawning w) || mem t (w_selecting w)); simpl.
  - repeat split.
    + unfold sadd. destruct (mem t (w_awaited w)) eqn:E; [apply mem_in; exact E|apply in_or_app; right; left; reflexivity].
    + eexists. apply alookup_aset_eq.
    + apply alookup_aset_eq.
  - repeat split.
    + unfold sadd. destruct (mem t (w_awaited w)) eqn:E; [apply mem_in; exact E|apply in_or_app; right; left; reflexivity].
    + eexists. apply alookup_aset_eq.
    + apply alookup_aset_eq.
Qed.

(* ------------------------------------------------------------------ steps do not fail by themselves *)
(* Worker::handle_command returns Err only for a ResumeProcess / GetResult that names a process the
   worker does not have (or that is not sleeping): commands only a client issues *)
Theorem handle_cmd_errs_only_on_client_commands : forall c w f,
  handle_cmd c w = Fault f -> (exists p, c = CResume p) \/ (exists r p, c = CGetResult r p).
Proof.
  intros c w f H. destruct c; simpl in H; try discriminate.
  - destruct sleeping; discriminate.
  - left; eexists; reflexivity.
  - destruct (fold_left (query_one awaiter) targets (w, [])); discriminate.
  - destruct (alookup target (w_procs w)); discriminate.
  - destruct (mem p (w_spawning w)); discriminate.
  - right; eexists; eexists; reflexivity.
Qed.

(* Environment::handle_event returns Err only when a process id in the event is not routed *)
Definition event_routed (e : env) (ev : event) : Prop :=
  match ev with
  | ESpawnA c => alookup c (e_router e) <> None
  | EDeliverA t _ => alookup t (e_router e) <> None
  | EAwaitA a ts => Forall (fun t => alookup t (e_router e) <> None) ts
  | EResults a _ => alookup a (e_router e) <> None
  | _ => True
  end.

Theorem handle_event_never_errs : forall nw ev e ns,
  event_routed e ev -> exists st, handle_event nw ev (e, ns) = Good st.
Proof.
  intros nw ev e ns H. destruct ev; unfold handle_event; cbn -[Nat.modulo nodup]; simpl in H.
  - match goal with |- context [@alookup ?A caller ?l] => destruct (@alookup A caller l) eqn:E end; [eexists; reflexivity|].
    exfalso. destruct (Nat.eq_dec caller (e_next e)) as [->|Hne].
    + rewrite alookup_aset_eq in E. discriminate.
    + rewrite alookup_aset_neq in E by exact Hne. contradiction.
  - destruct (alookup target (e_router e)); [eexists; reflexivity|contradiction].
  - match goal with |- context [forallb ?f targets] => destruct (forallb f targets) eqn:F end; [eexists; reflexivity|].
    exfalso. apply Bool.not_true_iff_false in F. apply F. apply forallb_forall. intros t Ht.
    rewrite Forall_forall in H. specialize (H t Ht). destruct (alookup t (e_router e)); [reflexivity|contradiction].
  - destruct (alookup awaiter (e_pending e)) as [pa|].
    + destruct (match results with [] => None | (t, _) :: _ => alookup t (e_router e) end) as [w|]; [|eexists; reflexivity].
      destruct (sremove w (pa_expected pa)); [|eexists; reflexivity].
      destruct (alookup awaiter (e_router e)); [eexists; reflexivity|contradiction].
    + destruct (alookup awaiter (e_router e)); [eexists; reflexivity|contradiction].
  - eexists; reflexivity.
  - eexists; reflexivity.
Qed.

(* ------------------------------------------------------------------ refutation witnesses (the code as it is) *)
Definition idle_did : did := {| d_taken := []; d_sel := None; d_forget := []; d_act := None; d_park := false; d_fin := None; d_heapy := false |}.
Definition orc (p : option pid) (d : did) : woracle :=
  {| o_pid := p; o_did := d; o_expired := [0; 1; 2]; o_awaiters := [0; 1; 2]; o_completed := [0; 1; 2] |}.
Definition d_act_ (a : act) : did := {| d_taken := []; d_sel := None; d_forget := []; d_act := Some a; d_park := false; d_fin := None; d_heapy := false |}.
Definition a_sel (ts : list pid) : sel := {| sl_targets := ts; sl_cursors := [0]; sl_timeouts := []; sl_start := None |}.

(* F71 (corpus/sim_c03.txt; repaired by 09625d4): `a = @#{ !#'int }, 5 a, !a =x, b = @#{ 2 }, [x, !b]` on
   one worker. The snapshot of the await on `a` (answer: not completed yet) is forwarded by the
   environment after the same-worker direct notification has already let the awaiter run on to its
   next Spawn. update_await_results finds no result in it; it used to call mark_active, which
   re-queued the process parked in `spawning` (it then re-executed Spawn on an empty stack); it now
   calls wake_selecting, which leaves it alone. *)
Definition f71_schedule : list sched_action :=
  [ X (XStart false);
    W 0 None (orc (Some 0) (d_act_ ASpawn));                                     (* 0: a = @... *)
    E [];
    W 0 None (orc (Some 1) {| d_taken := []; d_sel := Some (a_sel []); d_forget := []; d_act := None; d_park := true; d_fin := None; d_heapy := false |});
    W 0 None (orc (Some 0) (d_act_ (ADeliver 1)));                               (* 0: 5 a *)
    W 0 None (orc (Some 0) {| d_taken := []; d_sel := Some (a_sel [1]); d_forget := []; d_act := Some (AAwait [1]); d_park := false; d_fin := None; d_heapy := false |});
    E [];
    W 0 None (orc (Some 1) {| d_taken := [0]; d_sel := None; d_forget := []; d_act := None; d_park := false; d_fin := Some (ROk 5); d_heapy := false |});
    W 0 None (orc (Some 0) {| d_taken := []; d_sel := None; d_forget := [1]; d_act := Some ASpawn; d_park := false; d_fin := None; d_heapy := false |});  (* 0: b = @... *)
    E [1];                                                                       (* only the stale snapshot *)
    W 0 None (orc None idle_did) ].                                              (* the stale update is handled *)

(* spawner_gets_pid, invariant form (DESIGN §5 C04): a process is in `spawning` iff exactly one
   of {SpawnAction queued, NotifySpawn queued} holds for it *)
Definition pending_spawn (c : pid) (nd : node) : nat :=
  length (filter (fun e => match e with ESpawnA c' => c =? c' | _ => false end) (n_evt nd)) +
  length (filter (fun x => match x with CNotifySpawn c' _ => c =? c' | _ => false end) (n_cmd nd)).
Definition spawner_ok (c : pid) (s : sys) : bool :=
  let pend := fold_right (fun nd acc => pending_spawn c nd + acc) 0 (s_nodes s) in
  let spawning := existsb (fun nd => mem c (w_spawning (n_w nd))) (s_nodes s) in
  if spawning then pend =? 1 else pend =? 0.

(* regression witness: after the F71 schedule the spawner is still parked, its SpawnAction still
   queued, the run queue empty *)
Theorem f71_schedule_repaired :
  exists s, run (init 1) f71_schedule = Good s /\ spawner_ok 0 s = true /\
            w_queue (n_w (nth 0 (s_nodes s) {| n_w := new_worker; n_cmd := []; n_evt := [] |})) = [].
Proof. vm_compute. eexists. split; [reflexivity|]. split; reflexivity. Qed.

(* F72 (corpus/sim_c03.txt; known): `p1 = @#{ 11 }, p3 = @#{ !#'int, 33 }, !p1 =first, 1 p3, [first, ! [p1, p3]]`
   on one worker. When the awaiter issues `! [p1, p3]`, p1 finished long ago — but its result is
   only learnt from the worker's answer to the QueryAndAwait, which travels through the
   environment, whereas the completion of p3 on the same worker notifies the awaiter directly
   (executor.rs:1244-1280) and re-queues it: the awaiter is runnable with awaiting = {p1: None,
   p3: Some 33} while the snapshot {p1: Some 11} is still in the worker's event queue, and a
   Worker::step scheduled before the next Environment::step completes the select with 33. *)
Definition f72_schedule : list sched_action :=
  [ X (XStart false);
    W 0 None (orc (Some 0) (d_act_ ASpawn)); E [];                               (* 0: p1 = @... *)
    W 0 None (orc (Some 1) {| d_taken := []; d_sel := None; d_forget := []; d_act := None; d_park := false; d_fin := Some (ROk 11); d_heapy := false |});
    W 0 None (orc (Some 0) (d_act_ ASpawn)); E [];                               (* 0: p3 = @... *)
    W 0 None (orc (Some 2) {| d_taken := []; d_sel := Some (a_sel []); d_forget := []; d_act := None; d_park := true; d_fin := None; d_heapy := false |});
    W 0 None (orc (Some 0) {| d_taken := []; d_sel := Some (a_sel [1]); d_forget := []; d_act := Some (AAwait [1]); d_park := false; d_fin := None; d_heapy := false |});
    E []; W 0 None (orc None idle_did); E [];                                    (* !p1: query, answer, update *)
    W 0 None (orc (Some 0) {| d_taken := []; d_sel := None; d_forget := [1]; d_act := Some (ADeliver 2); d_park := false; d_fin := None; d_heapy := false |});
    E [];                                                                        (* 1 p3 on its way *)
    W 0 (Some 0) (orc (Some 0) {| d_taken := []; d_sel := Some (a_sel [1; 2]); d_forget := []; d_act := Some (AAwait [1; 2]); d_park := false; d_fin := None; d_heapy := false |});
    E [];                                                                        (* ! [p1, p3]: the query is sent *)
    W 0 None (orc (Some 2) {| d_taken := [0]; d_sel := None; d_forget := []; d_act := None; d_park := false; d_fin := Some (ROk 33); d_heapy := false |}) ].

Theorem snapshot_overtaken_by_local_notification :
  exists s nd pr,
    run (init 1) f72_schedule = Good s /\ nth_error (s_nodes s) 0 = Some nd /\
    w_queue (n_w nd) = [0] /\                                  (* the awaiter is runnable *)
    alookup 0 (w_procs (n_w nd)) = Some pr /\
    p_awaiting pr = [(1, None); (2, Some (ROk 33))] /\         (* knowing only the lower-priority result *)
    In (EResults 0 [(1, Some (ROk 11)); (2, None)]) (n_evt nd).  (* the snapshot with p1's result is still queued *)
Proof.
  vm_compute. do 3 eexists. split; [reflexivity|]. split; [reflexivity|]. split; [reflexivity|].
  split; [reflexivity|]. split; [reflexivity|]. left. reflexivity.
Qed.
