(* ProtoDeliver.v — C04 on M-Sys (sys/Proto.v): no DeliverMessage is ever handled for a process
   that does not exist (nothing is dropped at the mailbox), for every schedule and every oracle:
   a routed process either exists on its worker or its SpawnProcess / StartProcess command is
   queued on that worker AHEAD of every DeliverMessage addressed to it. *)
From Quiver Require Import sys.Proto sys.ProtoMsg sys.ProtoFifo sys.ProtoFail.

Definition spawns (c : cmd) : option pid :=
  match c with CSpawn p => Some p | CStart p _ => Some p | _ => None end.
Definition has (p : pid) (w : worker) : Prop := alookup p (w_procs w) <> None.

(* the process table only grows *)
Definition pk (w w' : worker) : Prop := forall p, has p w -> has p w'.
Lemma pk_refl w : pk w w. Proof. intros p H; exact H. Qed.
Lemma pk_trans a b c : pk a b -> pk b c -> pk a c. Proof. intros H1 H2 p H. apply H2, H1, H. Qed.
Lemma pk_same w w' : w_procs w' = w_procs w -> pk w w'. Proof. intros E p H. unfold has. rewrite E. exact H. Qed.
Lemma pk_set_procs_aset w k a : pk w (set_procs w (aset k a (w_procs w))).
Proof.
  intros p H. unfold has in *. simpl. rewrite alookup_aset. destruct (p =? k); [discriminate|exact H].
Qed.
Lemma pk_upd_proc p f w : pk w (upd_proc p f w).
Proof. unfold upd_proc. destruct (alookup p (w_procs w)); [apply pk_set_procs_aset|apply pk_refl]. Qed.
Lemma pk_wake p w : pk w (wake_selecting p w).
Proof. unfold wake_selecting. destruct (mem p (w_selecting w)); apply pk_same; reflexivity. Qed.
Lemma pk_notify_result a b r w : pk w (notify_result a b r w).
Proof. unfold notify_result. eapply pk_trans; [apply pk_upd_proc|apply pk_wake]. Qed.
Lemma pk_worker_notify a b r w : pk w (worker_notify a b r w).
Proof. unfold worker_notify. destruct r; [apply pk_notify_result|apply pk_upd_proc]. Qed.
Lemma pk_fold {A} (f : worker -> A -> worker) l : (forall w x, pk w (f w x)) -> forall w, pk w (fold_left f l w).
Proof. intros Hf. induction l as [|x l IH]; intros w; simpl; [apply pk_refl|]. eapply pk_trans; [apply Hf|apply IH]. Qed.
Lemma pk_mark_active p w : pk w (mark_active p w).
Proof. unfold mark_active. destruct (_ || _); apply pk_same; reflexivity. Qed.
Lemma pk_update_await a rs w : pk w (update_await a rs w).
Proof.
  unfold update_await.
  assert (H: pk w (fold_left (fun w e => match snd e with Some r => worker_notify a (fst e) r w | None => w end) rs w)).
  { apply pk_fold. intros w0 x. destruct (snd x); [apply pk_worker_notify|apply pk_refl]. }
  destruct (existsb _ rs); [exact H|]. eapply pk_trans; [exact H|apply pk_mark_active].
Qed.
Lemma pk_query_fold a ts : forall w rs, pk w (fst (fold_left (query_one a) ts (w, rs))).
Proof.
  induction ts as [|t ts IH]; intros w rs; cbn [fold_left]; [apply pk_refl|].
  assert (Q: pk w (fst (query_one a (w, rs) t))).
  { unfold query_one. destruct (completed_value w t); simpl; apply pk_same; reflexivity. }
  destruct (query_one a (w, rs) t) as [w1 rs1]. simpl in Q. eapply pk_trans; [exact Q|apply IH].
Qed.

(* one command: the table grows, a spawn command adds its process, and a DeliverMessage for an
   existing process drops nothing *)
Lemma handle_cmd_pk c w w' ev : handle_cmd c w = Good (w', ev) ->
  pk w w' /\ (forall t, spawns c = Some t -> has t w') /\
  (forall t m, c = CDeliver t m -> has t w -> w_dropped w' = w_dropped w) /\
  (deliv c = [] -> w_dropped w' = w_dropped w).
Proof.
  intros H. destruct c; simpl in H.
  - inversion H; subst. repeat split; try apply pk_refl; try discriminate; try (intros; reflexivity).
  - inversion H; subst. repeat split; try apply pk_refl; try discriminate; try (intros; reflexivity).
  - destruct sleeping; inversion H; subst; clear H.
    + repeat split; try discriminate; try reflexivity; [apply pk_set_procs_aset|].
      intros t E. inversion E; subst. unfold has. simpl. rewrite alookup_aset_eq. discriminate.
    + repeat split; try discriminate; try reflexivity.
      * eapply pk_trans; [apply pk_set_procs_aset|apply pk_same; reflexivity].
      * intros t E. inversion E; subst. unfold has. simpl. rewrite alookup_aset_eq. discriminate.
  - inversion H; subst; clear H. repeat split; try discriminate; try reflexivity.
    + eapply pk_trans; [apply pk_set_procs_aset|apply pk_same; reflexivity].
    + intros t E. inversion E; subst. unfold has. simpl. rewrite alookup_aset_eq. discriminate.
  - destruct (alookup p (w_procs w)) as [pr|]; [|discriminate].
    destruct (p_res pr) as [[v|e]|]; try discriminate. destruct (p_pers pr); [|discriminate].
    inversion H; subst; clear H. repeat split; try discriminate.
    + eapply pk_trans; [apply pk_upd_proc|apply pk_same; reflexivity].
    + intros _. unfold enqueue, upd_proc. destruct (alookup p (w_procs w)); reflexivity.
  - destruct (fold_left (query_one awaiter) targets (w, [])) as [w1 rs] eqn:E. inversion H; subst; clear H.
    pose proof (pk_query_fold awaiter targets w []) as Q. rewrite E in Q.
    pose proof (geq_query_fold awaiter targets w []) as G. rewrite E in G. destruct G as (_&_&_&G4).
    repeat split; try discriminate; [exact Q|intros _; exact G4].
  - inversion H; subst; clear H. destruct (geq_update_await awaiter results w) as (_&_&_&G4).
    repeat split; try discriminate; [apply pk_update_await|intros _; exact G4].
  - destruct (alookup target (w_procs w)) as [pr|] eqn:El; inversion H; subst; clear H.
    + set (w0 := set_ghost w (w_nsent w) (w_sentlog w) (w_arrlog w ++ [(target, m)]) (w_dropped w)).
      pose proof (geq_trans _ _ _ (geq_upd_proc target (fun pr0 => with_mail (p_mail pr0 ++ [m]) (p_arrived pr0 ++ [m]) (p_taken pr0) pr0) w0)
                    (geq_wake target _)) as (_&_&_&G4).
      repeat split; try discriminate.
      * eapply pk_trans; [|apply pk_wake]. eapply pk_trans; [|apply pk_upd_proc]. apply pk_same; reflexivity.
      * intros t m0 _ _. exact G4.
    + repeat split; try discriminate.
      * eapply pk_trans; [|apply pk_wake]. apply pk_same; reflexivity.
      * intros t m0 E Hh. inversion E; subst. exfalso. apply Hh. exact El.
  - destruct (mem p (w_spawning w)); inversion H; subst; repeat split; try discriminate; try reflexivity;
      try apply pk_refl; apply pk_same; reflexivity.
  - destruct (alookup p (w_procs w)) as [pr|]; [|discriminate].
    destruct (p_res pr); inversion H; subst; repeat split; try discriminate; try reflexivity;
      try apply pk_refl; apply pk_same; reflexivity.
Qed.

(* executor step and completion check: the table grows, nothing is dropped *)
Lemma pk_notify_local p r h w q : pk w (notify_local p r h w q).
Proof. unfold notify_local. destruct r; [destruct h; [apply pk_refl|apply pk_notify_result]|apply pk_upd_proc]. Qed.
Lemma pk_finish p r h hint w w' : finish p r h hint w = Good w' -> pk w w'.
Proof.
  unfold finish. destruct (order_by hint _); [|discriminate]. intros H; inversion H; subst.
  eapply pk_trans; [apply pk_upd_proc|]. apply pk_fold. intros; apply pk_notify_local.
Qed.

Lemma pk_run_slice i p pr d hint w w' ev : run_slice i p pr d hint w = Good (w', ev) -> pk w w'.
Proof.
  unfold run_slice. destruct (negb (did_ok d)); [discriminate|].
  destruct (take_seq (d_taken d) (p_mail pr)) as [[taken mail']|]; [|discriminate].
  set (w1 := set_procs w _). assert (K1: pk w w1) by apply pk_set_procs_aset.
  assert (Tail: forall w2 ev2, pk w w2 ->
            match d_fin d with
            | Some r => w4 <- finish p r (d_heapy d) hint (if d_park d then mark_selecting p w2 else w2) ;; Good (w4, ev2)
            | None => if mem p (w_spawning (if d_park d then mark_selecting p w2 else w2)) || mem p (w_selecting (if d_park d then mark_selecting p w2 else w2))
                      then Good (if d_park d then mark_selecting p w2 else w2, ev2)
                      else Good (enqueue p (if d_park d then mark_selecting p w2 else w2), ev2)
            end = Good (w', ev) -> pk w w').
  { intros w2 ev2 K2 H.
    assert (K3: pk w (if d_park d then mark_selecting p w2 else w2)).
    { destruct (d_park d); [eapply pk_trans; [exact K2|apply pk_same; reflexivity]|exact K2]. }
    destruct (d_fin d).
    - destruct (finish _ _ _ _ _) as [w4|] eqn:F; simpl in H; [|discriminate]. inversion H; subst.
      eapply pk_trans; [exact K3|eapply pk_finish; exact F].
    - destruct (_ || _); inversion H; subst; [exact K3|eapply pk_trans; [exact K3|apply pk_same; reflexivity]]. }
  destruct (d_act d) as [[| t | ts]|]; intros H.
  - eapply (Tail _ _ _ H). Unshelve. eapply pk_trans; [exact K1|apply pk_same; reflexivity].
  - eapply (Tail _ _ _ H). Unshelve. eapply pk_trans; [exact K1|apply pk_same; reflexivity].
  - eapply (Tail _ _ _ H). Unshelve. eapply pk_trans; [exact K1|]. eapply pk_trans; [apply pk_upd_proc|apply pk_same; reflexivity].
  - apply (Tail _ _ K1 H).
Qed.

Lemma pk_exec_step i now o w w' ev : exec_step i now o w = Good (w', ev) -> pk w w'.
Proof.
  unfold exec_step. destruct (expire now (o_expired o) w) as [w1|] eqn:E; simpl; [|discriminate].
  assert (K1: pk w w1).
  { unfold expire in E. destruct (order_by _ _); [|discriminate]. inversion E; subst. apply pk_same; reflexivity. }
  destruct (w_queue w1) as [|p q']; [intros H; inversion H; subst; exact K1|].
  set (w2 := set_sched w1 q' _ _). assert (K2: pk w w2) by (eapply pk_trans; [exact K1|apply pk_same; reflexivity]).
  destruct (alookup p (w_procs w1)) as [pr|]; [|intros H; inversion H; subst; exact K2].
  destruct (match o_pid o with Some p' => p =? p' | None => false end).
  - intros H. eapply pk_trans; [exact K2|eapply pk_run_slice; exact H].
  - destruct (p_res pr) as [[v|e]|]; try discriminate.
    destruct (finish _ _ _ _ _) as [w3|] eqn:F; simpl; [|discriminate]. intros H; inversion H; subst.
    eapply pk_trans; [exact K2|eapply pk_finish; exact F].
Qed.

Lemma pk_check_completed hint w w' ev : check_completed hint w = Good (w', ev) -> pk w w'.
Proof.
  unfold check_completed. destruct (order_by hint _) as [o|]; [|discriminate].
  intros H; inversion H as [H1]; clear H.
  assert (A: forall l acc, pk (fst acc) (fst (fold_left report_completed l acc))).
  { induction l as [|x l IH]; intros acc; simpl; [apply pk_refl|]. eapply pk_trans; [|apply IH].
    destruct acc as [w0 ev0]. unfold report_completed. destruct (result_of w0 x); simpl; [apply pk_same; reflexivity|apply pk_refl]. }
  assert (B: forall l acc, pk (fst acc) (fst (fold_left report_pending l acc))).
  { induction l as [|x l IH]; intros acc; simpl; [apply pk_refl|]. eapply pk_trans; [|apply IH].
    destruct acc as [w0 ev0]. unfold report_pending. destruct (result_of w0 (fst x)); simpl; [apply pk_same; reflexivity|apply pk_refl]. }
  pose proof (A o (w, [])) as HA. pose proof (B (w_pending (fst (fold_left report_completed o (w, [])))) (fold_left report_completed o (w, []))) as HB.
  rewrite H1 in HB. simpl in *. eapply pk_trans; eassumption.
Qed.

(* ------------------------------------------------------------------ the queue discipline *)
(* target t is ready on (w, cs): it exists, or its spawn command is queued ahead of every
   DeliverMessage addressed to it *)
Definition ready (t : pid) (w : worker) (cs : list cmd) : Prop :=
  has t w \/ exists a c b, cs = a ++ c :: b /\ spawns c = Some t /\ ft t (delivs a) = [].

Lemma ready_pk t w w' cs : pk w w' -> ready t w cs -> ready t w' cs.
Proof. intros K [H|H]; [left; apply K; exact H|right; exact H]. Qed.
Lemma ready_app t w cs c : ready t w cs -> ready t w (cs ++ [c]).
Proof.
  intros [H|(a&c0&b&E&Hs&Hf)]; [left; exact H|right]. exists a, c0, (b ++ [c]). subst cs.
  rewrite <- app_assoc. simpl. auto.
Qed.

(* handling a prefix of the queue: nothing is dropped, every routed target stays ready *)
Lemma handle_cmds_ready (R : pid -> Prop) : forall pre w rest w' ev,
  (forall t, R t -> ready t w (pre ++ rest)) ->
  (forall t, ft t (delivs (pre ++ rest)) <> [] -> R t) ->
  handle_cmds pre w = Good (w', ev) ->
  w_dropped w' = w_dropped w /\ pk w w' /\ (forall t, R t -> ready t w' rest).
Proof.
  induction pre as [|c pre IH]; intros w rest w' ev Hr Hd H; simpl in H.
  - inversion H; subst. repeat split; [apply pk_refl|exact Hr].
  - destruct (handle_cmd c w) as [[w1 e1]|] eqn:E1; simpl in H; [|discriminate].
    destruct (handle_cmds pre w1) as [[w2 e2]|] eqn:E2; simpl in H; [|discriminate].
    inversion H; subst w' ev; clear H.
    destruct (handle_cmd_pk _ _ _ _ E1) as (K1&Sp&Dl&Nd).
    assert (D1: w_dropped w1 = w_dropped w).
    { destruct (deliv c) eqn:Ec; [apply Nd; reflexivity|].
      destruct c; simpl in Ec; try discriminate. apply (Dl target m eq_refl).
      assert (Rt: R target).
      { apply Hd. simpl. rewrite Nat.eqb_refl. discriminate. }
      destruct (Hr target Rt) as [Hh|(a&c0&b&E&Hs&Hf)]; [exact Hh|].
      exfalso. destruct a as [|a0 a]; simpl in E; inversion E; subst.
      - simpl in Hs. discriminate.
      - simpl in Hf. rewrite Nat.eqb_refl in Hf. discriminate. }
    destruct (IH w1 rest w2 e2) as (D2&K2&R2); [| |exact E2|].
    + intros t Rt. destruct (Hr t Rt) as [Hh|(a&c0&b&E&Hs&Hf)]; [left; apply K1; exact Hh|].
      destruct a as [|a0 a]; simpl in E; inversion E; subst.
      * left. apply Sp. exact Hs.
      * right. exists a, c0, b. repeat split; [assumption|].
        simpl in Hf. unfold delivs in Hf. simpl in Hf. fold (delivs a) in Hf. rewrite ft_app in Hf.
        apply app_eq_nil in Hf. apply Hf.
    + intros t Ht. apply Hd. simpl. unfold delivs. simpl. fold (delivs (pre ++ rest)). rewrite ft_app.
      intros E. apply app_eq_nil in E. destruct E as (_&E). contradiction.
    + repeat split; [congruence|eapply pk_trans; eassumption|exact R2].
Qed.

Definition deliver_inv (s : sys) : Prop :=
  fifo_inv s /\
  (forall n nd, nth_error (s_nodes s) n = Some nd -> w_dropped (n_w nd) = []) /\
  (forall t n nd, alookup t (e_router (s_env s)) = Some n -> nth_error (s_nodes s) n = Some nd -> ready t (n_w nd) (n_cmd nd)).
