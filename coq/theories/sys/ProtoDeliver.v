(* ProtoDeliver.v — C04 on M-Sys (sys/Proto.v): no DeliverMessage is ever handled for a process
   that does not exist (nothing is dropped at the mailbox), for every schedule and every oracle:
   a routed process either exists on its worker or its SpawnProcess / StartProcess command is
   queued on that worker AHEAD of every DeliverMessage addressed to it. *)
From Quiver Require Import sys.Proto sys.ProtoMsg sys.ProtoFifo sys.ProtoFail.

Definition spawns (c : cmd) : option pid :=
  match c with CSpawn p => Some p | CStart p _ => Some p | _ => None end.
Definition has (p : pid) (w : worker) : Prop := alookup p (w_procs w) <> None.

(* the process table only grows *)
Definition pk (w w' : worker) : Prop := forall p, has p w -> has p w'.
Lemma pk_refl w : pk w w. Proof. intros p H; exact H. Qed.
Lemma pk_trans a b c : pk a b -> pk b c -> pk a c. Proof. intros H1 H2 p H. apply H2, H1, H. Qed.
Lemma pk_same w w' : w_procs w' = w_procs w -> pk w w'. Proof. intros E p H. unfold has. rewrite E. exact H. Qed.
Lemma pk_set_procs_aset w k a : pk w (set_procs w (aset k a (w_procs w))).
Proof.
  intros p H. unfold has in *. simpl. rewrite alookup_aset. destruct (p =? k); [discriminate|exact H].
Qed.
Lemma pk_upd_proc p f w : pk w (upd_proc p f w).
Proof. unfold upd_proc. destruct (alookup p (w_procs w)); [apply pk_set_procs_aset|apply pk_refl]. Qed.
Lemma pk_wake p w : pk w (wake_selecting p w).
Proof. unfold wake_selecting. destruct (mem p (w_selecting w)); apply pk_same; reflexivity. Qed.
Lemma pk_notify_result a b r w : pk w (notify_result a b r w).
Proof. unfold notify_result. destruct (awaits a b w); [eapply pk_trans; [apply pk_upd_proc|apply pk_wake]|apply pk_wake]. Qed.
Lemma pk_worker_notify a b r w : pk w (worker_notify a b r w).
Proof. unfold worker_notify. destruct r; [apply pk_notify_result|]. destruct (awaits a b w); [apply pk_upd_proc|apply pk_wake]. Qed.
Lemma pk_fold {A} (f : worker -> A -> worker) l : (forall w x, pk w (f w x)) -> forall w, pk w (fold_left f l w).
Proof. intros Hf. induction l as [|x l IH]; intros w; simpl; [apply pk_refl|]. eapply pk_trans; [apply Hf|apply IH]. Qed.
Lemma pk_mark_active p w : pk w (mark_active p w).
Proof. unfold mark_active. destruct (_ || _); apply pk_same; reflexivity. Qed.
Lemma pk_update_await a rs w : pk w (update_await a rs w).
Proof.
  unfold update_await.
  assert (H: pk w (fold_left (fun w e => match snd e with Some r => worker_notify a (fst e) r w | None => w end) rs w)).
  { apply pk_fold. intros w0 x. destruct (snd x); [apply pk_worker_notify|apply pk_refl]. }
  destruct (existsb _ rs); [exact H|]. eapply pk_trans; [exact H|apply pk_wake].
Qed.
Lemma pk_query_fold a ts : forall w rs, pk w (fst (fold_left (query_one a) ts (w, rs))).
Proof.
  induction ts as [|t ts IH]; intros w rs; cbn [fold_left]; [apply pk_refl|].
  assert (Q: pk w (fst (query_one a (w, rs) t))).
  { unfold query_one. destruct (completed_value w t); simpl; apply pk_same; reflexivity. }
  destruct (query_one a (w, rs) t) as [w1 rs1]. simpl in Q. eapply pk_trans; [exact Q|apply IH].
Qed.

(* one command: the table grows, a spawn command adds its process, and a DeliverMessage for an
   existing process drops nothing *)
Lemma handle_cmd_pk c w w' ev : handle_cmd c w = Good (w', ev) ->
  pk w w' /\ (forall t, spawns c = Some t -> has t w') /\
  (forall t m, c = CDeliver t m -> has t w -> w_dropped w' = w_dropped w) /\
  (deliv c = [] -> w_dropped w' = w_dropped w).
Proof.
  intros H. destruct c; simpl in H.
  - inversion H; subst. repeat split; try apply pk_refl; try discriminate; try (intros; reflexivity).
  - inversion H; subst. repeat split; try apply pk_refl; try discriminate; try (intros; reflexivity).
  - destruct sleeping; inversion H; subst; clear H.
    + repeat split; try discriminate; try reflexivity; [apply pk_set_procs_aset|].
      intros t E. inversion E; subst. unfold has. simpl. rewrite alookup_aset_eq. discriminate.
    + repeat split; try discriminate; try reflexivity.
      * eapply pk_trans; [apply pk_set_procs_aset|apply pk_same; reflexivity].
      * intros t E. inversion E; subst. unfold has. simpl. rewrite alookup_aset_eq. discriminate.
  - inversion H; subst; clear H. repeat split; try discriminate; try reflexivity.
    + eapply pk_trans; [apply pk_set_procs_aset|apply pk_same; reflexivity].
    + intros t E. inversion E; subst. unfold has. simpl. rewrite alookup_aset_eq. discriminate.
  - destruct (alookup p (w_procs w)) as [pr|]; [|discriminate].
    destruct (p_res pr) as [[v|e]|]; try discriminate. destruct (p_pers pr); [|discriminate].
    inversion H; subst; clear H. repeat split; try discriminate.
    + eapply pk_trans; [apply pk_upd_proc|apply pk_same; reflexivity].
    + intros _. unfold enqueue, upd_proc. destruct (alookup p (w_procs w)); reflexivity.
  - destruct (fold_left (query_one awaiter) targets (w, [])) as [w1 rs] eqn:E. inversion H; subst; clear H.
    pose proof (pk_query_fold awaiter targets w []) as Q. rewrite E in Q.
    pose proof (geq_query_fold awaiter targets w []) as G. rewrite E in G. destruct G as (_&_&_&G4).
    repeat split; try discriminate; [exact Q|intros _; exact G4].
  - inversion H; subst; clear H. destruct (geq_update_await awaiter results w) as (_&_&_&G4).
    repeat split; try discriminate; [apply pk_update_await|intros _; exact G4].
  - destruct (alookup target (w_procs w)) as [pr|] eqn:El; inversion H; subst; clear H.
    + set (w0 := set_ghost w (w_nsent w) (w_sentlog w) (w_arrlog w ++ [(target, m)]) (w_dropped w)).
      pose proof (geq_trans _ _ _ (geq_upd_proc target (fun pr0 => with_mail (p_mail pr0 ++ [m]) (p_arrived pr0 ++ [m]) (p_taken pr0) pr0) w0)
                    (geq_wake target _)) as (_&_&_&G4).
      repeat split; try discriminate.
      * eapply pk_trans; [|apply pk_wake]. eapply pk_trans; [|apply pk_upd_proc]. apply pk_same; reflexivity.
      * intros t m0 _ _. exact G4.
    + repeat split; try discriminate.
      * eapply pk_trans; [|apply pk_wake]. apply pk_same; reflexivity.
      * intros t m0 E Hh. inversion E; subst. exfalso. apply Hh. exact El.
  - destruct (mem p (w_spawning w)); inversion H; subst; repeat split; try discriminate; try reflexivity;
      try apply pk_refl; apply pk_same; reflexivity.
  - destruct (alookup p (w_procs w)) as [pr|]; [|discriminate].
    destruct (p_res pr); inversion H; subst; repeat split; try discriminate; try reflexivity;
      try apply pk_refl; apply pk_same; reflexivity.
Qed.

(* executor step and completion check: the table grows, nothing is dropped *)
Lemma pk_notify_local p r h w q : pk w (notify_local p r h w q).
Proof. unfold notify_local. destruct r; [destruct h; [apply pk_refl|apply pk_notify_result]|apply pk_upd_proc]. Qed.
Lemma pk_finish p r h hint w w' : finish p r h hint w = Good w' -> pk w w'.
Proof.
  unfold finish. destruct (order_by hint _); [|discriminate]. intros H; inversion H; subst.
  eapply pk_trans; [apply pk_upd_proc|]. apply pk_fold. intros; apply pk_notify_local.
Qed.

Lemma pk_run_slice i p pr d hint w w' ev : run_slice i p pr d hint w = Good (w', ev) -> pk w w'.
Proof.
  unfold run_slice. destruct (negb (did_ok d)); [discriminate|].
  destruct (take_seq (d_taken d) (p_mail pr)) as [[taken mail']|]; [|discriminate].
  set (w1 := set_procs w _). assert (K1: pk w w1) by apply pk_set_procs_aset.
  assert (Tail: forall w2 ev2, pk w w2 ->
            match d_fin d with
            | Some r => w4 <- finish p r (d_heapy d) hint (if d_park d then mark_selecting p w2 else w2) ;; Good (w4, ev2)
            | None => if mem p (w_spawning (if d_park d then mark_selecting p w2 else w2)) || mem p (w_selecting (if d_park d then mark_selecting p w2 else w2))
                      then Good (if d_park d then mark_selecting p w2 else w2, ev2)
                      else Good (enqueue p (if d_park d then mark_selecting p w2 else w2), ev2)
            end = Good (w', ev) -> pk w w').
  { intros w2 ev2 K2 H.
    assert (K3: pk w (if d_park d then mark_selecting p w2 else w2)).
    { destruct (d_park d); [eapply pk_trans; [exact K2|apply pk_same; reflexivity]|exact K2]. }
    destruct (d_fin d).
    - destruct (finish _ _ _ _ _) as [w4|] eqn:F; simpl in H; [|discriminate]. inversion H; subst.
      eapply pk_trans; [exact K3|eapply pk_finish; exact F].
    - destruct (_ || _); inversion H; subst; [exact K3|eapply pk_trans; [exact K3|apply pk_same; reflexivity]]. }
  destruct (d_act d) as [[| t | ts]|]; intros H.
  - eapply (Tail _ _ _ H). Unshelve. eapply pk_trans; [exact K1|apply pk_same; reflexivity].
  - eapply (Tail _ _ _ H). Unshelve. eapply pk_trans; [exact K1|apply pk_same; reflexivity].
  - eapply (Tail _ _ _ H). Unshelve. eapply pk_trans; [exact K1|]. eapply pk_trans; [apply pk_upd_proc|apply pk_same; reflexivity].
  - apply (Tail _ _ K1 H).
Qed.

Lemma pk_exec_step i now o w w' ev : exec_step i now o w = Good (w', ev) -> pk w w'.
Proof.
  unfold exec_step. destruct (expire now (o_expired o) w) as [w1|] eqn:E; simpl; [|discriminate].
  assert (K1: pk w w1).
  { unfold expire in E. destruct (order_by _ _); [|discriminate]. inversion E; subst. apply pk_same; reflexivity. }
  destruct (w_queue w1) as [|p q']; [intros H; inversion H; subst; exact K1|].
  set (w2 := set_sched w1 q' _ _). assert (K2: pk w w2) by (eapply pk_trans; [exact K1|apply pk_same; reflexivity]).
  destruct (alookup p (w_procs w1)) as [pr|]; [|intros H; inversion H; subst; exact K2].
  destruct (match o_pid o with Some p' => p =? p' | None => false end).
  - intros H. eapply pk_trans; [exact K2|eapply pk_run_slice; exact H].
  - destruct (p_res pr) as [[v|e]|]; try discriminate.
    destruct (finish _ _ _ _ _) as [w3|] eqn:F; simpl; [|discriminate]. intros H; inversion H; subst.
    eapply pk_trans; [exact K2|eapply pk_finish; exact F].
Qed.

Lemma pk_check_completed hint w w' ev : check_completed hint w = Good (w', ev) -> pk w w'.
Proof.
  unfold check_completed. destruct (order_by hint _) as [o|]; [|discriminate].
  intros H; inversion H as [H1]; clear H.
  assert (A: forall l acc, pk (fst acc) (fst (fold_left report_completed l acc))).
  { induction l as [|x l IH]; intros acc; simpl; [apply pk_refl|]. eapply pk_trans; [|apply IH].
    destruct acc as [w0 ev0]. unfold report_completed. destruct (result_of w0 x); simpl; [apply pk_same; reflexivity|apply pk_refl]. }
  assert (B: forall l acc, pk (fst acc) (fst (fold_left report_pending l acc))).
  { induction l as [|x l IH]; intros acc; simpl; [apply pk_refl|]. eapply pk_trans; [|apply IH].
    destruct acc as [w0 ev0]. unfold report_pending. destruct (result_of w0 (fst x)); simpl; [apply pk_same; reflexivity|apply pk_refl]. }
  pose proof (A o (w, [])) as HA. pose proof (B (w_pending (fst (fold_left report_completed o (w, [])))) (fold_left report_completed o (w, []))) as HB.
  rewrite H1 in HB. simpl in *. eapply pk_trans; eassumption.
Qed.

(* ------------------------------------------------------------------ the queue discipline *)
(* target t is ready on (w, cs): it exists, or its spawn command is queued ahead of every
   DeliverMessage addressed to it *)
Definition ready (t : pid) (w : worker) (cs : list cmd) : Prop :=
  has t w \/ exists a c b, cs = a ++ c :: b /\ spawns c = Some t /\ ft t (delivs a) = [].

Lemma ready_pk t w w' cs : pk w w' -> ready t w cs -> ready t w' cs.
Proof. intros K [H|H]; [left; apply K; exact H|right; exact H]. Qed.
Lemma ready_app t w cs c : ready t w cs -> ready t w (cs ++ [c]).
Proof.
  intros [H|(a&c0&b&E&Hs&Hf)]; [left; exact H|right]. exists a, c0, (b ++ [c]). subst cs.
  rewrite <- app_assoc. simpl. auto.
Qed.

(* handling a prefix of the queue: nothing is dropped, every routed target stays ready *)
Lemma handle_cmds_ready (R : pid -> Prop) : forall pre w rest w' ev,
  (forall t, R t -> ready t w (pre ++ rest)) ->
  (forall t, ft t (delivs (pre ++ rest)) <> [] -> R t) ->
  handle_cmds pre w = Good (w', ev) ->
  w_dropped w' = w_dropped w /\ pk w w' /\ (forall t, R t -> ready t w' rest).
Proof.
  induction pre as [|c pre IH]; intros w rest w' ev Hr Hd H; simpl in H.
  - inversion H; subst. repeat split; [apply pk_refl|exact Hr].
  - destruct (handle_cmd c w) as [[w1 e1]|] eqn:E1; simpl in H; [|discriminate].
    destruct (handle_cmds pre w1) as [[w2 e2]|] eqn:E2; simpl in H; [|discriminate].
    inversion H; subst w' ev; clear H.
    destruct (handle_cmd_pk _ _ _ _ E1) as (K1&Sp&Dl&Nd).
    assert (D1: w_dropped w1 = w_dropped w).
    { destruct (deliv c) eqn:Ec; [apply Nd; reflexivity|].
      destruct c; simpl in Ec; try discriminate. apply (Dl target m eq_refl).
      assert (Rt: R target).
      { apply Hd. simpl. rewrite Nat.eqb_refl. discriminate. }
      destruct (Hr target Rt) as [Hh|(a&c0&b&E&Hs&Hf)]; [exact Hh|].
      exfalso. destruct a as [|a0 a]; simpl in E; inversion E; subst.
      - simpl in Hs. discriminate.
      - simpl in Hf. rewrite Nat.eqb_refl in Hf. discriminate. }
    destruct (IH w1 rest w2 e2) as (D2&K2&R2); [| |exact E2|].
    + intros t Rt. destruct (Hr t Rt) as [Hh|(a&c0&b&E&Hs&Hf)]; [left; apply K1; exact Hh|].
      destruct a as [|a0 a]; simpl in E; inversion E; subst.
      * left. apply Sp. exact Hs.
      * right. exists a, c0, b. repeat split; [assumption|assumption|].
        simpl in Hf. unfold delivs in Hf. simpl in Hf. fold (delivs a) in Hf. rewrite ft_app in Hf.
        apply app_eq_nil in Hf. apply Hf.
    + intros t Ht. apply Hd. simpl. unfold delivs. simpl. fold (delivs (pre ++ rest)). rewrite ft_app.
      intros E. apply app_eq_nil in E. destruct E as (_&E). contradiction.
    + repeat split; [congruence|eapply pk_trans; eassumption|exact R2].
Qed.

Definition deliver_inv (s : sys) : Prop :=
  fifo_inv s /\
  (forall n nd, nth_error (s_nodes s) n = Some nd -> w_dropped (n_w nd) = []) /\
  (forall t n nd, alookup t (e_router (s_env s)) = Some n -> nth_error (s_nodes s) n = Some nd -> ready t (n_w nd) (n_cmd nd)).

(* the executor step drops nothing (it does not even look at the drop log) *)
Definition dk (w w' : worker) : Prop := w_dropped w' = w_dropped w.
Lemma dk_geq w w' : geq w w' -> dk w w'. Proof. intros (_&_&_&D). exact D. Qed.

Lemma dk_run_slice i p pr d hint w w' ev : run_slice i p pr d hint w = Good (w', ev) -> dk w w'.
Proof.
  unfold run_slice, dk. destruct (negb (did_ok d)); [discriminate|].
  destruct (take_seq (d_taken d) (p_mail pr)) as [[taken mail']|]; [|discriminate].
  set (w1 := set_procs w _).
  assert (Tail: forall w2 ev2, w_dropped w2 = w_dropped w ->
            match d_fin d with
            | Some r => w4 <- finish p r (d_heapy d) hint (if d_park d then mark_selecting p w2 else w2) ;; Good (w4, ev2)
            | None => if mem p (w_spawning (if d_park d then mark_selecting p w2 else w2)) || mem p (w_selecting (if d_park d then mark_selecting p w2 else w2))
                      then Good (if d_park d then mark_selecting p w2 else w2, ev2)
                      else Good (enqueue p (if d_park d then mark_selecting p w2 else w2), ev2)
            end = Good (w', ev) -> w_dropped w' = w_dropped w).
  { intros w2 ev2 K2 H.
    assert (K3: w_dropped (if d_park d then mark_selecting p w2 else w2) = w_dropped w) by (destruct (d_park d); exact K2).
    destruct (d_fin d).
    - destruct (finish _ _ _ _ _) as [w4|] eqn:F; simpl in H; [|discriminate]. inversion H; subst.
      apply finish_ghost in F. destruct F as (_&_&_&F4). congruence.
    - destruct (_ || _); inversion H; subst; exact K3. }
  destruct (d_act d) as [[| t | ts]|]; intros H.
  - eapply (Tail _ _ _ H). Unshelve. reflexivity.
  - eapply (Tail _ _ _ H). Unshelve. reflexivity.
  - eapply (Tail _ _ _ H). Unshelve.
    unfold mark_selecting. simpl. destruct (geq_upd_proc p (fun q => with_awaiting (fold_left (fun a t => aset t None a) ts (p_awaiting q)) q) w1) as (_&_&_&G4).
    exact G4.
  - eapply (Tail _ _ _ H). Unshelve. reflexivity.
Qed.

Lemma dk_exec_step i now o w w' ev : exec_step i now o w = Good (w', ev) -> dk w w'.
Proof.
  unfold exec_step, dk. destruct (expire now (o_expired o) w) as [w1|] eqn:E; simpl; [|discriminate].
  apply expire_ghost in E. destruct E as (_&_&_&E4).
  destruct (w_queue w1) as [|p q']; [intros H; inversion H; subst; exact E4|].
  destruct (alookup p (w_procs w1)) as [pr|]; [|intros H; inversion H; subst; exact E4].
  destruct (match o_pid o with Some p' => p =? p' | None => false end).
  - intros H. apply dk_run_slice in H. unfold dk in H. simpl in H. congruence.
  - destruct (p_res pr) as [[v|e]|]; try discriminate.
    destruct (finish _ _ _ _ _) as [w3|] eqn:F; simpl; [|discriminate]. intros H; inversion H; subst.
    apply finish_ghost in F. destruct F as (_&_&_&F4). simpl in F4. congruence.
Qed.

(* Worker::step keeps every routed target ready and drops nothing *)
Lemma node_step_ready (R : pid -> Prop) i now k o nd nd' :
  node_step i now k o nd = Good nd' ->
  (forall t, R t -> ready t (n_w nd) (n_cmd nd)) ->
  (forall t, ft t (delivs (n_cmd nd)) <> [] -> R t) ->
  w_dropped (n_w nd') = w_dropped (n_w nd) /\ (forall t, R t -> ready t (n_w nd') (n_cmd nd')).
Proof.
  unfold node_step. pose proof (split_at_app k (n_cmd nd)) as Hs.
  destruct (split_at k (n_cmd nd)) as [pre later]. simpl in Hs.
  destruct (handle_cmds pre (n_w nd)) as [[w1 e1]|] eqn:E1; simpl; [|discriminate].
  destruct (exec_step i now o w1) as [[w2 e2]|] eqn:E2; simpl; [|discriminate].
  destruct (check_completed (o_completed o) w2) as [[w3 e3]|] eqn:E3; simpl; [|discriminate].
  intros H Hr Hd; inversion H; subst nd'; clear H. simpl.
  rewrite <- Hs in Hr, Hd.
  destruct (handle_cmds_ready R pre (n_w nd) later w1 e1 Hr Hd E1) as (D1&K1&R1).
  pose proof (dk_exec_step _ _ _ _ _ _ E2) as D2. pose proof (pk_exec_step _ _ _ _ _ _ E2) as K2.
  pose proof (check_completed_ghost _ _ _ _ E3) as ((_&_&_&D3)&_). pose proof (pk_check_completed _ _ _ _ E3) as K3.
  unfold dk in D2. split; [congruence|].
  intros t Rt. eapply ready_pk; [exact (pk_trans _ _ _ K2 K3)|apply R1; exact Rt].
Qed.

(* ------------------------------------------------------------------ environment side *)
Definition EInv (e : env) (ns : list node) : Prop :=
  (forall n nd, nth_error ns n = Some nd -> w_dropped (n_w nd) = []) /\
  (forall t n nd, alookup t (e_router e) = Some n -> nth_error ns n = Some nd -> ready t (n_w nd) (n_cmd nd)).

Lemma EInv_push e ns w c : EInv e ns -> EInv e (push_cmd w c ns).
Proof.
  intros (D&R). split.
  - intros n nd Hn. rewrite nth_error_push in Hn. destruct (nth_error ns n) as [nd0|] eqn:En; [|discriminate].
    inversion Hn; subst nd. destruct (n =? w); simpl; apply (D n nd0 En).
  - intros t n nd Hr Hn. rewrite nth_error_push in Hn. destruct (nth_error ns n) as [nd0|] eqn:En; [|discriminate].
    inversion Hn; subst nd. destruct (n =? w); simpl; [apply ready_app|]; apply (R t n nd0 Hr En).
Qed.
Lemma EInv_fold_push {A} (mk : A -> cmd) (wof : A -> wid) e l : forall ns,
  EInv e ns -> EInv e (fold_left (fun ns a => push_cmd (wof a) (mk a) ns) l ns).
Proof. induction l as [|a l IH]; intros ns H; simpl; [exact H|]. apply IH. apply EInv_push. exact H. Qed.
Lemma EInv_pending e ns pend : EInv e ns -> EInv {| e_router := e_router e; e_next := e_next e; e_pending := pend |} ns.
Proof. intros H; exact H. Qed.

(* allocating a fresh pid and queueing its spawn command on the chosen worker *)
Lemma EInv_alloc e ns evs w c :
  GInv e ns evs -> EInv e ns -> w < length ns -> spawns c = Some (e_next e) ->
  EInv {| e_router := aset (e_next e) w (e_router e); e_next := S (e_next e); e_pending := e_pending e |} (push_cmd w c ns).
Proof.
  intros (B&D&_&_) (Dr&R) Hw Hc.
  assert (Hfresh: alookup (e_next e) (e_router e) = None).
  { destruct (alookup (e_next e) (e_router e)) eqn:E; [|reflexivity]. apply B in E. lia. }
  split.
  - intros n nd Hn. rewrite nth_error_push in Hn. destruct (nth_error ns n) as [nd0|] eqn:En; [|discriminate].
    inversion Hn; subst nd. destruct (n =? w); simpl; apply (Dr n nd0 En).
  - intros t n nd Hr Hn. simpl in Hr. rewrite alookup_aset in Hr.
    rewrite nth_error_push in Hn. destruct (nth_error ns n) as [nd0|] eqn:En; [|discriminate]. inversion Hn; subst nd; clear Hn.
    destruct (t =? e_next e) eqn:Et.
    + apply Nat.eqb_eq in Et. subst t. inversion Hr; subst n. rewrite Nat.eqb_refl. simpl.
      right. exists (n_cmd nd0), c, []. repeat split; [exact Hc|].
      apply (D w nd0 (e_next e) En). rewrite Hfresh. discriminate.
    + destruct (n =? w); simpl; [apply ready_app|]; apply (R t n nd0 Hr En).
Qed.

Lemma handle_event_EInv nw ev evs e ns e' ns' :
  0 < nw -> length ns = nw ->
  handle_event nw ev (e, ns) = Good (e', ns') ->
  GInv e ns (ev :: evs) -> EInv e ns -> EInv e' ns'.
Proof.
  intros Hnw Hlen H G EI. destruct ev; unfold handle_event in H; cbn -[Nat.modulo nodup] in H.
  - revert H. match goal with |- context [@alookup ?A caller ?l] => destruct (@alookup A caller l) as [cw|] end; intros H; [|discriminate].
    inversion H; subst e' ns'; clear H. apply EInv_push.
    eapply EInv_alloc; [exact G|exact EI|rewrite Hlen; apply Nat.mod_upper_bound; lia|reflexivity].
  - destruct (alookup target (e_router e)) as [w|]; [|discriminate]. inversion H; subst e' ns'. apply EInv_push. exact EI.
  - revert H. match goal with |- context [forallb ?f targets] => destruct (forallb f targets) end; intros H; [|discriminate].
    inversion H; subst e' ns'; clear H.
    set (wof := fun t => match alookup t (e_router e) with Some w => w | None => 0 end).
    apply (EInv_fold_push (fun w => CQuery awaiter (filter (fun t => wof t =? w) targets)) (fun w => w)).
    apply EInv_pending. exact EI.
  - destruct (alookup awaiter (e_pending e)) as [pa|].
    + destruct (match results with [] => None | (t, _) :: _ => alookup t (e_router e) end) as [w|].
      * destruct (sremove w (pa_expected pa)).
        -- destruct (alookup awaiter (e_router e)) as [aw|]; [|discriminate]. inversion H; subst e' ns'.
           apply EInv_push. apply EInv_pending. exact EI.
        -- inversion H; subst e' ns'. apply EInv_pending. exact EI.
      * inversion H; subst e' ns'. exact EI.
    + destruct (alookup awaiter (e_router e)) as [aw|]; [|discriminate]. inversion H; subst e' ns'. apply EInv_push. exact EI.
  - inversion H; subst e' ns'. exact EI.
  - inversion H; subst e' ns'. exact EI.
Qed.

Lemma handle_events_EInv nw evs : forall e ns e' ns',
  0 < nw -> length ns = nw ->
  handle_events nw evs (e, ns) = Good (e', ns') ->
  GInv e ns evs -> EInv e ns -> EInv e' ns'.
Proof.
  induction evs as [|ev evs IH]; intros e ns e' ns' Hnw Hlen H G EI; cbn [handle_events] in H.
  - inversion H; subst e' ns'. exact EI.
  - destruct (handle_event nw ev (e, ns)) as [[e1 ns1]|] eqn:E1; cbn [rbind] in H; [|discriminate].
    destruct (handle_event_GInv nw ev evs e ns e1 ns1 Hnw Hlen E1 G) as (G1&L1).
    pose proof (handle_event_EInv nw ev evs e ns e1 ns1 Hnw Hlen E1 G EI) as EI1.
    eapply IH; eassumption.
Qed.

(* ------------------------------------------------------------------ the system invariant *)
Definition deliver_ok (s : sys) : Prop := fifo_inv s /\ EInv (s_env s) (s_nodes s).

Lemma deliver_init nw : 0 < nw -> deliver_ok (init nw).
Proof.
  intros H. split; [apply fifo_init; exact H|]. unfold init. simpl. split.
  - intros n nd Hn. apply nth_error_In, repeat_spec in Hn. subst nd. reflexivity.
  - intros t n nd Hr. discriminate.
Qed.

Lemma deliver_step s a s' : deliver_ok s -> sys_step s a = Good s' -> deliver_ok s'.
Proof.
  intros (F&EI) H. split; [eapply fifo_step; eassumption|].
  destruct F as (Hn&G). destruct EI as (Dr&R). destruct a as [i k o|ks|d|c]; simpl in H.
  - destruct (nth_error (s_nodes s) i) as [nd|] eqn:Ei.
    + destruct (node_step i (s_clock s) k o nd) as [nd'|] eqn:Es; cbn [rbind] in H; [|discriminate].
      inversion H; subst s'; clear H. simpl.
      destruct (node_step_ready (fun t => alookup t (e_router (s_env s)) = Some i) _ _ _ _ _ _ Es) as (D1&R1).
      { intros t Ht. apply (R t i nd Ht Ei). }
      { intros t Ht. destruct G as (_&D&_&_).
        destruct (Nat.eq_dec 0 0) as [_|]; [|contradiction].
        destruct (alookup t (e_router (s_env s))) as [j|] eqn:Er.
        - destruct (Nat.eq_dec j i) as [->|Hne]; [reflexivity|].
          exfalso. apply Ht. apply (D i nd t Ei). rewrite Er. intros E; inversion E; contradiction.
        - exfalso. apply Ht. apply (D i nd t Ei). rewrite Er. discriminate. }
      split.
      * intros n x Hx. destruct (Nat.eq_dec n i) as [->|Hne].
        -- rewrite (nth_error_update_same _ _ _ _ Ei) in Hx. inversion Hx; subst x. rewrite D1. apply (Dr i nd Ei).
        -- rewrite nth_error_update_other in Hx by exact Hne. apply (Dr n x Hx).
      * intros t n x Hr Hx. destruct (Nat.eq_dec n i) as [->|Hne].
        -- rewrite (nth_error_update_same _ _ _ _ Ei) in Hx. inversion Hx; subst x. apply R1. exact Hr.
        -- rewrite nth_error_update_other in Hx by exact Hne. apply (R t n x Hr Hx).
    + inversion H; subst s'. split; assumption.
  - destruct (collect ks (s_nodes s)) as [evs ns] eqn:Ec.
    destruct (handle_events (length (s_nodes s)) evs (s_env s, ns)) as [[e' ns']|] eqn:Eh; cbn [rbind] in H; [|discriminate].
    inversion H; subst s'; clear H. simpl.
    destruct (collect_GInv _ _ _ _ _ G Ec) as (G1&L1).
    assert (EI1: EInv (s_env s) ns).
    { destruct (collect_spec (s_nodes s) ks 0 evs ns) as (L&_&N); [intros k nd Hk; destruct G as (_&_&S&_); apply (S k nd Hk)|exact Ec|].
      assert (Back: forall k nd', nth_error ns k = Some nd' -> exists nd, nth_error (s_nodes s) k = Some nd /\ n_w nd' = n_w nd /\ n_cmd nd' = n_cmd nd).
      { intros k nd' Hk. destruct (nth_error (s_nodes s) k) as [nd|] eqn:Ek.
        - destruct (N k nd Ek) as (nd2&A1&A2&A3&_). rewrite Hk in A1. inversion A1; subst nd2. exists nd. auto.
        - apply nth_error_None in Ek. rewrite <- L in Ek. apply nth_error_None in Ek. congruence. }
      split.
      - intros n nd' Hn'. destruct (Back n nd' Hn') as (nd&Hk&A2&_). rewrite A2. apply (Dr n nd Hk).
      - intros t n nd' Hr Hn'. destruct (Back n nd' Hn') as (nd&Hk&A2&A3). rewrite A2, A3. apply (R t n nd Hr Hk). }
    eapply handle_events_EInv; try eassumption.
  - inversion H; subst s'. split; assumption.
  - unfold client_step in H. destruct c.
    + inversion H; subst s'; clear H. cbn -[Nat.modulo].
      eapply EInv_alloc; [exact G|split; assumption|apply Nat.mod_upper_bound; lia|reflexivity].
    + inversion H; subst s'; clear H. simpl. apply EInv_push. split; assumption.
    + inversion H; subst s'; clear H. simpl. apply EInv_push. split; assumption.
    + destruct (alookup p (e_router (s_env s))); inversion H; subst s'; clear H; [|split; assumption].
      simpl. apply EInv_push. split; assumption.
    + destruct (alookup p (e_router (s_env s))); inversion H; subst s'; clear H; [|split; assumption].
      simpl. apply EInv_push. split; assumption.
Qed.

Lemma deliver_run sigma : forall s s', deliver_ok s -> run s sigma = Good s' -> deliver_ok s'.
Proof.
  induction sigma as [|a sigma IH]; intros s s' Hc H; simpl in H.
  - inversion H; subst. exact Hc.
  - destruct (sys_step s a) as [s1|] eqn:E; cbn [rbind] in H; [|discriminate].
    eapply IH; [eapply deliver_step; eassumption|exact H].
Qed.

(* C04: for every schedule and every oracle no DeliverMessage is ever handled for a process that
   does not exist — every arrival (w_arrlog) is an append to the target's mailbox
   (handle_cmd, CDeliver arm) — and a routed process is always either present on its worker or
   about to be spawned there before any message for it is handled. *)
Theorem no_message_dropped : forall nw sigma s,
  0 < nw -> run (init nw) sigma = Good s ->
  (forall n nd, nth_error (s_nodes s) n = Some nd -> w_dropped (n_w nd) = []) /\
  (forall t n nd, alookup t (e_router (s_env s)) = Some n -> nth_error (s_nodes s) n = Some nd -> ready t (n_w nd) (n_cmd nd)).
Proof.
  intros nw sigma s Hnw H. destruct (deliver_run sigma _ _ (deliver_init nw Hnw) H) as (_&EI). exact EI.
Qed.
