(* ProtoMsg.v — C04 on M-Sys (sys/Proto.v): message conservation (every stamped message is in
   exactly one of: an event queue, a command queue, the arrival log of a worker), uniqueness of
   stamps, and mailbox accounting. All statements are over every schedule and every oracle. *)
From Quiver Require Import sys.Proto.
From Coq Require Import Permutation.

(* ------------------------------------------------------------------ ghost projection is preserved *)
Definition geq (w w' : worker) : Prop :=
  w_nsent w' = w_nsent w /\ w_sentlog w' = w_sentlog w /\ w_arrlog w' = w_arrlog w /\ w_dropped w' = w_dropped w.

Lemma geq_refl w : geq w w. Proof. repeat split. Qed.
Lemma geq_trans a b c : geq a b -> geq b c -> geq a c.
Proof. unfold geq; intros (A1&A2&A3&A4) (B1&B2&B3&B4); repeat split; congruence. Qed.

Lemma geq_set_procs w ps : geq w (set_procs w ps). Proof. repeat split. Qed.
Lemma geq_set_sched w a b c : geq w (set_sched w a b c). Proof. repeat split. Qed.
Lemma geq_set_book w a b c : geq w (set_book w a b c). Proof. repeat split. Qed.
Lemma geq_upd_proc p f w : geq w (upd_proc p f w).
Proof. unfold upd_proc. destruct (alookup p (w_procs w)); [apply geq_set_procs|apply geq_refl]. Qed.
Lemma geq_enqueue p w : geq w (enqueue p w). Proof. apply geq_set_sched. Qed.
Lemma geq_wake p w : geq w (wake_selecting p w).
Proof. unfold wake_selecting. destruct (mem p (w_selecting w)); [apply geq_set_sched|apply geq_refl]. Qed.
Lemma geq_mark_spawning p w : geq w (mark_spawning p w). Proof. apply geq_set_sched. Qed.
Lemma geq_mark_selecting p w : geq w (mark_selecting p w). Proof. apply geq_set_sched. Qed.
Lemma geq_mark_active p w : geq w (mark_active p w).
Proof. unfold mark_active. destruct (_ || _); [apply geq_set_sched|apply geq_refl]. Qed.
Lemma geq_notify_result a b r w : geq w (notify_result a b r w).
Proof.
  unfold notify_result. destruct (awaits a b w); [eapply geq_trans; [apply geq_upd_proc|apply geq_wake]|apply geq_wake].
Qed.
Lemma geq_worker_notify a b r w : geq w (worker_notify a b r w).
Proof.
  unfold worker_notify. destruct r; [apply geq_notify_result|].
  destruct (awaits a b w); [apply geq_upd_proc|apply geq_wake].
Qed.

Lemma geq_fold {A} (f : worker -> A -> worker) l :
  (forall w x, geq w (f w x)) -> forall w, geq w (fold_left f l w).
Proof.
  intros Hf. induction l as [|x l IH]; intros w; simpl; [apply geq_refl|].
  eapply geq_trans; [apply Hf|apply IH].
Qed.

Lemma geq_update_await a rs w : geq w (update_await a rs w).
Proof.
  unfold update_await.
  assert (H: geq w (fold_left (fun w e => match snd e with Some r => worker_notify a (fst e) r w | None => w end) rs w)).
  { apply geq_fold. intros w0 x. destruct (snd x); [apply geq_worker_notify|apply geq_refl]. }
  destruct (existsb _ rs); [exact H|]. eapply geq_trans; [exact H|apply geq_wake].
Qed.

Lemma geq_query_one a w rs t : geq w (fst (query_one a (w, rs) t)).
Proof.
  unfold query_one. destruct (completed_value w t); simpl; [apply geq_refl|apply geq_set_book].
Qed.

Lemma geq_query_fold a ts : forall w rs, geq w (fst (fold_left (query_one a) ts (w, rs))).
Proof.
  induction ts as [|t ts IH]; intros w rs; cbn [fold_left]; [apply geq_refl|].
  pose proof (geq_query_one a w rs t) as Q.
  destruct (query_one a (w, rs) t) as [w1 rs1]. simpl in Q.
  eapply geq_trans; [exact Q|apply IH].
Qed.

(* ------------------------------------------------------------------ the (target, message) pairs in flight *)
Definition deliv (c : cmd) : list (pid * msg) := match c with CDeliver t m => [(t, m)] | _ => [] end.
Definition delivs (cs : list cmd) : list (pid * msg) := flat_map deliv cs.
Definition edeliv (e : event) : list (pid * msg) := match e with EDeliverA t m => [(t, m)] | _ => [] end.
Definition edelivs (es : list event) : list (pid * msg) := flat_map edeliv es.

Lemma delivs_app a b : delivs (a ++ b) = delivs a ++ delivs b.
Proof. unfold delivs. apply flat_map_app. Qed.
Lemma edelivs_app a b : edelivs (a ++ b) = edelivs a ++ edelivs b.
Proof. unfold edelivs. apply flat_map_app. Qed.

(* Worker::handle_command: the arrival log grows by exactly the DeliverMessage handled; nothing is sent *)
Lemma handle_cmd_ghost c w w' ev :
  handle_cmd c w = Good (w', ev) ->
  w_nsent w' = w_nsent w /\ w_sentlog w' = w_sentlog w /\ w_arrlog w' = w_arrlog w ++ deliv c /\ edelivs ev = [].
Proof.
  intros H.
  assert (G: forall w0, geq w w0 -> w_nsent w0 = w_nsent w /\ w_sentlog w0 = w_sentlog w /\ w_arrlog w0 = w_arrlog w ++ [] /\ True).
  { intros w0 (A&B&C&D). rewrite app_nil_r. auto. }
  destruct c; simpl in H.
  - inversion H; subst. destruct (G w' (geq_refl _)) as (?&?&?&_). auto.
  - inversion H; subst. destruct (G w' (geq_refl _)) as (?&?&?&_). auto.
  - destruct sleeping; inversion H; subst.
    + destruct (G _ (geq_set_procs w (aset p (new_proc true (Some (ROk 0))) (w_procs w)))) as (?&?&?&_). auto.
    + destruct (G _ (geq_trans _ _ _ (geq_set_procs w (aset p (new_proc true None) (w_procs w))) (geq_enqueue p _))) as (?&?&?&_). auto.
  - inversion H; subst.
    destruct (G _ (geq_trans _ _ _ (geq_set_procs w (aset p (new_proc false None) (w_procs w))) (geq_enqueue p _))) as (?&?&?&_). auto.
  - destruct (alookup p (w_procs w)) as [pr|]; [|discriminate].
    destruct (p_res pr) as [[v|e]|]; try discriminate.
    destruct (p_pers pr); [|discriminate]. inversion H; subst.
    destruct (G _ (geq_trans _ _ _ (geq_upd_proc p (with_res None) w) (geq_enqueue p _))) as (?&?&?&_). auto.
  - destruct (fold_left (query_one awaiter) targets (w, [])) as [w1 rs] eqn:E. inversion H; subst.
    pose proof (geq_query_fold awaiter targets w []) as Q. rewrite E in Q. simpl in Q.
    destruct (G _ Q) as (?&?&?&_). auto.
  - inversion H; subst. destruct (G _ (geq_update_await awaiter results w)) as (?&?&?&_). auto.
  - destruct (alookup target (w_procs w)) as [pr|]; inversion H; subst; clear H.
    + set (w0 := set_ghost w (w_nsent w) (w_sentlog w) (w_arrlog w ++ [(target, m)]) (w_dropped w)).
      pose proof (geq_trans _ _ _ (geq_upd_proc target (fun pr0 => with_mail (p_mail pr0 ++ [m]) (p_arrived pr0 ++ [m]) (p_taken pr0) pr0) w0)
                    (geq_wake target _)) as (A&B&C&D).
      simpl. rewrite A, B, C. auto.
    + set (w0 := set_ghost w (w_nsent w) (w_sentlog w) (w_arrlog w ++ [(target, m)]) (w_dropped w ++ [(target, m)])).
      pose proof (geq_wake target w0) as (A&B&C&D). simpl. rewrite A, B, C. auto.
  - destruct (mem p (w_spawning w)); inversion H; subst.
    + destruct (G _ (geq_set_sched w (match alookup p (w_procs w) with Some _ => w_queue w ++ [p] | None => w_queue w end)
                                   (sremove p (w_spawning w)) (w_selecting w))) as (?&?&?&_). auto.
    + destruct (G w' (geq_refl _)) as (?&?&?&_). auto.
  - destruct (alookup p (w_procs w)) as [pr|]; [|discriminate].
    destruct (p_res pr); inversion H; subst.
    + destruct (G w' (geq_refl _)) as (?&?&?&_). auto.
    + destruct (G _ (geq_set_book w (w_awaited w) (w_awaiters w)
                      (aset p (match alookup p (w_pending w) with Some l => l | None => [] end ++ [req]) (w_pending w)))) as (?&?&?&_). auto.
Qed.

Lemma handle_cmds_ghost cs : forall w w' ev,
  handle_cmds cs w = Good (w', ev) ->
  w_nsent w' = w_nsent w /\ w_sentlog w' = w_sentlog w /\ w_arrlog w' = w_arrlog w ++ delivs cs /\ edelivs ev = [].
Proof.
  induction cs as [|c cs IH]; intros w w' ev H; simpl in H.
  - inversion H; subst. simpl. rewrite app_nil_r. auto.
  - destruct (handle_cmd c w) as [[w1 e1]|] eqn:E1; simpl in H; [|discriminate].
    destruct (handle_cmds cs w1) as [[w2 e2]|] eqn:E2; simpl in H; [|discriminate].
    inversion H; subst.
    apply handle_cmd_ghost in E1. apply IH in E2.
    destruct E1 as (A1&B1&C1&D1), E2 as (A2&B2&C2&D2).
    repeat split; try congruence.
    + rewrite C2, C1. simpl. rewrite <- app_assoc. reflexivity.
    + rewrite edelivs_app, D1, D2. reflexivity.
Qed.

(* the completion path and the local awaiter notifications touch no ghost *)
Lemma geq_notify_local p r h w q : geq w (notify_local p r h w q).
Proof. unfold notify_local. destruct r; [destruct h; [apply geq_refl|apply geq_notify_result]|apply geq_upd_proc]. Qed.

Lemma finish_ghost p r h hint w w' : finish p r h hint w = Good w' -> geq w w'.
Proof.
  unfold finish. destruct (order_by hint _); [|discriminate]. intros H; inversion H; subst.
  eapply geq_trans; [apply geq_upd_proc|]. apply geq_fold. intros; apply geq_notify_local.
Qed.

Lemma expire_ghost now hint w w' : expire now hint w = Good w' -> geq w w'.
Proof. unfold expire. destruct (order_by hint _); [|discriminate]. intros H; inversion H; subst. apply geq_set_sched. Qed.

(* one time slice on worker i: at most one message is stamped (i, next sequence number), logged and emitted *)
Definition slice_ghost (i : wid) (w w' : worker) (ev : list event) : Prop :=
  w_arrlog w' = w_arrlog w /\
  ((w_nsent w' = w_nsent w /\ w_sentlog w' = w_sentlog w /\ edelivs ev = []) \/
   (exists t p, w_nsent w' = S (w_nsent w) /\ w_sentlog w' = w_sentlog w ++ [(t, mkMsg p i (w_nsent w))]
                /\ edelivs ev = [(t, mkMsg p i (w_nsent w))])).

Lemma slice_ghost_of_geq i w w' : geq w w' -> slice_ghost i w w' [].
Proof. intros (A&B&C&D). split; [exact C|left; auto]. Qed.

Lemma slice_ghost_geq_r i w w1 w2 ev : slice_ghost i w w1 ev -> geq w1 w2 -> slice_ghost i w w2 ev.
Proof.
  intros (A&H) (B1&B2&B3&B4). split; [congruence|].
  destruct H as [(H1&H2&H3)|(t&p&H1&H2&H3)]; [left|right; exists t, p]; repeat split; congruence.
Qed.

Lemma run_slice_ghost i p pr d hint w w' ev :
  run_slice i p pr d hint w = Good (w', ev) -> slice_ghost i w w' ev.
Proof.
  unfold run_slice. destruct (negb (did_ok d)); [discriminate|].
  destruct (take_seq (d_taken d) (p_mail pr)) as [[taken mail']|]; [|discriminate].
  set (w1 := set_procs w _).
  assert (G1: geq w w1) by apply geq_set_procs.
  destruct (d_act d) as [[| t | ts]|].
  - (* spawn *)
    set (w2 := mark_spawning p w1).
    assert (G2: geq w w2) by (eapply geq_trans; [exact G1|apply geq_mark_spawning]).
    assert (G3: geq w (if d_park d then mark_selecting p w2 else w2)).
    { destruct (d_park d); [eapply geq_trans; [exact G2|apply geq_mark_selecting]|exact G2]. }
    destruct (d_fin d).
    + destruct (finish _ _ _ _ _) as [w4|] eqn:F; simpl; [|discriminate]. intros H; inversion H; subst.
      apply slice_ghost_of_geq. eapply geq_trans; [exact G3|eapply finish_ghost; exact F].
    + destruct (_ || _); intros H; inversion H; subst; apply slice_ghost_of_geq;
        [exact G3|eapply geq_trans; [exact G3|apply geq_enqueue]].
  - (* deliver *)
    set (m := mkMsg p i (w_nsent w1)).
    set (w2 := set_ghost w1 (S (w_nsent w1)) (w_sentlog w1 ++ [(t, m)]) (w_arrlog w1) (w_dropped w1)).
    assert (S2: slice_ghost i w w2 [EDeliverA t m]).
    { split; [reflexivity|]. right. exists t, p. unfold m, w2, w1. simpl. auto. }
    assert (S3: slice_ghost i w (if d_park d then mark_selecting p w2 else w2) [EDeliverA t m]).
    { destruct (d_park d); [eapply slice_ghost_geq_r; [exact S2|apply geq_mark_selecting]|exact S2]. }
    destruct (d_fin d).
    + destruct (finish _ _ _ _ _) as [w4|] eqn:F; simpl; [|discriminate]. intros H; inversion H; subst.
      eapply slice_ghost_geq_r; [exact S3|eapply finish_ghost; exact F].
    + destruct (_ || _); intros H; inversion H; subst;
        [exact S3|eapply slice_ghost_geq_r; [exact S3|apply geq_enqueue]].
  - (* await *)
    set (w2 := mark_selecting p (upd_proc p _ w1)).
    assert (G2: geq w w2).
    { eapply geq_trans; [exact G1|]. eapply geq_trans; [apply geq_upd_proc|apply geq_mark_selecting]. }
    assert (G3: geq w (if d_park d then mark_selecting p w2 else w2)).
    { destruct (d_park d); [eapply geq_trans; [exact G2|apply geq_mark_selecting]|exact G2]. }
    destruct (d_fin d).
    + destruct (finish _ _ _ _ _) as [w4|] eqn:F; simpl; [|discriminate]. intros H; inversion H; subst.
      apply slice_ghost_of_geq. eapply geq_trans; [exact G3|eapply finish_ghost; exact F].
    + destruct (_ || _); intros H; inversion H; subst; apply slice_ghost_of_geq;
        [exact G3|eapply geq_trans; [exact G3|apply geq_enqueue]].
  - (* no action *)
    assert (G3: geq w (if d_park d then mark_selecting p w1 else w1)).
    { destruct (d_park d); [eapply geq_trans; [exact G1|apply geq_mark_selecting]|exact G1]. }
    destruct (d_fin d).
    + destruct (finish _ _ _ _ _) as [w4|] eqn:F; simpl; [|discriminate]. intros H; inversion H; subst.
      apply slice_ghost_of_geq. eapply geq_trans; [exact G3|eapply finish_ghost; exact F].
    + destruct (_ || _); intros H; inversion H; subst; apply slice_ghost_of_geq;
        [exact G3|eapply geq_trans; [exact G3|apply geq_enqueue]].
Qed.

Lemma exec_step_ghost i now o w w' ev :
  exec_step i now o w = Good (w', ev) -> slice_ghost i w w' ev.
Proof.
  unfold exec_step. destruct (expire now (o_expired o) w) as [w1|] eqn:E; simpl; [|discriminate].
  apply expire_ghost in E.
  destruct (w_queue w1) as [|p q'].
  - intros H; inversion H; subst. apply slice_ghost_of_geq; exact E.
  - set (w2 := set_sched w1 q' _ _).
    assert (G2: geq w w2) by (eapply geq_trans; [exact E|apply geq_set_sched]).
    destruct (alookup p (w_procs w1)) as [pr|].
    + destruct (match o_pid o with Some p' => p =? p' | None => false end).
      * intros H. apply run_slice_ghost in H.
        destruct G2 as (A&B&C&D). destruct H as (H0&H).
        split; [congruence|].
        destruct H as [(H1&H2&H3)|(t&p0&H1&H2&H3)]; [left|right; exists t, p0]; repeat split; congruence.
      * destruct (p_res pr) as [[v|e]|]; try discriminate.
        destruct (finish _ _ _ _ _) as [w3|] eqn:F; simpl; [|discriminate]. intros H; inversion H; subst.
        apply slice_ghost_of_geq. eapply geq_trans; [exact G2|eapply finish_ghost; exact F].
    + intros H; inversion H; subst. apply slice_ghost_of_geq; exact G2.
Qed.

(* check_completed_processes emits no DeliverAction and touches no ghost *)
Lemma edelivs_map_results (f : pid -> event) l : (forall a, edeliv (f a) = []) -> edelivs (map f l) = [].
Proof. intros H. induction l; simpl; [reflexivity|]. rewrite H. exact IHl. Qed.

Lemma report_completed_ok acc t :
  geq (fst acc) (fst (report_completed acc t)) /\ edelivs (snd (report_completed acc t)) = edelivs (snd acc).
Proof.
  destruct acc as [w ev]. unfold report_completed. destruct (result_of w t); simpl.
  - split; [apply geq_set_book|]. rewrite edelivs_app, edelivs_map_results by reflexivity. apply app_nil_r.
  - split; [apply geq_refl|reflexivity].
Qed.
Lemma report_pending_ok acc e :
  geq (fst acc) (fst (report_pending acc e)) /\ edelivs (snd (report_pending acc e)) = edelivs (snd acc).
Proof.
  destruct acc as [w ev]. unfold report_pending. destruct (result_of w (fst e)); simpl.
  - split; [apply geq_set_book|]. rewrite edelivs_app, edelivs_map_results by reflexivity. apply app_nil_r.
  - split; [apply geq_refl|reflexivity].
Qed.

Lemma fold_acc_ok {A} (f : worker * list event -> A -> worker * list event) l :
  (forall acc x, geq (fst acc) (fst (f acc x)) /\ edelivs (snd (f acc x)) = edelivs (snd acc)) ->
  forall acc, geq (fst acc) (fst (fold_left f l acc)) /\ edelivs (snd (fold_left f l acc)) = edelivs (snd acc).
Proof.
  intros Hf. induction l as [|x l IH]; intros acc; simpl; [split; [apply geq_refl|reflexivity]|].
  destruct (Hf acc x) as (Ha&Hb). destruct (IH (f acc x)) as (Hc&Hd).
  split; [eapply geq_trans; eassumption|congruence].
Qed.

Lemma check_completed_ghost hint w w' ev :
  check_completed hint w = Good (w', ev) -> geq w w' /\ edelivs ev = [].
Proof.
  unfold check_completed. destruct (order_by hint _) as [o|]; [|discriminate].
  intros H; inversion H as [H1]; clear H.
  destruct (fold_acc_ok report_completed o report_completed_ok (w, [])) as (Ha&Hb).
  destruct (fold_acc_ok report_pending (w_pending (fst (fold_left report_completed o (w, [])))) report_pending_ok
              (fold_left report_completed o (w, []))) as (Hc&Hd).
  rewrite H1 in Hc, Hd. simpl in *. split.
  - eapply geq_trans; eassumption.
  - rewrite Hd, Hb. reflexivity.
Qed.

(* ------------------------------------------------------------------ Worker::step as a whole *)
Lemma split_at_app {A} k (l : list A) : fst (split_at k l) ++ snd (split_at k l) = l.
Proof. destruct k; simpl; [apply firstn_skipn|apply app_nil_r]. Qed.

Lemma node_step_ghost i now k o nd nd' :
  node_step i now k o nd = Good nd' ->
  exists pre new,
    n_cmd nd = pre ++ n_cmd nd' /\
    w_arrlog (n_w nd') = w_arrlog (n_w nd) ++ delivs pre /\
    edelivs (n_evt nd') = edelivs (n_evt nd) ++ new /\
    w_sentlog (n_w nd') = w_sentlog (n_w nd) ++ new /\
    ((new = [] /\ w_nsent (n_w nd') = w_nsent (n_w nd)) \/
     (exists t p, new = [(t, mkMsg p i (w_nsent (n_w nd)))] /\ w_nsent (n_w nd') = S (w_nsent (n_w nd)))).
Proof.
  unfold node_step. pose proof (split_at_app k (n_cmd nd)) as Hs.
  destruct (split_at k (n_cmd nd)) as [pre later]. simpl in Hs.
  destruct (handle_cmds pre (n_w nd)) as [[w1 e1]|] eqn:E1; simpl; [|discriminate].
  destruct (exec_step i now o w1) as [[w2 e2]|] eqn:E2; simpl; [|discriminate].
  destruct (check_completed (o_completed o) w2) as [[w3 e3]|] eqn:E3; simpl; [|discriminate].
  intros H; inversion H; subst; clear H. simpl.
  apply handle_cmds_ghost in E1. apply exec_step_ghost in E2. apply check_completed_ghost in E3.
  destruct E1 as (A1&B1&C1&D1). destruct E2 as (A2&H2). destruct E3 as ((A3&B3&C3&D3)&F3).
  exists pre. exists (edelivs e2). repeat split.
  - symmetry; exact Hs.
  - congruence.
  - rewrite !edelivs_app, D1, F3. simpl. rewrite app_nil_r. reflexivity.
  - destruct H2 as [(H1&H2&H3)|(t&p&H1&H2&H3)]; rewrite B3, H2, H3, ?app_nil_r; congruence.
  - destruct H2 as [(H1&H2&H3)|(t&p&H1&H2&H3)].
    + left. split; [exact H3|congruence].
    + right. exists t, p. split; [rewrite H3; congruence|congruence].
Qed.

(* ------------------------------------------------------------------ counting over all nodes *)
Definition pm_eqb (a b : pid * msg) : bool :=
  (fst a =? fst b) && (m_from (snd a) =? m_from (snd b)) && (m_w (snd a) =? m_w (snd b)) && (m_seq (snd a) =? m_seq (snd b)).
Definition cnt (x : pid * msg) (l : list (pid * msg)) : nat := length (filter (pm_eqb x) l).

Lemma cnt_app x a b : cnt x (a ++ b) = cnt x a + cnt x b.
Proof. unfold cnt. rewrite filter_app, app_length. reflexivity. Qed.

Definition total (g : node -> nat) (ns : list node) : nat := fold_right (fun nd acc => g nd + acc) 0 ns.

Lemma total_update g ns : forall n nd nd',
  nth_error ns n = Some nd ->
  total g (update_nth n (fun _ => nd') ns) + g nd = total g ns + g nd'.
Proof.
  induction ns as [|a ns IH]; intros n nd nd' H; destruct n; simpl in *; try discriminate.
  - inversion H; subst. lia.
  - specialize (IH _ _ nd' H). lia.
Qed.

Definition g_sent x (nd : node) := cnt x (w_sentlog (n_w nd)).
Definition g_arr x (nd : node) := cnt x (w_arrlog (n_w nd)).
Definition g_cmd x (nd : node) := cnt x (delivs (n_cmd nd)).
Definition g_evt x (nd : node) := cnt x (edelivs (n_evt nd)).

(* sent = arrived + in a command queue + in an event queue, for every (target, stamp) *)
Definition balanced (ns : list node) (extra : nat) (x : pid * msg) : Prop :=
  total (g_sent x) ns = total (g_arr x) ns + total (g_cmd x) ns + total (g_evt x) ns + extra.

(* router entries point at existing workers *)
Definition routed (e : env) (n : nat) : Prop := forall p w, alookup p (e_router e) = Some w -> w < n.

Lemma alookup_aset {A} k k' (a : A) l :
  alookup k (aset k' a l) = if k =? k' then Some a else alookup k l.
Proof.
  induction l as [|[k0 a0] l IH]; simpl.
  - destruct (k =? k') eqn:E; [reflexivity|reflexivity].
  - destruct (k' =? k0) eqn:E0; simpl.
    + destruct (k =? k') eqn:E; [reflexivity|].
      apply Nat.eqb_eq in E0; subst. rewrite E. reflexivity.
    + destruct (k =? k0) eqn:E1.
      * destruct (k =? k') eqn:E; [|reflexivity].
        apply Nat.eqb_eq in E, E1; subst. rewrite Nat.eqb_refl in E0. discriminate.
      * exact IH.
Qed.

Lemma update_nth_length {A} (f : A -> A) l n : length (update_nth n f l) = length l.
Proof. revert n. induction l; intros [|n]; simpl; auto. Qed.

Lemma push_cmd_length w c ns : length (push_cmd w c ns) = length ns.
Proof. apply update_nth_length. Qed.

Lemma total_push_other g w c ns :
  (forall nd, g {| n_w := n_w nd; n_cmd := n_cmd nd ++ [c]; n_evt := n_evt nd |} = g nd) ->
  total g (push_cmd w c ns) = total g ns.
Proof.
  intros H. unfold push_cmd. revert w. induction ns as [|a ns IH]; intros [|w]; simpl; auto;
    try (rewrite H; reflexivity); try (rewrite IH; reflexivity).
Qed.

Lemma total_push_cmd x w c ns :
  w < length ns ->
  total (g_cmd x) (push_cmd w c ns) = total (g_cmd x) ns + cnt x (deliv c).
Proof.
  unfold push_cmd. revert w. induction ns as [|a ns IH]; intros [|w] H; simpl in *; try lia.
  - unfold g_cmd at 1. simpl. rewrite delivs_app, cnt_app. unfold g_cmd. simpl. rewrite app_nil_r. lia.
  - rewrite IH by lia. lia.
Qed.

Lemma push_balanced ns extra x w c :
  w < length ns -> balanced ns (extra + cnt x (deliv c)) x -> balanced (push_cmd w c ns) extra x.
Proof.
  intros Hw H. unfold balanced in *.
  rewrite (total_push_other (g_sent x)), (total_push_other (g_arr x)), (total_push_other (g_evt x)) by reflexivity.
  rewrite total_push_cmd by exact Hw. lia.
Qed.

Lemma push_balanced_nodeliv ns extra x w c :
  deliv c = [] -> balanced ns extra x -> balanced (push_cmd w c ns) extra x.
Proof.
  intros Hc H. unfold balanced in *.
  rewrite (total_push_other (g_sent x)), (total_push_other (g_arr x)), (total_push_other (g_evt x)) by reflexivity.
  assert (E: total (g_cmd x) (push_cmd w c ns) = total (g_cmd x) ns).
  { apply total_push_other. intros nd. unfold g_cmd. simpl. rewrite delivs_app. simpl. rewrite Hc, app_nil_r. reflexivity. }
  rewrite E. exact H.
Qed.

Lemma fold_push_balanced {A} (mk : A -> cmd) (wof : A -> wid) x :
  (forall a, deliv (mk a) = []) ->
  forall l ns extra, balanced ns extra x ->
  balanced (fold_left (fun ns a => push_cmd (wof a) (mk a) ns) l ns) extra x.
Proof.
  intros Hmk. induction l as [|a l IH]; intros ns extra H; simpl; [exact H|].
  apply IH. apply push_balanced_nodeliv; [apply Hmk|exact H].
Qed.

Lemma fold_push_length {A} (mk : A -> cmd) (wof : A -> wid) l : forall ns,
  length (fold_left (fun ns a => push_cmd (wof a) (mk a) ns) l ns) = length ns.
Proof. induction l; intros ns; simpl; [reflexivity|]. rewrite IHl. apply push_cmd_length. Qed.

(* Environment::handle_event: a DeliverAction becomes exactly one DeliverMessage; nothing else
   creates or destroys a message *)
Lemma handle_event_balanced nw ev e ns e' ns' extra x :
  0 < nw -> length ns = nw -> routed e nw ->
  handle_event nw ev (e, ns) = Good (e', ns') ->
  balanced ns (extra + cnt x (edeliv ev)) x ->
  balanced ns' extra x /\ length ns' = nw /\ routed e' nw.
Proof.
  intros Hnw Hlen Hr H B. destruct ev; unfold handle_event in H; cbn -[Nat.modulo nodup] in H; simpl in B; rewrite ?Nat.add_0_r in B.
  - (* spawn *)
    revert H. match goal with |- context [@alookup ?A caller ?l] => destruct (@alookup A caller l) as [cw|] eqn:Ec end; intros H; [|discriminate].
    inversion H; subst; clear H. repeat split.
    + apply push_balanced_nodeliv; [reflexivity|]. apply push_balanced_nodeliv; [reflexivity|exact B].
    + rewrite !push_cmd_length. reflexivity.
    + intros p w. cbn -[Nat.modulo]. rewrite alookup_aset. destruct (p =? e_next e).
      * intros E; inversion E; subst. apply Nat.mod_upper_bound. lia.
      * apply Hr.
  - (* deliver *)
    revert H. destruct (alookup target (e_router e)) as [w|] eqn:Ew; intros H; [|discriminate].
    inversion H; subst; clear H. repeat split; [|rewrite push_cmd_length; reflexivity|exact Hr].
    apply push_balanced; [eapply Hr; exact Ew|]. simpl. simpl in B. exact B.
  - (* await *)
    revert H. match goal with |- context [forallb ?f targets] => destruct (forallb f targets) end; intros H; [|discriminate].
    inversion H; subst; clear H. repeat split.
    + set (wof := fun t => match alookup t (e_router e) with Some w => w | None => 0 end).
      apply (fold_push_balanced (fun w => CQuery awaiter (filter (fun t => wof t =? w) targets)) (fun w => w) x); [reflexivity|exact B].
    + set (wof := fun t => match alookup t (e_router e) with Some w => w | None => 0 end).
      apply (fold_push_length (fun w => CQuery awaiter (filter (fun t => wof t =? w) targets)) (fun w => w)).
    + exact Hr.
  - (* results *)
    destruct (alookup awaiter (e_pending e)) as [pa|].
    + destruct (match results with [] => None | (t, _) :: _ => alookup t (e_router e) end) as [w|].
      * destruct (sremove w (pa_expected pa)).
        -- destruct (alookup awaiter (e_router e)) as [aw|]; [|discriminate]. inversion H; subst; clear H.
           repeat split; [apply push_balanced_nodeliv; [reflexivity|exact B]|rewrite push_cmd_length; reflexivity|exact Hr].
        -- inversion H; subst; clear H. repeat split; [exact B|exact Hr].
      * inversion H; subst; clear H. repeat split; [exact B|exact Hr].
    + destruct (alookup awaiter (e_router e)) as [aw|]; [|discriminate]. inversion H; subst; clear H.
      repeat split; [apply push_balanced_nodeliv; [reflexivity|exact B]|rewrite push_cmd_length; reflexivity|exact Hr].
  - inversion H; subst. repeat split; [exact B|exact Hr].
  - inversion H; subst. repeat split; [exact B|exact Hr].
Qed.

Lemma handle_events_balanced nw evs : forall e ns e' ns' x,
  0 < nw -> length ns = nw -> routed e nw ->
  handle_events nw evs (e, ns) = Good (e', ns') ->
  balanced ns (cnt x (edelivs evs)) x ->
  balanced ns' 0 x /\ length ns' = nw /\ routed e' nw.
Proof.
  induction evs as [|ev evs IH]; intros e ns e' ns' x Hnw Hlen Hr H B; cbn [handle_events] in H.
  - inversion H; subst. auto.
  - destruct (handle_event nw ev (e, ns)) as [[e1 ns1]|] eqn:E1; cbn [rbind] in H; [|discriminate].
    simpl in B. rewrite cnt_app in B.
    destruct (handle_event_balanced nw ev e ns e1 ns1 (cnt x (edelivs evs)) x Hnw Hlen Hr E1) as (B1&L1&R1).
    { unfold balanced in *. lia. }
    eapply IH; eassumption.
Qed.

(* the collect phase: events leave the queues and are held by the environment *)
Lemma collect_totals ks : forall ns x,
  total (g_sent x) (snd (collect ks ns)) = total (g_sent x) ns /\
  total (g_arr x) (snd (collect ks ns)) = total (g_arr x) ns /\
  total (g_cmd x) (snd (collect ks ns)) = total (g_cmd x) ns /\
  total (g_evt x) (snd (collect ks ns)) + cnt x (edelivs (fst (collect ks ns))) = total (g_evt x) ns /\
  length (snd (collect ks ns)) = length ns /\
  map n_w (snd (collect ks ns)) = map n_w ns.
Proof.
  intros ns. revert ks. induction ns as [|nd ns IH]; intros ks x; simpl.
  - repeat split; reflexivity.
  - set (k := match ks with [] => None | k0 :: _ => Some k0 end).
    pose proof (split_at_app k (n_evt nd)) as Hs.
    destruct (split_at k (n_evt nd)) as [now_evs later]. simpl in Hs.
    specialize (IH (tl ks) x). destruct (collect (tl ks) ns) as [evs t']. simpl in *.
    destruct IH as (A&B&C&D&L&M).
    assert (Hev: g_evt x nd = cnt x (edelivs now_evs) + cnt x (edelivs later)).
    { unfold g_evt. rewrite <- Hs, edelivs_app, cnt_app. reflexivity. }
    repeat split.
    + unfold g_sent at 1. simpl. fold (g_sent x nd). rewrite A. reflexivity.
    + unfold g_arr at 1. simpl. fold (g_arr x nd). rewrite B. reflexivity.
    + unfold g_cmd at 1. simpl. fold (g_cmd x nd). rewrite C. reflexivity.
    + unfold g_evt at 1. simpl. rewrite edelivs_app, cnt_app. lia.
    + rewrite L. reflexivity.
    + rewrite M. reflexivity.
Qed.

(* ------------------------------------------------------------------ the invariant and its preservation *)
Definition conserved (s : sys) : Prop :=
  0 < length (s_nodes s) /\ routed (s_env s) (length (s_nodes s)) /\ forall x, balanced (s_nodes s) 0 x.

Lemma total_repeat g nd n : g nd = 0 -> total g (repeat nd n) = 0.
Proof. intros H. induction n; simpl; [reflexivity|]. rewrite H, IHn. reflexivity. Qed.

Lemma conserved_init nw : 0 < nw -> conserved (init nw).
Proof.
  intros H. unfold conserved, init. simpl. rewrite repeat_length. repeat split; [exact H| |].
  - intros p w E. discriminate.
  - intros x. unfold balanced. rewrite !total_repeat by reflexivity. reflexivity.
Qed.

Lemma conserved_step s a s' : conserved s -> sys_step s a = Good s' -> conserved s'.
Proof.
  intros (Hn&Hr&Hb) H. destruct a as [i k o|ks|d|c]; simpl in H.
  - (* W *)
    revert H. destruct (nth_error (s_nodes s) i) as [nd|] eqn:Ei; intros H.
    + revert H. destruct (node_step i (s_clock s) k o nd) as [nd'|] eqn:Es; intros H; simpl in H; [|discriminate].
      inversion H; subst; clear H. unfold conserved. simpl. rewrite update_nth_length.
      repeat split; [exact Hn|exact Hr|]. intros x.
      destruct (node_step_ghost _ _ _ _ _ _ Es) as (pre&new&C1&C2&C3&C4&_).
      pose proof (total_update (g_sent x) _ _ _ nd' Ei) as T1.
      pose proof (total_update (g_arr x) _ _ _ nd' Ei) as T2.
      pose proof (total_update (g_cmd x) _ _ _ nd' Ei) as T3.
      pose proof (total_update (g_evt x) _ _ _ nd' Ei) as T4.
      assert (G1: g_sent x nd' = g_sent x nd + cnt x new) by (unfold g_sent; rewrite C4, cnt_app; reflexivity).
      assert (G2: g_arr x nd' = g_arr x nd + cnt x (delivs pre)) by (unfold g_arr; rewrite C2, cnt_app; reflexivity).
      assert (G3: g_cmd x nd = cnt x (delivs pre) + g_cmd x nd') by (unfold g_cmd; rewrite C1, delivs_app, cnt_app; reflexivity).
      assert (G4: g_evt x nd' = g_evt x nd + cnt x new) by (unfold g_evt; rewrite C3, cnt_app; reflexivity).
      specialize (Hb x). unfold balanced in *. lia.
    + inversion H; subst. repeat split; assumption.
  - (* E *)
    revert H. destruct (collect ks (s_nodes s)) as [evs ns] eqn:Ec.
    destruct (handle_events (length (s_nodes s)) evs (s_env s, ns)) as [[e' ns']|] eqn:Eh; intros H; simpl in H; [|discriminate].
    inversion H; subst; clear H. unfold conserved. simpl.
    assert (L: length ns = length (s_nodes s)).
    { pose proof (collect_totals ks (s_nodes s) (0, mkMsg 0 0 0)) as (_&_&_&_&L&_). rewrite Ec in L. exact L. }
    assert (B: forall x, balanced ns (cnt x (edelivs evs)) x).
    { intros x. pose proof (collect_totals ks (s_nodes s) x) as (A&B&C&D&_&_). rewrite Ec in *. simpl in *.
      specialize (Hb x). unfold balanced in *. lia. }
    assert (All: forall x, balanced ns' 0 x /\ length ns' = length (s_nodes s) /\ routed e' (length (s_nodes s))).
    { intros x. eapply handle_events_balanced; try eassumption. apply B. }
    destruct (All (0, mkMsg 0 0 0)) as (_&L'&R'). rewrite L'. repeat split; [exact Hn|exact R'|].
    intros x. apply All.
  - inversion H; subst. repeat split; assumption.
  - (* client *)
    unfold client_step in H. destruct c.
    + inversion H; subst; clear H. unfold conserved. cbn -[Nat.modulo]. rewrite push_cmd_length. repeat split; [exact Hn| |].
      * intros p w. cbn -[Nat.modulo]. rewrite alookup_aset. destruct (p =? e_next (s_env s)).
        -- intros E; inversion E; subst. apply Nat.mod_upper_bound. lia.
        -- apply Hr.
      * intros x. apply push_balanced_nodeliv; [reflexivity|apply Hb].
    + inversion H; subst; clear H. unfold conserved. simpl. rewrite push_cmd_length. repeat split; [exact Hn|exact Hr|].
      intros x. apply push_balanced_nodeliv; [reflexivity|apply Hb].
    + inversion H; subst; clear H. unfold conserved. simpl. rewrite push_cmd_length. repeat split; [exact Hn|exact Hr|].
      intros x. apply push_balanced_nodeliv; [reflexivity|apply Hb].
    + destruct (alookup p (e_router (s_env s))); inversion H; subst; clear H; [|repeat split; assumption].
      unfold conserved. simpl. rewrite push_cmd_length. repeat split; [exact Hn|exact Hr|].
      intros x. apply push_balanced_nodeliv; [reflexivity|apply Hb].
    + destruct (alookup p (e_router (s_env s))); inversion H; subst; clear H; [|repeat split; assumption].
      unfold conserved. simpl. rewrite push_cmd_length. repeat split; [exact Hn|exact Hr|].
      intros x. apply push_balanced_nodeliv; [reflexivity|apply Hb].
Qed.

Lemma conserved_run sigma : forall s s', conserved s -> run s sigma = Good s' -> conserved s'.
Proof.
  induction sigma as [|a sigma IH]; intros s s' Hc H; simpl in H.
  - inversion H; subst. exact Hc.
  - destruct (sys_step s a) as [s1|] eqn:E; simpl in H; [|discriminate].
    eapply IH; [eapply conserved_step; eassumption|exact H].
Qed.

(* C04 message_conservation: for every schedule and every oracle, every stamped message (t, m) that
   was sent is — counted with multiplicity — in exactly one of: the arrival log of a worker (its
   DeliverMessage was handled), a command queue (DeliverMessage in flight), an event queue
   (DeliverAction in flight). Nothing is duplicated, nothing is dropped on the way. *)
Theorem message_conservation : forall nw sigma s,
  0 < nw -> run (init nw) sigma = Good s ->
  forall t m,
    total (g_sent (t, m)) (s_nodes s)
    = total (g_arr (t, m)) (s_nodes s) + total (g_cmd (t, m)) (s_nodes s) + total (g_evt (t, m)) (s_nodes s).
Proof.
  intros nw sigma s Hnw H t m.
  pose proof (conserved_run sigma _ _ (conserved_init nw Hnw) H) as (_&_&B).
  specialize (B (t, m)). unfold balanced in B. lia.
Qed.

(* ------------------------------------------------------------------ stamps are unique *)
(* worker i stamps (i, 0), (i, 1), ... : no stamp is ever issued twice *)
Definition stamp_ok (i : wid) (w : worker) : Prop :=
  Forall (fun e => m_w (snd e) = i /\ m_seq (snd e) < w_nsent w) (w_sentlog w) /\
  NoDup (map (fun e => m_seq (snd e)) (w_sentlog w)).

Definition stamps_ok (ns : list node) : Prop :=
  forall i w, nth_error (map n_w ns) i = Some w -> stamp_ok i w.

Lemma map_nw_push w c ns : map n_w (push_cmd w c ns) = map n_w ns.
Proof. unfold push_cmd. revert w. induction ns as [|a ns IH]; intros [|w]; simpl; auto. f_equal. apply IH. Qed.

Lemma map_nw_fold_push {A} (mk : A -> cmd) (wof : A -> wid) l : forall ns,
  map n_w (fold_left (fun ns a => push_cmd (wof a) (mk a) ns) l ns) = map n_w ns.
Proof. induction l; intros ns; simpl; [reflexivity|]. rewrite IHl. apply map_nw_push. Qed.

Lemma handle_event_nw nw ev e ns e' ns' :
  handle_event nw ev (e, ns) = Good (e', ns') -> map n_w ns' = map n_w ns.
Proof.
  intros H. destruct ev; unfold handle_event in H; cbn -[Nat.modulo nodup] in H.
  - revert H. match goal with |- context [@alookup ?A caller ?l] => destruct (@alookup A caller l) end; intros H; [|discriminate].
    inversion H; subst. rewrite !map_nw_push. reflexivity.
  - destruct (alookup target (e_router e)); [|discriminate]. inversion H; subst. apply map_nw_push.
  - revert H. match goal with |- context [forallb ?f targets] => destruct (forallb f targets) end; intros H; [|discriminate].
    inversion H; subst.
    set (wof := fun t => match alookup t (e_router e) with Some w => w | None => 0 end).
    apply (map_nw_fold_push (fun w => CQuery awaiter (filter (fun t => wof t =? w) targets)) (fun w => w)).
  - destruct (alookup awaiter (e_pending e)) as [pa|].
    + destruct (match results with [] => None | (t, _) :: _ => alookup t (e_router e) end) as [w|].
      * destruct (sremove w (pa_expected pa)).
        -- destruct (alookup awaiter (e_router e)) as [aw|]; [|discriminate]. inversion H; subst. apply map_nw_push.
        -- inversion H; subst. reflexivity.
      * inversion H; subst. reflexivity.
    + destruct (alookup awaiter (e_router e)) as [aw|]; [|discriminate]. inversion H; subst. apply map_nw_push.
  - inversion H; subst. reflexivity.
  - inversion H; subst. reflexivity.
Qed.

Lemma handle_events_nw nw evs : forall e ns e' ns',
  handle_events nw evs (e, ns) = Good (e', ns') -> map n_w ns' = map n_w ns.
Proof.
  induction evs as [|ev evs IH]; intros e ns e' ns' H; cbn [handle_events] in H.
  - inversion H; subst. reflexivity.
  - destruct (handle_event nw ev (e, ns)) as [[e1 ns1]|] eqn:E1; cbn [rbind] in H; [|discriminate].
    apply handle_event_nw in E1. apply IH in H. congruence.
Qed.

Lemma nth_error_map_update {A B} (g : A -> B) l : forall n a' i,
  nth_error (map g (update_nth n (fun _ => a') l)) i =
  if i =? n then match nth_error l n with Some _ => Some (g a') | None => None end else nth_error (map g l) i.
Proof.
  induction l as [|a l IH]; intros n a' i.
  - destruct n, i; simpl; try reflexivity. destruct (i =? n); reflexivity.
  - destruct n, i; simpl; try reflexivity. apply IH.
Qed.

Lemma NoDup_app_one {A} (l : list A) x : NoDup l -> ~ In x l -> NoDup (l ++ [x]).
Proof.
  intros N H. induction l as [|a l IH]; simpl.
  - constructor; [intros []|constructor].
  - inversion N; subst. constructor.
    + intros Hin. apply in_app_or in Hin. destruct Hin as [Hin|[Hin|[]]]; [contradiction|subst; apply H; left; reflexivity].
    + apply IH; [assumption|]. intros Hin; apply H; right; exact Hin.
Qed.

Lemma stamps_step s a s' : stamps_ok (s_nodes s) -> sys_step s a = Good s' -> stamps_ok (s_nodes s').
Proof.
  intros Hs H. destruct a as [i k o|ks|d|c]; simpl in H.
  - destruct (nth_error (s_nodes s) i) as [nd|] eqn:Ei.
    + destruct (node_step i (s_clock s) k o nd) as [nd'|] eqn:Es; cbn [rbind] in H; [|discriminate].
      inversion H; subst; clear H. simpl. intros j w Hj. rewrite nth_error_map_update in Hj.
      destruct (j =? i) eqn:Eji.
      * apply Nat.eqb_eq in Eji; subst j. rewrite Ei in Hj. inversion Hj; subst w; clear Hj.
        assert (Hold: stamp_ok i (n_w nd)).
        { apply Hs. rewrite nth_error_map, Ei. reflexivity. }
        destruct (node_step_ghost _ _ _ _ _ _ Es) as (pre&new&_&_&_&C4&Hn).
        destruct Hold as (F&N). unfold stamp_ok. rewrite C4.
        destruct Hn as [(En&Ens)|(t&p&En&Ens)]; subst new.
        -- rewrite app_nil_r, Ens. split; assumption.
        -- rewrite Ens. split.
           ++ apply Forall_app. split.
              ** eapply Forall_impl; [|exact F]. intros e0 (A1&A2). split; [exact A1|lia].
              ** constructor; [simpl; split; [reflexivity|lia]|constructor].
           ++ rewrite map_app. simpl. apply NoDup_app_one; [exact N|].
              intros Hin. apply in_map_iff in Hin. destruct Hin as (e0&E0&I0).
              rewrite Forall_forall in F. destruct (F _ I0) as (_&Lt). lia.
      * apply Hs. exact Hj.
    + inversion H; subst. exact Hs.
  - destruct (collect ks (s_nodes s)) as [evs ns] eqn:Ec.
    destruct (handle_events (length (s_nodes s)) evs (s_env s, ns)) as [[e' ns']|] eqn:Eh; cbn [rbind] in H; [|discriminate].
    inversion H; subst; clear H. simpl.
    apply handle_events_nw in Eh.
    pose proof (collect_totals ks (s_nodes s) (0, mkMsg 0 0 0)) as (_&_&_&_&_&M). rewrite Ec in M. simpl in M.
    unfold stamps_ok. rewrite Eh, M. exact Hs.
  - inversion H; subst. exact Hs.
  - unfold client_step in H. destruct c.
    + inversion H; subst. unfold stamps_ok. cbn -[Nat.modulo]. rewrite map_nw_push. exact Hs.
    + inversion H; subst. unfold stamps_ok. simpl. rewrite map_nw_push. exact Hs.
    + inversion H; subst. unfold stamps_ok. simpl. rewrite map_nw_push. exact Hs.
    + destruct (alookup p (e_router (s_env s))); inversion H; subst; [|exact Hs].
      unfold stamps_ok. simpl. rewrite map_nw_push. exact Hs.
    + destruct (alookup p (e_router (s_env s))); inversion H; subst; [|exact Hs].
      unfold stamps_ok. simpl. rewrite map_nw_push. exact Hs.
Qed.

Lemma stamps_run sigma : forall s s', stamps_ok (s_nodes s) -> run s sigma = Good s' -> stamps_ok (s_nodes s').
Proof.
  induction sigma as [|a sigma IH]; intros s s' Hc H; simpl in H.
  - inversion H; subst. exact Hc.
  - destruct (sys_step s a) as [s1|] eqn:E; cbn [rbind] in H; [|discriminate].
    eapply IH; [eapply stamps_step; eassumption|exact H].
Qed.

(* C04: no stamp is issued twice — within a worker the sequence numbers of the send log are
   pairwise distinct and below the worker's counter, and every stamp carries its worker's id, so
   stamps of different workers differ too. Together with message_conservation: every message is
   in exactly ONE place. *)
Theorem stamps_unique : forall nw sigma s,
  run (init nw) sigma = Good s ->
  forall i nd, nth_error (s_nodes s) i = Some nd ->
    NoDup (map (fun e => m_seq (snd e)) (w_sentlog (n_w nd))) /\
    Forall (fun e => m_w (snd e) = i /\ m_seq (snd e) < w_nsent (n_w nd)) (w_sentlog (n_w nd)).
Proof.
  intros nw sigma s H i nd Hi.
  assert (H0: stamps_ok (s_nodes (init nw))).
  { intros j w Hj. unfold init in Hj. simpl in Hj.
    apply nth_error_In in Hj. apply in_map_iff in Hj. destruct Hj as (nd0&E0&I0).
    apply repeat_spec in I0. subst nd0 w. split; constructor. }
  pose proof (stamps_run sigma _ _ H0 H) as Hs.
  destruct (Hs i (n_w nd)) as (F&N); [rewrite nth_error_map, Hi; reflexivity|]. split; assumption.
Qed.
