(* ProtoSleep.v — a sleeping process (finished Ok, persistent, awaiting nothing) stays exactly so
   under every worker operation of M-Sys (sys/Proto.v) except its own ResumeProcess: the frame
   lemmas behind "an honest resume_process never fails" (ProtoNoErr.v). *)
From Quiver Require Import sys.Proto sys.ProtoMsg sys.ProtoFifo sys.ProtoFail sys.ProtoWake sys.ProtoDeliver sys.ProtoWf sys.ProtoOps.

Definition sleeping (q : pid) (w : worker) : Prop :=
  exists pr v, alookup q (w_procs w) = Some pr /\ p_res pr = Some (ROk v) /\ p_pers pr = true /\ forall t, alookup t (p_awaiting pr) = None.

Lemma sleeping_same q w w' : w_procs w' = w_procs w -> sleeping q w -> sleeping q w'.
Proof. intros E (pr&v&H). exists pr, v. rewrite E. exact H. Qed.

Lemma sleeping_not_awaits q b w : sleeping q w -> awaits q b w = false.
Proof. intros (pr&v&Hl&_&_&Hk). unfold awaits. rewrite Hl, (Hk b). reflexivity. Qed.

Lemma sleeping_upd_other q a f w : a <> q -> sleeping q w -> sleeping q (upd_proc a f w).
Proof. intros Hne (pr&v&Hl&H). exists pr, v. rewrite upd_proc_other by (intros E; apply Hne; symmetry; exact E). split; assumption. Qed.

Lemma sleeping_upd_frame q a f w :
  (forall pr, p_res (f pr) = p_res pr /\ p_pers (f pr) = p_pers pr /\ p_awaiting (f pr) = p_awaiting pr) ->
  sleeping q w -> sleeping q (upd_proc a f w).
Proof.
  intros Hf S. destruct (Nat.eq_dec a q) as [->|Hne]; [|apply sleeping_upd_other; assumption].
  destruct S as (pr&v&Hl&H1&H2&H3). exists (f pr), v. destruct (Hf pr) as (F1&F2&F3).
  split; [apply upd_proc_same; exact Hl|]. rewrite F1, F2, F3. auto.
Qed.

Lemma sleeping_wake q p w : sleeping q w -> sleeping q (wake_selecting p w).
Proof. apply sleeping_same. apply procs_wake. Qed.

Lemma sleeping_notify_result q a b r w : sleeping q w -> sleeping q (notify_result a b r w).
Proof.
  intros S. unfold notify_result. destruct (awaits a b w) eqn:Ea; apply sleeping_wake; [|exact S].
  apply sleeping_upd_other; [|exact S]. intros ->. rewrite (sleeping_not_awaits q b w S) in Ea. discriminate.
Qed.
Lemma sleeping_worker_notify q a b r w : sleeping q w -> sleeping q (worker_notify a b r w).
Proof.
  intros S. unfold worker_notify. destruct r as [v|e]; [apply sleeping_notify_result; exact S|].
  destruct (awaits a b w) eqn:Ea; [|apply sleeping_wake; exact S].
  apply sleeping_upd_other; [|exact S]. intros ->. rewrite (sleeping_not_awaits q b w S) in Ea. discriminate.
Qed.
Lemma sleeping_update_await q a rs w : sleeping q w -> sleeping q (update_await a rs w).
Proof.
  intros S. unfold update_await.
  assert (F: forall l w0, sleeping q w0 -> sleeping q (fold_left (fun w e => match snd e with Some r => worker_notify a (fst e) r w | None => w end) l w0)).
  { induction l as [|x l IH]; intros w0 S0; simpl; [exact S0|]. apply IH. destruct (snd x); [apply sleeping_worker_notify; exact S0|exact S0]. }
  destruct (existsb _ rs); [apply F; exact S|apply sleeping_wake, F; exact S].
Qed.

(* the completion path of another process: the local awaiters all have a key, a sleeping process has none *)
Lemma sleeping_finish q p r h hint w w' :
  NoDup (map fst (w_procs w)) -> p <> q -> finish p r h hint w = Good w' -> sleeping q w -> sleeping q w'.
Proof.
  intros ND Hne. unfold finish. set (w1 := upd_proc p (with_res (Some r)) w).
  destruct (order_by hint (local_awaiters p w1)) as [o|] eqn:Eo; [|discriminate]. intros H S; inversion H; subst; clear H.
  assert (S1: sleeping q w1) by (apply sleeping_upd_other; assumption).
  assert (ND1: NoDup (map fst (w_procs w1))).
  { unfold w1, upd_proc. destruct (alookup p (w_procs w)) as [pr0|] eqn:E0; [|exact ND]. simpl. rewrite (keys_aset_same _ _ _ _ E0). exact ND. }
  assert (Hq: ~ In q o).
  { intros Hin. apply (order_by_sub _ _ _ Eo), mem_in in Hin. unfold local_awaiters in Hin. apply in_map_iff in Hin.
    destruct Hin as ([q0 pr0]&Eq&Hf). simpl in Eq. subst q0. apply filter_In in Hf. destruct Hf as (Hin&Hc). simpl in Hc.
    apply (in_alookup _ _ _ ND1) in Hin. destruct S1 as (pr&v&Hl&_&_&Hk). rewrite Hl in Hin. inversion Hin; subst pr0. rewrite (Hk p) in Hc. discriminate. }
  clear Eo. revert S1 Hq. generalize w1. induction o as [|x o IH]; intros w0 S0 Hn; simpl; [exact S0|].
  apply IH; [|intros Hin; apply Hn; right; exact Hin].
  unfold notify_local. destruct r as [v|e]; [destruct h; [exact S0|apply sleeping_notify_result; exact S0]|].
  apply sleeping_upd_other; [|exact S0]. intros ->. apply Hn. left; reflexivity.
Qed.

Lemma sleeping_run_slice q i p pr d hint w w' ev :
  NoDup (map fst (w_procs w)) -> alookup p (w_procs w) = Some pr -> p <> q ->
  run_slice i p pr d hint w = Good (w', ev) -> sleeping q w -> sleeping q w'.
Proof.
  intros ND Hl Hne R S. destruct (run_slice_shape _ _ _ _ _ _ _ _ R) as (taken&mail'&w2&_&Ha&Hf).
  set (wa := set_procs w (aset p (slice_pr1 pr d taken mail') (w_procs w))) in *.
  assert (Sa: sleeping q wa).
  { destruct S as (prq&v&Hq&H). exists prq, v. split; [|exact H]. unfold wa. simpl. rewrite alookup_aset_neq by (intros E; apply Hne; symmetry; exact E). exact Hq. }
  assert (NDa: NoDup (map fst (w_procs wa))) by (unfold wa; simpl; rewrite (keys_aset_same _ _ _ _ Hl); exact ND).
  assert (S2: sleeping q w2 /\ NoDup (map fst (w_procs w2))).
  { inversion Ha; subst; try (split; [exact Sa|exact NDa]).
    split; [eapply sleeping_same; [|apply (sleeping_upd_other q p (fun x => with_awaiting (fold_left (fun a t => aset t None a) ts (p_awaiting x)) x) wa Hne Sa)]; reflexivity|].
    simpl. unfold upd_proc. destruct (alookup p (w_procs wa)) as [pr0|] eqn:E0; [|exact NDa]. simpl. rewrite (keys_aset_same _ _ _ _ E0). exact NDa. }
  destruct S2 as (S2&ND2).
  assert (S3: sleeping q (if d_park d then mark_selecting p w2 else w2)) by (destruct (d_park d); exact S2).
  destruct (d_fin d) as [r|].
  - eapply sleeping_finish; [|exact Hne|exact Hf|exact S3]. destruct (d_park d); exact ND2.
  - destruct Hf as [->| ->]; exact S3.
Qed.

Lemma sleeping_exec_step q i now o w w' ev : SW w -> exec_step i now o w = Good (w', ev) -> sleeping q w -> sleeping q w'.
Proof.
  intros HS H S. destruct (exec_step_shape _ _ _ _ _ _ H) as (w1&E&C).
  pose proof (SW_expire _ _ _ _ E HS) as HS1. destruct (expire_same _ _ _ _ E) as (Ep&_).
  assert (S1: sleeping q w1) by (eapply sleeping_same; [exact Ep|exact S]).
  destruct C as [(_&->&_)|(p&q'&Eq&[(_&->&_)|(pr&Hl&C)])]; [exact S1|exact S1|].
  assert (Hne: p <> q).
  { intros ->. destruct S1 as (prq&v&Hq&Hr&_). destruct HS1 as [_ _ _ _ _ R].
    assert (Hin: In q (w_queue w1)) by (rewrite Eq; left; reflexivity).
    apply (R q (or_introl Hin) prq v Hq Hr). }
  set (w0 := set_sched w1 q' (w_spawning w1) (w_selecting w1)) in *.
  assert (ND0: NoDup (map fst (w_procs w0))) by (destruct HS1 as [K _ _ _ _ _]; exact K).
  destruct C as [(_&R)|(e&_&F&_)].
  - eapply (sleeping_run_slice q i p pr _ _ w0); [exact ND0|exact Hl|exact Hne|exact R|exact S1].
  - eapply sleeping_finish; [exact ND0|exact Hne|exact F|exact S1].
Qed.

Lemma sleeping_check_completed q hint w w' ev : check_completed hint w = Good (w', ev) -> sleeping q w -> sleeping q w'.
Proof. intros H. apply sleeping_same. apply (check_completed_spec _ _ _ _ H). Qed.

(* one command *)
Lemma sleeping_handle_cmd q c w w' ev :
  (forall p, spawns c = Some p -> ~ has p w) -> c <> CResume q ->
  handle_cmd c w = Good (w', ev) -> sleeping q w -> sleeping q w'.
Proof.
  intros Hf Hc H S.
  assert (New: forall p pr0, ~ has p w -> sleeping q (set_procs w (aset p pr0 (w_procs w)))).
  { intros p pr0 Hn. destruct S as (prq&v&Hq&Hr). exists prq, v. split; [|exact Hr]. simpl. rewrite alookup_aset_neq; [exact Hq|].
    intros ->. apply Hn. unfold has. rewrite Hq. discriminate. }
  destruct c; simpl in H.
  - inversion H; subst; exact S.
  - inversion H; subst; exact S.
  - destruct sleeping0; inversion H; subst; [apply New; apply Hf; reflexivity|].
    eapply sleeping_same; [|apply (New p (new_proc true None)); apply Hf; reflexivity]. reflexivity.
  - inversion H; subst. eapply sleeping_same; [|apply (New p (new_proc false None)); apply Hf; reflexivity]. reflexivity.
  - destruct (alookup p (w_procs w)) as [pr|]; [|discriminate].
    destruct (p_res pr) as [[v|e]|]; try discriminate. destruct (p_pers pr); [|discriminate]. inversion H; subst.
    eapply sleeping_same; [|apply (sleeping_upd_other q p (with_res None) w); [intros ->; apply Hc; reflexivity|exact S]]. reflexivity.
  - destruct (fold_left (query_one awaiter) targets (w, [])) as [w1 rs] eqn:E. inversion H; subst.
    eapply sleeping_same; [|exact S].
    assert (F: forall ts w0 rs0, w_procs (fst (fold_left (query_one awaiter) ts (w0, rs0))) = w_procs w0).
    { induction ts as [|t ts IH]; intros w0 rs0; cbn [fold_left]; [reflexivity|].
      assert (Q: w_procs (fst (query_one awaiter (w0, rs0) t)) = w_procs w0) by (unfold query_one; destruct (completed_value w0 t); reflexivity).
      destruct (query_one awaiter (w0, rs0) t) as [wq rq]. simpl in Q. rewrite IH. exact Q. }
    specialize (F targets w []). rewrite E in F. exact F.
  - inversion H; subst. apply sleeping_update_await. exact S.
  - destruct (alookup target (w_procs w)); inversion H; subst; apply sleeping_wake.
    + apply sleeping_upd_frame; [intros pr; repeat split|]. eapply sleeping_same; [|exact S]. reflexivity.
    + eapply sleeping_same; [|exact S]. reflexivity.
  - destruct (mem p (w_spawning w)); inversion H; subst; [eapply sleeping_same; [|exact S]; reflexivity|exact S].
  - destruct (alookup p (w_procs w)) as [pr|]; [|discriminate].
    destruct (p_res pr); inversion H; subst; [exact S|eapply sleeping_same; [|exact S]; reflexivity].
Qed.

(* StartProcess of a sleeping process creates one *)
Lemma start_sleeping p w w' ev : handle_cmd (CStart p true) w = Good (w', ev) -> sleeping p w'.
Proof.
  simpl. intros H; inversion H; subst. exists (new_proc true (Some (ROk 0))), 0. simpl. rewrite alookup_aset_eq. repeat split.
Qed.
