(* HamtBits.v — arithmetic facts behind std/dict.qv's bitmap indexing (proof file of C19):
   fragments are base-32 digits, `slot_index` counts the set bits below a slot, and setting /
   clearing a bit inserts / removes one element of the sorted slot list. *)
From Coq Require Import List ZArith Bool Lia.
From Quiver Require Import Hamt.
Import ListNotations.
Open Scope Z_scope.

(* ---------------------------------------------------------------- list helpers of dict.qv *)

Lemma revcat_spec {A} (acc rest : list A) : revcat acc rest = rev acc ++ rest.
Proof.
  revert rest. induction acc as [|a acc IH]; intros rest; cbn [revcat rev]; [reflexivity|].
  rewrite IH, <- app_assoc. reflexivity.
Qed.

Lemma length_acc_spec {A} (l : list A) n : length_acc l n = n + Z.of_nat (length l).
Proof.
  revert n. induction l as [|a l IH]; intros n; cbn [length_acc length]; [lia|].
  rewrite IH. lia.
Qed.

Lemma map_acc_spec {A B} (l : list A) (f : A -> B) acc : map_acc l f acc = rev acc ++ map f l.
Proof.
  revert acc. induction l as [|a l IH]; intros acc; cbn [map_acc map].
  - rewrite revcat_spec. reflexivity.
  - rewrite IH. cbn [rev]. rewrite <- app_assoc. reflexivity.
Qed.

Lemma of_nat_S_pred n : Z.of_nat (S n) - 1 = Z.of_nat n.
Proof. lia. Qed.

Lemma of_nat_S_eqb n : (Z.of_nat (S n) =? 0) = false.
Proof. apply Z.eqb_neq. lia. Qed.

Lemma child_at_app {key val} (l1 l2 : list (dict key val)) c :
  child_at key val (l1 ++ c :: l2) (Z.of_nat (length l1)) = c.
Proof.
  induction l1 as [|a l1 IH]; cbn [app length child_at].
  - reflexivity.
  - rewrite of_nat_S_eqb, of_nat_S_pred. exact IH.
Qed.

Lemma insert_at_app {A} (l1 l2 : list A) x acc :
  insert_at (l1 ++ l2) (Z.of_nat (length l1)) x acc = rev acc ++ l1 ++ x :: l2.
Proof.
  revert acc. induction l1 as [|a l1 IH]; intros acc.
  - cbn [app length]. destruct l2; cbn [insert_at Z.of_nat Z.eqb]; rewrite revcat_spec; reflexivity.
  - cbn [app length]. cbn [insert_at]. rewrite of_nat_S_eqb, of_nat_S_pred, IH.
    cbn [rev]. rewrite <- app_assoc. reflexivity.
Qed.

Lemma update_at_app {A} (l1 l2 : list A) y x acc :
  update_at (l1 ++ y :: l2) (Z.of_nat (length l1)) x acc = rev acc ++ l1 ++ x :: l2.
Proof.
  revert acc. induction l1 as [|a l1 IH]; intros acc.
  - cbn [app length update_at Z.of_nat Z.eqb]. rewrite revcat_spec. reflexivity.
  - cbn [app length update_at]. rewrite of_nat_S_eqb, of_nat_S_pred, IH.
    cbn [rev]. rewrite <- app_assoc. reflexivity.
Qed.

Lemma remove_at_app {A} (l1 l2 : list A) y acc :
  remove_at (l1 ++ y :: l2) (Z.of_nat (length l1)) acc = rev acc ++ l1 ++ l2.
Proof.
  revert acc. induction l1 as [|a l1 IH]; intros acc.
  - cbn [app length remove_at Z.of_nat Z.eqb]. rewrite revcat_spec. reflexivity.
  - cbn [app length remove_at]. rewrite of_nat_S_eqb, of_nat_S_pred, IH.
    cbn [rev]. rewrite <- app_assoc. reflexivity.
Qed.

(* ---------------------------------------------------------------- integer builtins on the dict's operands *)

Lemma wrap_i64_small z : - 2 ^ 63 <= z < 2 ^ 63 -> wrap_i64 z = z.
Proof. intros H. unfold wrap_i64. rewrite Z.mod_small by lia. lia. Qed.

Lemma pow2_lt_63 f : 0 <= f < 32 -> 0 < 2 ^ f < 2 ^ 63.
Proof.
  intros H. split; [apply Z.pow_pos_nonneg; lia|].
  apply Z.pow_lt_mono_r; lia.
Qed.

(* bit = [1, f] %int.shift *)
Lemma int_shift_1 f : 0 <= f < 32 -> int_shift 1 f = 2 ^ f.
Proof.
  intros H. unfold int_shift.
  destruct (f =? 0) eqn:E0.
  - apply Z.eqb_eq in E0. subst f. reflexivity.
  - apply Z.eqb_neq in E0.
    replace (0 <? f) with true by (symmetry; apply Z.ltb_lt; lia).
    rewrite Z.shiftl_1_l. apply wrap_i64_small.
    pose proof (pow2_lt_63 f H). lia.
Qed.

(* fragment h shift = the base-32 digit of h at position shift/5 *)
Lemma fragment_spec h s : 0 <= s -> fragment h s = (h / 2 ^ s) mod 32.
Proof.
  intros Hs. unfold fragment, int_and, int_shift.
  change 31 with (Z.ones 5). rewrite Z.land_ones by lia. change (2 ^ 5) with 32.
  destruct (0 - s =? 0) eqn:E0.
  - apply Z.eqb_eq in E0. replace s with 0 by lia. rewrite Z.pow_0_r, Z.div_1_r. reflexivity.
  - apply Z.eqb_neq in E0.
    replace (0 <? 0 - s) with false by (symmetry; apply Z.ltb_ge; lia).
    rewrite Z.shiftr_div_pow2 by lia. replace (- (0 - s)) with s by lia. reflexivity.
Qed.

Lemma fragment_range h s : 0 <= s -> 0 <= fragment h s < 32.
Proof. intros Hs. rewrite fragment_spec by assumption. apply Z.mod_pos_bound. lia. Qed.

(* frag h lvl: the fragment at level lvl (shift 5*lvl) as a nat *)
Definition frag (h : Z) (lvl : nat) : nat := Z.to_nat (fragment h (5 * Z.of_nat lvl)).

Lemma frag_lt h lvl : (frag h lvl < 32)%nat.
Proof. unfold frag. pose proof (fragment_range h (5 * Z.of_nat lvl) ltac:(lia)). lia. Qed.

Lemma frag_of_nat h lvl : Z.of_nat (frag h lvl) = fragment h (5 * Z.of_nat lvl).
Proof. unfold frag. pose proof (fragment_range h (5 * Z.of_nat lvl) ltac:(lia)). lia. Qed.

Lemma shift_succ lvl : 5 * Z.of_nat lvl + 5 = 5 * Z.of_nat (S lvl).
Proof. lia. Qed.

Lemma frag_digit h lvl : Z.of_nat (frag h lvl) = (h / 32 ^ Z.of_nat lvl) mod 32.
Proof.
  rewrite frag_of_nat, fragment_spec by lia.
  replace (2 ^ (5 * Z.of_nat lvl)) with (32 ^ Z.of_nat lvl); [reflexivity|].
  change 32 with (2 ^ 5). rewrite <- Z.pow_mul_r by lia. reflexivity.
Qed.

(* two numbers below 32^n with the same n base-32 digits are equal *)
Lemma digits_inj n : forall a b, 0 <= a < 32 ^ Z.of_nat n -> 0 <= b < 32 ^ Z.of_nat n ->
  (forall j, (j < n)%nat -> (a / 32 ^ Z.of_nat j) mod 32 = (b / 32 ^ Z.of_nat j) mod 32) -> a = b.
Proof.
  induction n as [|n IH]; intros a b Ha Hb Hd.
  - change (32 ^ Z.of_nat 0) with 1 in *. lia.
  - rewrite Nat2Z.inj_succ, Z.pow_succ_r in Ha, Hb by lia.
    assert (E0 : a mod 32 = b mod 32).
    { specialize (Hd O ltac:(lia)). change (32 ^ Z.of_nat 0) with 1 in Hd. now rewrite !Z.div_1_r in Hd. }
    assert (E1 : a / 32 = b / 32).
    { apply IH.
      - split; [apply Z.div_pos; lia | apply Z.div_lt_upper_bound; lia].
      - split; [apply Z.div_pos; lia | apply Z.div_lt_upper_bound; lia].
      - intros j Hj. specialize (Hd (S j) ltac:(lia)).
        rewrite Nat2Z.inj_succ, Z.pow_succ_r in Hd by lia.
        rewrite <- !Z.div_div in Hd by lia. exact Hd. }
    rewrite (Z.div_mod a 32), (Z.div_mod b 32) by lia. rewrite E0, E1. reflexivity.
Qed.

(* two 32-bit hashes that agree on all 7 fragments are equal: the trie has depth <= 7 *)
Lemma frag_inj h1 h2 : 0 <= h1 < 2 ^ 32 -> 0 <= h2 < 2 ^ 32 ->
  (forall j, (j < 7)%nat -> frag h1 j = frag h2 j) -> h1 = h2.
Proof.
  intros H1 H2 Hf. apply (digits_inj 7).
  - change (32 ^ Z.of_nat 7) with (2 ^ 35). split; [lia|].
    apply Z.lt_trans with (2 ^ 32); [lia | reflexivity].
  - change (32 ^ Z.of_nat 7) with (2 ^ 35). split; [lia|].
    apply Z.lt_trans with (2 ^ 32); [lia | reflexivity].
  - intros j Hj. rewrite <- !frag_digit. f_equal. apply Hf. exact Hj.
Qed.

(* ---------------------------------------------------------------- popcount = number of set bits *)

Definition tb (bm : Z) (i : nat) : bool := Z.testbit bm (Z.of_nat i).
Definition slots_range (bm : Z) (a n : nat) : list nat := filter (tb bm) (seq a n).
(* the occupied slots of a bitmap, ascending: the children of a Node are stored in this order *)
Definition slots (bm : Z) : list nat := slots_range bm 0 32.

Lemma popcount_step z : 0 <= z -> popcount z = Z.b2z (Z.odd z) + popcount (Z.div2 z).
Proof.
  intros Hz. destruct z as [|p|p]; [reflexivity| |lia].
  destruct p as [p|p|]; cbn [popcount Z.odd Z.div2 Pos.div2 Z.b2z pop_pos]; lia.
Qed.

Lemma filter_map_S (P : nat -> bool) l :
  length (filter P (map S l)) = length (filter (fun i => P (S i)) l).
Proof.
  induction l as [|a l IH]; cbn [map filter]; [reflexivity|].
  destruct (P (S a)); cbn [length]; rewrite IH; reflexivity.
Qed.

Lemma popcount_bits n : forall z, 0 <= z < 2 ^ Z.of_nat n ->
  popcount z = Z.of_nat (length (slots_range z 0 n)).
Proof.
  induction n as [|n IH]; intros z Hz.
  - change (2 ^ Z.of_nat 0) with 1 in Hz. replace z with 0 by lia. reflexivity.
  - rewrite popcount_step by lia.
    unfold slots_range. cbn [seq filter]. rewrite <- seq_shift.
    assert (Hd : 0 <= Z.div2 z < 2 ^ Z.of_nat n).
    { rewrite Z.div2_div. rewrite Nat2Z.inj_succ, Z.pow_succ_r in Hz by lia.
      split; [apply Z.div_pos; lia | apply Z.div_lt_upper_bound; lia]. }
    rewrite (IH _ Hd). unfold slots_range.
    assert (E : length (filter (tb z) (map S (seq 0 n))) = length (filter (tb (Z.div2 z)) (seq 0 n))).
    { rewrite filter_map_S. f_equal. apply filter_ext. intros i. unfold tb.
      rewrite Z.div2_div, Z.div2_bits by lia. rewrite Nat2Z.inj_succ. reflexivity. }
    assert (E0 : tb z 0 = Z.odd z) by (unfold tb; change (Z.of_nat 0) with 0; apply Z.bit0_odd).
    rewrite E0.
    destruct (Z.odd z); cbn [length Z.b2z]; rewrite E; lia.
Qed.

(* idx = [bitmap, bit] slot_index = number of occupied slots below f *)
Lemma slot_index_spec bm (f : nat) :
  slot_index bm (2 ^ Z.of_nat f) = Z.of_nat (length (slots_range bm 0 f)).
Proof.
  unfold slot_index, int_and.
  replace (2 ^ Z.of_nat f - 1) with (Z.ones (Z.of_nat f)) by (rewrite Z.ones_equiv; lia).
  rewrite Z.land_ones by lia.
  rewrite (popcount_bits f) by (apply Z.mod_pos_bound, Z.pow_pos_nonneg; lia).
  f_equal. f_equal. unfold slots_range. apply filter_ext_in.
  intros i Hi. apply in_seq in Hi. unfold tb. apply Z.mod_pow2_bits_low. lia.
Qed.

Lemma land_pow2 bm f : 0 <= f -> Z.land bm (2 ^ f) = if Z.testbit bm f then 2 ^ f else 0.
Proof.
  intros Hf. apply Z.bits_inj'. intros i Hi.
  rewrite Z.land_spec, Z.pow2_bits_eqb by lia.
  destruct (Z.eqb_spec f i) as [->|Hne].
  - destruct (Z.testbit bm i); [rewrite Z.pow2_bits_eqb, Z.eqb_refl by lia|rewrite Z.bits_0]; reflexivity.
  - rewrite andb_false_r. destruct (Z.testbit bm f); [|now rewrite Z.bits_0].
    rewrite Z.pow2_bits_eqb by lia. symmetry. now apply Z.eqb_neq.
Qed.

(* the test `[bitmap, bit] %int.and =0` *)
Lemma bit_test bm (f : nat) : (int_and bm (2 ^ Z.of_nat f) =? 0) = negb (tb bm f).
Proof.
  unfold int_and, tb. rewrite land_pow2 by lia.
  destruct (Z.testbit bm (Z.of_nat f)); cbn [negb]; [|reflexivity].
  apply Z.eqb_neq. pose proof (Z.pow_pos_nonneg 2 (Z.of_nat f)). lia.
Qed.

Lemma tb_set bm (f i : nat) : tb (int_or bm (2 ^ Z.of_nat f)) i = tb bm i || Nat.eqb f i.
Proof.
  unfold tb, int_or. rewrite Z.lor_spec, Z.pow2_bits_eqb by lia. f_equal.
  destruct (Nat.eqb_spec f i) as [->|Hne]; [apply Z.eqb_refl | apply Z.eqb_neq; lia].
Qed.

Lemma tb_clear bm (f i : nat) : tb (int_and bm (int_not (2 ^ Z.of_nat f))) i = tb bm i && negb (Nat.eqb f i).
Proof.
  unfold tb, int_and, int_not. rewrite Z.land_spec, Z.lnot_spec, Z.pow2_bits_eqb by lia. f_equal. f_equal.
  destruct (Nat.eqb_spec f i) as [->|Hne]; [apply Z.eqb_refl | apply Z.eqb_neq; lia].
Qed.

(* 0 <= z < 2^n  iff  no bit at or above n *)
Lemma range_bits z n : 0 <= z -> 0 <= n -> (z < 2 ^ n <-> forall i, n <= i -> Z.testbit z i = false).
Proof.
  intros Hz Hn. split.
  - intros Hlt i Hi. destruct (Z.eq_dec z 0) as [->|Hnz]; [apply Z.bits_0|].
    apply Z.bits_above_log2; [lia|]. assert (Z.log2 z < n) by (apply Z.log2_lt_pow2; lia). lia.
  - intros Hb. destruct (Z_lt_dec z (2 ^ n)) as [|Hge]; [assumption|]. exfalso.
    assert (Hpos : 0 < z) by (pose proof (Z.pow_pos_nonneg 2 n); lia).
    assert (Hl : n <= Z.log2 z) by (apply Z.log2_le_pow2; lia).
    pose proof (Z.bit_log2 z Hpos) as Hbit. rewrite (Hb _ Hl) in Hbit. discriminate.
Qed.

Lemma set_range bm (f : nat) : 0 <= bm < 2 ^ 32 -> (f < 32)%nat -> 0 <= int_or bm (2 ^ Z.of_nat f) < 2 ^ 32.
Proof.
  intros [H0 H1] Hf. unfold int_or.
  assert (Hp : 0 <= 2 ^ Z.of_nat f) by (apply Z.pow_nonneg; lia).
  assert (Hnn : 0 <= Z.lor bm (2 ^ Z.of_nat f)) by (apply Z.lor_nonneg; lia).
  split; [exact Hnn|]. apply range_bits; [exact Hnn|lia|].
  intros i Hi. rewrite Z.lor_spec, Z.pow2_bits_eqb by lia.
  rewrite (proj1 (range_bits bm 32 H0 ltac:(lia)) H1 i Hi).
  apply Z.eqb_neq. lia.
Qed.

Lemma clear_range bm (f : nat) : 0 <= bm < 2 ^ 32 -> 0 <= int_and bm (int_not (2 ^ Z.of_nat f)) < 2 ^ 32.
Proof.
  intros [H0 H1]. unfold int_and, int_not.
  assert (Hnn : 0 <= Z.land bm (Z.lnot (2 ^ Z.of_nat f))) by (apply Z.land_nonneg; lia).
  split; [exact Hnn|]. apply range_bits; [exact Hnn|lia|].
  intros i Hi. rewrite Z.land_spec.
  rewrite (proj1 (range_bits bm 32 H0 ltac:(lia)) H1 i Hi). reflexivity.
Qed.

Lemma pow2_range (f : nat) : (f < 32)%nat -> 0 <= 2 ^ Z.of_nat f < 2 ^ 32.
Proof.
  intros Hf. split; [apply Z.pow_nonneg; lia | apply Z.pow_lt_mono_r; lia].
Qed.

(* ---------------------------------------------------------------- slot lists *)

Lemma slots_range_app bm a n m : slots_range bm a (n + m) = slots_range bm a n ++ slots_range bm (a + n) m.
Proof. unfold slots_range. rewrite seq_app, filter_app. reflexivity. Qed.

(* the slot list split around slot f *)
Definition lo bm (f : nat) := slots_range bm 0 f.
Definition hi bm (f : nat) := slots_range bm (S f) (31 - f).

Lemma slots_split bm f : (f < 32)%nat ->
  slots bm = lo bm f ++ (if tb bm f then [f] else []) ++ hi bm f.
Proof.
  intros Hf. unfold slots, lo, hi.
  replace 32%nat with (f + (1 + (31 - f)))%nat by lia.
  rewrite (slots_range_app bm 0 f), (slots_range_app bm (0 + f) 1).
  replace (0 + f + 1)%nat with (S f) by lia. replace (0 + f)%nat with f by lia.
  reflexivity.
Qed.

Lemma slots_range_ext bm bm' a n : (forall i, (a <= i < a + n)%nat -> tb bm' i = tb bm i) ->
  slots_range bm' a n = slots_range bm a n.
Proof.
  intros H. unfold slots_range. apply filter_ext_in. intros i Hi. apply in_seq in Hi. apply H. lia.
Qed.

Lemma lo_lt bm f i : In i (lo bm f) -> (i < f)%nat.
Proof. unfold lo, slots_range. intros H. apply filter_In in H. destruct H as [H _]. apply in_seq in H. lia. Qed.

Lemma hi_gt bm f i : In i (hi bm f) -> (f < i)%nat.
Proof. unfold hi, slots_range. intros H. apply filter_In in H. destruct H as [H _]. apply in_seq in H. lia. Qed.

Lemma slots_set bm f : (f < 32)%nat ->
  slots (int_or bm (2 ^ Z.of_nat f)) = lo bm f ++ [f] ++ hi bm f.
Proof.
  intros Hf. rewrite (slots_split _ f Hf). rewrite tb_set, Nat.eqb_refl, orb_true_r.
  unfold lo, hi. f_equal; [|f_equal]; apply slots_range_ext; intros i Hi; rewrite tb_set;
    replace (Nat.eqb f i) with false by (symmetry; apply Nat.eqb_neq; lia); apply orb_false_r.
Qed.

Lemma slots_clear bm f : (f < 32)%nat ->
  slots (int_and bm (int_not (2 ^ Z.of_nat f))) = lo bm f ++ hi bm f.
Proof.
  intros Hf. rewrite (slots_split _ f Hf). rewrite tb_clear, Nat.eqb_refl, andb_false_r.
  unfold lo, hi. cbn [app]. f_equal; apply slots_range_ext; intros i Hi; rewrite tb_clear;
    replace (Nat.eqb f i) with false by (symmetry; apply Nat.eqb_neq; lia); apply andb_true_r.
Qed.

Lemma slots_NoDup bm : NoDup (slots bm).
Proof. unfold slots, slots_range. apply NoDup_filter, seq_NoDup. Qed.

Lemma slots_In bm i : In i (slots bm) <-> (i < 32)%nat /\ tb bm i = true.
Proof.
  unfold slots, slots_range. rewrite filter_In, in_seq. intuition lia.
Qed.

Lemma slots_0 : slots 0 = [].
Proof. reflexivity. Qed.

Lemma slots_pow2 f : (f < 32)%nat -> slots (2 ^ Z.of_nat f) = [f].
Proof.
  intros Hf. change (2 ^ Z.of_nat f) with (int_or 0 (2 ^ Z.of_nat f)).
  rewrite (slots_set 0 f Hf).
  assert (E : forall a n, slots_range 0 a n = []).
  { intros a n. unfold slots_range. induction (seq a n) as [|x l IH]; cbn [filter]; [reflexivity|].
    unfold tb at 1. rewrite Z.bits_0. exact IH. }
  unfold lo, hi. rewrite !E. reflexivity.
Qed.

Lemma slots_pow2_pair f1 f2 : (f1 < f2)%nat -> (f2 < 32)%nat ->
  slots (int_or (2 ^ Z.of_nat f1) (2 ^ Z.of_nat f2)) = [f1; f2].
Proof.
  intros H12 H2. rewrite (slots_set _ f2 H2).
  assert (Hs : slots (2 ^ Z.of_nat f1) = [f1]) by (apply slots_pow2; lia).
  rewrite (slots_split _ f2 H2) in Hs.
  assert (Ht : tb (2 ^ Z.of_nat f1) f2 = false).
  { unfold tb. rewrite Z.pow2_bits_eqb by lia. apply Z.eqb_neq. lia. }
  rewrite Ht in Hs. cbn [app] in Hs.
  (* f1 < f2, so f1 is in the low part and the high part is empty *)
  assert (Hin : In f1 (lo (2 ^ Z.of_nat f1) f2 ++ hi (2 ^ Z.of_nat f1) f2)) by (rewrite Hs; left; reflexivity).
  destruct (hi (2 ^ Z.of_nat f1) f2) as [|x l] eqn:Eh.
  - rewrite app_nil_r in Hs. rewrite Hs. reflexivity.
  - exfalso. assert (Hx : In x (hi (2 ^ Z.of_nat f1) f2)) by (rewrite Eh; left; reflexivity).
    apply hi_gt in Hx.
    assert (Hx' : In x [f1]) by (rewrite <- Hs; apply in_or_app; right; left; reflexivity).
    destruct Hx' as [<-|[]]. lia.
Qed.

Lemma popcount_slots bm : 0 <= bm < 2 ^ 32 -> popcount bm = Z.of_nat (length (slots bm)).
Proof. intros H. apply (popcount_bits 32). exact H. Qed.
