(* FormatFragProofs.v — round-trip theorems for the data-literal fragment of FormatFrag.v:
   parse_frag (format_frag c w) = Some c for every width w (frag_roundtrip), and corollaries.
   Route: (S1) layout_shape: the token list produced by the layout machine is one of the `shape`s of the doc
   (an over-approximation that forgets `fits` and indentation); (S2) every rendered shape of a fragment doc is
   in a character-level grammar gterm/gchain/gfield/gfields; (S3) the parser is complete on that grammar;
   (S4) grammar texts are untouched by strip_trailing_whitespace. *)
From Quiver Require Import Base Escape Pretty PrettyProofs EscapeProofs FormatFrag.
From Coq Require Decimal DecimalZ DecimalPos.
From Coq Require Import ZifyBool.

(* ========================================================================================== *)
(* S1. layout_shape                                                                            *)
(* ========================================================================================== *)

Inductive shape : Pretty.mode -> doc -> list token -> Prop :=
| S_nil m : shape m DNil []
| S_text m s : shape m (DText s) [TText s]
| S_line_flat : shape Flat DLine [TSpace]
| S_line_break i : shape Break DLine [TNewline i]
| S_softline_flat : shape Flat DSoftLine []
| S_softline_break i : shape Break DSoftLine [TNewline i]
| S_hardline m i : shape m DHardLine [TNewline i]
| S_breakparent m : shape m DBreakParent []
| S_concat m ds l : shape_list m ds l -> shape m (DConcat ds) l
| S_nest m n d l : shape m d l -> shape m (DNest n d) l
| S_group_forced m d l : shape Break d l -> shape m (DGroup d true) l
| S_group_free m m' d l : shape m' d l -> shape m (DGroup d false) l
| S_ifbreak m br fl l :
    shape m (match m with Break => br | Flat => fl end) l -> shape m (DIfBreak br fl) l
with shape_list : Pretty.mode -> list doc -> list token -> Prop :=
| SL_nil m : shape_list m [] []
| SL_cons m d ds l1 l2 :
    shape m d l1 -> shape_list m ds l2 -> shape_list m (d :: ds) (l1 ++ l2).

Scheme shape_mind := Minimality for shape Sort Prop
  with shape_list_mind := Minimality for shape_list Sort Prop.
Combined Scheme shape_mutind from shape_mind, shape_list_mind.

Inductive shape_stack : list frame -> list token -> Prop :=
| SS_nil : shape_stack [] []
| SS_cons i m d rest l1 l2 :
    shape m d l1 -> shape_stack rest l2 -> shape_stack ((i, m, d) :: rest) (l1 ++ l2).

Lemma shape_stack_concat : forall ds i m rest l,
  shape_stack (map (fun c => (i, m, c)) ds ++ rest) l ->
  exists l1 l2, l = l1 ++ l2 /\ shape_list m ds l1 /\ shape_stack rest l2.
Proof.
  induction ds as [|d ds IH]; intros i m rest l Hcs.
  - exists [], l. split; [reflexivity|]. split; [constructor|exact Hcs].
  - cbn [map app] in Hcs.
    inversion Hcs as [|i' m' d' rest' la lb Hd Hrest]; subst.
    destruct (IH _ _ _ _ Hrest) as [l1 [l2 [El [Hl1 Hl2]]]]. subst lb.
    exists (la ++ l1), l2. split; [apply app_assoc|].
    split; [constructor; assumption|assumption].
Qed.

(* Generalised invariant over the machine state (suffix buffer empty, all frames suffix-free). *)
Lemma layout_fuel_shape : forall fuel width stack col out ts,
  stack_suffix_free stack ->
  layout_fuel fuel width stack [] col out = Some ts ->
  exists l, shape_stack stack l /\ ts = rev out ++ l.
Proof.
  induction fuel as [|f IH]; intros width stack col out ts Hsf Hrun; [discriminate|].
  cbn [layout_fuel] in Hrun.
  destruct stack as [|[[i m] d] rest].
  - inversion Hrun; subst. exists []. split; [constructor|]. rewrite app_nil_r. reflexivity.
  - inversion Hsf as [|fr0 st0 Hd Hrest]; subst. cbn [snd] in Hd.
    assert (Hskip : forall col',
      shape m d [] ->
      layout_fuel f width rest [] col' out = Some ts ->
      exists l, shape_stack ((i, m, d) :: rest) l /\ ts = rev out ++ l).
    { intros col' Hc Hr.
      destruct (IH _ _ _ _ _ Hrest Hr) as [l [Hcs Ht]].
      exists ([] ++ l). split; [constructor; assumption|exact Ht]. }
    assert (Hone : forall col' tok,
      shape m d [tok] ->
      layout_fuel f width rest [] col' (tok :: out) = Some ts ->
      exists l, shape_stack ((i, m, d) :: rest) l /\ ts = rev out ++ l).
    { intros col' tok Hc Hr.
      destruct (IH _ _ _ _ _ Hrest Hr) as [l [Hcs Ht]].
      exists ([tok] ++ l). split; [constructor; assumption|].
      rewrite Ht. cbn [rev]. rewrite <- app_assoc. reflexivity. }
    assert (Hpush : forall i' m' d',
      suffix_free d' = true ->
      (forall l1, shape m' d' l1 -> shape m d l1) ->
      layout_fuel f width ((i', m', d') :: rest) [] col out = Some ts ->
      exists l, shape_stack ((i, m, d) :: rest) l /\ ts = rev out ++ l).
    { intros i' m' d' Hd' Himp Hr.
      assert (Hsf' : stack_suffix_free ((i', m', d') :: rest))
        by (constructor; [exact Hd'|exact Hrest]).
      destruct (IH _ _ _ _ _ Hsf' Hr) as [l [Hcs Ht]].
      inversion Hcs as [|i0 m0 d0 rest0 l1 l2 Hc1 Hc2]; subst.
      exists (l1 ++ l2). split; [constructor; [apply Himp; exact Hc1|exact Hc2]|reflexivity]. }
    destruct d; cbn [suffix_free] in Hd.
    + (* DNil *) eapply Hskip; [constructor|exact Hrun].
    + (* DText *) eapply Hone; [constructor|exact Hrun].
    + (* DLine *)
      destruct m.
      * eapply Hone; [constructor|exact Hrun].
      * eapply Hone; [constructor|exact Hrun].
    + (* DSoftLine *)
      destruct m.
      * eapply Hskip; [constructor|exact Hrun].
      * eapply Hone; [constructor|exact Hrun].
    + (* DHardLine *) eapply Hone; [constructor|exact Hrun].
    + (* DConcat *)
      assert (Hsf' : stack_suffix_free (map (fun c => (i, m, c)) ds ++ rest))
        by (apply stack_suffix_free_concat; assumption).
      destruct (IH _ _ _ _ _ Hsf' Hrun) as [l [Hcs Ht]].
      destruct (shape_stack_concat _ _ _ _ _ Hcs) as [l1 [l2 [El [Hl1 Hl2]]]]. subst l.
      exists (l1 ++ l2). split; [constructor; [constructor; exact Hl1|exact Hl2]|exact Ht].
    + (* DNest *)
      eapply Hpush; [exact Hd| |exact Hrun]. intros l1 Hc. constructor. exact Hc.
    + (* DGroup *)
      destruct should_break.
      * eapply Hpush; [exact Hd| |exact Hrun]. intros l1 Hc. constructor. exact Hc.
      * destruct (fits (S f) (width - col)%nat i d rest) as [fb|]; [|discriminate].
        eapply Hpush; [exact Hd| |exact Hrun]. intros l1 Hc.
        eapply S_group_free. exact Hc.
    + (* DIfBreak *)
      apply andb_true_iff in Hd. destruct Hd as [Hb Hf].
      eapply Hpush; [| |exact Hrun].
      * destruct m; assumption.
      * intros l1 Hc. constructor. exact Hc.
    + (* DLineSuffix *) discriminate.
    + (* DBreakParent *) eapply Hskip; [constructor|exact Hrun].
Qed.

(* S1: every token list the layout machine produces for a suffix-free doc is a shape of the doc. *)
Theorem layout_shape : forall d width ts,
  suffix_free d = true -> layout d width = Some ts -> shape Break d ts.
Proof.
  intros d width ts Hsf Hrun. unfold layout in Hrun.
  assert (Hst : stack_suffix_free [(0%nat, Break, d)]) by (constructor; [exact Hsf|constructor]).
  destruct (layout_fuel_shape _ _ _ _ _ _ Hst Hrun) as [l [Hcs Ht]].
  inversion Hcs as [|i0 m0 d0 rest0 l1 l2 Hc1 Hc2]; subst.
  inversion Hc2; subst. cbn [rev app]. rewrite app_nil_r. exact Hc1.
Qed.

(* ------------------------------------------------------------------------------------------ *)
(* the rendered shapes, as a recursive predicate on characters (forgets should_break)          *)
Definition nl (i : nat) : list Z := 10 :: repeat 32 i.

Definition rsh_list (f : doc -> list Z -> Prop) :=
  fix go (ds : list doc) (s : list Z) : Prop :=
    match ds with
    | [] => s = []
    | d :: r => exists a b, s = a ++ b /\ f d a /\ go r b
    end.

Fixpoint rsh (m : Pretty.mode) (d : doc) (s : list Z) {struct d} : Prop :=
  match d with
  | DNil | DBreakParent => s = []
  | DText t => s = t
  | DLine => match m with Flat => s = [32] | Break => exists i, s = nl i end
  | DSoftLine => match m with Flat => s = [] | Break => exists i, s = nl i end
  | DHardLine => exists i, s = nl i
  | DConcat ds => rsh_list (rsh m) ds s
  | DNest _ d' => rsh m d' s
  | DGroup d' _ => exists m', rsh m' d' s
  | DIfBreak br fl => match m with Break => rsh m br s | Flat => rsh m fl s end
  | DLineSuffix _ => False
  end.

Lemma render_app a b : render (a ++ b) = render a ++ render b.
Proof.
  induction a as [|t a IH]; [reflexivity|].
  destruct t; cbn [render app]; rewrite IH.
  - rewrite app_assoc. reflexivity.
  - reflexivity.
  - rewrite <- app_assoc. reflexivity.
Qed.

Lemma shape_rsh_both :
  (forall m d ts, shape m d ts -> rsh m d (render ts)) /\
  (forall m ds ts, shape_list m ds ts -> rsh_list (rsh m) ds (render ts)).
Proof.
  apply shape_mutind; intros; cbn [rsh rsh_list render]; try reflexivity.
  - rewrite app_nil_r. reflexivity.
  - exists i. unfold nl. rewrite app_nil_r. reflexivity.
  - exists i. unfold nl. rewrite app_nil_r. reflexivity.
  - exists i. unfold nl. rewrite app_nil_r. reflexivity.
  - assumption.
  - assumption.
  - exists Break. assumption.
  - exists m'. assumption.
  - destruct m; assumption.
  - exists (render l1), (render l2). split; [apply render_app|]. split; assumption.
Qed.

Lemma shape_rsh m d ts : shape m d ts -> rsh m d (render ts).
Proof. apply shape_rsh_both. Qed.

(* ========================================================================================== *)
(* strip_trailing_whitespace is the identity on ''clean'' texts                                *)
(* ========================================================================================== *)

(* a character after which a line (or the text) may end *)
Definition solid (c : Z) : bool :=
  negb ((c =? 32) || (c =? 9) || (c =? 10) || (c =? 13)).

(* every LF and the end of the text are preceded by a solid character; `p`: the previous character is solid *)
Fixpoint clean_aux (p : bool) (s : list Z) : bool :=
  match s with
  | [] => p
  | c :: r => (if c =? 10 then p else true) && clean_aux (solid c) r
  end.

Lemma trim_end_solid l c : is_ws c = false -> trim_end (l ++ [c]) = l ++ [c].
Proof.
  intros Hc. induction l as [|a l IH].
  - cbn [app trim_end]. rewrite Hc. reflexivity.
  - cbn [app trim_end]. rewrite IH. destruct (l ++ [c]) eqn:E; [|reflexivity].
    destruct l; discriminate.
Qed.

Lemma solid_not_ws c : solid c = true -> is_ws c = false.
Proof. unfold solid, is_ws. lia. Qed.

Lemma split_lines_aux_nonnil s cur : (s <> [] \/ cur <> []) -> split_lines_aux cur s <> [].
Proof.
  revert cur. induction s as [|c r IH]; intros cur H.
  - cbn [split_lines_aux]. destruct cur; [destruct H; congruence|discriminate].
  - cbn [split_lines_aux]. destruct (c =? 10); [discriminate|].
    apply IH. right. discriminate.
Qed.

Lemma strip_aux : forall s cur p,
  clean_aux p s = true ->
  (p = true -> exists c cur', cur = c :: cur' /\ solid c = true) ->
  Pretty.join_lf (map trim_end (split_lines_aux cur s)) = List.rev cur ++ s.
Proof.
  induction s as [|c r IH]; intros cur p Hcl Hp.
  - cbn [clean_aux] in Hcl. destruct (Hp Hcl) as [c [cur' [E Hs]]]. subst cur.
    cbn [split_lines_aux map Pretty.join_lf List.rev].
    rewrite trim_end_solid by (apply solid_not_ws; exact Hs).
    rewrite app_nil_r. reflexivity.
  - cbn [clean_aux] in Hcl. apply andb_true_iff in Hcl. destruct Hcl as [H1 H2].
    cbn [split_lines_aux]. destruct (c =? 10) eqn:E10.
    + apply Z.eqb_eq in E10. subst c.
      destruct (Hp H1) as [x [cur' [E Hs]]]. subst cur.
      assert (Hx : (x =? 13) = false) by (unfold solid in Hs; lia).
      cbn [drop_cr]. rewrite Hx. cbn [map].
      assert (Hr : r <> []) by (destruct r; [cbn [clean_aux] in H2; discriminate|discriminate]).
      pose proof (split_lines_aux_nonnil r [] (or_introl Hr)) as Hne.
      specialize (IH [] (solid 10) H2).
      assert (Hs10 : solid 10 = true -> exists c cur', @nil Z = c :: cur' /\ solid c = true)
        by (intros Hf; vm_compute in Hf; discriminate).
      specialize (IH Hs10). cbn [List.rev app] in IH.
      destruct (split_lines_aux [] r) as [|l0 ls] eqn:Esp; [congruence|].
      cbn [map] in IH |- *. cbn [Pretty.join_lf].
      cbn [Pretty.join_lf] in IH. rewrite IH.
      cbn [List.rev]. rewrite trim_end_solid by (apply solid_not_ws; exact Hs).
      reflexivity.
    + rewrite (IH (c :: cur) (solid c) H2).
      * cbn [List.rev]. rewrite <- app_assoc. reflexivity.
      * intros Hs. exists c, cur. split; [reflexivity|exact Hs].
Qed.

Lemma strip_clean s : clean_aux false s = true -> strip_trailing_whitespace s = s.
Proof.
  intros H. unfold strip_trailing_whitespace, split_lines.
  rewrite (strip_aux s [] false H); [reflexivity|discriminate].
Qed.

(* a compositional presentation of cleanliness: cl p s q = from state p, s is fine and leaves state q *)
Inductive cl : bool -> list Z -> bool -> Prop :=
| cl_nil p : cl p [] p
| cl_app p q r a b : cl p a q -> cl q b r -> cl p (a ++ b) r
| cl_char p c : c <> 10 -> cl p [c] (solid c)
| cl_lf : cl true [10] false.

Lemma cl_clean_aux p a q : cl p a q -> forall b, clean_aux q b = true -> clean_aux p (a ++ b) = true.
Proof.
  induction 1 as [p|p q r a b _ IH1 _ IH2|p c Hc|]; intros b0 Hb.
  - exact Hb.
  - rewrite <- app_assoc. apply IH1. apply IH2. exact Hb.
  - cbn [app clean_aux]. apply Z.eqb_neq in Hc. rewrite Hc. exact Hb.
  - cbn [app clean_aux]. exact Hb.
Qed.

Lemma cl_strip s : cl false s true -> strip_trailing_whitespace s = s.
Proof.
  intros H. apply strip_clean. rewrite <- (app_nil_r s).
  apply (cl_clean_aux _ _ _ H). reflexivity.
Qed.

Fixpoint lastsolid (p : bool) (s : list Z) : bool :=
  match s with [] => p | c :: r => lastsolid (solid c) r end.

Lemma cl_text : forall s p, Forall (fun c => c <> 10) s -> cl p s (lastsolid p s).
Proof.
  induction s as [|c r IH]; intros p H.
  - constructor.
  - inversion H as [|c0 r0 Hc Hr]; subst. cbn [lastsolid].
    change (c :: r) with ([c] ++ r). eapply cl_app; [apply cl_char; exact Hc|apply IH; exact Hr].
Qed.

Lemma lastsolid_app p a c : lastsolid p (a ++ [c]) = solid c.
Proof. revert p. induction a as [|x a IH]; intros p; [reflexivity|]. cbn [app lastsolid]. apply IH. Qed.

Lemma lastsolid_all s p : s <> [] -> forallb solid s = true -> lastsolid p s = true.
Proof.
  revert p. induction s as [|c r IH]; intros p Hne H; [congruence|].
  cbn [forallb] in H. apply andb_true_iff in H. destruct H as [Hc Hr].
  cbn [lastsolid]. destruct r as [|d r']; [exact Hc|]. apply IH; [discriminate|exact Hr].
Qed.

Lemma solid_not_lf s : forallb solid s = true -> Forall (fun c => c <> 10) s.
Proof.
  induction s as [|c r IH]; intros H; [constructor|].
  cbn [forallb] in H. apply andb_true_iff in H. destruct H as [Hc Hr].
  constructor; [unfold solid in Hc; lia|apply IH; exact Hr].
Qed.

(* a non-empty text of solid characters *)
Lemma cl_solid s p : s <> [] -> forallb solid s = true -> cl p s true.
Proof.
  intros Hne H. rewrite <- (lastsolid_all s p Hne H). apply cl_text. apply solid_not_lf. exact H.
Qed.

Lemma cl_spaces i : cl false (repeat 32 i) false.
Proof.
  induction i as [|i IH]; [constructor|].
  cbn [repeat]. change (32 :: repeat 32 i) with ([32] ++ repeat 32 i).
  eapply cl_app; [|exact IH]. apply (cl_char false 32). lia.
Qed.

Lemma cl_nl i : cl true (nl i) false.
Proof.
  unfold nl. change (10 :: repeat 32 i) with ([10] ++ repeat 32 i).
  eapply cl_app; [apply cl_lf|apply cl_spaces].
Qed.

Lemma cl_space : cl true [32] false.
Proof. apply (cl_char true 32). lia. Qed.

(* ========================================================================================== *)
(* S2a. the character-level grammar of the formatter's outputs                                 *)
(* ========================================================================================== *)

Definition gws (w : list Z) : Prop := w = [] \/ exists i, w = nl i.
Definition gsep (w : list Z) : Prop := w = [32] \/ exists i, w = nl i.
Definition gcsep (w : list Z) : Prop := w = [32] \/ exists i, w = nl i ++ [126; 62; 32].
Definition topen (name : option (list Z)) : list Z :=
  match name with Some n => n ++ [91] | None => [91] end.
Definition wf_name_opt (name : option (list Z)) : Prop :=
  match name with Some n => wf_tuple_name n = true | None => True end.

Inductive gterm : fterm -> list Z -> Prop :=
| G_int z : gterm (FInt z) (int_text z)
| G_ident n : wf_ident n = true -> gterm (FIdent n) n
| G_str s : gterm (FStr s) (34 :: escape_single s ++ [34])
| G_unit : gterm (FTuple None []) [91; 93]
| G_name n : wf_tuple_name n = true -> gterm (FTuple (Some n) []) n
| G_tuple name f fs w1 body oc w2 :
    wf_name_opt name -> gws w1 -> gws w2 -> (oc = [] \/ oc = [44]) -> gfields f fs body ->
    gterm (FTuple name (f :: fs)) (topen name ++ w1 ++ body ++ oc ++ w2 ++ [93])
with gfields : ffield -> list ffield -> list Z -> Prop :=
| GF_one f s : gfield f s -> gfields f [] s
| GF_cons f f' fs s sep s' :
    gfield f s -> gsep sep -> gfields f' fs s' -> gfields f (f' :: fs) (s ++ 44 :: sep ++ s')
with gfield : ffield -> list Z -> Prop :=
| GFd_plain t ts s : gchain t ts s -> gfield (FField None (t :: ts)) s
| GFd_label n t ts s :
    wf_ident n = true -> gchain t ts s -> gfield (FField (Some n) (t :: ts)) (n ++ 58 :: 32 :: s)
with gchain : fterm -> list fterm -> list Z -> Prop :=
| GC_one t s : gterm t s -> gchain t [] s
| GC_cons t t' ts s sep s' :
    gterm t s -> gcsep sep -> gchain t' ts s' -> gchain t (t' :: ts) (s ++ sep ++ s').

Scheme gterm_mind := Minimality for gterm Sort Prop
  with gfields_mind := Minimality for gfields Sort Prop
  with gfield_mind := Minimality for gfield Sort Prop
  with gchain_mind := Minimality for gchain Sort Prop.
Combined Scheme g_mutind from gterm_mind, gfields_mind, gfield_mind, gchain_mind.

Definition gchainL (c : fchain) (s : list Z) : Prop :=
  match c with [] => False | t :: ts => gchain t ts s end.

(* ------------------------------------------------------------------------------------------ *)
(* lexical facts                                                                               *)
Definition tstart (c : Z) : bool :=
  (c =? 34) || is_digit c || (c =? 45) || is_upper c || (c =? 91) || is_lower c.

Ltac cc := unfold tstart, is_word, is_lower, is_upper, is_digit, is_msp, is_hsp, solid in *; lia.

Definition stops (p : Z -> bool) (r : list Z) : Prop :=
  match r with [] => True | x :: _ => p x = false end.

Lemma take_while_spec p : forall s a r,
  take_while p s = (a, r) -> s = a ++ r /\ forallb p a = true /\ stops p r.
Proof.
  induction s as [|c s IH]; intros a r H.
  - cbn [take_while] in H. inversion H; subst. repeat split.
  - cbn [take_while] in H. destruct (p c) eqn:Ec.
    + destruct (take_while p s) as [a' r'] eqn:E. inversion H; subst.
      destruct (IH a' r eq_refl) as [E1 [E2 E3]]. subst s.
      repeat split; [|exact E3]. cbn [forallb]. rewrite Ec, E2. reflexivity.
    + inversion H; subst. repeat split. exact Ec.
Qed.

Lemma take_while_app p a r : forallb p a = true -> stops p r -> take_while p (a ++ r) = (a, r).
Proof.
  intros Ha Hr. induction a as [|c a IH].
  - cbn [app]. destruct r as [|x r']; [reflexivity|]. cbn [take_while]. cbn [stops] in Hr. rewrite Hr. reflexivity.
  - cbn [forallb] in Ha. apply andb_true_iff in Ha. destruct Ha as [Hc Ha].
    cbn [app take_while]. rewrite Hc, (IH Ha). reflexivity.
Qed.

Definition misses (c : Z) (s : list Z) : Prop := match s with [] => True | x :: _ => x <> c end.

Lemma opt_char_hit c r : opt_char c (c :: r) = ([c], r).
Proof. cbn [opt_char]. rewrite Z.eqb_refl. reflexivity. Qed.
Lemma opt_char_miss c s : misses c s -> opt_char c s = ([], s).
Proof.
  destruct s as [|x r]; intros H; [reflexivity|]. cbn [opt_char]. cbn [misses] in H.
  apply Z.eqb_neq in H. rewrite H. reflexivity.
Qed.
Lemma opt_char_spec c s q r :
  opt_char c s = (q, r) -> s = q ++ r /\ (q = [] \/ q = [c]).
Proof.
  destruct s as [|x s']; cbn [opt_char]; intros H.
  - inversion H; subst. split; [reflexivity|left; reflexivity].
  - destruct (x =? c) eqn:E; inversion H; subst.
    + apply Z.eqb_eq in E. subst x. split; [reflexivity|right; reflexivity].
    + split; [reflexivity|left; reflexivity].
Qed.

Lemma wf_ident_inv n : wf_ident n = true ->
  exists c body q b, n = c :: body ++ q ++ b /\ is_lower c = true /\ forallb is_word body = true /\
                     (q = [] \/ q = [63]) /\ (b = [] \/ b = [33]).
Proof.
  unfold wf_ident, p_identifier. destruct n as [|c r]; [discriminate|].
  destruct (is_lower c) eqn:El; [|discriminate].
  destruct (take_while is_word r) as [body r1] eqn:Etw.
  destruct (opt_char 63 r1) as [q r2] eqn:Eq.
  destruct (opt_char 33 r2) as [b r3] eqn:Eb.
  intros H. destruct r3 as [|x r3]; [|discriminate].
  destruct (take_while_spec _ _ _ _ Etw) as [E1 [E2 _]].
  destruct (opt_char_spec _ _ _ _ Eq) as [E3 Hq].
  destruct (opt_char_spec _ _ _ _ Eb) as [E4 Hb].
  exists c, body, q, b. subst r r1 r2. rewrite app_nil_r. repeat split; assumption.
Qed.

Definition idfollow (rest : list Z) : Prop :=
  match rest with [] => True | x :: _ => is_word x = false /\ x <> 63 /\ x <> 33 end.

Lemma p_identifier_app n rest :
  wf_ident n = true -> idfollow rest -> p_identifier (n ++ rest) = Some (n, rest).
Proof.
  intros Hwf Hf. destruct (wf_ident_inv n Hwf) as (c & body & q & b & En & Hc & Hbody & Hq & Hb).
  subst n. cbn [app p_identifier]. rewrite Hc. rewrite <- !app_assoc.
  assert (Hst : stops is_word (q ++ b ++ rest)).
  { destruct Hq as [Hq|Hq]; destruct Hb as [Hb|Hb]; subst q b; cbn [app stops]; try reflexivity.
    destruct rest as [|x r]; [exact I|]. apply Hf. }
  rewrite (take_while_app is_word body _ Hbody Hst).
  destruct Hq as [Hq|Hq]; destruct Hb as [Hb|Hb]; subst q b; cbn [app].
  - rewrite (opt_char_miss 63 rest) by (destruct rest; [exact I|apply Hf]).
    rewrite (opt_char_miss 33 rest) by (destruct rest; [exact I|apply Hf]).
    rewrite !app_nil_r. reflexivity.
  - rewrite (opt_char_miss 63 (33 :: rest)) by (cbn [misses]; lia).
    rewrite opt_char_hit. rewrite app_nil_l. reflexivity.
  - rewrite opt_char_hit.
    rewrite (opt_char_miss 33 rest) by (destruct rest; [exact I|apply Hf]).
    rewrite !app_nil_r. reflexivity.
  - rewrite opt_char_hit, opt_char_hit. reflexivity.
Qed.

Lemma wf_tuple_name_inv n : wf_tuple_name n = true ->
  exists c body, n = c :: body /\ is_upper c = true /\ forallb is_word body = true.
Proof.
  unfold wf_tuple_name, p_tuple_name. destruct n as [|c r]; [discriminate|].
  destruct (is_upper c) eqn:El; [|discriminate].
  destruct (take_while is_word r) as [body r1] eqn:Etw.
  intros H. destruct r1 as [|x r1]; [|discriminate].
  destruct (take_while_spec _ _ _ _ Etw) as [E1 [E2 _]].
  exists c, body. subst r. rewrite app_nil_r. repeat split; assumption.
Qed.

Lemma p_tuple_name_app n rest :
  wf_tuple_name n = true -> stops is_word rest -> p_tuple_name (n ++ rest) = Some (n, rest).
Proof.
  intros Hwf Hf. destruct (wf_tuple_name_inv n Hwf) as (c & body & En & Hc & Hbody).
  subst n. cbn [app p_tuple_name]. rewrite Hc.
  rewrite (take_while_app is_word body _ Hbody Hf). reflexivity.
Qed.

(* integers *)
Lemma chars_digits u : forallb is_digit (chars_of_uint u) = true.
Proof. induction u; cbn [chars_of_uint forallb]; try rewrite IHu; reflexivity. Qed.

Lemma uint_of_chars u : uint_of_digits (chars_of_uint u) = u.
Proof. induction u; cbn [chars_of_uint uint_of_digits]; try rewrite IHu; reflexivity. Qed.

Lemma chars_nonnil u : u <> Decimal.Nil -> exists d ds, chars_of_uint u = d :: ds /\ is_digit d = true.
Proof.
  intros Hu. pose proof (chars_digits u) as Hd.
  destruct (chars_of_uint u) as [|d ds] eqn:E.
  - destruct u; cbn [chars_of_uint] in E; congruence.
  - cbn [forallb] in Hd. apply andb_true_iff in Hd. exists d, ds. split; [reflexivity|apply Hd].
Qed.

Lemma to_int_cases z :
  exists u, u <> Decimal.Nil /\ (Z.to_int z = Decimal.Pos u \/ Z.to_int z = Decimal.Neg u).
Proof.
  destruct z as [|p|p]; cbn [Z.to_int].
  - exists (Decimal.D0 Decimal.Nil). split; [discriminate|left; reflexivity].
  - exists (Pos.to_uint p). split; [apply DecimalPos.Unsigned.to_uint_nonnil|left; reflexivity].
  - exists (Pos.to_uint p). split; [apply DecimalPos.Unsigned.to_uint_nonnil|right; reflexivity].
Qed.

Definition intfollow (rest : list Z) : Prop :=
  match rest with [] => True | x :: _ => is_digit x = false /\ x <> 46 /\ x <> 47 /\ x <> 120 end.

Lemma no_0x ds rest : forallb is_digit ds = true -> intfollow rest ->
  match ds ++ rest with a :: b :: _ => (a =? 48) && (b =? 120) | _ => false end = false.
Proof.
  intros Hd Hf. destruct ds as [|a [|b ds]]; cbn [app].
  - destruct rest as [|a [|b r]]; try reflexivity.
    destruct (b =? 120); [|apply andb_false_r]. reflexivity || idtac.
    destruct (a =? 48) eqn:E; [|reflexivity]. exfalso. cbn [intfollow] in Hf. cc.
  - destruct rest as [|b r]; [reflexivity|]. cbn [intfollow] in Hf.
    assert (E : (b =? 120) = false) by lia. rewrite E. apply andb_false_r.
  - cbn [forallb] in Hd. assert (E : (b =? 120) = false) by cc. rewrite E. apply andb_false_r.
Qed.

Lemma outside1 rest : intfollow rest ->
  match rest with c :: r2 => ((c =? 46) || (c =? 47)) && starts_digit r2 | [] => false end = false.
Proof.
  destruct rest as [|c r2]; intros H; [reflexivity|]. cbn [intfollow] in H.
  assert (E : ((c =? 46) || (c =? 47)) = false) by lia. rewrite E. reflexivity.
Qed.

Lemma p_integer_app z rest : intfollow rest -> p_integer (int_text z ++ rest) = Some (z, rest).
Proof.
  intros Hf. pose proof (DecimalZ.of_to z) as Hz. unfold int_text.
  destruct (to_int_cases z) as [u [Hu [E|E]]]; rewrite E in *; cbn [Z.of_int] in Hz.
  - destruct (chars_nonnil u Hu) as [d [ds [Ed Hd]]].
    unfold p_integer.
    rewrite (opt_char_miss 45 (chars_of_uint u ++ rest)) by (rewrite Ed; cbn [app misses]; cc).
    rewrite (take_while_app is_digit (chars_of_uint u) rest (chars_digits u))
      by (destruct rest; [exact I|apply Hf]).
    rewrite (no_0x _ _ (chars_digits u) Hf), (outside1 _ Hf).
    rewrite Ed. cbn [orb]. rewrite <- Ed, uint_of_chars, Hz. reflexivity.
  - destruct (chars_nonnil u Hu) as [d [ds [Ed Hd]]].
    unfold p_integer. cbn [app]. rewrite opt_char_hit.
    rewrite (take_while_app is_digit (chars_of_uint u) rest (chars_digits u))
      by (destruct rest; [exact I|apply Hf]).
    rewrite (outside1 _ Hf). rewrite Ed. cbn [app orb].
    replace (45 =? 48) with false by exact eq_refl. cbn [andb].
    rewrite <- Ed, uint_of_chars, Hz. reflexivity.
Qed.

(* ------------------------------------------------------------------------------------------ *)
(* every grammar text starts with a term-start character                                       *)
Definition starts (s : list Z) : Prop := match s with c :: _ => tstart c = true | [] => False end.

Lemma starts_app s r : starts s -> starts (s ++ r).
Proof. destruct s; [intros []|]. cbn [app starts]. auto. Qed.

Lemma starts_int z : starts (int_text z).
Proof.
  unfold int_text. destruct (to_int_cases z) as [u [Hu [E|E]]]; rewrite E.
  - destruct (chars_nonnil u Hu) as [d [ds [Ed Hd]]]. rewrite Ed. cbn [starts]. cc.
  - cbn [starts]. reflexivity.
Qed.
Lemma starts_ident n : wf_ident n = true -> starts n.
Proof.
  intros H. destruct (wf_ident_inv n H) as (c & body & q & b & En & Hc & _). subst n. cbn [starts]. cc.
Qed.
Lemma starts_name n : wf_tuple_name n = true -> starts n.
Proof.
  intros H. destruct (wf_tuple_name_inv n H) as (c & body & En & Hc & _). subst n. cbn [starts]. cc.
Qed.
Lemma starts_topen name : wf_name_opt name -> starts (topen name).
Proof.
  destruct name as [n|]; cbn [wf_name_opt topen]; intros H.
  - apply starts_app, starts_name, H.
  - reflexivity.
Qed.

Lemma g_starts :
  (forall t s, gterm t s -> starts s) /\
  (forall f fs s, gfields f fs s -> starts s) /\
  (forall f s, gfield f s -> starts s) /\
  (forall t ts s, gchain t ts s -> starts s).
Proof.
  apply g_mutind; intros.
  - apply starts_int.
  - apply starts_ident; assumption.
  - reflexivity.
  - reflexivity.
  - apply starts_name; assumption.
  - apply starts_app, starts_topen. assumption.
  - assumption.
  - apply starts_app. assumption.
  - assumption.
  - apply starts_app, starts_ident. assumption.
  - assumption.
  - apply starts_app. assumption.
Qed.

(* ------------------------------------------------------------------------------------------ *)
(* S4a. grammar texts are clean                                                                *)
Lemma solid_int z : int_text z <> [] /\ forallb solid (int_text z) = true.
Proof.
  assert (Hd : forall u, forallb solid (chars_of_uint u) = true)
    by (induction u; cbn [chars_of_uint forallb]; try rewrite IHu; reflexivity).
  unfold int_text. destruct (to_int_cases z) as [u [Hu [E|E]]]; rewrite E.
  - destruct (chars_nonnil u Hu) as [d [ds [Ed _]]]. split; [rewrite Ed; discriminate|apply Hd].
  - split; [discriminate|]. cbn [forallb]. rewrite Hd. reflexivity.
Qed.

Lemma word_solid body : forallb is_word body = true -> forallb solid body = true.
Proof.
  induction body as [|c r IH]; [reflexivity|]. cbn [forallb]. intros H.
  apply andb_true_iff in H. destruct H as [Hc Hr]. rewrite (IH Hr).
  assert (E : solid c = true) by cc. rewrite E. reflexivity.
Qed.

Lemma solid_ident n : wf_ident n = true -> n <> [] /\ forallb solid n = true.
Proof.
  intros H. destruct (wf_ident_inv n H) as (c & body & q & b & En & Hc & Hbody & Hq & Hb). subst n.
  split; [discriminate|]. cbn [forallb]. rewrite !forallb_app, (word_solid _ Hbody).
  assert (E : solid c = true) by cc. rewrite E.
  destruct Hq as [Hq|Hq]; destruct Hb as [Hb|Hb]; subst q b; reflexivity.
Qed.

Lemma solid_name n : wf_tuple_name n = true -> n <> [] /\ forallb solid n = true.
Proof.
  intros H. destruct (wf_tuple_name_inv n H) as (c & body & En & Hc & Hbody). subst n.
  split; [discriminate|]. cbn [forallb]. rewrite (word_solid _ Hbody).
  assert (E : solid c = true) by cc. rewrite E. reflexivity.
Qed.

Lemma escape_single_no_lf s : Forall (fun c => c <> 10) (escape_single s).
Proof.
  induction s as [|c t IH]; [constructor|]. cbn [escape_single]. apply Forall_app. split; [|exact IH].
  destruct (esc_single_char_spec c)
    as [[Hc He]|[[Hc He]|[[Hc He]|[[Hc He]|[[Hc He]|[[Hc He]|[H92 [H34 [H123 He]]]]]]]]];
    rewrite He; repeat constructor; try lia.
  intros E10. subst c. vm_compute in He. discriminate.
Qed.

Lemma cl_str s p : cl p (34 :: escape_single s ++ [34]) true.
Proof.
  change true with (solid 34) at 1.
  rewrite <- (lastsolid_app p (34 :: escape_single s) 34).
  change (34 :: escape_single s ++ [34]) with ((34 :: escape_single s) ++ [34]).
  apply cl_text. apply Forall_app. split.
  - constructor; [lia|apply escape_single_no_lf].
  - repeat constructor. lia.
Qed.

Lemma cl_topen name p : wf_name_opt name -> cl p (topen name) true.
Proof.
  destruct name as [n|]; cbn [wf_name_opt topen]; intros H.
  - destruct (solid_name n H) as [Hne Hs]. apply cl_solid.
    + destruct n; [congruence|discriminate].
    + rewrite forallb_app, Hs. reflexivity.
  - apply cl_solid; [discriminate|reflexivity].
Qed.

Lemma gws_cl w : gws w -> exists q, cl true w q.
Proof.
  intros [E|[i E]]; subst w.
  - exists true. constructor.
  - exists false. apply cl_nl.
Qed.
Lemma gsep_cl w : gsep w -> cl true w false.
Proof. intros [E|[i E]]; subst w; [apply cl_space|apply cl_nl]. Qed.
Lemma gcsep_cl w : gcsep w -> cl true w false.
Proof.
  intros [E|[i E]]; subst w; [apply cl_space|].
  eapply cl_app; [apply cl_nl|].
  change false with (lastsolid false [126; 62; 32]) at 2. apply cl_text. repeat constructor; lia.
Qed.
Lemma oc_cl oc : (oc = [] \/ oc = [44]) -> cl true oc true.
Proof. intros [E|E]; subst oc; [constructor|]. apply cl_solid; [discriminate|reflexivity]. Qed.

Lemma g_clean :
  (forall t s, gterm t s -> forall p, cl p s true) /\
  (forall f fs s, gfields f fs s -> forall p, cl p s true) /\
  (forall f s, gfield f s -> forall p, cl p s true) /\
  (forall t ts s, gchain t ts s -> forall p, cl p s true).
Proof.
  apply g_mutind.
  - intros z p. apply cl_solid; apply solid_int.
  - intros n H p. apply cl_solid; apply solid_ident; exact H.
  - intros s p. apply cl_str.
  - intros p. apply cl_solid; [discriminate|reflexivity].
  - intros n H p. apply cl_solid; apply solid_name; exact H.
  - intros name f fs w1 body oc w2 Hn Hw1 Hw2 Hoc _ IH p.
    destruct (gws_cl w1 Hw1) as [q1 H1]. destruct (gws_cl w2 Hw2) as [q2 H2].
    eapply cl_app; [apply cl_topen; exact Hn|].
    eapply cl_app; [exact H1|].
    eapply cl_app; [apply IH|].
    eapply cl_app; [apply oc_cl; exact Hoc|].
    eapply cl_app; [exact H2|].
    apply cl_solid; [discriminate|reflexivity].
  - intros f s _ IH p. apply IH.
  - intros f f' fs s sep s' _ IH1 Hsep _ IH2 p.
    eapply cl_app; [apply IH1|].
    change (44 :: sep ++ s') with ([44] ++ sep ++ s').
    eapply cl_app; [apply (cl_solid [44] true); [discriminate|reflexivity]|].
    eapply cl_app; [apply gsep_cl; exact Hsep|apply IH2].
  - intros t ts s _ IH p. apply IH.
  - intros n t ts s Hn _ IH p.
    eapply cl_app; [apply cl_solid; apply solid_ident; exact Hn|].
    change (58 :: 32 :: s) with ([58] ++ [32] ++ s).
    eapply cl_app; [apply (cl_solid [58] true); [discriminate|reflexivity]|].
    eapply cl_app; [apply cl_space|apply IH].
  - intros t s _ IH p. apply IH.
  - intros t t' ts s sep s' _ IH1 Hsep _ IH2 p.
    eapply cl_app; [apply IH1|].
    eapply cl_app; [apply gcsep_cl; exact Hsep|apply IH2].
Qed.

Lemma gterm_strip t s : gterm t s -> strip_trailing_whitespace s = s.
Proof. intros H. apply cl_strip. apply (proj1 g_clean t s H). Qed.
Lemma gchain_strip t ts s : gchain t ts s -> strip_trailing_whitespace s = s.
Proof. intros H. apply cl_strip. apply (proj2 (proj2 (proj2 g_clean)) t ts s H). Qed.

(* ========================================================================================== *)
(* S3. the parser is complete on the grammar                                                   *)
(* ========================================================================================== *)

(* what may follow a term / a chain / a field list *)
Definition first_in (rest : list Z) : Prop :=
  match rest with [] => True | x :: _ => x = 32 \/ x = 10 \/ x = 44 \/ x = 93 end.
Definition tfollow (rest : list Z) : Prop :=
  first_in rest /\ match skip_ws rest with y :: _ => y <> 40 | [] => True end.
Definition cfollow (rest : list Z) : Prop :=
  match rest with
  | [] => True
  | x :: r => x = 44 \/ x = 93 \/
              (x = 10 /\ exists i tail, r = repeat 32 i ++ tail /\
                                        match tail with [] => True | y :: _ => y = 93 end)
  end.
Definition fsfollow (rest : list Z) : Prop :=
  exists oc w2 rest', rest = oc ++ w2 ++ 93 :: rest' /\ (oc = [] \/ oc = [44]) /\ gws w2.

Lemma skip_ws_stop s : stops is_msp s -> skip_ws s = s.
Proof.
  intros H. unfold skip_ws. pose proof (take_while_app is_msp [] s eq_refl H) as E.
  cbn [app] in E. rewrite E. reflexivity.
Qed.
Lemma skip_ws_app w r : forallb is_msp w = true -> stops is_msp r -> skip_ws (w ++ r) = r.
Proof. intros Hw H. unfold skip_ws. rewrite (take_while_app is_msp w r Hw H). reflexivity. Qed.

Lemma msp_spaces i : forallb is_msp (repeat 32 i) = true.
Proof. induction i as [|i IH]; [reflexivity|]. cbn [repeat forallb]. rewrite IH. reflexivity. Qed.
Lemma msp_nl i : forallb is_msp (nl i) = true.
Proof. unfold nl. cbn [forallb]. rewrite msp_spaces. reflexivity. Qed.
Lemma msp_gws w : gws w -> forallb is_msp w = true.
Proof. intros [E|[i E]]; subst w; [reflexivity|apply msp_nl]. Qed.
Lemma msp_gsep w : gsep w -> forallb is_msp w = true.
Proof. intros [E|[i E]]; subst w; [reflexivity|apply msp_nl]. Qed.

Lemma starts_stops s r : starts s -> stops is_msp (s ++ r).
Proof. destruct s as [|c s]; [intros []|]. cbn [starts app stops]. intros H. cc. Qed.

Lemma cfollow_tfollow rest : cfollow rest -> tfollow rest.
Proof.
  destruct rest as [|x r]; intros H.
  - split; exact I.
  - cbn [cfollow] in H. destruct H as [E|[E|[E [i [tail [Er Ht]]]]]]; subst x.
    + split; [cbn [first_in]; lia|]. rewrite skip_ws_stop by exact eq_refl. lia.
    + split; [cbn [first_in]; lia|]. rewrite skip_ws_stop by exact eq_refl. lia.
    + split; [cbn [first_in]; lia|]. subst r.
      change (10 :: repeat 32 i ++ tail) with (nl i ++ tail).
      rewrite skip_ws_app; [|apply msp_nl|destruct tail; [exact I|subst; reflexivity]].
      destruct tail; [exact I|subst; lia].
Qed.

Lemma tfollow_csep sep s rest : gcsep sep -> starts s -> tfollow (sep ++ s ++ rest).
Proof.
  intros [E|[i E]] Hs; subst sep.
  - split; [cbn [app first_in]; lia|].
    change ([32] ++ s ++ rest) with ([32] ++ (s ++ rest)).
    rewrite skip_ws_app; [|reflexivity|apply starts_stops; exact Hs].
    destruct s as [|c s]; [destruct Hs|]. cbn [starts] in Hs. cbn [app]. cc.
  - split; [cbn [nl app first_in]; lia|].
    rewrite <- app_assoc. rewrite skip_ws_app; [|apply msp_nl|reflexivity]. cbn [app]. lia.
Qed.

Lemma fsfollow_cfollow rest : fsfollow rest -> cfollow rest.
Proof.
  intros (oc & w2 & rest' & E & [Hoc|Hoc] & [Hw|[i Hw]]); subst; cbn [app cfollow nl]; try lia.
  right. right. split; [reflexivity|]. exists i, (93 :: rest'). split; reflexivity.
Qed.

Lemma tfollow_idfollow rest : tfollow rest -> idfollow rest.
Proof. intros [H _]. destruct rest as [|x r]; [exact I|]. cbn [first_in] in H. cbn [idfollow]. cc. Qed.
Lemma tfollow_intfollow rest : tfollow rest -> intfollow rest.
Proof. intros [H _]. destruct rest as [|x r]; [exact I|]. cbn [first_in] in H. cbn [intfollow]. cc. Qed.
Lemma tfollow_word rest : tfollow rest -> stops is_word rest.
Proof. intros [H _]. destruct rest as [|x r]; [exact I|]. cbn [first_in] in H. cbn [stops]. cc. Qed.

(* ---- dispatch of p_term on the first character ---- *)
Lemma p_term_rbracket fuel rest : p_term fuel (93 :: rest) = None.
Proof. destruct fuel; reflexivity. Qed.

Lemma p_term_bracket f r :
  p_term (S f) (91 :: r) =
  match p_bracket_body (p_term f) r with Some (fs, rest) => Some (FTuple None fs, rest) | None => None end.
Proof. reflexivity. Qed.

Lemma p_term_upper f c r : is_upper c = true ->
  p_term (S f) (c :: r) =
  match p_tuple_name (c :: r) with
  | Some (n, x :: r') =>
      if x =? 91 then
        match p_bracket_body (p_term f) r' with Some (fs, rest) => Some (FTuple (Some n) fs, rest) | None => None end
      else match skip_ws (x :: r') with
           | y :: _ => if y =? 40 then None else Some (FTuple (Some n) [], x :: r')
           | [] => Some (FTuple (Some n) [], x :: r')
           end
  | Some (n, []) => Some (FTuple (Some n) [], [])
  | None => None
  end.
Proof.
  intros H. cbn [p_term]. replace (c =? 34) with false by cc.
  replace (is_digit c || (c =? 45)) with false by cc. rewrite H. reflexivity.
Qed.

Lemma p_term_lower f c r : is_lower c = true ->
  p_term (S f) (c :: r) =
  match p_identifier (c :: r) with
  | Some (n, x :: r') => if (x =? 91) || (x =? 46) then None else Some (FIdent n, x :: r')
  | Some (n, []) => Some (FIdent n, [])
  | None => None
  end.
Proof.
  intros H. cbn [p_term]. replace (c =? 34) with false by cc.
  replace (is_digit c || (c =? 45)) with false by cc.
  replace (is_upper c) with false by cc. replace (c =? 91) with false by cc. rewrite H. reflexivity.
Qed.

Lemma p_term_digit f c r : is_digit c || (c =? 45) = true ->
  p_term (S f) (c :: r) =
  match p_integer (c :: r) with Some (z, rest) => Some (FInt z, rest) | None => None end.
Proof. intros H. cbn [p_term]. replace (c =? 34) with false by cc. rewrite H. reflexivity. Qed.

(* ---- atoms ---- *)
Lemma pt_int f z rest : tfollow rest -> p_term (S f) (int_text z ++ rest) = Some (FInt z, rest).
Proof.
  intros Hf. pose proof (starts_int z) as Hs. pose proof (solid_int z) as [_ Hsol].
  destruct (int_text z) as [|c s'] eqn:E; [destruct Hs|].
  assert (Hc : is_digit c || (c =? 45) = true).
  { unfold int_text in E. destruct (to_int_cases z) as [u [Hu [E1|E1]]]; rewrite E1 in E.
    - pose proof (chars_digits u) as Hd. rewrite E in Hd. cbn [forallb] in Hd. lia.
    - inversion E; subst. reflexivity. }
  cbn [app]. rewrite (p_term_digit f c _ Hc).
  change (c :: s' ++ rest) with ((c :: s') ++ rest). rewrite <- E.
  rewrite (p_integer_app z rest (tfollow_intfollow _ Hf)). reflexivity.
Qed.

Lemma wf_ident_first c n : wf_ident (c :: n) = true -> is_lower c = true.
Proof. unfold wf_ident, p_identifier. destruct (is_lower c); [reflexivity|discriminate]. Qed.
Lemma wf_name_first c n : wf_tuple_name (c :: n) = true -> is_upper c = true.
Proof. unfold wf_tuple_name, p_tuple_name. destruct (is_upper c); [reflexivity|discriminate]. Qed.

Lemma pt_ident f n rest :
  wf_ident n = true -> tfollow rest -> p_term (S f) (n ++ rest) = Some (FIdent n, rest).
Proof.
  intros Hwf Hf. destruct n as [|c n']; [discriminate|].
  cbn [app]. rewrite (p_term_lower f c _ (wf_ident_first _ _ Hwf)).
  change (c :: n' ++ rest) with ((c :: n') ++ rest).
  rewrite (p_identifier_app _ rest Hwf (tfollow_idfollow _ Hf)).
  destruct rest as [|x r]; [reflexivity|]. destruct Hf as [Hf _]. cbn [first_in] in Hf.
  replace ((x =? 91) || (x =? 46)) with false by lia. reflexivity.
Qed.

Lemma pt_name f n rest :
  wf_tuple_name n = true -> tfollow rest -> p_term (S f) (n ++ rest) = Some (FTuple (Some n) [], rest).
Proof.
  intros Hwf Hf. destruct n as [|c n']; [discriminate|].
  cbn [app]. rewrite (p_term_upper f c _ (wf_name_first _ _ Hwf)).
  change (c :: n' ++ rest) with ((c :: n') ++ rest).
  rewrite (p_tuple_name_app _ rest Hwf (tfollow_word _ Hf)).
  destruct rest as [|x r]; [reflexivity|]. destruct Hf as [Hf1 Hf2]. cbn [first_in] in Hf1.
  replace (x =? 91) with false by lia.
  destruct (skip_ws (x :: r)) as [|y t]; [reflexivity|].
  replace (y =? 40) with false by lia. reflexivity.
Qed.

Lemma esc_no_triple s rest a b t :
  misses 34 rest -> escape_single s ++ 34 :: rest = a :: b :: t -> (a =? 34) && (b =? 34) = false.
Proof.
  intros Hr E. destruct s as [|c s].
  - cbn [escape_single app] in E. inversion E; subst. cbn [misses] in Hr. lia.
  - cbn [escape_single] in E.
    destruct (esc_single_char_spec c)
      as [[Hc He]|[[Hc He]|[[Hc He]|[[Hc He]|[[Hc He]|[[Hc He]|[H92 [H34 [H123 He]]]]]]]]];
      rewrite He in E; cbn [app] in E; inversion E; subst; try reflexivity.
    replace (a =? 34) with false by lia. reflexivity.
Qed.

Lemma pt_str f s rest :
  tfollow rest -> p_term (S f) ((34 :: escape_single s ++ [34]) ++ rest) = Some (FStr s, rest).
Proof.
  intros [Hf _]. cbn [app p_term]. rewrite Z.eqb_refl. rewrite <- app_assoc. cbn [app].
  assert (Hm : misses 34 rest) by (destruct rest; [exact I|cbn [first_in] in Hf; cbn [misses]; lia]).
  pose proof (escape_single_scan s rest) as Hscan.
  destruct (escape_single s ++ 34 :: rest) as [|a [|b t]] eqn:E.
  - rewrite Hscan. reflexivity.
  - rewrite Hscan. reflexivity.
  - rewrite (esc_no_triple s rest a b t Hm E). rewrite Hscan. reflexivity.
Qed.

(* ---- chains, fields, field lists over an abstract term parser ---- *)
Section Complete.
  Variable pt : list Z -> option (fterm * list Z).
  Hypothesis pt_rb : forall rest, pt (93 :: rest) = None.

  Lemma take_msp_nl i tail : stops is_msp tail -> take_while is_msp (nl i ++ tail) = (nl i, tail).
  Proof. intros H. apply take_while_app; [apply msp_nl|exact H]. Qed.

  Lemma chain_sep_stop rest : cfollow rest -> p_chain_sep rest = None.
  Proof.
    destruct rest as [|x r]; intros H; [reflexivity|].
    cbn [cfollow] in H. destruct H as [E|[E|[E [i [tail [Er Ht]]]]]]; subst x.
    - reflexivity.
    - reflexivity.
    - subst r. change (10 :: repeat 32 i ++ tail) with (nl i ++ tail).
      unfold p_chain_sep.
      rewrite take_msp_nl by (destruct tail; [exact I|subst; reflexivity]).
      unfold nl at 2. cbn [app take_while]. replace (is_hsp 10) with false by exact eq_refl.
      destruct tail as [|a [|b r2]]; try reflexivity.
      subst a. reflexivity.
  Qed.

  Lemma chain_rest_stop n rest : cfollow rest -> p_chain_rest pt n rest = ([], rest).
  Proof. intros H. destruct n; [reflexivity|]. cbn [p_chain_rest]. rewrite (chain_sep_stop _ H). reflexivity. Qed.

  Lemma sep_space s : starts s -> p_chain_sep (32 :: s) = Some s.
  Proof.
    intros Hs. unfold p_chain_sep.
    assert (Hst : stops is_msp s) by (rewrite <- (app_nil_r s); apply starts_stops; exact Hs).
    change (32 :: s) with ([32] ++ s).
    rewrite (take_while_app is_msp [32] s eq_refl Hst).
    assert (Hh : stops is_hsp s).
    { destruct s as [|c s']; [exact I|]. cbn [stops starts] in *. cc. }
    rewrite (take_while_app is_hsp [32] s eq_refl Hh).
    destruct s as [|a [|b r2]]; try reflexivity.
    cbn [starts] in Hs. replace (a =? 126) with false by cc. reflexivity.
  Qed.

  Lemma sep_arrow i s : starts s -> p_chain_sep ((nl i ++ [126; 62; 32]) ++ s) = Some s.
  Proof.
    intros Hs. unfold p_chain_sep. rewrite <- app_assoc.
    rewrite take_msp_nl by exact eq_refl.
    unfold nl at 1. cbn [app].
    replace ((126 =? 126) && (62 =? 62)) with true by exact eq_refl.
    assert (Hst : stops is_msp s) by (rewrite <- (app_nil_r s); apply starts_stops; exact Hs).
    change (32 :: s) with ([32] ++ s).
    rewrite (take_while_app is_msp [32] s eq_refl Hst). reflexivity.
  Qed.

  Lemma csep_parse sep s : gcsep sep -> starts s -> p_chain_sep (sep ++ s) = Some s.
  Proof. intros [E|[i E]] Hs; subst sep; [apply sep_space|apply sep_arrow]; exact Hs. Qed.

  (* the conclusion of chain completeness *)
  Definition chain_ok (t : fterm) (ts : list fterm) (s rest : list Z) : Prop :=
    exists s2, (length ts <= length s2)%nat /\ (length s2 <= length s)%nat /\
               pt (s ++ rest) = Some (t, s2 ++ rest) /\
               forall n, (length ts <= n)%nat -> p_chain_rest pt n (s2 ++ rest) = (ts, rest).

  Lemma chain_ok_one t s rest : pt (s ++ rest) = Some (t, rest) -> cfollow rest -> chain_ok t [] s rest.
  Proof.
    intros Hpt Hf. exists []. cbn [length app]. repeat split; try lia; [exact Hpt|].
    intros n _. apply chain_rest_stop. exact Hf.
  Qed.

  Lemma chain_ok_cons t t' ts s sep s' rest :
    pt (s ++ sep ++ s' ++ rest) = Some (t, sep ++ s' ++ rest) ->
    gcsep sep -> starts s' -> chain_ok t' ts s' rest ->
    chain_ok t (t' :: ts) (s ++ sep ++ s') rest.
  Proof.
    intros Hpt Hsep Hs' (s2 & L1 & L2 & Hpt' & Hrest).
    assert (Lsep : (1 <= length sep)%nat).
    { destruct Hsep as [E|[i E]]; subst sep; cbn [nl length app]; lia. }
    exists (sep ++ s'). rewrite !app_length. cbn [length]. repeat split; try lia.
    - rewrite <- !app_assoc. exact Hpt.
    - intros n Hn. destruct n as [|n']; [lia|]. cbn [p_chain_rest].
      rewrite <- app_assoc. rewrite (csep_parse sep (s' ++ rest) Hsep (starts_app _ _ Hs')).
      rewrite Hpt'. rewrite (Hrest n') by lia. reflexivity.
  Qed.

  Lemma p_chain_complete t ts s rest : chain_ok t ts s rest -> p_chain pt (s ++ rest) = Some (t :: ts, rest).
  Proof.
    intros (s2 & L1 & L2 & Hpt' & Hrest). unfold p_chain. rewrite Hpt'.
    rewrite Hrest by (rewrite app_length; lia). reflexivity.
  Qed.

  (* a plain field is not mistaken for a labelled one *)
  Definition nolabel (s : list Z) : Prop :=
    match p_identifier s with Some (n, c :: r) => c <> 58 | _ => True end.

  Lemma p_field_plain s ts rest :
    nolabel (s ++ rest) -> p_chain pt (s ++ rest) = Some (ts, rest) ->
    p_field pt (s ++ rest) = Some (FField None ts, rest).
  Proof.
    intros Hn Hc. unfold p_field. unfold nolabel in Hn. rewrite Hc.
    destruct (p_identifier (s ++ rest)) as [[n [|c r]]|]; try reflexivity.
    replace (c =? 58) with false by lia. reflexivity.
  Qed.

  Lemma p_field_label n s ts rest :
    wf_ident n = true -> starts s -> p_chain pt (s ++ rest) = Some (ts, rest) ->
    p_field pt ((n ++ 58 :: 32 :: s) ++ rest) = Some (FField (Some n) ts, rest).
  Proof.
    intros Hn Hs Hc. unfold p_field. rewrite <- app_assoc. cbn [app].
    rewrite (p_identifier_app n (58 :: 32 :: s ++ rest) Hn) by (cbn [idfollow]; split; [reflexivity|split; lia]).
    rewrite Z.eqb_refl.
    change (32 :: s ++ rest) with ([32] ++ (s ++ rest)).
    rewrite (take_while_app is_msp [32] (s ++ rest) eq_refl (starts_stops _ _ Hs)).
    rewrite Hc. reflexivity.
  Qed.

  Lemma p_field_rb rest : p_field pt (93 :: rest) = None.
  Proof. unfold p_field, p_chain. rewrite pt_rb. reflexivity. Qed.

  Lemma p_comma_hit sep s : forallb is_msp sep = true -> stops is_msp s -> p_comma (44 :: sep ++ s) = Some s.
  Proof.
    intros Hsep Hs. unfold p_comma. rewrite skip_ws_stop by exact eq_refl. rewrite Z.eqb_refl.
    rewrite skip_ws_app by assumption. reflexivity.
  Qed.

  Lemma p_comma_rb w rest : forallb is_msp w = true -> p_comma (w ++ 93 :: rest) = None.
  Proof. intros Hw. unfold p_comma. rewrite skip_ws_app; [reflexivity|exact Hw|reflexivity]. Qed.

  Lemma fields_rest_stop n rest : fsfollow rest -> p_fields_rest pt n rest = ([], rest).
  Proof.
    intros (oc & w2 & rest' & E & Hoc & Hw). destruct n; [reflexivity|]. cbn [p_fields_rest]. subst rest.
    destruct Hoc as [Hoc|Hoc]; subst oc; cbn [app].
    - rewrite (p_comma_rb w2 rest' (msp_gws _ Hw)). reflexivity.
    - rewrite (p_comma_hit w2 (93 :: rest') (msp_gws _ Hw)) by exact eq_refl.
      rewrite p_field_rb. reflexivity.
  Qed.

  Definition fields_ok (f : ffield) (fs : list ffield) (s rest : list Z) : Prop :=
    exists s2, (length fs <= length s2)%nat /\ (length s2 <= length s)%nat /\
               p_field pt (s ++ rest) = Some (f, s2 ++ rest) /\
               forall n, (length fs <= n)%nat -> p_fields_rest pt n (s2 ++ rest) = (fs, rest).

  Lemma fields_ok_one f s rest : p_field pt (s ++ rest) = Some (f, rest) -> fsfollow rest -> fields_ok f [] s rest.
  Proof.
    intros Hpf Hf. exists []. cbn [length app]. repeat split; try lia; [exact Hpf|].
    intros n _. apply fields_rest_stop. exact Hf.
  Qed.

  Lemma fields_ok_cons f f' fs s sep s' rest :
    p_field pt (s ++ 44 :: sep ++ s' ++ rest) = Some (f, 44 :: sep ++ s' ++ rest) ->
    gsep sep -> starts s' -> fields_ok f' fs s' rest ->
    fields_ok f (f' :: fs) (s ++ 44 :: sep ++ s') rest.
  Proof.
    intros Hpf Hsep Hs' (s2 & L1 & L2 & Hpf' & Hrest).
    exists (44 :: sep ++ s'). rewrite !app_length. cbn [length]. rewrite !app_length.
    repeat split; try lia.
    - rewrite <- app_assoc. cbn [app]. rewrite <- app_assoc. exact Hpf.
    - intros n Hn. destruct n as [|n']; [lia|]. cbn [p_fields_rest app].
      rewrite <- app_assoc.
      rewrite (p_comma_hit sep (s' ++ rest) (msp_gsep _ Hsep) (starts_stops _ _ Hs')).
      rewrite Hpf'. rewrite (Hrest n') by lia. reflexivity.
  Qed.

  Lemma bracket_body_complete f fs w1 body oc w2 rest :
    gws w1 -> gws w2 -> (oc = [] \/ oc = [44]) -> starts body ->
    fields_ok f fs body (oc ++ w2 ++ 93 :: rest) ->
    p_bracket_body pt (w1 ++ body ++ oc ++ w2 ++ 93 :: rest) = Some (f :: fs, rest).
  Proof.
    intros Hw1 Hw2 Hoc Hsb (s2 & L1 & L2 & Hpf & Hrest).
    unfold p_bracket_body.
    rewrite (skip_ws_app w1 _ (msp_gws _ Hw1) (starts_stops _ _ Hsb)).
    unfold p_fields. rewrite Hpf. rewrite Hrest by (rewrite app_length; lia).
    destruct Hoc as [E|E]; subst oc; cbn [app].
    - rewrite (p_comma_rb w2 rest (msp_gws _ Hw2)).
      rewrite (skip_ws_app w2 _ (msp_gws _ Hw2)) by exact eq_refl.
      rewrite Z.eqb_refl. reflexivity.
    - rewrite (p_comma_hit w2 (93 :: rest) (msp_gws _ Hw2)) by exact eq_refl.
      rewrite (skip_ws_stop (44 :: w2 ++ 93 :: rest)) by exact eq_refl.
      rewrite (skip_ws_app w2 _ (msp_gws _ Hw2)) by exact eq_refl.
      rewrite Z.eqb_refl. reflexivity.
  Qed.
End Complete.

(* ---- plain fields are not mistaken for labelled ones ---- *)
Lemma nolabel_nonlower c s : is_lower c = false -> nolabel (c :: s).
Proof. intros H. unfold nolabel, p_identifier. rewrite H. exact I. Qed.

Lemma int_first z : exists c s', int_text z = c :: s' /\ is_digit c || (c =? 45) = true.
Proof.
  pose proof (starts_int z) as Hs.
  destruct (int_text z) as [|c s'] eqn:E; [destruct Hs|]. exists c, s'. split; [reflexivity|].
  unfold int_text in E. destruct (to_int_cases z) as [u [Hu [E1|E1]]]; rewrite E1 in E.
  - pose proof (chars_digits u) as Hd. rewrite E in Hd. cbn [forallb] in Hd. lia.
  - inversion E; subst. reflexivity.
Qed.

Lemma gterm_nolabel t s rest : gterm t s -> tfollow rest -> nolabel (s ++ rest).
Proof.
  intros H Hf. destruct H as [z|n Hn|s0| |n Hn|name f fs w1 body oc w2 Hn Hw1 Hw2 Hoc Hfs].
  - destruct (int_first z) as [c [s' [E Hc]]]. rewrite E. cbn [app]. apply nolabel_nonlower. cc.
  - unfold nolabel. rewrite (p_identifier_app n rest Hn (tfollow_idfollow _ Hf)).
    destruct rest as [|x r]; [exact I|]. destruct Hf as [Hf _]. cbn [first_in] in Hf. lia.
  - cbn [app]. apply nolabel_nonlower. reflexivity.
  - cbn [app]. apply nolabel_nonlower. reflexivity.
  - destruct n as [|c n']; [discriminate|]. cbn [app]. apply nolabel_nonlower.
    pose proof (wf_name_first _ _ Hn). cc.
  - destruct name as [[|c n']|]; cbn [wf_name_opt topen] in *.
    + discriminate.
    + cbn [app]. apply nolabel_nonlower. pose proof (wf_name_first _ _ Hn). cc.
    + cbn [app]. apply nolabel_nonlower. reflexivity.
Qed.

Lemma gchain_nolabel t ts s rest : gchain t ts s -> cfollow rest -> nolabel (s ++ rest).
Proof.
  intros H Hf. destruct H as [t s Ht|t t' ts s sep s' Ht Hsep Hc].
  - apply (gterm_nolabel t s rest Ht). apply cfollow_tfollow. exact Hf.
  - rewrite <- !app_assoc. apply (gterm_nolabel t s _ Ht).
    apply tfollow_csep; [exact Hsep|]. apply (proj2 (proj2 (proj2 g_starts)) _ _ _ Hc).
Qed.

Lemma starts_fuel s fuel : starts s -> (length s <= fuel)%nat -> exists f, fuel = S f.
Proof.
  destruct s as [|c s]; [intros []|]. cbn [length]. intros _ H.
  destruct fuel as [|f]; [lia|]. exists f. reflexivity.
Qed.

Lemma cfollow_comma r : cfollow (44 :: r).
Proof. cbn [cfollow]. lia. Qed.

(* ---- the mutual induction ---- *)
Lemma g_complete :
  (forall t s, gterm t s -> forall fuel rest, (length s <= fuel)%nat -> tfollow rest ->
               p_term fuel (s ++ rest) = Some (t, rest)) /\
  (forall f fs s, gfields f fs s -> forall fuel rest, (length s <= fuel)%nat -> fsfollow rest ->
               fields_ok (p_term fuel) f fs s rest) /\
  (forall f s, gfield f s -> forall fuel rest, (length s <= fuel)%nat -> cfollow rest ->
               p_field (p_term fuel) (s ++ rest) = Some (f, rest)) /\
  (forall t ts s, gchain t ts s -> forall fuel rest, (length s <= fuel)%nat -> cfollow rest ->
               chain_ok (p_term fuel) t ts s rest).
Proof.
  apply g_mutind.
  - (* int *) intros z fuel rest Hl Hf.
    destruct (starts_fuel _ _ (starts_int z) Hl) as [f E]. subst fuel. apply pt_int. exact Hf.
  - (* ident *) intros n Hn fuel rest Hl Hf.
    destruct (starts_fuel _ _ (starts_ident n Hn) Hl) as [f E]. subst fuel. apply pt_ident; assumption.
  - (* str *) intros s fuel rest Hl Hf.
    destruct fuel as [|f]; [cbn [length] in Hl; lia|]. apply pt_str. exact Hf.
  - (* unit *) intros fuel rest Hl Hf.
    destruct fuel as [|f]; [cbn [length] in Hl; lia|]. cbn [app].
    rewrite p_term_bracket. unfold p_bracket_body.
    rewrite (skip_ws_stop (93 :: rest)) by exact eq_refl.
    unfold p_fields. rewrite (p_field_rb _ (p_term_rbracket f)).
    unfold p_comma. rewrite (skip_ws_stop (93 :: rest)) by exact eq_refl. reflexivity.
  - (* name *) intros n Hn fuel rest Hl Hf.
    destruct (starts_fuel _ _ (starts_name n Hn) Hl) as [f E]. subst fuel. apply pt_name; assumption.
  - (* tuple *) intros name f fs w1 body oc w2 Hn Hw1 Hw2 Hoc Hfs IH fuel rest Hl Hf.
    rewrite !app_length in Hl. cbn [length] in Hl.
    destruct fuel as [|fu]; [lia|].
    assert (Hbody : p_bracket_body (p_term fu) (w1 ++ body ++ oc ++ w2 ++ 93 :: rest) = Some (f :: fs, rest)).
    { apply (bracket_body_complete (p_term fu)); try assumption.
      - apply (proj1 (proj2 g_starts) _ _ _ Hfs).
      - apply IH; [lia|]. exists oc, w2, rest. repeat split; assumption. }
    rewrite <- !app_assoc. cbn [app].
    destruct name as [n|]; cbn [topen wf_name_opt] in *.
    + destruct n as [|c n']; [discriminate|]. rewrite <- app_assoc. cbn [app].
      rewrite (p_term_upper fu c _ (wf_name_first _ _ Hn)).
      change (c :: n' ++ 91 :: w1 ++ body ++ oc ++ w2 ++ 93 :: rest)
        with ((c :: n') ++ 91 :: w1 ++ body ++ oc ++ w2 ++ 93 :: rest).
      rewrite (p_tuple_name_app _ _ Hn) by exact eq_refl.
      rewrite Z.eqb_refl, Hbody. reflexivity.
    + cbn [app]. rewrite p_term_bracket, Hbody. reflexivity.
  - (* one field *) intros f s Hf IH fuel rest Hl Hfol.
    apply (fields_ok_one _ (p_term_rbracket fuel)); [|exact Hfol]. apply IH; [exact Hl|apply fsfollow_cfollow; exact Hfol].
  - (* more fields *) intros f f' fs s sep s' Hf IH1 Hsep Hfs IH2 fuel rest Hl Hfol.
    rewrite !app_length in Hl. cbn [length] in Hl. rewrite !app_length in Hl.
    apply fields_ok_cons; [|exact Hsep|apply (proj1 (proj2 g_starts) _ _ _ Hfs)|apply IH2; [lia|exact Hfol]].
    apply IH1; [lia|apply cfollow_comma].
  - (* plain field *) intros t ts s Hc IH fuel rest Hl Hfol.
    apply p_field_plain; [apply (gchain_nolabel _ _ _ _ Hc Hfol)|].
    apply p_chain_complete. apply IH; assumption.
  - (* labelled field *) intros n t ts s Hn Hc IH fuel rest Hl Hfol.
    rewrite !app_length in Hl. cbn [length] in Hl.
    apply p_field_label; [exact Hn|apply (proj2 (proj2 (proj2 g_starts)) _ _ _ Hc)|].
    apply p_chain_complete. apply IH; [lia|exact Hfol].
  - (* one term *) intros t s Ht IH fuel rest Hl Hfol.
    apply chain_ok_one; [|exact Hfol]. apply IH; [exact Hl|apply cfollow_tfollow; exact Hfol].
  - (* more terms *) intros t t' ts s sep s' Ht IH1 Hsep Hc IH2 fuel rest Hl Hfol.
    rewrite !app_length in Hl.
    pose proof (proj2 (proj2 (proj2 g_starts)) _ _ _ Hc) as Hs'.
    apply chain_ok_cons; [|exact Hsep|exact Hs'|apply IH2; [lia|exact Hfol]].
    apply IH1; [lia|]. apply tfollow_csep; assumption.
Qed.

(* S3: parser completeness for a whole program text *)
Theorem parse_grammar t ts s : gchain t ts s -> parse_frag (s ++ [10]) = Some (t :: ts).
Proof.
  intros H. pose proof (proj2 (proj2 (proj2 g_starts)) _ _ _ H) as Hs.
  unfold parse_frag. rewrite (skip_ws_stop (s ++ [10])) by (apply starts_stops; exact Hs).
  assert (Hcf : cfollow [10]).
  { cbn [cfollow]. right. right. split; [reflexivity|]. exists 0%nat, []. split; [reflexivity|exact I]. }
  assert (Hl : (length s <= length (s ++ [10%Z]))%nat) by (rewrite app_length; lia).
  pose proof (proj2 (proj2 (proj2 g_complete)) _ _ _ H _ _ Hl Hcf) as Hok.
  rewrite (p_chain_complete _ _ _ _ _ Hok). reflexivity.
Qed.

(* ========================================================================================== *)
(* S2b. every rendered shape of a fragment doc is in the grammar                               *)
(* ========================================================================================== *)

Section DocInd.
  Variable P : doc -> Prop.
  Hypothesis Hnil : P DNil.
  Hypothesis Htext : forall s, P (DText s).
  Hypothesis Hline : P DLine.
  Hypothesis Hsoft : P DSoftLine.
  Hypothesis Hhard : P DHardLine.
  Hypothesis Hconcat : forall ds, Forall P ds -> P (DConcat ds).
  Hypothesis Hnest : forall n d, P d -> P (DNest n d).
  Hypothesis Hgroup : forall d b, P d -> P (DGroup d b).
  Hypothesis Hif : forall b f, P b -> P f -> P (DIfBreak b f).
  Hypothesis Hsfx : forall d, P d -> P (DLineSuffix d).
  Hypothesis Hbp : P DBreakParent.
  Fixpoint doc_ind2 (d : doc) : P d :=
    match d with
    | DNil => Hnil
    | DText s => Htext s
    | DLine => Hline
    | DSoftLine => Hsoft
    | DHardLine => Hhard
    | DConcat ds =>
        Hconcat ds ((fix go (l : list doc) : Forall P l :=
                       match l with
                       | [] => Forall_nil P
                       | x :: r => Forall_cons x (doc_ind2 x) (go r)
                       end) ds)
    | DNest n d' => Hnest n d' (doc_ind2 d')
    | DGroup d' b => Hgroup d' b (doc_ind2 d')
    | DIfBreak b f => Hif b f (doc_ind2 b) (doc_ind2 f)
    | DLineSuffix d' => Hsfx d' (doc_ind2 d')
    | DBreakParent => Hbp
    end.
End DocInd.

Definition field_terms (f : ffield) : list fterm := match f with FField _ v => v end.

Section TermInd.
  Variable P : fterm -> Prop.
  Hypothesis Hint : forall z, P (FInt z).
  Hypothesis Hident : forall n, P (FIdent n).
  Hypothesis Hstr : forall s, P (FStr s).
  Hypothesis Htuple : forall name fields,
    Forall (fun f => Forall P (field_terms f)) fields -> P (FTuple name fields).
  Fixpoint fterm_ind2 (t : fterm) : P t :=
    match t with
    | FInt z => Hint z
    | FIdent n => Hident n
    | FStr s => Hstr s
    | FTuple name fields =>
        Htuple name fields
          ((fix go (fs : list ffield) : Forall (fun f => Forall P (field_terms f)) fs :=
              match fs with
              | [] => Forall_nil _
              | f :: r =>
                  Forall_cons f
                    (match f return Forall P (field_terms f) with
                     | FField _ v =>
                         (fix go2 (l : list fterm) : Forall P l :=
                            match l with
                            | [] => Forall_nil P
                            | x :: r' => Forall_cons x (fterm_ind2 x) (go2 r')
                            end) v
                     end) (go r)
              end) fields)
    end.
End TermInd.

(* the flat text of a suffix-free doc is one of its rendered shapes *)
Lemma rsh_flatten_raw : forall d, suffix_free d = true -> rsh Flat d (flatten_raw d).
Proof.
  induction d using doc_ind2; cbn [suffix_free flatten_raw rsh]; intros Hsf; try reflexivity.
  - exists 0%nat. reflexivity.
  - induction H as [|x r Hx Hr IH]; [reflexivity|].
    cbn [forallb] in Hsf. apply andb_true_iff in Hsf. destruct Hsf as [H1 H2].
    cbn [rsh_list]. eexists _, _. split; [reflexivity|]. split; [apply Hx; exact H1|apply IH; exact H2].
  - apply IHd. exact Hsf.
  - exists Flat. apply IHd. exact Hsf.
  - apply andb_true_iff in Hsf. apply IHd2. apply Hsf.
  - discriminate.
Qed.

Lemma rsh_list_app f l1 l2 s :
  rsh_list f (l1 ++ l2) s -> exists a b, s = a ++ b /\ rsh_list f l1 a /\ rsh_list f l2 b.
Proof.
  revert s. induction l1 as [|d l1 IH]; intros s H.
  - exists [], s. repeat split. exact H.
  - cbn [app rsh_list] in H. destruct H as (a & b & E & Hd & Hr).
    destruct (IH _ Hr) as (a' & b' & E' & H1 & H2). subst s b.
    exists (a ++ a'), b'. split; [apply app_assoc|]. split; [|exact H2].
    cbn [rsh_list]. exists a, a'. repeat split; assumption.
Qed.

(* ---- unfolding term_doc ---- *)
Definition field_doc (f : ffield) : doc :=
  match f with
  | FField label value =>
      DConcat [DNil;
               match label with
               | Some n => DConcat [DText (n ++ [58; 32]); chain_doc value]
               | None => chain_doc value
               end;
               DNil]
  end.

Lemma items_eq value :
  (fix items (ts : list fterm) : list (fterm * doc) :=
     match ts with [] => [] | x :: r' => (x, term_doc x) :: items r' end) value = chain_items value.
Proof.
  unfold chain_items. induction value as [|x v IHv]; [reflexivity|]. cbn [map]. rewrite <- IHv. reflexivity.
Qed.

Lemma term_doc_tuple name f fs :
  term_doc (FTuple name (f :: fs)) = bracketed (topen name) [93] (map field_doc (f :: fs)).
Proof.
  cbn [term_doc]. unfold topen. destruct f as [label value]. cbn [map field_doc]. f_equal. f_equal.
  induction fs as [|[l v] r IH]; [reflexivity|]. cbn [map field_doc]. rewrite <- IH. reflexivity.
Qed.

(* ---- well-formedness, unfolded ---- *)
Definition wf_field (f : ffield) : Prop :=
  match f with
  | FField label value =>
      match label with Some n => wf_ident n = true | None => True end /\
      value <> [] /\ Forall (fun t => wf_term t = true) value
  end.

Lemma wf_tuple_inv name fields :
  wf_term (FTuple name fields) = true -> wf_name_opt name /\ Forall wf_field fields.
Proof.
  cbn [wf_term]. intros H. apply andb_true_iff in H. destruct H as [Hn Hf]. split.
  - destruct name; [exact Hn|exact I].
  - clear Hn. induction fields as [|[label value] r IH]; [constructor|].
    apply andb_true_iff in Hf. destruct Hf as [Hf Hr].
    apply andb_true_iff in Hf. destruct Hf as [Hf Hv].
    apply andb_true_iff in Hf. destruct Hf as [Hl Hne].
    constructor; [|apply IH; exact Hr].
    cbn [wf_field]. split; [destruct label; [exact Hl|exact I]|].
    split; [destruct value; [discriminate|discriminate]|].
    clear Hne. induction value as [|x v IHv]; [constructor|].
    apply andb_true_iff in Hv. destruct Hv as [Hx Hv]. constructor; [exact Hx|apply IHv; exact Hv].
Qed.

(* ---- chains ---- *)
Definition Q (t : fterm) : Prop :=
  suffix_free (term_doc t) = true /\ forall m s, rsh m (term_doc t) s -> gterm t s.

(* the text `flatten` puts into the head of a chain is the one-line layout of the term *)
Lemma Q_flat t : Q t -> gterm t (flatten (term_doc t)).
Proof.
  intros [Hsf Hg]. pose proof (Hg Flat _ (rsh_flatten_raw _ Hsf)) as H.
  unfold flatten. rewrite (gterm_strip _ _ H). exact H.
Qed.

Lemma biwt_sf d n : suffix_free (break_if_wider_than d n) = suffix_free d.
Proof.
  unfold break_if_wider_than. destruct (flat_width d n); [reflexivity|].
  cbn [suffix_free forallb]. rewrite !andb_true_r. reflexivity.
Qed.

Lemma biwt_rsh m d n s : rsh m (break_if_wider_than d n) s -> rsh m d s.
Proof.
  unfold break_if_wider_than. destruct (flat_width d n); [auto|].
  cbn [rsh rsh_list]. intros (a & b & E & Ha & (a' & b' & E' & Ha' & Hb')). subst.
  rewrite !app_nil_r. exact Ha.
Qed.

Lemma parts_sf c : Forall Q c ->
  forall prev, forallb suffix_free (chain_terms_parts prev (chain_items c)) = true.
Proof.
  induction 1 as [|t r [Hsf _] _ IH]; intros prev; [reflexivity|].
  unfold chain_items. cbn [map chain_terms_parts]. fold (chain_items r).
  rewrite forallb_app. cbn [forallb]. rewrite Hsf, IH.
  destruct prev as [p|]; [destruct (is_call_ender p)|]; reflexivity.
Qed.

Lemma parts_rsh c : Forall Q c -> forall m prev s,
  rsh_list (rsh m) (chain_terms_parts prev (chain_items c)) s ->
  match c with
  | [] => s = []
  | t :: ts => exists sep s', s = sep ++ s' /\
                              match prev with None => sep = [] | Some _ => gcsep sep end /\
                              gchain t ts s'
  end.
Proof.
  induction 1 as [|t r [_ Hg] Hr IH]; intros m prev s H; [exact H|].
  unfold chain_items in H. cbn [map chain_terms_parts] in H. fold (chain_items r) in H.
  destruct (rsh_list_app _ _ _ _ H) as (a & b & E & Ha & Hb).
  cbn [rsh_list] in Hb. destruct Hb as (x & y & Eb & Hx & Hy).
  apply Hg in Hx. specialize (IH m (Some t) y Hy).
  assert (Hsep : match prev with None => a = [] | Some _ => gcsep a end).
  { destruct prev as [p|]; [|exact Ha].
    destruct (is_call_ender p).
    - cbn [rsh_list] in Ha. destruct Ha as (a1 & b1 & E1 & H1 & (a2 & b2 & E2 & H2 & E3)).
      destruct m; cbn [rsh] in H1, H2.
      + subst. left. reflexivity.
      + destruct H1 as [i Hi]. subst. right. exists i. rewrite app_nil_r. reflexivity.
    - cbn [rsh_list rsh] in Ha. destruct Ha as (a1 & b1 & E1 & H1 & E2). subst. left. reflexivity. }
  exists a. destruct r as [|t' ts].
  - subst y. exists x. rewrite app_nil_r in Eb. subst. repeat split; [exact Hsep|constructor; exact Hx].
  - destruct IH as (sep & s' & Ey & Hsep' & Hc). subst. exists (x ++ sep ++ s').
    repeat split; [exact Hsep|]. constructor; assumption.
Qed.

Definition chain_default (c : fchain) : doc :=
  DConcat [DNil; group (break_if_wider_than (chain_terms_doc (chain_items c)) CHAIN_SOFT_WIDTH)].

Lemma default_ok c : Forall Q c ->
  suffix_free (chain_default c) = true /\
  forall m s, rsh m (chain_default c) s -> match c with [] => s = [] | t :: ts => gchain t ts s end.
Proof.
  intros HQ. split.
  - unfold chain_default, group. cbn [suffix_free forallb]. rewrite biwt_sf.
    unfold chain_terms_doc. cbn [suffix_free]. rewrite (parts_sf c HQ None). reflexivity.
  - intros m s H. unfold chain_default, group in H. cbn [rsh rsh_list] in H.
    destruct H as (a & b & E & Ha & (a' & b' & E' & (m' & Hm) & Eb')). subst.
    apply biwt_rsh in Hm. unfold chain_terms_doc in Hm. cbn [rsh] in Hm.
    pose proof (parts_rsh c HQ m' None a' Hm) as Hp. rewrite app_nil_r. cbn [app].
    destruct c as [|t ts]; [exact Hp|]. destruct Hp as (sep & s' & E & Hsep & Hc). subst. exact Hc.
Qed.

Definition chain_headflat (hc : list fterm) (tl : fterm) : doc :=
  DConcat [DNil;
           DText (flat_map (fun td : fterm * doc => flatten (snd td) ++ [32]) (chain_items hc));
           term_doc tl].

Lemma headflat_text hc tl a : Forall Q hc -> gterm tl a ->
  gchainL (hc ++ [tl])
          (flat_map (fun td : fterm * doc => flatten (snd td) ++ [32]) (chain_items hc) ++ a).
Proof.
  induction 1 as [|t r Ht _ IH]; intros Ha.
  - cbn [app chain_items map flat_map gchainL]. constructor. exact Ha.
  - specialize (IH Ha). unfold chain_items. cbn [map flat_map snd app]. fold (chain_items r).
    unfold gchainL in *. destruct (r ++ [tl]) as [|t' ts] eqn:E; [destruct r; discriminate|].
    rewrite <- !app_assoc. apply GC_cons; [apply Q_flat; exact Ht|left; reflexivity|exact IH].
Qed.

Lemma split_last_none {A} (l : list A) : split_last l = None -> l = [].
Proof.
  destruct l as [|x r]; [reflexivity|]. cbn [split_last].
  destruct (split_last r) as [[h t]|]; discriminate.
Qed.

Lemma split_last_items c head tl d :
  split_last (chain_items c) = Some (head, (tl, d)) ->
  exists hc, c = hc ++ [tl] /\ head = chain_items hc /\ d = term_doc tl.
Proof.
  revert head. induction c as [|x r IH]; intros head H; [discriminate|].
  unfold chain_items in H. cbn [map split_last] in H. fold (chain_items r) in H.
  destruct (split_last (chain_items r)) as [[h t]|] eqn:E.
  - inversion H; subst. destruct (IH h eq_refl) as (hc & E1 & E2 & E3).
    exists (x :: hc). subst. repeat split.
  - inversion H; subst. apply split_last_none in E. unfold chain_items in E.
    apply map_eq_nil in E. subst r. exists []. repeat split.
Qed.

Lemma chain_doc_ok c : Forall Q c -> c <> [] ->
  suffix_free (chain_doc c) = true /\ forall m s, rsh m (chain_doc c) s -> gchainL c s.
Proof.
  intros HQ Hne.
  assert (Hdef : suffix_free (chain_default c) = true /\
                 forall m s, rsh m (chain_default c) s -> gchainL c s).
  { destruct (default_ok c HQ) as [H1 H2]. split; [exact H1|]. intros m s H.
    specialize (H2 m s H). destruct c; [congruence|exact H2]. }
  unfold chain_doc, chain_doc_of. cbv zeta. fold (chain_default c).
  destruct (split_last (chain_items c)) as [[head [tl tl_doc]]|] eqn:E; [|exact Hdef].
  match goal with |- context [if ?b then _ else _] => destruct b end; [|exact Hdef].
  destruct (split_last_items _ _ _ _ E) as (hc & Ec & Eh & Ed). subst.
  apply Forall_app in HQ. destruct HQ as [HQh HQt]. inversion HQt as [|? ? [Hsf Hg] _]; subst.
  fold (chain_headflat hc tl). split.
  - unfold chain_headflat. cbn [suffix_free forallb]. rewrite Hsf. reflexivity.
  - intros m s H. unfold chain_headflat in H. cbn [rsh rsh_list] in H.
    destruct H as (a & b & E1 & Ha & (a2 & b2 & E2 & Ha2 & (a3 & b3 & E3 & Ha3 & E4))). subst.
    cbn [app]. rewrite app_nil_r. apply headflat_text; [exact HQh|apply Hg in Ha3; exact Ha3].
Qed.

(* ---- fields and tuples ---- *)
Definition Qf (f : ffield) : Prop :=
  suffix_free (field_doc f) = true /\ forall m s, rsh m (field_doc f) s -> gfield f s.

Lemma field_ok f : wf_field f -> Forall Q (field_terms f) -> Qf f.
Proof.
  destruct f as [label value]. cbn [wf_field field_terms]. intros (Hl & Hne & _) HQ.
  destruct (chain_doc_ok value HQ Hne) as [Hsf Hg]. split.
  - cbn [field_doc suffix_free forallb]. destruct label; cbn [suffix_free forallb]; rewrite Hsf; reflexivity.
  - intros m s H. cbn [field_doc] in H. destruct value as [|t ts]; [congruence|].
    destruct label as [n|]; cbn [rsh rsh_list] in H.
    + destruct H as (a & b & E1 & Ha & (a2 & b2 & E2 &
                      (a3 & b3 & E3 & Ha3 & (a4 & b4 & E4 & Ha4 & E5)) & (a5 & b5 & E6 & Ha5 & E7))).
      subst. apply Hg in Ha4. cbn [gchainL] in Ha4. cbn [app]. rewrite !app_nil_r.
      rewrite <- app_assoc. cbn [app]. apply GFd_label; assumption.
    + destruct H as (a & b & E1 & Ha & (a2 & b2 & E2 & Ha2 & (a5 & b5 & E6 & Ha5 & E7))).
      subst. apply Hg in Ha2. cbn [app]. rewrite !app_nil_r. apply GFd_plain. exact Ha2.
Qed.

Lemma join_docs_cons2 sep d d' ds : join_docs sep (d :: d' :: ds) = d :: sep :: join_docs sep (d' :: ds).
Proof. reflexivity. Qed.

Lemma join_rsh m : forall fs f body, Forall Qf (f :: fs) ->
  rsh_list (rsh m) (join_docs (DConcat [DText [44]; DLine]) (map field_doc (f :: fs))) body ->
  gfields f fs body.
Proof.
  induction fs as [|f' fs IH]; intros f body HQ H; inversion HQ as [|? ? [_ Hg] HQ']; subst.
  - cbn [map join_docs rsh_list] in H. destruct H as (a & b & E & Ha & Eb). subst.
    rewrite app_nil_r. apply GF_one. apply Hg in Ha. exact Ha.
  - cbn [map] in H. rewrite join_docs_cons2 in H. cbn [rsh_list] in H.
    destruct H as (a & b & E & Ha & (a2 & b2 & E2 & Hsep & Hrest)).
    cbn [rsh rsh_list] in Hsep. destruct Hsep as (x & y & E3 & Hx & (x2 & y2 & E4 & Hy & E5)).
    subst. apply Hg in Ha. specialize (IH f' b2 HQ' Hrest).
    rewrite app_nil_r. rewrite <- app_assoc. cbn [app].
    apply GF_cons; [exact Ha| |exact IH].
    destruct m; [left; exact Hy|right; exact Hy].
Qed.

Lemma bracketed_rsh m o c items s : rsh m (bracketed o c items) s ->
  exists m' w1 body oc w2,
    s = o ++ w1 ++ body ++ oc ++ w2 ++ c /\ gws w1 /\ gws w2 /\ (oc = [] \/ oc = [44]) /\
    rsh_list (rsh m') (join_docs (DConcat [DText [44]; DLine]) items) body.
Proof.
  unfold bracketed, group. cbn [rsh rsh_list].
  intros (m' & a1 & b1 & E1 & H1 & (a2 & b2 & E2 & H2 & (a3 & b3 & E3 & H3 & (a4 & b4 & E4 & H4 & E5)))).
  destruct H2 as (x1 & y1 & F1 & G1 & (x2 & y2 & F2 & G2 & (x3 & y3 & F3 & G3 & F4))).
  subst. exists m', x1, x2, x3, a3. rewrite !app_nil_r. rewrite <- !app_assoc.
  split; [reflexivity|].
  destruct m'.
  - repeat split; try (left; assumption). exact G2.
  - repeat split; try (right; assumption). exact G2.
Qed.

Lemma join_sf sep items : suffix_free sep = true -> forallb suffix_free items = true ->
  forallb suffix_free (join_docs sep items) = true.
Proof.
  intros Hs. induction items as [|d r IH]; [reflexivity|]. cbn [forallb]. intros H.
  apply andb_true_iff in H. destruct H as [Hd Hr]. destruct r as [|d' r'].
  - cbn [join_docs forallb]. rewrite Hd. reflexivity.
  - rewrite join_docs_cons2. cbn [forallb]. rewrite Hd, Hs. apply IH. exact Hr.
Qed.

Lemma bracketed_sf o c items : forallb suffix_free items = true -> suffix_free (bracketed o c items) = true.
Proof.
  intros H. unfold bracketed, group. cbn [suffix_free forallb].
  rewrite (join_sf (DConcat [DText [44]; DLine]) items eq_refl H). reflexivity.
Qed.

Lemma term_doc_ok : forall t, wf_term t = true -> Q t.
Proof.
  induction t as [z|n|s0|name fields IH] using fterm_ind2; intros Hwf.
  - split; [reflexivity|]. intros m s H. cbn [term_doc rsh] in H. subst. constructor.
  - split; [reflexivity|]. intros m s H. cbn [term_doc rsh] in H. subst. constructor. exact Hwf.
  - split; [reflexivity|]. intros m s H. cbn [term_doc rsh] in H. subst. constructor.
  - destruct (wf_tuple_inv _ _ Hwf) as [Hn Hfs]. destruct fields as [|f fs].
    + destruct name as [n|]; (split; [reflexivity|]); intros m s H; cbn [term_doc rsh] in H; subst;
        constructor. exact Hn.
    + assert (HQf : Forall Qf (f :: fs)).
      { revert IH Hfs. generalize (f :: fs). intros l IH Hfs.
        induction IH as [|f0 r Hf0 _ IHr]; [constructor|].
        inversion Hfs as [|? ? Hw Hws]; subst. constructor; [|apply IHr; exact Hws].
        apply field_ok; [exact Hw|]. destruct f0 as [label value]. cbn [wf_field field_terms] in *.
        destruct Hw as (_ & _ & Hall). rewrite Forall_forall in *. intros t Hin.
        apply Hf0; [exact Hin|apply Hall; exact Hin]. }
      unfold Q. rewrite term_doc_tuple. split.
      * apply bracketed_sf. clear -HQf. induction HQf as [|f0 r [Hsf _] _ IHr]; [reflexivity|].
        cbn [map forallb]. rewrite Hsf. exact IHr.
      * intros m s H. destruct (bracketed_rsh _ _ _ _ _ H) as (m' & w1 & body & oc & w2 & E & Hw1 & Hw2 & Hoc & Hb).
        subst s. apply G_tuple; try assumption. apply (join_rsh m'); assumption.
Qed.

(* ---- the program ---- *)
Lemma wf_chain_inv c : wf_chain c = true -> c <> [] /\ Forall Q c.
Proof.
  unfold wf_chain. intros H. apply andb_true_iff in H. destruct H as [Hne Hall]. split.
  - destruct c; [discriminate|discriminate].
  - rewrite forallb_forall in Hall. apply Forall_forall. intros t Hin. apply term_doc_ok. apply Hall. exact Hin.
Qed.

(* S2: every rendered shape of the program doc is in the grammar *)
Lemma program_doc_ok c : wf_chain c = true ->
  suffix_free (program_doc c) = true /\ forall m s, rsh m (program_doc c) s -> gchainL c s.
Proof.
  intros Hwf. destruct (wf_chain_inv c Hwf) as [Hne HQ].
  destruct (chain_doc_ok c HQ Hne) as [Hsf Hg]. split.
  - unfold program_doc, group. cbn [suffix_free forallb]. rewrite Hsf. reflexivity.
  - intros m s H. unfold program_doc, group in H. cbn [rsh rsh_list] in H.
    destruct H as (a & b & E1 & (m' & a1 & b1 & F1 & (x1 & y1 & G1 & Hx1 & (x2 & y2 & G2 & Hx2 & (x3 & y3 & G3 & Hx3 & G4)))
                                 & (a2 & b2 & F2 & Ha2 & F3)) & E2).
    subst. cbn [app]. rewrite !app_nil_r. apply Hg in Hx2. exact Hx2.
Qed.

Lemma layout_grammar c w ts : wf_chain c = true -> layout (program_doc c) w = Some ts -> gchainL c (render ts).
Proof.
  intros Hwf Hl. destruct (program_doc_ok c Hwf) as [Hsf Hg].
  apply (Hg Break). apply shape_rsh. apply (layout_shape _ w); assumption.
Qed.

(* ========================================================================================== *)
(* S4. the round trip                                                                          *)
(* ========================================================================================== *)

Theorem frag_roundtrip : forall (c : fchain) (w : nat), wf_chain c = true ->
  exists out, format_frag c w = Some out /\ parse_frag out = Some c.
Proof.
  intros c w Hwf. destruct (layout_total (program_doc c) w) as [ts Hts].
  pose proof (layout_grammar c w ts Hwf Hts) as Hg.
  unfold format_frag, print. rewrite Hts. cbn [option_map].
  eexists. split; [reflexivity|].
  destruct c as [|t ts']; [destruct Hg|]. cbn [gchainL] in Hg.
  rewrite (gchain_strip _ _ _ Hg). apply parse_grammar. exact Hg.
Qed.

Theorem frag_format_fixpoint : forall c w out, wf_chain c = true -> format_frag c w = Some out ->
  exists c', parse_frag out = Some c' /\ format_frag c' w = Some out.
Proof.
  intros c w out Hwf Hf. destruct (frag_roundtrip c w Hwf) as [out' [Hf' Hp]].
  rewrite Hf in Hf'. inversion Hf'; subst out'. exists c. split; assumption.
Qed.

(* ========================================================================================== *)
(* the parser only produces well-formed chains                                                 *)
(* ========================================================================================== *)

Lemma p_identifier_wf s n r : p_identifier s = Some (n, r) -> wf_ident n = true.
Proof.
  unfold p_identifier. destruct s as [|c r0]; [discriminate|].
  destruct (is_lower c) eqn:Hc; [|discriminate].
  destruct (take_while is_word r0) as [body r1] eqn:Etw.
  destruct (opt_char 63 r1) as [q r2] eqn:Eq.
  destruct (opt_char 33 r2) as [b r3] eqn:Eb.
  intros H. inversion H; subst.
  destruct (take_while_spec _ _ _ _ Etw) as [_ [Hbody _]].
  destruct (opt_char_spec _ _ _ _ Eq) as [_ Hq].
  destruct (opt_char_spec _ _ _ _ Eb) as [_ Hb].
  unfold wf_ident, p_identifier. rewrite Hc.
  assert (Hst : stops is_word (q ++ b))
    by (destruct Hq as [Hq|Hq]; destruct Hb as [Hb|Hb]; subst q b; exact eq_refl || exact I).
  rewrite (take_while_app is_word body (q ++ b) Hbody Hst).
  destruct Hq as [Hq|Hq]; destruct Hb as [Hb|Hb]; subst q b; reflexivity.
Qed.

Lemma p_tuple_name_wf s n r : p_tuple_name s = Some (n, r) -> wf_tuple_name n = true.
Proof.
  unfold p_tuple_name. destruct s as [|c r0]; [discriminate|].
  destruct (is_upper c) eqn:Hc; [|discriminate].
  destruct (take_while is_word r0) as [body r1] eqn:Etw.
  intros H. inversion H; subst.
  destruct (take_while_spec _ _ _ _ Etw) as [_ [Hbody _]].
  unfold wf_tuple_name, p_tuple_name. rewrite Hc.
  pose proof (take_while_app is_word body [] Hbody I) as E. rewrite app_nil_r in E. rewrite E. reflexivity.
Qed.

Lemma wf_tuple_intro name fields :
  wf_name_opt name -> Forall wf_field fields -> wf_term (FTuple name fields) = true.
Proof.
  intros Hn Hf. cbn [wf_term]. apply andb_true_iff. split.
  - destruct name; [exact Hn|reflexivity].
  - induction Hf as [|[label value] r (Hl & Hne & Hall) _ IH]; [reflexivity|].
    rewrite IH, andb_true_r. apply andb_true_iff. split.
    + apply andb_true_iff. split; [destruct label; [exact Hl|reflexivity]|].
      destruct value; [congruence|reflexivity].
    + clear Hne. induction Hall as [|x v Hx _ IHv]; [reflexivity|]. rewrite Hx, IHv. reflexivity.
Qed.

Section Sound.
  Variable pt : list Z -> option (fterm * list Z).
  Hypothesis pt_wf : forall s t r, pt s = Some (t, r) -> wf_term t = true.

  Lemma p_chain_rest_wf : forall n s ts r,
    p_chain_rest pt n s = (ts, r) -> Forall (fun t => wf_term t = true) ts.
  Proof.
    induction n as [|n IH]; intros s ts r H; cbn [p_chain_rest] in H.
    - inversion H; subst. constructor.
    - destruct (p_chain_sep s) as [r1|]; [|inversion H; subst; constructor].
      destruct (pt r1) as [[t r2]|] eqn:Ept; [|inversion H; subst; constructor].
      destruct (p_chain_rest pt n r2) as [ts' r3] eqn:Er. inversion H; subst.
      constructor; [apply (pt_wf _ _ _ Ept)|apply (IH _ _ _ Er)].
  Qed.

  Lemma p_chain_wf s ts r : p_chain pt s = Some (ts, r) ->
    ts <> [] /\ Forall (fun t => wf_term t = true) ts.
  Proof.
    unfold p_chain. destruct (pt s) as [[t r1]|] eqn:Ept; [|discriminate].
    destruct (p_chain_rest pt (length r1) r1) as [ts' r2] eqn:Er. intros H. inversion H; subst.
    split; [discriminate|]. constructor; [apply (pt_wf _ _ _ Ept)|apply (p_chain_rest_wf _ _ _ _ Er)].
  Qed.

  Lemma p_field_wf s f r : p_field pt s = Some (f, r) -> wf_field f.
  Proof.
    unfold p_field. intros H.
    assert (Hplain : match p_chain pt s with Some (ts, r0) => Some (FField None ts, r0) | None => None end
                     = Some (f, r) -> wf_field f).
    { destruct (p_chain pt s) as [[ts r0]|] eqn:Ec; [|discriminate]. intros H0. inversion H0; subst.
      destruct (p_chain_wf _ _ _ Ec) as [Hne Hall]. cbn [wf_field]. repeat split; assumption. }
    destruct (p_identifier s) as [[n [|c r0]]|] eqn:Ei; try (apply Hplain; exact H).
    destruct (c =? 58); [|apply Hplain; exact H].
    destruct (take_while is_msp r0) as [w r1]. destruct w as [|w0 w]; [apply Hplain; exact H|].
    destruct (p_chain pt r1) as [[ts r2]|] eqn:Ec; [|apply Hplain; exact H].
    inversion H; subst. destruct (p_chain_wf _ _ _ Ec) as [Hne Hall].
    cbn [wf_field]. repeat split; try assumption. apply (p_identifier_wf _ _ _ Ei).
  Qed.

  Lemma p_fields_rest_wf : forall n s fs r, p_fields_rest pt n s = (fs, r) -> Forall wf_field fs.
  Proof.
    induction n as [|n IH]; intros s fs r H; cbn [p_fields_rest] in H.
    - inversion H; subst. constructor.
    - destruct (p_comma s) as [r1|]; [|inversion H; subst; constructor].
      destruct (p_field pt r1) as [[f r2]|] eqn:Ef; [|inversion H; subst; constructor].
      destruct (p_fields_rest pt n r2) as [fs' r3] eqn:Er. inversion H; subst.
      constructor; [apply (p_field_wf _ _ _ Ef)|apply (IH _ _ _ Er)].
  Qed.

  Lemma p_fields_wf s fs r : p_fields pt s = (fs, r) -> Forall wf_field fs.
  Proof.
    unfold p_fields.
    assert (Hfs : forall fs0 r0,
      match p_field pt s with
      | Some (f, r1) => let (fs1, r') := p_fields_rest pt (length r1) r1 in (f :: fs1, r')
      | None => ([], s)
      end = (fs0, r0) -> Forall wf_field fs0).
    { intros fs0 r0. destruct (p_field pt s) as [[f r1]|] eqn:Ef.
      - destruct (p_fields_rest pt (length r1) r1) as [fs1 r'] eqn:Er. intros H. inversion H; subst.
        constructor; [apply (p_field_wf _ _ _ Ef)|apply (p_fields_rest_wf _ _ _ _ Er)].
      - intros H. inversion H; subst. constructor. }
    destruct (match p_field pt s with
              | Some (f, r1) => let (fs1, r') := p_fields_rest pt (length r1) r1 in (f :: fs1, r')
              | None => ([], s)
              end) as [fs0 r0] eqn:E.
    specialize (Hfs fs0 r0 eq_refl).
    destruct (p_comma r0); intros H; inversion H; subst; exact Hfs.
  Qed.

  Lemma p_bracket_body_wf s fs r : p_bracket_body pt s = Some (fs, r) -> Forall wf_field fs.
  Proof.
    unfold p_bracket_body. destruct (p_fields pt (skip_ws s)) as [fs0 r0] eqn:E.
    destruct (skip_ws r0) as [|c r']; [discriminate|]. destruct (c =? 93); [|discriminate].
    intros H. inversion H; subst. apply (p_fields_wf _ _ _ E).
  Qed.
End Sound.

Lemma p_term_wf : forall fuel s t r, p_term fuel s = Some (t, r) -> wf_term t = true.
Proof.
  induction fuel as [|f IH]; intros s t r H; [discriminate|].
  cbn [p_term] in H. destruct s as [|c r0]; [discriminate|].
  destruct (c =? 34).
  { repeat (match type of H with
            | context [if ?b then _ else _] => destruct b
            | context [match ?x with _ => _ end] => destruct x
            end; try discriminate); inversion H; reflexivity. }
  destruct (is_digit c || (c =? 45)).
  { destruct (p_integer (c :: r0)) as [[z rest]|]; [|discriminate]. inversion H; reflexivity. }
  destruct (is_upper c).
  { destruct (p_tuple_name (c :: r0)) as [[n [|x r']]|] eqn:En; [| |discriminate].
    - inversion H; subst. apply wf_tuple_intro; [apply (p_tuple_name_wf _ _ _ En)|constructor].
    - destruct (x =? 91).
      + destruct (p_bracket_body (p_term f) r') as [[fs rest]|] eqn:Eb; [|discriminate].
        inversion H; subst.
        apply wf_tuple_intro; [apply (p_tuple_name_wf _ _ _ En)|apply (p_bracket_body_wf _ IH _ _ _ Eb)].
      + assert (Hok : wf_term (FTuple (Some n) []) = true)
          by (apply wf_tuple_intro; [apply (p_tuple_name_wf _ _ _ En)|constructor]).
        destruct (skip_ws (x :: r')) as [|y yr]; [inversion H; subst; exact Hok|].
        destruct (y =? 40); [discriminate|]. inversion H; subst; exact Hok. }
  destruct (c =? 91).
  { destruct (p_bracket_body (p_term f) r0) as [[fs rest]|] eqn:Eb; [|discriminate].
    inversion H; subst. apply wf_tuple_intro; [exact I|apply (p_bracket_body_wf _ IH _ _ _ Eb)]. }
  destruct (is_lower c); [|discriminate].
  destruct (p_identifier (c :: r0)) as [[n [|x r']]|] eqn:En; [| |discriminate].
  - inversion H; subst. cbn [wf_term]. apply (p_identifier_wf _ _ _ En).
  - destruct ((x =? 91) || (x =? 46)); [discriminate|]. inversion H; subst.
    cbn [wf_term]. apply (p_identifier_wf _ _ _ En).
Qed.

Theorem parse_frag_wf : forall s c, parse_frag s = Some c -> wf_chain c = true.
Proof.
  intros s c. unfold parse_frag.
  destruct (p_chain (p_term (length (skip_ws s))) (skip_ws s)) as [[ts r]|] eqn:E; [|discriminate].
  destruct (skip_ws r); [|discriminate]. intros H. inversion H; subst.
  destruct (p_chain_wf _ (p_term_wf _) _ _ _ E) as [Hne Hall].
  unfold wf_chain. apply andb_true_iff. split; [destruct c; [congruence|reflexivity]|].
  apply forallb_forall. rewrite Forall_forall in Hall. exact Hall.
Qed.

Theorem frag_source_fixpoint : forall s c w out, parse_frag s = Some c -> format_frag c w = Some out ->
  exists c', parse_frag out = Some c' /\ format_frag c' w = Some out.
Proof.
  intros s c w out Hp Hf. apply (frag_format_fixpoint c w out); [apply (parse_frag_wf s); exact Hp|exact Hf].
Qed.

(* ========================================================================================== *)
(* non-vacuity                                                                                 *)
(* ========================================================================================== *)

(* qqq…q (60 characters)  P[x: -5, ''\''\{'' y? zzzzzzzz, [1, [2]]]   (the string is the two characters '' and { ) *)
Definition ex_long : list Z := repeat 113 60.
Definition ex_chain : fchain :=
  [FIdent ex_long;
   FTuple (Some [80])
     [FField (Some [120]) [FInt (-5)];
      FField None [FStr [34; 123]; FIdent [121; 63]; FIdent (repeat 122 8)];
      FField None [FTuple None [FField None [FInt 1];
                                FField None [FTuple None [FField None [FInt 2]]]]]]].

Example ex_chain_wf : wf_chain ex_chain = true.
Proof. vm_compute. reflexivity. Qed.

(* width 100: one line (99 characters and the final LF) *)
Definition ex_wide : list Z :=
  ex_long ++ [32; 80; 91; 120; 58; 32; 45; 53; 44; 32; 34; 92; 34; 92; 123; 34; 32; 121; 63; 32]
          ++ repeat 122 8 ++ [44; 32; 91; 49; 44; 32; 91; 50; 93; 93; 93; 10].
Example ex_chain_wide : format_frag ex_chain 100 = Some ex_wide.
Proof. vm_compute. reflexivity. Qed.
Example ex_chain_wide_one_line : length ex_wide = 100%nat /\ count_occ Z.eq_dec ex_wide 10 = 1%nat.
Proof. vm_compute. split; reflexivity. Qed.
Example ex_chain_wide_parse : parse_frag ex_wide = Some ex_chain.
Proof. vm_compute. reflexivity. Qed.

(* width 20: the tuple is broken (trailing comma before the closing bracket), and the field chain
   ''\''\{'' y? zzzzzzzz is broken after the call-ending y? with a `~> ` continuation:
     qqq…q P[
       x: -5,
       ''\''\{'' y?
       ~> zzzzzzzz,
       [1, [2]],
     ]                                                                                         *)
Definition ex_narrow : list Z :=
  ex_long ++ [32; 80; 91; 10; 32; 32; 120; 58; 32; 45; 53; 44; 10;
              32; 32; 34; 92; 34; 92; 123; 34; 32; 121; 63; 10;
              32; 32; 126; 62; 32] ++ repeat 122 8 ++ [44; 10;
              32; 32; 91; 49; 44; 32; 91; 50; 93; 93; 44; 10;
              93; 10].
Example ex_chain_narrow : format_frag ex_chain 20 = Some ex_narrow.
Proof. vm_compute. reflexivity. Qed.
Example ex_chain_narrow_lines : count_occ Z.eq_dec ex_narrow 10 = 6%nat.
Proof. vm_compute. reflexivity. Qed.
Example ex_chain_narrow_parse : parse_frag ex_narrow = Some ex_chain.
Proof. vm_compute. reflexivity. Qed.

(* the theorem instantiated (not by computation) *)
Example ex_chain_roundtrip : forall w, exists out, format_frag ex_chain w = Some out /\ parse_frag out = Some ex_chain.
Proof. intros w. apply frag_roundtrip. exact ex_chain_wf. Qed.

(* the grammar is not only the formatter's image: a source with other spacing is accepted and re-formatted to a
   fixpoint (frag_source_fixpoint): `P[ x:  1 ,y ]` *)
Example ex_source :
  parse_frag [80; 91; 32; 120; 58; 32; 32; 49; 32; 44; 121; 32; 93]
    = Some [FTuple (Some [80]) [FField (Some [120]) [FInt 1]; FField None [FIdent [121]]]] /\
  format_frag [FTuple (Some [80]) [FField (Some [120]) [FInt 1]; FField None [FIdent [121]]]] 100
    = Some [80; 91; 120; 58; 32; 49; 44; 32; 121; 93; 10].
Proof. vm_compute. split; reflexivity. Qed.

Print Assumptions frag_roundtrip.
Print Assumptions frag_format_fixpoint.
Print Assumptions parse_frag_wf.
Print Assumptions frag_source_fixpoint.
Print Assumptions layout_shape.
