(* FormatFragProofs.v — round-trip theorems for the data-literal fragment of FormatFrag.v:
   parse_frag (format_frag c w) = Some c for every width w (frag_roundtrip), and corollaries.
   Route: (S1) layout_shape: the token list produced by the layout machine is one of the `shape`s of the doc
   (an over-approximation that forgets `fits` and indentation); (S2) every rendered shape of a fragment doc is
   in a character-level grammar gterm/gchain/gfield/gfields; (S3) the parser is complete on that grammar;
   (S4) grammar texts are untouched by strip_trailing_whitespace. *)
From Quiver Require Import Base Escape Pretty PrettyProofs EscapeProofs FormatFrag.
From Coq Require Decimal DecimalZ DecimalPos.
From Coq Require Import ZifyBool.

(* ========================================================================================== *)
(* S1. layout_shape                                                                            *)
(* ========================================================================================== *)

Inductive shape : Pretty.mode -> doc -> list token -> Prop :=
| S_nil m : shape m DNil []
| S_text m s : shape m (DText s) [TText s]
| S_line_flat : shape Flat DLine [TSpace]
| S_line_break i : shape Break DLine [TNewline i]
| S_softline_flat : shape Flat DSoftLine []
| S_softline_break i : shape Break DSoftLine [TNewline i]
| S_hardline m i : shape m DHardLine [TNewline i]
| S_breakparent m : shape m DBreakParent []
| S_concat m ds l : shape_list m ds l -> shape m (DConcat ds) l
| S_nest m n d l : shape m d l -> shape m (DNest n d) l
| S_group_forced m d l : shape Break d l -> shape m (DGroup d true) l
| S_group_free m m' d l : shape m' d l -> shape m (DGroup d false) l
| S_ifbreak m br fl l :
    shape m (match m with Break => br | Flat => fl end) l -> shape m (DIfBreak br fl) l
with shape_list : Pretty.mode -> list doc -> list token -> Prop :=
| SL_nil m : shape_list m [] []
| SL_cons m d ds l1 l2 :
    shape m d l1 -> shape_list m ds l2 -> shape_list m (d :: ds) (l1 ++ l2).

Scheme shape_mind := Minimality for shape Sort Prop
  with shape_list_mind := Minimality for shape_list Sort Prop.
Combined Scheme shape_mutind from shape_mind, shape_list_mind.

Inductive shape_stack : list frame -> list token -> Prop :=
| SS_nil : shape_stack [] []
| SS_cons i m d rest l1 l2 :
    shape m d l1 -> shape_stack rest l2 -> shape_stack ((i, m, d) :: rest) (l1 ++ l2).

Lemma shape_stack_concat : forall ds i m rest l,
  shape_stack (map (fun c => (i, m, c)) ds ++ rest) l ->
  exists l1 l2, l = l1 ++ l2 /\ shape_list m ds l1 /\ shape_stack rest l2.
Proof.
  induction ds as [|d ds IH]; intros i m rest l Hcs.
  - exists [], l. split; [reflexivity|]. split; [constructor|exact Hcs].
  - cbn [map app] in Hcs.
    inversion Hcs as [|i' m' d' rest' la lb Hd Hrest]; subst.
    destruct (IH _ _ _ _ Hrest) as [l1 [l2 [El [Hl1 Hl2]]]]. subst lb.
    exists (la ++ l1), l2. split; [apply app_assoc|].
    split; [constructor; assumption|assumption].
Qed.

(* Generalised invariant over the machine state (suffix buffer empty, all frames suffix-free). *)
Lemma layout_fuel_shape : forall fuel width stack col out ts,
  stack_suffix_free stack ->
  layout_fuel fuel width stack [] col out = Some ts ->
  exists l, shape_stack stack l /\ ts = rev out ++ l.
Proof.
  induction fuel as [|f IH]; intros width stack col out ts Hsf Hrun; [discriminate|].
  cbn [layout_fuel] in Hrun.
  destruct stack as [|[[i m] d] rest].
  - inversion Hrun; subst. exists []. split; [constructor|]. rewrite app_nil_r. reflexivity.
  - inversion Hsf as [|fr0 st0 Hd Hrest]; subst. cbn [snd] in Hd.
    assert (Hskip : forall col',
      shape m d [] ->
      layout_fuel f width rest [] col' out = Some ts ->
      exists l, shape_stack ((i, m, d) :: rest) l /\ ts = rev out ++ l).
    { intros col' Hc Hr.
      destruct (IH _ _ _ _ _ Hrest Hr) as [l [Hcs Ht]].
      exists ([] ++ l). split; [constructor; assumption|exact Ht]. }
    assert (Hone : forall col' tok,
      shape m d [tok] ->
      layout_fuel f width rest [] col' (tok :: out) = Some ts ->
      exists l, shape_stack ((i, m, d) :: rest) l /\ ts = rev out ++ l).
    { intros col' tok Hc Hr.
      destruct (IH _ _ _ _ _ Hrest Hr) as [l [Hcs Ht]].
      exists ([tok] ++ l). split; [constructor; assumption|].
      rewrite Ht. cbn [rev]. rewrite <- app_assoc. reflexivity. }
    assert (Hpush : forall i' m' d',
      suffix_free d' = true ->
      (forall l1, shape m' d' l1 -> shape m d l1) ->
      layout_fuel f width ((i', m', d') :: rest) [] col out = Some ts ->
      exists l, shape_stack ((i, m, d) :: rest) l /\ ts = rev out ++ l).
    { intros i' m' d' Hd' Himp Hr.
      assert (Hsf' : stack_suffix_free ((i', m', d') :: rest))
        by (constructor; [exact Hd'|exact Hrest]).
      destruct (IH _ _ _ _ _ Hsf' Hr) as [l [Hcs Ht]].
      inversion Hcs as [|i0 m0 d0 rest0 l1 l2 Hc1 Hc2]; subst.
      exists (l1 ++ l2). split; [constructor; [apply Himp; exact Hc1|exact Hc2]|reflexivity]. }
    destruct d; cbn [suffix_free] in Hd.
    + (* DNil *) eapply Hskip; [constructor|exact Hrun].
    + (* DText *) eapply Hone; [constructor|exact Hrun].
    + (* DLine *)
      destruct m.
      * eapply Hone; [constructor|exact Hrun].
      * eapply Hone; [constructor|exact Hrun].
    + (* DSoftLine *)
      destruct m.
      * eapply Hskip; [constructor|exact Hrun].
      * eapply Hone; [constructor|exact Hrun].
    + (* DHardLine *) eapply Hone; [constructor|exact Hrun].
    + (* DConcat *)
      assert (Hsf' : stack_suffix_free (map (fun c => (i, m, c)) ds ++ rest))
        by (apply stack_suffix_free_concat; assumption).
      destruct (IH _ _ _ _ _ Hsf' Hrun) as [l [Hcs Ht]].
      destruct (shape_stack_concat _ _ _ _ _ Hcs) as [l1 [l2 [El [Hl1 Hl2]]]]. subst l.
      exists (l1 ++ l2). split; [constructor; [constructor; exact Hl1|exact Hl2]|exact Ht].
    + (* DNest *)
      eapply Hpush; [exact Hd| |exact Hrun]. intros l1 Hc. constructor. exact Hc.
    + (* DGroup *)
      destruct should_break.
      * eapply Hpush; [exact Hd| |exact Hrun]. intros l1 Hc. constructor. exact Hc.
      * destruct (fits (S f) (width - col)%nat i d rest) as [fb|]; [|discriminate].
        eapply Hpush; [exact Hd| |exact Hrun]. intros l1 Hc.
        eapply S_group_free. exact Hc.
    + (* DIfBreak *)
      apply andb_true_iff in Hd. destruct Hd as [Hb Hf].
      eapply Hpush; [| |exact Hrun].
      * destruct m; assumption.
      * intros l1 Hc. constructor. exact Hc.
    + (* DLineSuffix *) discriminate.
    + (* DBreakParent *) eapply Hskip; [constructor|exact Hrun].
Qed.

(* S1: every token list the layout machine produces for a suffix-free doc is a shape of the doc. *)
Theorem layout_shape : forall d width ts,
  suffix_free d = true -> layout d width = Some ts -> shape Break d ts.
Proof.
  intros d width ts Hsf Hrun. unfold layout in Hrun.
  assert (Hst : stack_suffix_free [(0%nat, Break, d)]) by (constructor; [exact Hsf|constructor]).
  destruct (layout_fuel_shape _ _ _ _ _ _ Hst Hrun) as [l [Hcs Ht]].
  inversion Hcs as [|i0 m0 d0 rest0 l1 l2 Hc1 Hc2]; subst.
  inversion Hc2; subst. cbn [rev app]. rewrite app_nil_r. exact Hc1.
Qed.

(* ------------------------------------------------------------------------------------------ *)
(* the rendered shapes, as a recursive predicate on characters (forgets should_break)          *)
Definition nl (i : nat) : list Z := 10 :: repeat 32 i.

Definition rsh_list (f : doc -> list Z -> Prop) :=
  fix go (ds : list doc) (s : list Z) : Prop :=
    match ds with
    | [] => s = []
    | d :: r => exists a b, s = a ++ b /\ f d a /\ go r b
    end.

Fixpoint rsh (m : Pretty.mode) (d : doc) (s : list Z) {struct d} : Prop :=
  match d with
  | DNil | DBreakParent => s = []
  | DText t => s = t
  | DLine => match m with Flat => s = [32] | Break => exists i, s = nl i end
  | DSoftLine => match m with Flat => s = [] | Break => exists i, s = nl i end
  | DHardLine => exists i, s = nl i
  | DConcat ds => rsh_list (rsh m) ds s
  | DNest _ d' => rsh m d' s
  | DGroup d' _ => exists m', rsh m' d' s
  | DIfBreak br fl => match m with Break => rsh m br s | Flat => rsh m fl s end
  | DLineSuffix _ => False
  end.

Lemma render_app a b : render (a ++ b) = render a ++ render b.
Proof.
  induction a as [|t a IH]; [reflexivity|].
  destruct t; cbn [render app]; rewrite IH.
  - rewrite app_assoc. reflexivity.
  - reflexivity.
  - rewrite <- app_assoc. reflexivity.
Qed.

Lemma shape_rsh_both :
  (forall m d ts, shape m d ts -> rsh m d (render ts)) /\
  (forall m ds ts, shape_list m ds ts -> rsh_list (rsh m) ds (render ts)).
Proof.
  apply shape_mutind; intros; cbn [rsh rsh_list render]; try reflexivity.
  - rewrite app_nil_r. reflexivity.
  - exists i. unfold nl. rewrite app_nil_r. reflexivity.
  - exists i. unfold nl. rewrite app_nil_r. reflexivity.
  - exists i. unfold nl. rewrite app_nil_r. reflexivity.
  - assumption.
  - assumption.
  - exists Break. assumption.
  - exists m'. assumption.
  - destruct m; assumption.
  - exists (render l1), (render l2). split; [apply render_app|]. split; assumption.
Qed.

Lemma shape_rsh m d ts : shape m d ts -> rsh m d (render ts).
Proof. apply shape_rsh_both. Qed.

(* ========================================================================================== *)
(* strip_trailing_whitespace is the identity on ''clean'' texts                                *)
(* ========================================================================================== *)

(* a character after which a line (or the text) may end *)
Definition solid (c : Z) : bool :=
  negb ((c =? 32) || (c =? 9) || (c =? 10) || (c =? 13)).

(* every LF and the end of the text are preceded by a solid character; `p`: the previous character is solid *)
Fixpoint clean_aux (p : bool) (s : list Z) : bool :=
  match s with
  | [] => p
  | c :: r => (if c =? 10 then p else true) && clean_aux (solid c) r
  end.

Lemma trim_end_solid l c : is_ws c = false -> trim_end (l ++ [c]) = l ++ [c].
Proof.
  intros Hc. induction l as [|a l IH].
  - cbn [app trim_end]. rewrite Hc. reflexivity.
  - cbn [app trim_end]. rewrite IH. destruct (l ++ [c]) eqn:E; [|reflexivity].
    destruct l; discriminate.
Qed.

Lemma solid_not_ws c : solid c = true -> is_ws c = false.
Proof. unfold solid, is_ws. lia. Qed.

Lemma split_lines_aux_nonnil s cur : (s <> [] \/ cur <> []) -> split_lines_aux cur s <> [].
Proof.
  revert cur. induction s as [|c r IH]; intros cur H.
  - cbn [split_lines_aux]. destruct cur; [destruct H; congruence|discriminate].
  - cbn [split_lines_aux]. destruct (c =? 10); [discriminate|].
    apply IH. right. discriminate.
Qed.

Lemma strip_aux : forall s cur p,
  clean_aux p s = true ->
  (p = true -> exists c cur', cur = c :: cur' /\ solid c = true) ->
  Pretty.join_lf (map trim_end (split_lines_aux cur s)) = List.rev cur ++ s.
Proof.
  induction s as [|c r IH]; intros cur p Hcl Hp.
  - cbn [clean_aux] in Hcl. destruct (Hp Hcl) as [c [cur' [E Hs]]]. subst cur.
    cbn [split_lines_aux map Pretty.join_lf List.rev].
    rewrite trim_end_solid by (apply solid_not_ws; exact Hs).
    rewrite app_nil_r. reflexivity.
  - cbn [clean_aux] in Hcl. apply andb_true_iff in Hcl. destruct Hcl as [H1 H2].
    cbn [split_lines_aux]. destruct (c =? 10) eqn:E10.
    + apply Z.eqb_eq in E10. subst c.
      destruct (Hp H1) as [x [cur' [E Hs]]]. subst cur.
      assert (Hx : (x =? 13) = false) by (unfold solid in Hs; lia).
      cbn [drop_cr]. rewrite Hx. cbn [map].
      assert (Hr : r <> []) by (destruct r; [cbn in H2; discriminate|discriminate]).
      pose proof (split_lines_aux_nonnil r [] (or_introl Hr)) as Hne.
      specialize (IH [] (solid 10) H2).
      assert (Hs10 : solid 10 = true -> exists c cur', @nil Z = c :: cur' /\ solid c = true)
        by (intros Hf; vm_compute in Hf; discriminate).
      specialize (IH Hs10). cbn [List.rev app] in IH.
      destruct (split_lines_aux [] r) as [|l0 ls] eqn:Esp; [congruence|].
      cbn [map] in IH |- *. cbn [Pretty.join_lf].
      cbn [Pretty.join_lf] in IH. rewrite IH.
      cbn [List.rev]. rewrite trim_end_solid by (apply solid_not_ws; exact Hs).
      reflexivity.
    + rewrite (IH (c :: cur) (solid c) H2).
      * cbn [List.rev]. rewrite <- app_assoc. reflexivity.
      * intros Hs. exists c, cur. split; [reflexivity|exact Hs].
Qed.

Lemma strip_clean s : clean_aux false s = true -> strip_trailing_whitespace s = s.
Proof.
  intros H. unfold strip_trailing_whitespace, split_lines.
  rewrite (strip_aux s [] false H); [reflexivity|discriminate].
Qed.

(* a compositional presentation of cleanliness: cl p s q = from state p, s is fine and leaves state q *)
Inductive cl : bool -> list Z -> bool -> Prop :=
| cl_nil p : cl p [] p
| cl_app p q r a b : cl p a q -> cl q b r -> cl p (a ++ b) r
| cl_char p c : c <> 10 -> cl p [c] (solid c)
| cl_lf : cl true [10] false.

Lemma cl_clean_aux p a q : cl p a q -> forall b, clean_aux q b = true -> clean_aux p (a ++ b) = true.
Proof.
  induction 1 as [p|p q r a b _ IH1 _ IH2|p c Hc|]; intros b0 Hb.
  - exact Hb.
  - rewrite <- app_assoc. apply IH1. apply IH2. exact Hb.
  - cbn [app clean_aux]. apply Z.eqb_neq in Hc. rewrite Hc. exact Hb.
  - cbn [app clean_aux]. exact Hb.
Qed.

Lemma cl_strip s : cl false s true -> strip_trailing_whitespace s = s.
Proof.
  intros H. apply strip_clean. rewrite <- (app_nil_r s).
  apply (cl_clean_aux _ _ _ H). reflexivity.
Qed.

Fixpoint lastsolid (p : bool) (s : list Z) : bool :=
  match s with [] => p | c :: r => lastsolid (solid c) r end.

Lemma cl_text : forall s p, Forall (fun c => c <> 10) s -> cl p s (lastsolid p s).
Proof.
  induction s as [|c r IH]; intros p H.
  - constructor.
  - inversion H as [|c0 r0 Hc Hr]; subst. cbn [lastsolid].
    change (c :: r) with ([c] ++ r). eapply cl_app; [apply cl_char; exact Hc|apply IH; exact Hr].
Qed.

Lemma lastsolid_app p a c : lastsolid p (a ++ [c]) = solid c.
Proof. revert p. induction a as [|x a IH]; intros p; [reflexivity|]. cbn [app lastsolid]. apply IH. Qed.

Lemma lastsolid_all s p : s <> [] -> forallb solid s = true -> lastsolid p s = true.
Proof.
  revert p. induction s as [|c r IH]; intros p Hne H; [congruence|].
  cbn [forallb] in H. apply andb_true_iff in H. destruct H as [Hc Hr].
  cbn [lastsolid]. destruct r as [|d r']; [exact Hc|]. apply IH; [discriminate|exact Hr].
Qed.

Lemma solid_not_lf s : forallb solid s = true -> Forall (fun c => c <> 10) s.
Proof.
  induction s as [|c r IH]; intros H; [constructor|].
  cbn [forallb] in H. apply andb_true_iff in H. destruct H as [Hc Hr].
  constructor; [unfold solid in Hc; lia|apply IH; exact Hr].
Qed.

(* a non-empty text of solid characters *)
Lemma cl_solid s p : s <> [] -> forallb solid s = true -> cl p s true.
Proof.
  intros Hne H. rewrite <- (lastsolid_all s p Hne H). apply cl_text. apply solid_not_lf. exact H.
Qed.

Lemma cl_spaces i : cl false (repeat 32 i) false.
Proof.
  induction i as [|i IH]; [constructor|].
  cbn [repeat]. change (32 :: repeat 32 i) with ([32] ++ repeat 32 i).
  eapply cl_app; [|exact IH]. apply (cl_char false 32). lia.
Qed.

Lemma cl_nl i : cl true (nl i) false.
Proof.
  unfold nl. change (10 :: repeat 32 i) with ([10] ++ repeat 32 i).
  eapply cl_app; [apply cl_lf|apply cl_spaces].
Qed.

Lemma cl_space : cl true [32] false.
Proof. apply (cl_char true 32). lia. Qed.

(* ========================================================================================== *)
(* S2a. the character-level grammar of the formatter's outputs                                 *)
(* ========================================================================================== *)

Definition gws (w : list Z) : Prop := w = [] \/ exists i, w = nl i.
Definition gsep (w : list Z) : Prop := w = [32] \/ exists i, w = nl i.
Definition gcsep (w : list Z) : Prop := w = [32] \/ exists i, w = nl i ++ [126; 62; 32].
Definition topen (name : option (list Z)) : list Z :=
  match name with Some n => n ++ [91] | None => [91] end.
Definition wf_name_opt (name : option (list Z)) : Prop :=
  match name with Some n => wf_tuple_name n = true | None => True end.

Inductive gterm : fterm -> list Z -> Prop :=
| G_int z : gterm (FInt z) (int_text z)
| G_ident n : wf_ident n = true -> gterm (FIdent n) n
| G_str s : gterm (FStr s) (34 :: escape_single s ++ [34])
| G_unit : gterm (FTuple None []) [91; 93]
| G_name n : wf_tuple_name n = true -> gterm (FTuple (Some n) []) n
| G_tuple name f fs w1 body oc w2 :
    wf_name_opt name -> gws w1 -> gws w2 -> (oc = [] \/ oc = [44]) -> gfields f fs body ->
    gterm (FTuple name (f :: fs)) (topen name ++ w1 ++ body ++ oc ++ w2 ++ [93])
with gfields : ffield -> list ffield -> list Z -> Prop :=
| GF_one f s : gfield f s -> gfields f [] s
| GF_cons f f' fs s sep s' :
    gfield f s -> gsep sep -> gfields f' fs s' -> gfields f (f' :: fs) (s ++ 44 :: sep ++ s')
with gfield : ffield -> list Z -> Prop :=
| GFd_plain t ts s : gchain t ts s -> gfield (FField None (t :: ts)) s
| GFd_label n t ts s :
    wf_ident n = true -> gchain t ts s -> gfield (FField (Some n) (t :: ts)) (n ++ 58 :: 32 :: s)
with gchain : fterm -> list fterm -> list Z -> Prop :=
| GC_one t s : gterm t s -> gchain t [] s
| GC_cons t t' ts s sep s' :
    gterm t s -> gcsep sep -> gchain t' ts s' -> gchain t (t' :: ts) (s ++ sep ++ s').

Scheme gterm_mind := Minimality for gterm Sort Prop
  with gfields_mind := Minimality for gfields Sort Prop
  with gfield_mind := Minimality for gfield Sort Prop
  with gchain_mind := Minimality for gchain Sort Prop.
Combined Scheme g_mutind from gterm_mind, gfields_mind, gfield_mind, gchain_mind.

Definition gchainL (c : fchain) (s : list Z) : Prop :=
  match c with [] => False | t :: ts => gchain t ts s end.

(* ------------------------------------------------------------------------------------------ *)
(* lexical facts                                                                               *)
Definition tstart (c : Z) : bool :=
  (c =? 34) || is_digit c || (c =? 45) || is_upper c || (c =? 91) || is_lower c.

Ltac cc := unfold tstart, is_word, is_lower, is_upper, is_digit, is_msp, is_hsp, solid in *; lia.

Definition stops (p : Z -> bool) (r : list Z) : Prop :=
  match r with [] => True | x :: _ => p x = false end.

Lemma take_while_spec p : forall s a r,
  take_while p s = (a, r) -> s = a ++ r /\ forallb p a = true /\ stops p r.
Proof.
  induction s as [|c s IH]; intros a r H.
  - cbn [take_while] in H. inversion H; subst. repeat split.
  - cbn [take_while] in H. destruct (p c) eqn:Ec.
    + destruct (take_while p s) as [a' r'] eqn:E. inversion H; subst.
      destruct (IH a' r eq_refl) as [E1 [E2 E3]]. subst s.
      repeat split; [|exact E3]. cbn [forallb]. rewrite Ec, E2. reflexivity.
    + inversion H; subst. repeat split. exact Ec.
Qed.

Lemma take_while_app p a r : forallb p a = true -> stops p r -> take_while p (a ++ r) = (a, r).
Proof.
  intros Ha Hr. induction a as [|c a IH].
  - cbn [app]. destruct r as [|x r']; [reflexivity|]. cbn [take_while]. cbn [stops] in Hr. rewrite Hr. reflexivity.
  - cbn [forallb] in Ha. apply andb_true_iff in Ha. destruct Ha as [Hc Ha].
    cbn [app take_while]. rewrite Hc, (IH Ha). reflexivity.
Qed.

Definition misses (c : Z) (s : list Z) : Prop := match s with [] => True | x :: _ => x <> c end.

Lemma opt_char_hit c r : opt_char c (c :: r) = ([c], r).
Proof. cbn [opt_char]. rewrite Z.eqb_refl. reflexivity. Qed.
Lemma opt_char_miss c s : misses c s -> opt_char c s = ([], s).
Proof.
  destruct s as [|x r]; intros H; [reflexivity|]. cbn [opt_char]. cbn [misses] in H.
  apply Z.eqb_neq in H. rewrite H. reflexivity.
Qed.
Lemma opt_char_spec c s q r :
  opt_char c s = (q, r) -> s = q ++ r /\ (q = [] \/ q = [c]).
Proof.
  destruct s as [|x s']; cbn [opt_char]; intros H.
  - inversion H; subst. split; [reflexivity|left; reflexivity].
  - destruct (x =? c) eqn:E; inversion H; subst.
    + apply Z.eqb_eq in E. subst x. split; [reflexivity|right; reflexivity].
    + split; [reflexivity|left; reflexivity].
Qed.

Lemma wf_ident_inv n : wf_ident n = true ->
  exists c body q b, n = c :: body ++ q ++ b /\ is_lower c = true /\ forallb is_word body = true /\
                     (q = [] \/ q = [63]) /\ (b = [] \/ b = [33]).
Proof.
  unfold wf_ident, p_identifier. destruct n as [|c r]; [discriminate|].
  destruct (is_lower c) eqn:El; [|discriminate].
  destruct (take_while is_word r) as [body r1] eqn:Etw.
  destruct (opt_char 63 r1) as [q r2] eqn:Eq.
  destruct (opt_char 33 r2) as [b r3] eqn:Eb.
  intros H. destruct r3 as [|x r3]; [|discriminate].
  destruct (take_while_spec _ _ _ _ Etw) as [E1 [E2 _]].
  destruct (opt_char_spec _ _ _ _ Eq) as [E3 Hq].
  destruct (opt_char_spec _ _ _ _ Eb) as [E4 Hb].
  exists c, body, q, b. subst r r1 r2. rewrite app_nil_r. repeat split; assumption.
Qed.

Definition idfollow (rest : list Z) : Prop :=
  match rest with [] => True | x :: _ => is_word x = false /\ x <> 63 /\ x <> 33 end.

Lemma p_identifier_app n rest :
  wf_ident n = true -> idfollow rest -> p_identifier (n ++ rest) = Some (n, rest).
Proof.
  intros Hwf Hf. destruct (wf_ident_inv n Hwf) as (c & body & q & b & En & Hc & Hbody & Hq & Hb).
  subst n. cbn [app p_identifier]. rewrite Hc. rewrite <- !app_assoc.
  assert (Hst : stops is_word (q ++ b ++ rest)).
  { destruct Hq as [Hq|Hq]; destruct Hb as [Hb|Hb]; subst q b; cbn [app stops]; try reflexivity.
    destruct rest as [|x r]; [exact I|]. apply Hf. }
  rewrite (take_while_app is_word body _ Hbody Hst).
  destruct Hq as [Hq|Hq]; destruct Hb as [Hb|Hb]; subst q b; cbn [app].
  - rewrite (opt_char_miss 63 rest) by (destruct rest; [exact I|apply Hf]).
    rewrite (opt_char_miss 33 rest) by (destruct rest; [exact I|apply Hf]).
    rewrite !app_nil_r. reflexivity.
  - rewrite (opt_char_miss 63 (33 :: rest)) by (cbn [misses]; lia).
    rewrite opt_char_hit. rewrite app_nil_l. reflexivity.
  - rewrite opt_char_hit.
    rewrite (opt_char_miss 33 rest) by (destruct rest; [exact I|apply Hf]).
    rewrite !app_nil_r. reflexivity.
  - rewrite opt_char_hit, opt_char_hit. reflexivity.
Qed.

Lemma wf_tuple_name_inv n : wf_tuple_name n = true ->
  exists c body, n = c :: body /\ is_upper c = true /\ forallb is_word body = true.
Proof.
  unfold wf_tuple_name, p_tuple_name. destruct n as [|c r]; [discriminate|].
  destruct (is_upper c) eqn:El; [|discriminate].
  destruct (take_while is_word r) as [body r1] eqn:Etw.
  intros H. destruct r1 as [|x r1]; [|discriminate].
  destruct (take_while_spec _ _ _ _ Etw) as [E1 [E2 _]].
  exists c, body. subst r. rewrite app_nil_r. repeat split; assumption.
Qed.

Lemma p_tuple_name_app n rest :
  wf_tuple_name n = true -> stops is_word rest -> p_tuple_name (n ++ rest) = Some (n, rest).
Proof.
  intros Hwf Hf. destruct (wf_tuple_name_inv n Hwf) as (c & body & En & Hc & Hbody).
  subst n. cbn [app p_tuple_name]. rewrite Hc.
  rewrite (take_while_app is_word body _ Hbody Hf). reflexivity.
Qed.

(* integers *)
Lemma chars_digits u : forallb is_digit (chars_of_uint u) = true.
Proof. induction u; cbn [chars_of_uint forallb]; try rewrite IHu; reflexivity. Qed.

Lemma uint_of_chars u : uint_of_digits (chars_of_uint u) = u.
Proof. induction u; cbn [chars_of_uint uint_of_digits]; try rewrite IHu; reflexivity. Qed.

Lemma chars_nonnil u : u <> Decimal.Nil -> exists d ds, chars_of_uint u = d :: ds /\ is_digit d = true.
Proof.
  intros Hu. pose proof (chars_digits u) as Hd.
  destruct (chars_of_uint u) as [|d ds] eqn:E.
  - destruct u; cbn [chars_of_uint] in E; congruence.
  - cbn [forallb] in Hd. apply andb_true_iff in Hd. exists d, ds. split; [reflexivity|apply Hd].
Qed.

Lemma to_int_cases z :
  exists u, u <> Decimal.Nil /\ (Z.to_int z = Decimal.Pos u \/ Z.to_int z = Decimal.Neg u).
Proof.
  destruct z as [|p|p]; cbn [Z.to_int].
  - exists (Decimal.D0 Decimal.Nil). split; [discriminate|left; reflexivity].
  - exists (Pos.to_uint p). split; [apply DecimalPos.Unsigned.to_uint_nonnil|left; reflexivity].
  - exists (Pos.to_uint p). split; [apply DecimalPos.Unsigned.to_uint_nonnil|right; reflexivity].
Qed.

Definition intfollow (rest : list Z) : Prop :=
  match rest with [] => True | x :: _ => is_digit x = false /\ x <> 46 /\ x <> 47 /\ x <> 120 end.

Lemma no_0x ds rest : forallb is_digit ds = true -> intfollow rest ->
  match ds ++ rest with a :: b :: _ => (a =? 48) && (b =? 120) | _ => false end = false.
Proof.
  intros Hd Hf. destruct ds as [|a [|b ds]]; cbn [app].
  - destruct rest as [|a [|b r]]; try reflexivity.
    destruct (b =? 120); [|apply andb_false_r]. reflexivity || idtac.
    destruct (a =? 48) eqn:E; [|reflexivity]. exfalso. cbn [intfollow] in Hf. cc.
  - destruct rest as [|b r]; [reflexivity|]. cbn [intfollow] in Hf.
    assert (E : (b =? 120) = false) by lia. rewrite E. apply andb_false_r.
  - cbn [forallb] in Hd. assert (E : (b =? 120) = false) by cc. rewrite E. apply andb_false_r.
Qed.

Lemma outside1 rest : intfollow rest ->
  match rest with c :: r2 => ((c =? 46) || (c =? 47)) && starts_digit r2 | [] => false end = false.
Proof.
  destruct rest as [|c r2]; intros H; [reflexivity|]. cbn [intfollow] in H.
  assert (E : ((c =? 46) || (c =? 47)) = false) by lia. rewrite E. reflexivity.
Qed.

Lemma p_integer_app z rest : intfollow rest -> p_integer (int_text z ++ rest) = Some (z, rest).
Proof.
  intros Hf. pose proof (DecimalZ.of_to z) as Hz. unfold int_text.
  destruct (to_int_cases z) as [u [Hu [E|E]]]; rewrite E in *; cbn [Z.of_int] in Hz.
  - destruct (chars_nonnil u Hu) as [d [ds [Ed Hd]]].
    unfold p_integer.
    rewrite (opt_char_miss 45 (chars_of_uint u ++ rest)) by (rewrite Ed; cbn [app misses]; cc).
    rewrite (take_while_app is_digit (chars_of_uint u) rest (chars_digits u))
      by (destruct rest; [exact I|apply Hf]).
    rewrite (no_0x _ _ (chars_digits u) Hf), (outside1 _ Hf).
    rewrite Ed. cbn [orb]. rewrite <- Ed, uint_of_chars, Hz. reflexivity.
  - destruct (chars_nonnil u Hu) as [d [ds [Ed Hd]]].
    unfold p_integer. cbn [app]. rewrite opt_char_hit.
    rewrite (take_while_app is_digit (chars_of_uint u) rest (chars_digits u))
      by (destruct rest; [exact I|apply Hf]).
    rewrite (outside1 _ Hf). rewrite Ed. cbn [app orb].
    replace (45 =? 48) with false by reflexivity. cbn [andb].
    rewrite <- Ed, uint_of_chars, Hz. reflexivity.
Qed.
