(* TransCheck.v — on the cycle-free fragment (ids topologically ordered), the ALL mode of check_rel
   terminates for fuel > s + p and computes exactly the reference relation R of TransProofs.v,
   whatever assumption set it is started from (as long as that set is valid or in progress).
   With R_trans this gives transitivity of is_compatible (compat_trans_cf). *)
From Quiver Require Import Base Types Rel Sem SemProofs RelProofs TransProofs.
From Coq Require Import Arith Lia.
Close Scope Z_scope.
Open Scope nat_scope.

Section Exact.
  Variable cfg : rel_cfg.
  Variable P : registry.
  Hypothesis Hretract : cfg_retract cfg = true.
  Hypothesis Hpname : cfg_partial_name cfg = true.
  Hypothesis Htopo : topo P.

  Notation CF := (CF P true).
  Notation R := (R P).

  Definition validR (k : nat * nat) : Prop := R (fst k) (snd k) = true.
  Definition InvR (A : assumptions) (M : nat) : Prop := forall k, In k A -> validR k \/ M <= fst k + snd k.
  Definition PostR (A A1 : assumptions) : Prop := exists new, A1 = new ++ A /\ forall k, In k new -> validR k.

  Lemma PostR_refl A : PostR A A.
  Proof. exists []. split; [reflexivity|intros k []]. Qed.
  Lemma PostR_trans A A1 A2 : PostR A A1 -> PostR A1 A2 -> PostR A A2.
  Proof.
    intros [n1 [-> H1]] [n2 [-> H2]]. exists (n2 ++ n1). split; [rewrite app_assoc; reflexivity|].
    intros k Hin. apply in_app_or in Hin. destruct Hin; auto.
  Qed.
  Lemma InvR_PostR A A1 M : InvR A M -> PostR A A1 -> InvR A1 M.
  Proof. intros HI [new [-> Hn]] k Hin. apply in_app_or in Hin. destruct Hin as [Hin|Hin]; [left; auto|auto]. Qed.
  Lemma InvR_weaken A M M' : InvR A M -> M' <= M -> InvR A M'.
  Proof. intros HI Hle k Hin. destruct (HI k Hin); [left; assumption|right; lia]. Qed.

  Definition RSx (rec : assumptions -> list nat -> list nat -> nat -> nat -> res) (M : nat) : Prop :=
    forall A ss ps s p, CF s -> CF p -> s + p < M -> InvR A M ->
      exists b A1, rec A ss ps s p = Some (b, A1) /\ PostR A A1 /\ b = R s p.

  Section Iter.
    Variable rec : assumptions -> list nat -> list nat -> nat -> nat -> res.
    Variable M : nat.
    Hypothesis HRS : RSx rec M.

    Lemma all_left_x p : CF p -> forall vs A ss ps,
      (forall v, In v vs -> CF v /\ v + p < M) -> InvR A M ->
      exists b A1, all_left rec A ss ps vs p = Some (b, A1) /\ PostR A A1 /\ b = forallb (fun v => R v p) vs.
    Proof.
      intros Hp. induction vs as [|v vs IH]; intros A ss ps Hvs HI; cbn.
      - exists true, A. repeat split. apply PostR_refl.
      - destruct (Hvs v (or_introl eq_refl)) as [Hcv Hlt].
        destruct (HRS A ss ps v p Hcv Hp Hlt HI) as (b' & A' & Hrec & HP & Hb). rewrite Hrec. destruct b'.
        + destruct (IH A' ss ps (fun u Hu => Hvs u (or_intror Hu)) (InvR_PostR _ _ _ HI HP)) as (b & A1 & H & HP2 & Hb2).
          exists b, A1. split; [exact H|]. split; [eapply PostR_trans; eassumption|]. rewrite <- Hb. exact Hb2.
        + exists false, A'. split; [reflexivity|]. split; [exact HP|]. rewrite <- Hb. reflexivity.
    Qed.

    Lemma any_right_x s : CF s -> forall vs A ss ps,
      (forall v, In v vs -> CF v /\ s + v < M) -> InvR A M ->
      exists b A1, any_right rec A ss ps s vs = Some (b, A1) /\ PostR A A1 /\ b = existsb (fun w => R s w) vs.
    Proof.
      intros Hs. induction vs as [|v vs IH]; intros A ss ps Hvs HI; cbn.
      - exists false, A. repeat split. apply PostR_refl.
      - destruct (Hvs v (or_introl eq_refl)) as [Hcv Hlt].
        destruct (HRS A ss ps s v Hs Hcv Hlt HI) as (b' & A' & Hrec & HP & Hb). rewrite Hrec. destruct b'.
        + exists true, A'. split; [reflexivity|]. split; [exact HP|]. rewrite <- Hb. reflexivity.
        + destruct (IH A' ss ps (fun u Hu => Hvs u (or_intror Hu)) (InvR_PostR _ _ _ HI HP)) as (b & A1 & H & HP2 & Hb2).
          exists b, A1. split; [exact H|]. split; [eapply PostR_trans; eassumption|]. rewrite <- Hb. exact Hb2.
    Qed.

    Lemma tuple_fields_x : forall f1 f2 A ss ps,
      (forall a, In a f1 -> CF (snd a)) -> (forall a, In a f2 -> CF (snd a)) ->
      (forall a c, In a f1 -> In c f2 -> snd a + snd c < M) -> InvR A M ->
      exists b A1, tuple_fields rec A ss ps f1 f2 = Some (b, A1) /\ PostR A A1 /\ b = fields_ref R f1 f2.
    Proof.
      induction f1 as [|[n1 t1] f1 IH]; intros [|[n2 t2] f2] A ss ps H1 H2 Hlt HI; cbn;
        try (exists true, A; repeat split; apply PostR_refl).
      destruct (opt_eqb n1 n2) eqn:Hn; cbn.
      - assert (Hc1 : CF t1) by (apply (H1 (n1, t1)); left; reflexivity).
        assert (Hc2 : CF t2) by (apply (H2 (n2, t2)); left; reflexivity).
        assert (Hm : t1 + t2 < M) by (apply (Hlt (n1, t1) (n2, t2)); left; reflexivity).
        destruct (HRS A ss ps t1 t2 Hc1 Hc2 Hm HI) as (b' & A' & Hrec & HP & Hb). rewrite Hrec. destruct b'.
        + destruct (IH f2 A' ss ps (fun a Ha => H1 a (or_intror Ha)) (fun a Ha => H2 a (or_intror Ha))
                       (fun a c Ha Hc => Hlt a c (or_intror Ha) (or_intror Hc)) (InvR_PostR _ _ _ HI HP)) as (b & A1 & H & HP2 & Hb2).
          exists b, A1. split; [exact H|]. split; [eapply PostR_trans; eassumption|]. rewrite <- Hb. exact Hb2.
        + exists false, A'. split; [reflexivity|]. split; [exact HP|]. rewrite <- Hb. reflexivity.
      - exists false, A. repeat split. apply PostR_refl.
    Qed.

    Lemma any_concrete_field_x pname ptype : CF ptype -> forall cfields A ss ps,
      (forall a, In a cfields -> CF (snd a) /\ snd a + ptype < M) -> InvR A M ->
      exists b A1, any_concrete_field rec A ss ps cfields pname ptype = Some (b, A1) /\ PostR A A1 /\
                   b = existsb (fun cf => opt_eqb (fst cf) (Some pname) && R (snd cf) ptype) cfields.
    Proof.
      intros Hp. induction cfields as [|[cn ct] cfields IH]; intros A ss ps Hc HI; cbn.
      - exists false, A. repeat split. apply PostR_refl.
      - destruct (opt_eqb cn (Some pname)) eqn:Hn; cbn.
        + destruct (Hc (cn, ct) (or_introl eq_refl)) as [Hcc Hlt]. cbn in Hcc, Hlt.
          destruct (HRS A ss ps ct ptype Hcc Hp Hlt HI) as (b' & A' & Hrec & HP & Hb). rewrite Hrec. destruct b'.
          * exists true, A'. split; [reflexivity|]. split; [exact HP|]. rewrite <- Hb. reflexivity.
          * destruct (IH A' ss ps (fun a Ha => Hc a (or_intror Ha)) (InvR_PostR _ _ _ HI HP)) as (b & A1 & H & HP2 & Hb2).
            exists b, A1. split; [exact H|]. split; [eapply PostR_trans; eassumption|]. rewrite <- Hb. exact Hb2.
        + apply IH; [intros a Ha; apply Hc; right; exact Ha|exact HI].
    Qed.

    Lemma all_partial_fields_x cfields :
      (forall a, In a cfields -> CF (snd a)) -> forall pfields A ss ps,
      (forall f, In f pfields -> CF (snd f)) ->
      (forall a f, In a cfields -> In f pfields -> snd a + snd f < M) -> InvR A M ->
      exists b A1, all_partial_fields rec A ss ps cfields pfields = Some (b, A1) /\ PostR A A1 /\
                   b = tuple_partial_ref R cfields pfields.
    Proof.
      intros Hcf. induction pfields as [|[pn pt] pfields IH]; intros A ss ps Hpf Hlt HI; cbn.
      - exists true, A. repeat split. apply PostR_refl.
      - destruct (any_concrete_field_x pn pt (Hpf (pn, pt) (or_introl eq_refl)) cfields A ss ps
                    (fun a Ha => conj (Hcf a Ha) (Hlt a (pn, pt) Ha (or_introl eq_refl))) HI) as (b' & A' & Hany & HP & Hb).
        rewrite Hany. destruct b'.
        + destruct (IH A' ss ps (fun f Hf => Hpf f (or_intror Hf)) (fun a f Ha Hf => Hlt a f Ha (or_intror Hf))
                       (InvR_PostR _ _ _ HI HP)) as (b & A1 & H & HP2 & Hb2).
          exists b, A1. split; [exact H|]. split; [eapply PostR_trans; eassumption|].
          unfold tuple_partial_ref in *. cbn. rewrite <- Hb. exact Hb2.
        + exists false, A'. split; [reflexivity|]. split; [exact HP|]. unfold tuple_partial_ref. cbn. rewrite <- Hb. reflexivity.
    Qed.

    Lemma any_partial_field_x fname2 ftype2 : CF ftype2 -> forall fields1 A ss ps,
      (forall a, In a fields1 -> CF (snd a) /\ snd a + ftype2 < M) -> InvR A M ->
      exists b A1, any_partial_field rec A ss ps fields1 fname2 ftype2 = Some (b, A1) /\ PostR A A1 /\
                   b = existsb (fun f1 => Nat.eqb (fst f1) fname2 && R (snd f1) ftype2) fields1.
    Proof.
      intros Hp. induction fields1 as [|[n1 t1] fields1 IH]; intros A ss ps Hc HI; cbn.
      - exists false, A. repeat split. apply PostR_refl.
      - destruct (Nat.eqb n1 fname2) eqn:Hn; cbn.
        + destruct (Hc (n1, t1) (or_introl eq_refl)) as [Hcc Hlt]. cbn in Hcc, Hlt.
          destruct (HRS A ss ps t1 ftype2 Hcc Hp Hlt HI) as (b' & A' & Hrec & HP & Hb). rewrite Hrec. destruct b'.
          * exists true, A'. split; [reflexivity|]. split; [exact HP|]. rewrite <- Hb. reflexivity.
          * destruct (IH A' ss ps (fun a Ha => Hc a (or_intror Ha)) (InvR_PostR _ _ _ HI HP)) as (b & A1 & H & HP2 & Hb2).
            exists b, A1. split; [exact H|]. split; [eapply PostR_trans; eassumption|]. rewrite <- Hb. exact Hb2.
        + apply IH; [intros a Ha; apply Hc; right; exact Ha|exact HI].
    Qed.

    Lemma all_partial_partial_x fields1 :
      (forall a, In a fields1 -> CF (snd a)) -> forall fields2 A ss ps,
      (forall f, In f fields2 -> CF (snd f)) ->
      (forall a f, In a fields1 -> In f fields2 -> snd a + snd f < M) -> InvR A M ->
      exists b A1, all_partial_partial cfg All rec A ss ps fields1 fields2 = Some (b, A1) /\ PostR A A1 /\
                   b = partial_partial_ref R fields1 fields2.
    Proof.
      intros Hcf. induction fields2 as [|[n2 t2] fields2 IH]; intros A ss ps Hpf Hlt HI; cbn.
      - exists true, A. repeat split. apply PostR_refl.
      - rewrite andb_false_r. cbn.
        destruct (any_partial_field_x n2 t2 (Hpf (n2, t2) (or_introl eq_refl)) fields1 A ss ps
                    (fun a Ha => conj (Hcf a Ha) (Hlt a (n2, t2) Ha (or_introl eq_refl))) HI) as (b' & A' & Hany & HP & Hb).
        rewrite Hany. destruct b'.
        + destruct (IH A' ss ps (fun f Hf => Hpf f (or_intror Hf)) (fun a f Ha Hf => Hlt a f Ha (or_intror Hf))
                       (InvR_PostR _ _ _ HI HP)) as (b & A1 & H & HP2 & Hb2).
          exists b, A1. split; [exact H|]. split; [eapply PostR_trans; eassumption|].
          unfold partial_partial_ref in *. cbn. rewrite <- Hb. exact Hb2.
        + exists false, A'. split; [reflexivity|]. split; [exact HP|]. unfold partial_partial_ref. cbn. rewrite <- Hb. reflexivity.
    Qed.
  End Iter.

  Lemma check_exact : forall fuel A ss ps s p,
    s + p < fuel -> CF s -> CF p -> InvR A (S (s + p)) ->
    exists b A1, check_rel cfg P All fuel A ss ps s p = Some (b, A1) /\ PostR A A1 /\ b = R s p.
  Proof.
    induction fuel as [|f IH]; intros A ss ps s p Hfuel Hs Hp HI; [lia|].
    cbn [check_rel]. unfold step.
    destruct (Nat.eqb s p) eqn:Heq.
    { apply Nat.eqb_eq in Heq. subst p. exists true, A. repeat split; [apply PostR_refl|]. symmetry. apply R_refl. }
    destruct (assumed A (s, p)) eqn:Has.
    { apply assumed_In in Has. exists true, A. repeat split; [apply PostR_refl|].
      destruct (HI _ Has) as [Hv|Hm]; [symmetry; exact Hv|cbn in Hm; lia]. }
    assert (HRS : RSx (check_rel cfg P All f) (s + p)).
    { intros A0 ss0 ps0 s0 p0 Hs0 Hp0 Hlt HI0. apply IH; [lia|exact Hs0|exact Hp0|]. eapply InvR_weaken; [exact HI0|lia]. }
    assert (HI' : InvR A (s + p)) by (eapply InvR_weaken; [exact HI|lia]).
    assert (HIk : InvR ((s, p) :: A) (s + p)).
    { intros k [<-|Hin]; [right; cbn; lia|apply HI'; exact Hin]. }
    assert (Hins : forall r X, (exists b0 A2, r = Some (b0, A2) /\ PostR ((s, p) :: A) A2 /\ b0 = X) -> X = R s p ->
                   exists b A1, retract cfg (length A) r = Some (b, A1) /\ PostR A A1 /\ b = R s p).
    { intros r X (b0 & A2 & -> & [new [-> Hnew]] & HbX) HX. unfold retract. destruct b0.
      - exists true, (new ++ (s, p) :: A). split; [reflexivity|]. split; [|congruence].
        exists (new ++ [(s, p)]). split; [rewrite <- app_assoc; reflexivity|].
        intros k Hin. apply in_app_or in Hin. destruct Hin as [Hin|[<-|[]]]; [auto|]. unfold validR. cbn. congruence.
      - rewrite Hretract. exists false, A. split; [|split; [apply PostR_refl|congruence]].
        replace (new ++ (s, p) :: A) with ((new ++ [(s, p)]) ++ A) by (rewrite <- app_assoc; reflexivity).
        rewrite truncate_app. reflexivity. }
    assert (HRu : R s p = subref_step P R s p) by (apply R_unfold; assumption).
    unfold subref_step in HRu. rewrite Heq in HRu.
    inversion Hs as [? Hls|? Hls|? Hls|? ? Hls|? vs Hls Hvs|? tid1 info1 Hls Hlt1 Hfs1|? pn1 pf1 Hls Hnm1 Hpf1
                     |? p1 r1 c1 Hls Hcp1 Hcr1 Hcc1|? s1 r1 Hls Hcs1 Hcr1]; subst;
    inversion Hp as [? Hlp|? Hlp|? Hlp|? ? Hlp|? ws Hlp Hws|? tid2 info2 Hlp Hlt2 Hfs2|? pn2 pf2 Hlp Hnm2 Hpf2
                     |? p2 r2 c2 Hlp Hcp2 Hcr2 Hcc2|? s2 r2 Hlp Hcs2 Hcr2]; subst;
    rewrite Hls, Hlp in HRu; rewrite Hls, Hlp; cbn;
    try (destruct vs as [|v0 vs]; cbn);
    try (exists true, A; split; [reflexivity|split; [apply PostR_refl|symmetry; exact HRu]]; fail);
    try (exists false, A; split; [reflexivity|split; [apply PostR_refl|symmetry; exact HRu]]; fail).
    (* resources *)
    all: try (match type of Hls with _ = Some (TResource _) => idtac end;
              exists (r =? r0), A; split; [reflexivity|split; [apply PostR_refl|symmetry; exact HRu]]; fail).
    (* union on the left (non-empty) *)
    all: try (match type of Hls with _ = Some (TUnion (_ :: _)) => idtac end;
              eapply (Hins _ (forallb (fun v => R v p) (v0 :: vs)));
              [apply (all_left_x (check_rel cfg P All f) (s + p) HRS p Hp (v0 :: vs) ((s, p) :: A) _ ps
                        (fun v Hv => conj (Hvs v Hv) (proj1 (Nat.add_lt_mono_r v s p) (child_lt P Htopo s _ v Hls Hv))) HIk)
              |symmetry; exact HRu]; fail).
    (* union on the right *)
    all: try (match type of Hlp with _ = Some (TUnion _) => idtac end;
              eapply (Hins _ (existsb (fun w => R s w) ws));
              [apply (any_right_x (check_rel cfg P All f) (s + p) HRS s Hs ws ((s, p) :: A) ss _
                        (fun v Hv => conj (Hws v Hv) (proj1 (Nat.add_lt_mono_l v p s) (child_lt P Htopo p _ v Hlp Hv))) HIk)
              |symmetry; exact HRu]; fail).
    - (* tuple / tuple *)
      destruct (tid1 =? tid2) eqn:Ht.
      + exists true, A. split; [reflexivity|split; [apply PostR_refl|symmetry; exact HRu]].
      + rewrite Hlt1, Hlt2 in HRu |- *.
        destruct (opt_eqb (tname info1) (tname info2) && (length (tfields info1) =? length (tfields info2))) eqn:Hc.
        * destruct (tuple_fields_x (check_rel cfg P All f) (s + p) HRS (tfields info1) (tfields info2) A ss ps Hfs1 Hfs2
                      (fun a c Ha Hc0 => Nat.add_lt_mono _ _ _ _ (tuple_child_lt P Htopo _ _ _ _ Hls Hlt1 Ha)
                                                                 (tuple_child_lt P Htopo _ _ _ _ Hlp Hlt2 Hc0)) HI')
            as (bq & Aq & Hck & HPq & Hbq).
          exists bq, Aq. split; [exact Hck|split; [exact HPq|]]. rewrite Hbq, HRu. reflexivity.
        * exists false, A. split; [reflexivity|split; [apply PostR_refl|]]. rewrite HRu. reflexivity.
    - (* tuple / partial *)
      rewrite Hlt1 in HRu |- *.
      destruct (match pn2 with Some pname => opt_eqb (tname info1) (Some pname) | None => true end) eqn:Hn.
      + destruct (all_partial_fields_x (check_rel cfg P All f) (s + p) HRS (tfields info1) Hfs1 pf2 A ss ps Hpf2
                    (fun a f0 Ha Hf0 => Nat.add_lt_mono _ _ _ _ (tuple_child_lt P Htopo _ _ _ _ Hls Hlt1 Ha)
                                                                   (partial_child_lt P Htopo _ _ _ _ Hlp Hf0)) HI')
          as (bq & Aq & Hck & HPq & Hbq).
        exists bq, Aq. split; [exact Hck|split; [exact HPq|]]. rewrite Hbq, HRu. reflexivity.
      + exists false, A. split; [reflexivity|split; [apply PostR_refl|]]. rewrite HRu. reflexivity.
    - (* partial / tuple *)
      rewrite andb_false_r. exists false, A. split; [reflexivity|split; [apply PostR_refl|symmetry; exact HRu]].
    - (* partial / partial *)
      rewrite Hpname. cbn.
      destruct (match pn2 with Some _ => negb (opt_eqb pn1 pn2) | None => false end) eqn:Hcl.
      + exists false, A. split; [reflexivity|split; [apply PostR_refl|]]. rewrite HRu. reflexivity.
      + destruct (all_partial_partial_x (check_rel cfg P All f) (s + p) HRS pf1 Hpf1 pf2 A ss ps Hpf2
                    (fun a f0 Ha Hf0 => Nat.add_lt_mono _ _ _ _ (partial_child_lt P Htopo _ _ _ _ Hls Ha)
                                                                   (partial_child_lt P Htopo _ _ _ _ Hlp Hf0)) HI')
          as (bq & Aq & Hck & HPq & Hbq).
        exists bq, Aq. split; [exact Hck|split; [exact HPq|]]. rewrite Hbq, HRu. reflexivity.
    - (* callable / callable *)
      rewrite andb_false_r.
      assert (p1 < s /\ r1 < s /\ c1 < s) as (? & ? & ?) by (repeat split; apply (child_lt P Htopo _ _ _ Hls); cbn; auto).
      assert (p2 < p /\ r2 < p /\ c2 < p) as (? & ? & ?) by (repeat split; apply (child_lt P Htopo _ _ _ Hlp); cbn; auto).
      assert (Hbody : forall A0 css cps ss1 ps1, InvR A0 (s + p) ->
                exists b0 A2,
                  and_then (check_rel cfg P All f A0 css cps p2 p1) (fun A1 =>
                  and_then (check_rel cfg P All f A1 ss1 ps1 r1 r2) (fun A2 =>
                  check_rel cfg P All f A2 css cps c2 c1)) = Some (b0, A2) /\ PostR A0 A2 /\ b0 = R p2 p1 && R r1 r2 && R c2 c1).
      { intros A0 css cps ss1 ps1 HI0. unfold and_then.
        destruct (HRS A0 css cps p2 p1 Hcp2 Hcp1 ltac:(lia) HI0) as (b1 & A1' & E1 & HP1 & Hb1). rewrite E1.
        destruct b1; [|exists false, A1'; split; [reflexivity|split; [exact HP1|rewrite <- Hb1; reflexivity]]].
        destruct (HRS A1' ss1 ps1 r1 r2 Hcr1 Hcr2 ltac:(lia) (InvR_PostR _ _ _ HI0 HP1)) as (b2 & A2' & E2 & HP2 & Hb2). rewrite E2.
        destruct b2; [|exists false, A2'; split; [reflexivity|split; [eapply PostR_trans; eassumption|rewrite <- Hb1, <- Hb2; reflexivity]]].
        destruct (HRS A2' css cps c2 c1 Hcc2 Hcc1 ltac:(lia) (InvR_PostR _ _ _ (InvR_PostR _ _ _ HI0 HP1) HP2)) as (b3 & A3' & E3 & HP3 & Hb3).
        exists b3, A3'. split; [exact E3|split; [eapply PostR_trans; [eapply PostR_trans|]; eassumption|]].
        rewrite <- Hb1, <- Hb2, <- Hb3. reflexivity. }
      destruct (cfg_callable_assume cfg).
      + eapply (Hins _ (R p2 p1 && R r1 r2 && R c2 c1)); [apply Hbody; exact HIk|symmetry; exact HRu].
      + destruct (Hbody A (if cfg_selfstack cfg then push_once ps p else if cfg_selfstack cfg then push_once ss s else ss)
                          (if cfg_selfstack cfg then if cfg_selfstack cfg then push_once ss s else ss else push_once ps p)
                          (if cfg_selfstack cfg then push_once ss s else ss) (push_once ps p) HI') as (bq & Aq & Hck & HPq & Hbq).
        exists bq, Aq. split; [exact Hck|split; [exact HPq|]]. rewrite Hbq, HRu. reflexivity.
    - (* process / process *)
      rewrite andb_false_r.
      assert (s1 < s /\ r1 < s) as (? & ?) by (split; apply (child_lt P Htopo _ _ _ Hls); cbn; auto).
      assert (s2 < p /\ r2 < p) as (? & ?) by (split; apply (child_lt P Htopo _ _ _ Hlp); cbn; auto).
      destruct (HRS A ss ps s1 s2 Hcs1 Hcs2 ltac:(lia) HI') as (b1 & A1' & E1 & HP1 & Hb1). rewrite E1.
      destruct (HRS A1' ss ps r1 r2 Hcr1 Hcr2 ltac:(lia) (InvR_PostR _ _ _ HI' HP1)) as (b2 & A2' & E2 & HP2 & Hb2). rewrite E2.
      exists (b1 && b2), A2'. split; [reflexivity|split; [eapply PostR_trans; eassumption|]]. rewrite Hb1, Hb2, HRu. reflexivity.
  Qed.
End Exact.

