(* front/ComplementTermProofs.v — the recursion depth of compute_complement / subtract_one
   (Narrow.v; narrowing.rs:403-479) is at most 2n+2.

   Unlike intersect_types, compute_complement feeds its RESULTS back into subtract_one (the pieces
   left after one narrowed variant are the operands for the next), so the self side of a call may
   be an id registered during the run.  The NARROWED side never is: it is always a variant, or a
   field type of a variant, of the narrowed operand.  Measure: the id of the narrowed side.

   The relation checks of subtract_one's shortcut are made on (piece, narrowed variant) in the
   grown registry, where the piece may be new; whether THEY answer depends on rel_fuel and the
   size the registry has reached.  The statement proved here is therefore about the structural
   fuel alone: beyond narrow_bound n it is irrelevant — two runs with the same relation fuel and
   any two structural fuels >= narrow_bound n give the same outcome (in particular: if any fuel
   gives an answer, narrow_bound n does; a None can then only come from the relation fuel). *)
From Quiver Require Import Base Types Rel Narrow RelProofs TypesProofs.
From Quiver.front Require Import Totality IntersectTermProofs.
From Coq Require Import Arith Lia.
Close Scope Z_scope.
Open Scope nat_scope.

(* ---- results extend the registry (no measure needed) ----------------------------------------- *)
Section Ext.
  Variable sub1 : registry -> nat -> nat -> option (registry * list nat).
  Variable compl : registry -> nat -> nat -> option (registry * nat).
  Hypothesis Hsub : forall P a b P1 out, sub1 P a b = Some (P1, out) -> extends P P1.
  Hypothesis Hcompl : forall P a b P1 r, compl P a b = Some (P1, r) -> extends P P1.

  Lemma per_piece_ext nv : forall pieces P next P' r,
    compl_per_piece sub1 P next pieces nv = Some (P', r) -> extends P P'.
  Proof.
    induction pieces as [|pc pieces IH]; intros P next P' r H; cbn in H.
    - inversion H; subst. apply extends_refl.
    - destruct (sub1 P pc nv) as [[P1 out]|] eqn:E; [|discriminate].
      eapply extends_trans; [apply (Hsub _ _ _ _ _ E)|apply (IH _ _ _ _ H)].
  Qed.

  Lemma per_nv_ext : forall nvs P pieces P' r,
    compl_per_nv sub1 P pieces nvs = Some (P', r) -> extends P P'.
  Proof.
    induction nvs as [|nv nvs IH]; intros P pieces P' r H; cbn in H.
    - inversion H; subst. apply extends_refl.
    - destruct (compl_per_piece sub1 P [] pieces nv) as [[P1 next]|] eqn:E; [|discriminate].
      eapply extends_trans; [apply (per_piece_ext _ _ _ _ _ _ E)|apply (IH _ _ _ _ H)].
  Qed.

  Lemma fields_ext nid name all : forall fs1 fs2 P out i P' r,
    compl_fields compl nid name all P out i fs1 fs2 = Some (P', r) -> extends P P'.
  Proof.
    induction fs1 as [|[n1 f1] fs1 IH]; intros fs2 P out i P' r H; cbn in H.
    - inversion H; subst. apply extends_refl.
    - destruct fs2 as [|[n2 f2] fs2]; [inversion H; subst; apply extends_refl|].
      destruct (compl P f1 f2) as [[P1 fc]|] eqn:E; [|discriminate].
      pose proof (Hcompl _ _ _ _ _ E) as X1.
      destruct (Nat.eqb fc nid).
      + eapply extends_trans; [exact X1|apply (IH _ _ _ _ _ _ H)].
      + destruct (register_tuple P1 name (set_field_type all i fc)) as [P2 tuple_id] eqn:Er.
        destruct (register_type P2 (TTuple tuple_id)) as [P3 ty_id] eqn:Et.
        eapply extends_trans; [exact X1|]. eapply extends_trans; [apply (register_tuple_spec _ _ _ _ _ Er)|].
        eapply extends_trans; [apply (register_type_spec _ _ _ _ Et)|apply (IH _ _ _ _ _ _ H)].
  Qed.
End Ext.

Section ComplExt.
  Variable cfg : rel_cfg.
  Variable rel_fuel : nat.

  Lemma complement_extends : forall fuel,
    (forall P o nr P' r, compute_complement cfg rel_fuel fuel P o nr = Some (P', r) -> extends P P') /\
    (forall P a b P' out, subtract_one cfg rel_fuel fuel P a b = Some (P', out) -> extends P P').
  Proof.
    induction fuel as [|f [IHc IHs]]; [split; intros; discriminate|].
    split.
    - intros P o nr P' r H. simpl compute_complement in H.
      destruct (compl_per_nv (subtract_one cfg rel_fuel f) P (get_type_variants P o) (get_type_variants P nr)) as [[P1 pieces]|] eqn:E; [|discriminate].
      inversion H as [Hu]. eapply extends_trans; [apply (per_nv_ext _ IHs _ _ _ _ _ E)|apply (union_type_ids_extends _ _ _ _ Hu)].
    - intros P a b P' out H. simpl subtract_one in H.
      repeat match type of H with
             | context [let '(_, _) := never ?Q in _] => let En := fresh "En" in destruct (never Q) as [? ?] eqn:En; pose proof (never_extends _ _ _ En)
             | context [match ?x with _ => _ end] =>
               lazymatch x with
               | compl_fields _ _ _ _ _ _ _ _ _ => fail
               | _ => destruct x eqn:?
               end
             end; try discriminate;
      try (inversion H; subst; first [apply extends_refl|assumption]; fail).
      all: eapply extends_trans; [eassumption|]; apply (fields_ext _ IHc _ _ _ _ _ _ _ _ _ _ H).
  Qed.
End ComplExt.

(* ---- two recursive-call functions that agree on the narrowed sides that occur give equal loops -- *)
Section Cong.
  Variable P0 : registry.
  Variable sub1 sub1' : registry -> nat -> nat -> option (registry * list nat).
  Variable compl compl' : registry -> nat -> nat -> option (registry * nat).
  Hypothesis Hsub : forall P a b P1 out, sub1 P a b = Some (P1, out) -> extends P P1.
  Hypothesis Hcompl : forall P a b P1 r, compl P a b = Some (P1, r) -> extends P P1.

  Lemma per_piece_cong nv : (forall P pc, extends P0 P -> sub1 P pc nv = sub1' P pc nv) ->
    forall pieces P next, extends P0 P ->
      compl_per_piece sub1 P next pieces nv = compl_per_piece sub1' P next pieces nv.
  Proof.
    intros Hag. induction pieces as [|pc pieces IH]; intros P next HE; cbn; [reflexivity|].
    rewrite <- (Hag P pc HE). destruct (sub1 P pc nv) as [[P1 out]|] eqn:E; [|reflexivity].
    apply IH. eapply extends_trans; [exact HE|apply (Hsub _ _ _ _ _ E)].
  Qed.

  Lemma per_nv_cong : forall nvs, (forall P pc nv, extends P0 P -> In nv nvs -> sub1 P pc nv = sub1' P pc nv) ->
    forall P pieces, extends P0 P -> compl_per_nv sub1 P pieces nvs = compl_per_nv sub1' P pieces nvs.
  Proof.
    induction nvs as [|nv nvs IH]; intros Hag P pieces HE; cbn; [reflexivity|].
    rewrite <- (per_piece_cong nv (fun Q pc H => Hag Q pc nv H (or_introl eq_refl)) pieces P [] HE).
    destruct (compl_per_piece sub1 P [] pieces nv) as [[P1 next]|] eqn:E; [|reflexivity].
    apply IH; [intros Q pc nv' H Hin; apply Hag; [exact H|right; exact Hin]|].
    eapply extends_trans; [exact HE|apply (per_piece_ext sub1 Hsub _ _ _ _ _ _ E)].
  Qed.

  Lemma fields_cong nid name all : forall fs1 fs2,
    (forall P f1 f2, extends P0 P -> In f2 fs2 -> compl P f1 (snd f2) = compl' P f1 (snd f2)) ->
    forall P out i, extends P0 P ->
      compl_fields compl nid name all P out i fs1 fs2 = compl_fields compl' nid name all P out i fs1 fs2.
  Proof.
    induction fs1 as [|[n1 f1] fs1 IH]; intros fs2 Hag P out i HE; cbn; [reflexivity|].
    destruct fs2 as [|[n2 f2] fs2]; [reflexivity|].
    pose proof (Hag P f1 (n2, f2) HE (or_introl eq_refl)) as Hx. cbn [snd] in Hx. rewrite <- Hx. clear Hx.
    destruct (compl P f1 f2) as [[P1 fc]|] eqn:E; [|reflexivity].
    pose proof (Hcompl _ _ _ _ _ E) as X1.
    assert (Hag' : forall Q g1 g2, extends P0 Q -> In g2 fs2 -> compl Q g1 (snd g2) = compl' Q g1 (snd g2))
      by (intros Q g1 g2 H Hin; apply Hag; [exact H|right; exact Hin]).
    destruct (Nat.eqb fc nid).
    - apply IH; [exact Hag'|eapply extends_trans; eassumption].
    - destruct (register_tuple P1 name (set_field_type all i fc)) as [P2 tuple_id] eqn:Er.
      destruct (register_type P2 (TTuple tuple_id)) as [P3 ty_id] eqn:Et.
      apply IH; [exact Hag'|]. eapply extends_trans; [exact HE|]. eapply extends_trans; [exact X1|].
      eapply extends_trans; [apply (register_tuple_spec _ _ _ _ _ Er)|apply (register_type_spec _ _ _ _ Et)].
  Qed.
End Cong.

Section Stable.
  Variable cfg : rel_cfg.
  Variable rel_fuel : nat.
  Variable P0 : registry.
  Hypothesis Htopo : topo P0.
  Hypothesis Hclosed : closed_tuples P0.
  Notation n0 := (ntypes P0).

  Definition compl_stable (m : nat) : Prop :=
    forall f f' P o nr, extends P0 P -> nr < n0 -> nr <= m -> 2 * m + 2 <= f -> 2 * m + 2 <= f' ->
      compute_complement cfg rel_fuel f P o nr = compute_complement cfg rel_fuel f' P o nr.
  Definition sub_stable (m : nat) : Prop :=
    forall f f' P a b, extends P0 P -> b < n0 -> b <= m -> 2 * m + 1 <= f -> 2 * m + 1 <= f' ->
      subtract_one cfg rel_fuel f P a b = subtract_one cfg rel_fuel f' P a b.

  Lemma sub_step m : (forall m', m' < m -> compl_stable m') -> sub_stable m.
  Proof.
    intros IH f f' P a b HE Hb Hm Hf Hf'.
    destruct f as [|f]; [lia|]. destruct f' as [|f']; [lia|]. simpl subtract_one.
    destruct (base_lookup P0 P b HE Hb) as [tb [H0b Hlb]]. rewrite Hlb.
    repeat match goal with
           | |- context [let '(_, _) := never ?Q in _] => let En := fresh "En" in destruct (never Q) as [? ?] eqn:En; pose proof (never_extends _ _ _ En)
           | |- context [match ?x with _ => _ end] =>
             lazymatch x with
             | compl_fields _ _ _ _ _ _ _ _ _ => fail
             | _ => destruct x eqn:?
             end
           end; try reflexivity.
    match goal with
         | Hn : extends ?PP ?Q, Hty : lookup_type P0 b = Some (TTuple ?id2), Ht : lookup_tuple ?Q ?id2 = Some ?i2
           |- compl_fields _ _ _ _ ?Q _ _ _ (tfields ?i2) = _ =>
           destruct (Hclosed b id2 Hty) as [info Hi];
           assert (HEQ : extends P0 Q) by (eapply extends_trans; eassumption);
           pose proof (proj2 HEQ _ _ Hi) as Hi'; rewrite Hi' in Ht; inversion Ht; subst info;
           apply (fields_cong P0 _ _ (proj1 (complement_extends cfg rel_fuel f)));
           [intros Q' g1 g2 HE' Hin; pose proof (topo_tuple P0 Htopo b id2 i2 g2 Hty Hi Hin);
            apply (IH (m - 1) ltac:(lia)); [exact HE'|lia|lia|lia|lia]
           |exact HEQ]
         end.
  Qed.

  Lemma compl_step m : sub_stable m -> compl_stable m.
  Proof.
    intros HS f f' P o nr HE Hnr Hm Hf Hf'.
    destruct f as [|f]; [lia|]. destruct f' as [|f']; [lia|]. simpl compute_complement.
    rewrite (per_nv_cong P0 _ (subtract_one cfg rel_fuel f') (proj2 (complement_extends cfg rel_fuel f)) (get_type_variants P nr)); [reflexivity| |exact HE].
    intros Q pc nv HE' Hin. pose proof (base_variants P0 Htopo P nr nv HE Hnr Hin).
    apply HS; try assumption; lia.
  Qed.

  Theorem complement_fuel_stable : forall m, compl_stable m /\ sub_stable m.
  Proof.
    induction m as [m IH] using lt_wf_ind.
    assert (HS : sub_stable m) by (apply sub_step; intros m' Hlt; apply (IH m' Hlt)).
    split; [apply compl_step; exact HS|exact HS].
  Qed.
End Stable.

(* ---- the statement of props/C18.v ------------------------------------------------------------- *)
Theorem complement_fuel_irrelevant : forall cfg rel_fuel P fuel fuel' o nr,
  topob P = true -> closed_tuplesb P = true ->
  narrow_bound (ntypes P) <= fuel -> narrow_bound (ntypes P) <= fuel' ->
  compute_complement cfg rel_fuel fuel P o nr = compute_complement cfg rel_fuel fuel' P o nr.
Proof.
  intros cfg rel_fuel P fuel fuel' o nr Ht Hc Hf Hf'. unfold narrow_bound in *.
  destruct (lt_dec nr (ntypes P)) as [Hin|Hout].
  - destruct (complement_fuel_stable cfg rel_fuel P (topob_topo P Ht) (closed_tuplesb_ok P Hc) nr) as [HC _].
    apply HC; try apply extends_refl; try assumption; lia.
  - (* a dangling narrowed id has no variants: nothing is subtracted *)
    destruct fuel as [|f]; [lia|]. destruct fuel' as [|f']; [lia|]. simpl compute_complement.
    assert (E : get_type_variants P nr = []).
    { unfold get_type_variants. assert (E : lookup_type P nr = None) by (apply nth_error_None; unfold ntypes in Hout; lia). rewrite E. reflexivity. }
    rewrite E. reflexivity.
Qed.

(* whenever some structural fuel beyond the bound gives an answer, narrow_bound n gives the same one:
   the recursion never goes deeper than narrow_bound n *)
Corollary complement_bound_suffices : forall cfg rel_fuel P fuel o nr r,
  topob P = true -> closed_tuplesb P = true -> narrow_bound (ntypes P) <= fuel ->
  compute_complement cfg rel_fuel fuel P o nr = Some r ->
  compute_complement cfg rel_fuel (narrow_bound (ntypes P)) P o nr = Some r.
Proof.
  intros cfg rel_fuel P fuel o nr r Ht Hc Hge H.
  rewrite <- H. apply complement_fuel_irrelevant; try assumption. lia.
Qed.
