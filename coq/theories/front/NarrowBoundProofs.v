(* front/NarrowBoundProofs.v — intersect_types terminates within narrow_bound n = 2n+2 on every registry
   with topologically ordered ids and in-range tuple ids, provided the relation fuel is at least
   rel_bound n.  Combines IntersectTermProofs.v (descent on base ids while the registry grows) with
   the windowed forms of check_rel_fuel_enough and contains_cycle_fuel (the relation is run on base
   ids inside the grown registry: only the base part needs to be topologically ordered). *)
From Quiver Require Import Base Types Rel Narrow RelProofs TypesProofs.
From Quiver.front Require Import Totality RelTermProofs NarrowTermProofs IntersectTermProofs RelTermWitness.
From Coq Require Import Arith Lia.
Close Scope Z_scope.
Open Scope nat_scope.

Lemma rel_bound_ge n : n + 1 <= rel_bound n.
Proof. rewrite rel_bound_formula. nia. Qed.

Section Discharge.
  Variable cfg : rel_cfg.
  Variable rel_fuel : nat.
  Variable P0 : registry.
  Hypothesis Hcall : cfg_callable_assume cfg = true.
  Hypothesis Htopo : topo P0.
  Hypothesis Hclosed : closed_tuples P0.
  Hypothesis Hrf : rel_bound (ntypes P0) <= rel_fuel.

  (* the base part of every extension is still topologically ordered *)
  Lemma window_topo P : extends P0 P ->
    forall id t, id < ntypes P0 -> lookup_type P id = Some t -> forall c, In c (children P t) -> c < id.
  Proof.
    intros HE id t Hid Hl c Hc.
    destruct (base_lookup P0 P id HE Hid) as [t0 [H0 HP]]. rewrite HP in Hl. inversion Hl; subst t0.
    apply (Htopo id t H0).
    destruct t; try exact Hc.
    cbn in Hc |- *. destruct (Hclosed id _ H0) as [info Hi]. rewrite Hi. rewrite (proj2 HE _ _ Hi) in Hc. exact Hc.
  Qed.

  Lemma rel_answers_discharged : rel_answers_on cfg rel_fuel P0.
  Proof.
    intros P x y HE Hx Hy. pose proof (window_topo P HE) as HW.
    repeat split.
    - unfold types_overlap, types_overlap_with.
      destruct (check_rel_terminates_window cfg P Any Hcall (ntypes P0) HW rel_fuel x y Hx Hy Hrf) as [r [A' E]].
      rewrite E. eexists; reflexivity.
    - unfold is_compatible, is_compatible_with.
      destruct (check_rel_terminates_window cfg P All Hcall (ntypes P0) HW rel_fuel x y Hx Hy Hrf) as [r [A' E]].
      rewrite E. eexists; reflexivity.
    - unfold cyclic. pose proof (rel_bound_ge (ntypes P0)).
      destruct (contains_cycle_fuel cfg P (ntypes P0) HW rel_fuel x [] Hx ltac:(lia)) as [r E].
      rewrite E. eexists; reflexivity.
  Qed.
End Discharge.

Theorem intersect_types_terminates : forall cfg P rel_fuel fuel a b,
  cfg_callable_assume cfg = true -> topob P = true -> closed_tuplesb P = true ->
  rel_bound (ntypes P) <= rel_fuel -> narrow_bound (ntypes P) <= fuel ->
  exists P' r, intersect_types cfg rel_fuel fuel P a b = Some (P', r) /\ extends P P'.
Proof.
  intros cfg P rel_fuel fuel a b Hcall Ht Hc Hrf Hf.
  pose proof (topob_topo P Ht) as Htopo. pose proof (closed_tuplesb_ok P Hc) as Hclosed.
  unfold narrow_bound in Hf.
  destruct (lt_dec a (ntypes P)) as [Ha|Ha]; [destruct (lt_dec b (ntypes P)) as [Hb|Hb]|].
  - destruct (intersect_fuel_enough cfg rel_fuel P Htopo Hclosed
                (rel_answers_discharged cfg rel_fuel P Hcall Htopo Hclosed Hrf) a) as [HT _].
    apply (HT fuel P a b (extends_refl P) Ha Hb (le_n a)). lia.
  - (* a dangling pattern id has no variants: the inner loop never runs *)
    destruct fuel as [|f]; [lia|]. simpl intersect_types.
    destruct (never P) as [P1 nid] eqn:En. pose proof (never_extends _ _ _ En) as X1.
    assert (Eb : get_type_variants P b = []).
    { unfold get_type_variants. assert (E : lookup_type P b = None) by (apply nth_error_None; unfold ntypes in Hb; lia). rewrite E. reflexivity. }
    rewrite Eb.
    destruct (isect_outer_ok P1 (intersect_pair cfg rel_fuel f) nid [] (get_type_variants P a) P1 [] (extends_refl P1))
      as [P2 [ps [E X2]]]; [intros P' av bv _ _ []|].
    rewrite E. destruct (union_type_ids P2 ps) as [P3 r] eqn:Eu.
    exists P3, r. split; [reflexivity|]. eapply extends_trans; [exact X1|]. eapply extends_trans; [exact X2|apply (union_type_ids_extends _ _ _ _ Eu)].
  - destruct fuel as [|f]; [lia|]. simpl intersect_types.
    destruct (never P) as [P1 nid] eqn:En. pose proof (never_extends _ _ _ En) as X1.
    assert (Ea : get_type_variants P a = []).
    { unfold get_type_variants. assert (E : lookup_type P a = None) by (apply nth_error_None; unfold ntypes in Ha; lia). rewrite E. reflexivity. }
    rewrite Ea. cbn [isect_outer]. destruct (union_type_ids P1 []) as [P3 r] eqn:Eu.
    exists P3, r. split; [reflexivity|]. eapply extends_trans; [exact X1|apply (union_type_ids_extends _ _ _ _ Eu)].
Qed.

Corollary intersect_types_terminates_current : forall P rel_fuel fuel a b,
  topob P = true -> closed_tuplesb P = true ->
  rel_bound (ntypes P) <= rel_fuel -> narrow_bound (ntypes P) <= fuel ->
  intersect_types current_cfg rel_fuel fuel P a b <> None.
Proof.
  intros P rel_fuel fuel a b Ht Hc Hrf Hf.
  destruct (intersect_types_terminates current_cfg P rel_fuel fuel a b eq_refl Ht Hc Hrf Hf) as [P' [r [E _]]].
  rewrite E. discriminate.
Qed.

(* non-vacuity: the recursive list registry (int list vs bin list) and the F55 function types meet
   the hypotheses; the meets are computed inside the bounds *)
Lemma intersect_nonvacuous :
  topob reg_list = true /\ closed_tuplesb reg_list = true /\
  narrow_bound (ntypes reg_list) = 18 /\
  (exists P' r, intersect_types current_cfg (rel_bound (ntypes reg_list)) 18 reg_list 4 7 = Some (P', r) /\ r = 3) /\
  intersect_types current_cfg (rel_bound (ntypes reg_list)) 3 reg_list 4 7 = None /\
  topob reg_F55 = true /\ closed_tuplesb reg_F55 = true /\
  (exists P' r, intersect_types current_cfg (rel_bound (ntypes reg_F55)) (narrow_bound (ntypes reg_F55)) reg_F55 4 3 = Some (P', r)).
Proof.
  vm_compute. repeat split; try reflexivity; eexists _, _; try split; reflexivity.
Qed.

(* non-vacuity of the complement statement (ComplementTermProofs.v): (int list) minus (bin list) on the
   recursive list registry is computed at the bound, not with 3 units, and 100 units change nothing *)
Lemma complement_nonvacuous :
  (exists P' r, compute_complement current_cfg (rel_bound (ntypes reg_list)) (narrow_bound (ntypes reg_list)) reg_list 4 7 = Some (P', r)) /\
  compute_complement current_cfg (rel_bound (ntypes reg_list)) 3 reg_list 4 7 = None /\
  compute_complement current_cfg (rel_bound (ntypes reg_list)) 100 reg_list 4 7
  = compute_complement current_cfg (rel_bound (ntypes reg_list)) (narrow_bound (ntypes reg_list)) reg_list 4 7.
Proof. vm_compute. repeat split; try reflexivity. eexists _, _; reflexivity. Qed.
