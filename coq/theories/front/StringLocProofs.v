(* front/StringLocProofs.v — the located error of parse_string_content lies inside its segment,
   on a character boundary (the backslash); the loop agrees with C17's Escape.unescape. *)
From Quiver Require Import Base Escape.
From Quiver.front Require Import StringLoc.
From Coq Require Import Arith Lia.

Lemma len_utf8_pos c : (1 <= len_utf8 c <= 4)%nat.
Proof. unfold len_utf8. destruct (c <? 128), (c <? 2048), (c <? 65536); lia. Qed.

Lemma len_utf8_backslash : len_utf8 92 = 1%nat.
Proof. reflexivity. Qed.

(* erasing the position gives C17's model *)
Lemma psc_unescape : forall s o,
  match psc s o with
  | PscOk r => unescape s = Some r
  | PscErr _ _ _ => unescape s = None
  end.
Proof.
  intros s. remember (length s) as k eqn:Hk. assert (Hle : (length s <= k)%nat) by lia. clear Hk.
  revert s Hle. induction k as [|k IHk]; intros s Hle o.
  { destruct s; [reflexivity|cbn in Hle; lia]. }
  assert (IH : forall t, (length t < length s)%nat -> forall o', match psc t o' with
            | PscOk r => unescape t = Some r | PscErr _ _ _ => unescape t = None end)
    by (intros t Ht o'; apply IHk; lia).
  clear IHk. destruct s as [|c t]; [reflexivity|]. cbn [psc unescape].
  destruct (c =? 92).
  - destruct t as [|e t']; [reflexivity|]. destruct (unesc_char e) as [d|]; [|reflexivity].
    specialize (IH t' ltac:(cbn; lia) (o + 1 + 1)%nat).
    destruct (psc t' (o + 1 + 1)%nat); cbn [psc_cons]; rewrite IH; reflexivity.
  - specialize (IH t ltac:(cbn; lia) (o + len_utf8 c)%nat).
    destruct (psc t (o + len_utf8 c)%nat); cbn [psc_cons]; rewrite IH; reflexivity.
Qed.

(* the error, when there is one: at the backslash of the offending escape *)
Lemma psc_error_located : forall s o off len esc,
  psc s o = PscErr off len esc ->
  exists pre post,
    s = pre ++ 92 :: post /\ off = (o + byte_len pre)%nat /\
    ((post = [] /\ len = 1%nat /\ esc = [92]) \/
     (exists e post', post = e :: post' /\ unesc_char e = None /\ len = 2%nat /\ esc = [92; e])).
Proof.
  intros s. remember (length s) as k eqn:Hk0. assert (Hle : (length s <= k)%nat) by lia. clear Hk0.
  revert s Hle. induction k as [|k IHk]; intros s Hle o off len esc H.
  { destruct s; [discriminate|cbn in Hle; lia]. }
  assert (IH : forall t, (length t < length s)%nat -> forall o' off' len' esc', psc t o' = PscErr off' len' esc' ->
            exists pre post, t = pre ++ 92 :: post /\ off' = (o' + byte_len pre)%nat /\
              ((post = [] /\ len' = 1%nat /\ esc' = [92]) \/
               (exists e post', post = e :: post' /\ unesc_char e = None /\ len' = 2%nat /\ esc' = [92; e])))
    by (intros t Ht; apply IHk; lia).
  clear IHk. destruct s as [|c t]; [discriminate|]. cbn [psc] in H.
  destruct (c =? 92) eqn:Hc.
  - apply Z.eqb_eq in Hc. subst c.
    destruct t as [|e t'].
    + inversion H; subst. exists [], []. cbn. repeat split; [lia|left; auto].
    + destruct (unesc_char e) as [d|] eqn:He.
      * destruct (psc t' (o + 1 + 1)%nat) as [r|o2 l2 e2] eqn:Hp; cbn [psc_cons] in H; [discriminate|].
        inversion H; subst.
        destruct (IH t' ltac:(cbn; lia) _ _ _ _ Hp) as [pre [post [-> [-> Hk]]]].
        exists (92 :: e :: pre), post. split; [reflexivity|]. split; [|exact Hk].
        cbn [byte_len]. rewrite len_utf8_backslash.
        assert (len_utf8 e = 1%nat) as ->.
        { unfold unesc_char in He. unfold len_utf8.
          destruct (e =? 34) eqn:E1; [apply Z.eqb_eq in E1; subst; reflexivity|].
          destruct (e =? 92) eqn:E2; [apply Z.eqb_eq in E2; subst; reflexivity|].
          destruct (e =? 110) eqn:E3; [apply Z.eqb_eq in E3; subst; reflexivity|].
          destruct (e =? 114) eqn:E4; [apply Z.eqb_eq in E4; subst; reflexivity|].
          destruct (e =? 116) eqn:E5; [apply Z.eqb_eq in E5; subst; reflexivity|].
          destruct (e =? 123) eqn:E6; [apply Z.eqb_eq in E6; subst; reflexivity|discriminate]. }
        lia.
      * inversion H; subst. exists [], (e :: t'). cbn. repeat split; [lia|].
        right. exists e, t'. auto.
  - destruct (psc t (o + len_utf8 c)%nat) as [r|o2 l2 e2] eqn:Hp; cbn [psc_cons] in H; [discriminate|].
    inversion H; subst.
    destruct (IH t ltac:(cbn; lia) _ _ _ _ Hp) as [pre [post [-> [-> Hk]]]].
    exists (c :: pre), post. split; [reflexivity|]. split; [cbn [byte_len]; lia|exact Hk].
Qed.

Lemma byte_len_app a b : byte_len (a ++ b) = (byte_len a + byte_len b)%nat.
Proof. induction a as [|c a IH]; cbn [app byte_len]; [reflexivity|rewrite IH; lia]. Qed.

(* escape_error_offset_in_range: the reported span [offset, offset + length) lies inside the segment
   [base, base + len(segment)) — `base` is span.location_offset() — and starts at a character *)
Theorem escape_error_offset_in_range : forall s base off len esc,
  psc s base = PscErr off len esc ->
  (base <= off)%nat /\ (off < base + byte_len s)%nat /\ (off + len <= base + byte_len s)%nat /\
  exists pre, firstn (length pre) s = pre /\ off = (base + byte_len pre)%nat.
Proof.
  intros s base off len esc H.
  destruct (psc_error_located s base off len esc H) as [pre [post [-> [-> Hk]]]].
  rewrite byte_len_app. cbn [byte_len]. rewrite len_utf8_backslash.
  repeat split; try lia.
  - destruct Hk as [[-> [-> _]]|[e [post' [-> [_ [-> _]]]]]]; cbn [byte_len]; [lia|].
    pose proof (len_utf8_pos e). lia.
  - exists pre. split; [|reflexivity].
    rewrite firstn_app, Nat.sub_diag, firstn_all. cbn. apply app_nil_r.
Qed.

(* the result is always one of the two: parse_string_content is total on every text *)
Theorem unescape_total_located : forall s,
  (exists r, parse_string_content_loc s = PscOk r /\ unescape s = Some r) \/
  (exists off len esc, parse_string_content_loc s = PscErr off len esc /\ unescape s = None /\
                       (off < byte_len s)%nat /\ (off + len <= byte_len s)%nat).
Proof.
  intros s. unfold parse_string_content_loc. pose proof (psc_unescape s 0%nat) as H.
  destruct (psc s 0%nat) as [r|off len esc] eqn:E.
  - left. exists r. auto.
  - right. exists off, len, esc. destruct (escape_error_offset_in_range s 0%nat off len esc E) as [_ [H1 [H2 _]]].
    repeat split; auto.
Qed.

(* `length: 2` counts the escaped character as one byte: for a multi-byte character the END of the
   reported span falls inside that character (slicing the source with it would panic).  The error
   value is currently dropped by the only caller (single_line_string maps it to a Failure at the
   opening quote), so this is latent. *)
Lemma escape_error_span_end_not_boundary :
  exists s off len esc, parse_string_content_loc s = PscErr off len esc /\
    (off + len < byte_len s)%nat /\
    forall pre, firstn (length pre) s = pre -> byte_len pre <> (off + len)%nat.
Proof.
  exists [92; 233], 0%nat, 2%nat, [92; 233]. split; [reflexivity|]. split; [cbn; lia|].
  intros pre Hpre. destruct pre as [|a [|b [|c pre]]]; cbn in Hpre |- *.
  - lia.
  - inversion Hpre; subst. cbn. lia.
  - inversion Hpre; subst. cbn. lia.
  - inversion Hpre.
Qed.
