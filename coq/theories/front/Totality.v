(* front/Totality.v — C18: the explicit termination bounds (definitions only; executable).

   C18 is about Rust-level partiality and non-termination of the front end; no Gallina model covers
   the parser or the compiler driver.  What is stated here are the TERMINATION ARGUMENTS of the
   front end's genuinely recursive algorithms, on the models that C09 / C17 already tie to the code:

     check_type_relation   quiver-core/src/types.rs:245-547      (model: Rel.check_rel)
     contains_cycle        compiler/narrowing.rs:277-295         (model: Narrow.contains_cycle)
     intersect_types / intersect_pair, compute_complement / subtract_one
                           compiler/narrowing.rs:303-479         (model: Narrow.v, same names)

   The models are fuelled (`None` = out of fuel).  A theorem "fuel >= B suffices" says that the
   recursion DEPTH of the modelled algorithm is at most B: every recursive call of the Rust
   function consumes one unit of fuel on its path, so B bounds the number of nested activations
   (= stack frames), and every loop inside one activation is a bounded `for` over a vector.  This
   is exactly the quantity whose unboundedness was finding F55 (stack overflow of
   check_type_relation on recursive function types).

   The bound is given for registries whose ids are TOPOLOGICALLY ORDERED (`topob`, RelProofs.v):
   every id a type mentions (through the tuple table too) is smaller than the type's own id.  That
   is what Program::register_type / register_tuple produce when types are built bottom-up, which
   is the only way the compiler builds them (a back-reference is a `Cycle(depth)`, not an id).
   Without it termination is false: tuple 0 = N[type 1], type 0 = Tuple 0, tuple 1 = N[type 0],
   type 1 = Tuple 1 makes check_type_relation(0, 1) loop through the tuple arm, which records no
   assumption (`check_rel_diverges_on_id_cycle`). *)
From Quiver Require Import Base Types Rel Narrow.
From Coq Require Import Arith.
Close Scope Z_scope.
Open Scope nat_scope.

(* number of registered types: the `n` of the bounds *)
Definition ntypes (P : registry) : nat := length (types P).

(* the largest weight of a pair of in-range ids (weight = 2*(self+pattern) + 1 for the one arm that
   re-dispatches with the sides swapped, see RelTermProofs.v) *)
Definition rel_W (n : nat) : nat := 4 * n.
(* fuel that one level of "unassumed pairs" costs *)
Definition rel_C (n : nat) : nat := rel_W n + 5.
(* fuel sufficient with at most U unassumed in-range pairs left, at a pair of weight <= m *)
Definition rel_need (n U m : nat) : nat := U * rel_C n + m + 4.

(* B(n) = n^2 * (4n + 5) + 4n + 4 : cubic in the number of registered types *)
Definition rel_bound (n : nat) : nat := rel_need n (n * n) (rel_W n).

(* contains_cycle: each activation adds one new id to `seen` *)
Definition cc_bound (n : nat) : nat := S n.

(* narrowing: intersect_types / intersect_pair alternate, ids strictly decrease along field types *)
Definition narrow_bound (n : nat) : nat := 2 * n + 2.

(* the instrumented run used by the correspondence: the minimal fuel for which the model answers,
   searched upward from 1 (the model is monotone in its fuel, `check_rel_fuel_mono`) up to `cap` *)
Fixpoint min_fuel_from (run : nat -> bool) (k : nat) (budget : nat) : option nat :=
  match budget with
  | 0 => None
  | S b => if run k then Some k else min_fuel_from run (S k) b
  end.

Definition rel_answers (cfg : rel_cfg) (P : registry) (mode : union_mode) (a b : nat) (fuel : nat) : bool :=
  match check_rel cfg P mode fuel [] [] [] a b with Some _ => true | None => false end.

(* recursion depth of check_type_relation on (a, b): minimal sufficient fuel, None if > cap *)
Definition rel_depth (cfg : rel_cfg) (P : registry) (mode : union_mode) (a b : nat) (cap : nat) : option nat :=
  min_fuel_from (rel_answers cfg P mode a b) 1 cap.

Definition isect_answers (cfg : rel_cfg) (rel_fuel : nat) (P : registry) (a b : nat) (fuel : nat) : bool :=
  match intersect_types cfg rel_fuel fuel P a b with Some _ => true | None => false end.
Definition compl_answers (cfg : rel_cfg) (rel_fuel : nat) (P : registry) (a b : nat) (fuel : nat) : bool :=
  match compute_complement cfg rel_fuel fuel P a b with Some _ => true | None => false end.

Definition isect_depth cfg rel_fuel P a b cap := min_fuel_from (isect_answers cfg rel_fuel P a b) 1 cap.
Definition compl_depth cfg rel_fuel P a b cap := min_fuel_from (compl_answers cfg rel_fuel P a b) 1 cap.
