(* front/StringLoc.v — parse_string_content (quiver-compiler/src/parser.rs:685-754) WITH the error
   position it computes.  C17's Escape.unescape models the same loop with the error erased
   (None); here the `offset` bookkeeping of the Rust loop is kept, in bytes of the UTF-8 text.
   Characters are code points (Z); `len_utf8` is char::len_utf8. *)
From Quiver Require Import Base Escape.
From Coq Require Import Arith.

(* char::len_utf8 *)
Definition len_utf8 (c : Z) : nat :=
  if c <? 128 then 1%nat else if c <? 2048 then 2%nat else if c <? 65536 then 3%nat else 4%nat.

(* str::len of the text *)
Fixpoint byte_len (s : list Z) : nat :=
  match s with
  | [] => 0%nat
  | c :: t => (len_utf8 c + byte_len t)%nat
  end.

(* Ok(result) | Err(StringEscapeInvalid(esc), SourceSpan { offset, length, .. }) — `offset` is relative
   to the start of the segment (the Rust adds span.location_offset()) *)
Inductive psc_result :=
| PscOk (s : list Z)
| PscErr (offset length : nat) (esc : list Z).

Definition psc_cons (d : Z) (r : psc_result) : psc_result :=
  match r with
  | PscOk s => PscOk (d :: s)
  | PscErr o l e => PscErr o l e
  end.

(* parser.rs:691-751, the loop; `offset` is the variable of the same name *)
Fixpoint psc (s : list Z) (offset : nat) : psc_result :=
  match s with
  | [] => PscOk []
  | c :: t =>
    if c =? 92 then
      (* 693: escape_offset = offset; 694: offset += ch.len_utf8() (= 1) *)
      match t with
      | [] => PscErr offset 1 [92]                                   (* 734-745: lone backslash *)
      | e :: t' =>
        match unesc_char e with
        | Some d => psc_cons d (psc t' (offset + 1 + 1)%nat)          (* 697-721: offset += 1 *)
        | None => PscErr offset 2 [92; e]                             (* 722-733: length: 2 *)
        end
      end
    else psc_cons c (psc t (offset + len_utf8 c)%nat)                 (* 747-750 *)
  end.

Definition parse_string_content_loc (s : list Z) : psc_result := psc s 0.
