(* front/RelTermProofs.v — termination of check_type_relation (Rel.check_rel) with an explicit fuel
   bound, for every variant of the model that records the coinductive assumption in the Callable arm
   (fix e7dcc7d, F55) — in particular `current_cfg` — on topologically ordered registries.

   Measure.  Let n = number of registered types.  A call (A, self, pattern) is measured by
     U(A)        = number of pairs in [0,n) x [0,n) that are NOT in the assumption set A
     w(s, p)     = 2*(s+p) (+1 when s is a Partial and p a Tuple: the one arm that re-dispatches with
                   the sides swapped)
   * an arm that records the pair (union left / union right / callable) runs its sub-calls with the
     pair assumed: U drops by one for the whole sub-tree (retraction on failure happens only when
     the arm RETURNS, and restores exactly the caller's set, so the caller's measure is unchanged:
     `ext`, the result always extends the input set);
   * a structural arm (tuple / partial / process) descends to strictly smaller ids (`topo`): w drops;
   * a Cycle arm jumps UP to an enclosing union / callable taken from a stack — w may grow, U does
     not change — but the pair it lands on is immediately assumed (return) or recorded (U drops),
     because one side is a union or a callable (`landing`).
   Hence depth <= U*(W+5) + w + 4 with W = 4n the largest weight. *)
From Quiver Require Import Base Types Rel RelProofs.
From Quiver.front Require Import Totality.
From Coq Require Import Arith Lia.
Close Scope Z_scope.
Open Scope nat_scope.

(* ------------------------------------------------------------------ assumption sets *)
Definition ext (A' A : assumptions) : Prop := exists new, A' = new ++ A.

Lemma ext_refl A : ext A A.
Proof. exists []. reflexivity. Qed.

Lemma ext_trans A B C : ext A B -> ext B C -> ext A C.
Proof. intros [n1 ->] [n2 ->]. exists (n1 ++ n2). rewrite app_assoc. reflexivity. Qed.

Lemma ext_cons k A : ext (k :: A) A.
Proof. exists [k]. reflexivity. Qed.

Lemma assumed_app new A k : assumed (new ++ A) k = assumed new k || assumed A k.
Proof. unfold assumed. apply existsb_app. Qed.

Lemma assumed_ext A' A k : ext A' A -> assumed A k = true -> assumed A' k = true.
Proof. intros [new ->] H. rewrite assumed_app, H. apply orb_true_r. Qed.

Lemma key_eqb_refl k : key_eqb k k = true.
Proof. destruct k. unfold key_eqb. cbn. rewrite !Nat.eqb_refl. reflexivity. Qed.

Lemma assumed_head k A : assumed (k :: A) k = true.
Proof. unfold assumed. cbn. rewrite key_eqb_refl. reflexivity. Qed.

(* retraction restores the caller's set *)
Lemma truncate_ext (A' A : assumptions) k : ext A' (k :: A) -> truncate_to (length A) A' = A.
Proof.
  intros [new ->]. replace (new ++ k :: A) with ((new ++ [k]) ++ A) by (rewrite <- app_assoc; reflexivity).
  apply truncate_app.
Qed.

(* ------------------------------------------------------------------ counting unassumed pairs *)
Definition all_pairs (n : nat) : list (nat * nat) := list_prod (seq 0 n) (seq 0 n).
Definition unassumed (n : nat) (A : assumptions) : nat :=
  length (filter (fun k => negb (assumed A k)) (all_pairs n)).

Lemma in_all_pairs n s p : s < n -> p < n -> In (s, p) (all_pairs n).
Proof. intros Hs Hp. unfold all_pairs. apply in_prod; apply in_seq; lia. Qed.

Lemma all_pairs_length n : length (all_pairs n) = n * n.
Proof. unfold all_pairs. rewrite prod_length, !seq_length. reflexivity. Qed.

Lemma filter_length_le {X} (f g : X -> bool) l :
  (forall x, f x = true -> g x = true) -> length (filter f l) <= length (filter g l).
Proof.
  intros H. induction l as [|a l IH]; cbn; [lia|].
  destruct (f a) eqn:Fa.
  - rewrite (H a Fa). cbn. lia.
  - destruct (g a); cbn; lia.
Qed.

Lemma filter_length_lt {X} (f g : X -> bool) l k :
  (forall x, f x = true -> g x = true) -> In k l -> g k = true -> f k = false ->
  length (filter f l) < length (filter g l).
Proof.
  intros H Hin Gk Fk. induction l as [|a l IH]; [destruct Hin|].
  cbn. destruct Hin as [->|Hin].
  - rewrite Fk, Gk. cbn. pose proof (filter_length_le f g l H). lia.
  - specialize (IH Hin). destruct (f a) eqn:Fa.
    + rewrite (H a Fa). cbn. lia.
    + destruct (g a); cbn; lia.
Qed.

Lemma unassumed_nil n : unassumed n [] = n * n.
Proof.
  unfold unassumed. rewrite <- all_pairs_length.
  induction (all_pairs n) as [|a l IH]; cbn; [reflexivity|]. f_equal. exact IH.
Qed.

Lemma unassumed_ext n A' A : ext A' A -> unassumed n A' <= unassumed n A.
Proof.
  intros He. unfold unassumed. apply filter_length_le. intros k Hk.
  apply negb_true_iff in Hk. apply negb_true_iff.
  destruct (assumed A k) eqn:E; [|reflexivity]. rewrite (assumed_ext _ _ _ He E) in Hk. discriminate.
Qed.

Lemma unassumed_insert n A' A s p :
  ext A' A -> s < n -> p < n -> assumed A (s, p) = false -> assumed A' (s, p) = true ->
  unassumed n A' < unassumed n A.
Proof.
  intros He Hs Hp Hf Ht. unfold unassumed.
  apply filter_length_lt with (k := (s, p)).
  - intros k Hk. apply negb_true_iff in Hk. apply negb_true_iff.
    destruct (assumed A k) eqn:E; [|reflexivity]. rewrite (assumed_ext _ _ _ He E) in Hk. discriminate.
  - apply in_all_pairs; assumption.
  - rewrite Hf. reflexivity.
  - rewrite Ht. reflexivity.
Qed.

(* ------------------------------------------------------------------ the measure on pairs of ids *)
Section Term.
  Variable cfg : rel_cfg.
  Variable P : registry.
  Variable mode : union_mode.
  Hypothesis Hcall : cfg_callable_assume cfg = true.
  (* the WINDOW: only ids below K are ever visited (the operands, their descendants, the stacked
     ancestors), so only they need to be topologically ordered.  K = ntypes P gives the plain
     statement; K < ntypes P is what narrowing needs, which runs the relation on base ids inside a
     registry that has grown since. *)
  Variable K : nat.
  Hypothesis Htopo : forall id t, id < K -> lookup_type P id = Some t -> forall c, In c (children P t) -> c < id.

  Notation n := K.

  Definition is_uc (id : nat) : bool :=
    match lookup_type P id with
    | Some (TUnion _) | Some (TCallable _ _ _) => true
    | _ => false
    end.
  Definition is_cyc (id : nat) : bool :=
    match lookup_type P id with Some (TCycle _) => true | _ => false end.
  Definition flag (s p : nat) : nat :=
    match lookup_type P s, lookup_type P p with
    | Some (TPartial _ _), Some (TTuple _) => 1
    | _, _ => 0
    end.
  Definition w (s p : nat) : nat := 2 * (s + p) + flag s p.
  Definition stack_ok (st : list nat) : Prop := forall id, In id st -> is_uc id = true /\ id < n.

  Lemma flag_le s p : flag s p <= 1.
  Proof. unfold flag. destruct (lookup_type P s) as [[]|]; destruct (lookup_type P p) as [[]|]; lia. Qed.

  Lemma w_bound s p : s < n -> p < n -> w s p <= rel_W n.
  Proof. intros Hs Hp. unfold w, rel_W. pose proof (flag_le s p). lia. Qed.

  Lemma stack_ok_nil : stack_ok [].
  Proof. intros id []. Qed.

  Lemma stack_ok_push st id : stack_ok st -> is_uc id = true -> id < n -> stack_ok (push_once st id).
  Proof.
    intros H Hid Hlt. unfold push_once. destruct (stack_contains st id); [exact H|].
    intros x [<-|Hx]; [split; assumption|apply H; exact Hx].
  Qed.

  Lemma resolve_uc st d id : stack_ok st -> resolve_cycle st d = Some id -> is_uc id = true /\ id < n.
  Proof.
    intros H Hr. destruct d as [|d]; [discriminate|]. cbn in Hr. apply H. eapply nth_error_In. exact Hr.
  Qed.

  (* the windowed forms of RelProofs.topo_union / topo_tuple / topo_partial / topo_callable *)
  Lemma wt_union s vs v : s < n -> lookup_type P s = Some (TUnion vs) -> In v vs -> v < s.
  Proof. intros Hs Hl Hin. apply (Htopo s _ Hs Hl). exact Hin. Qed.
  Lemma wt_tuple s tid info f : s < n ->
    lookup_type P s = Some (TTuple tid) -> lookup_tuple P tid = Some info -> In f (tfields info) -> snd f < s.
  Proof. intros Hs Hl Ht Hin. apply (Htopo s _ Hs Hl). cbn. rewrite Ht. apply in_map. exact Hin. Qed.
  Lemma wt_partial s nm fs f : s < n -> lookup_type P s = Some (TPartial nm fs) -> In f fs -> snd f < s.
  Proof. intros Hs Hl Hin. apply (Htopo s _ Hs Hl). cbn. apply in_map. exact Hin. Qed.
  Lemma wt_callable s p r rc : s < n -> lookup_type P s = Some (TCallable p r rc) -> p < s /\ r < s /\ rc < s.
  Proof. intros Hs Hl. repeat split; apply (Htopo s _ Hs Hl); cbn; auto. Qed.

  (* what a recursive call must satisfy to be answered, and what it answers *)
  Definition rec_ok (rec : assumptions -> list nat -> list nat -> nat -> nat -> res)
             (A : assumptions) (ss ps : list nat) (s p : nat) : Prop :=
    exists b A', rec A ss ps s p = Some (b, A') /\ ext A' A.

  (* the calls one activation on (A, s, p) can make, as (A', s', p') *)
  Definition call_rel (A : assumptions) (s p : nat) (A' : assumptions) (s' p' : nat) : Prop :=
    s < n /\ p < n /\ s' < n /\ p' < n /\ assumed A (s, p) = false /\ ext A' A /\
    ( (is_cyc s = false /\ is_cyc p = false /\ w s' p' < w s p /\
       ((is_uc s = false /\ is_uc p = false) \/ assumed A' (s, p) = true))
      \/ (is_cyc s = true /\ p' = p /\ A' = A /\ is_uc s' = true)
      \/ (is_cyc s = false /\ is_cyc p = true /\ s' = s /\ A' = A /\ is_uc p' = true) ).

  (* ---------------------------------------------------------------- the iteration helpers *)
  Section Iter.
    Variable rec : assumptions -> list nat -> list nat -> nat -> nat -> res.
    Variable A0 : assumptions.
    (* Q A' s' p' : the call is allowed (and will be answered) *)
    Variable Q : assumptions -> nat -> nat -> Prop.
    Variable ss ps : list nat.
    Hypothesis HQ : forall A' s' p', ext A' A0 -> Q A' s' p' -> rec_ok rec A' ss ps s' p'.
    Hypothesis Qmono : forall A' A'' s' p', ext A'' A' -> ext A' A0 -> Q A' s' p' -> Q A'' s' p'.

    Definition out_ok (r : res) (A : assumptions) : Prop := exists b A', r = Some (b, A') /\ ext A' A.

    Lemma all_left_ok p : forall vs A, ext A A0 -> (forall v, In v vs -> Q A v p) ->
      out_ok (all_left rec A ss ps vs p) A.
    Proof.
      induction vs as [|v vs IH]; intros A HA Hq; cbn.
      - exists true, A. split; [reflexivity|apply ext_refl].
      - destruct (HQ A v p HA (Hq v (or_introl eq_refl))) as [b [A1 [E1 X1]]]. rewrite E1.
        destruct b.
        + destruct (IH A1 (ext_trans _ _ _ X1 HA)
                      (fun u Hu => Qmono A A1 u p X1 HA (Hq u (or_intror Hu)))) as [b2 [A2 [E2 X2]]].
          exists b2, A2. split; [exact E2|eapply ext_trans; eassumption].
        + exists false, A1. split; [reflexivity|exact X1].
    Qed.

    Lemma any_left_ok p : forall vs A, ext A A0 -> (forall v, In v vs -> Q A v p) ->
      out_ok (any_left rec A ss ps vs p) A.
    Proof.
      induction vs as [|v vs IH]; intros A HA Hq; cbn.
      - exists false, A. split; [reflexivity|apply ext_refl].
      - destruct (HQ A v p HA (Hq v (or_introl eq_refl))) as [b [A1 [E1 X1]]]. rewrite E1.
        destruct b.
        + exists true, A1. split; [reflexivity|exact X1].
        + destruct (IH A1 (ext_trans _ _ _ X1 HA)
                      (fun u Hu => Qmono A A1 u p X1 HA (Hq u (or_intror Hu)))) as [b2 [A2 [E2 X2]]].
          exists b2, A2. split; [exact E2|eapply ext_trans; eassumption].
    Qed.

    Lemma any_right_ok s : forall vs A, ext A A0 -> (forall v, In v vs -> Q A s v) ->
      out_ok (any_right rec A ss ps s vs) A.
    Proof.
      induction vs as [|v vs IH]; intros A HA Hq; cbn.
      - exists false, A. split; [reflexivity|apply ext_refl].
      - destruct (HQ A s v HA (Hq v (or_introl eq_refl))) as [b [A1 [E1 X1]]]. rewrite E1.
        destruct b.
        + exists true, A1. split; [reflexivity|exact X1].
        + destruct (IH A1 (ext_trans _ _ _ X1 HA)
                      (fun u Hu => Qmono A A1 s u X1 HA (Hq u (or_intror Hu)))) as [b2 [A2 [E2 X2]]].
          exists b2, A2. split; [exact E2|eapply ext_trans; eassumption].
    Qed.

    Lemma tuple_fields_ok : forall f1 f2 A, ext A A0 ->
      (forall a c, In a f1 -> In c f2 -> Q A (snd a) (snd c)) ->
      out_ok (tuple_fields rec A ss ps f1 f2) A.
    Proof.
      induction f1 as [|[n1 t1] f1 IH]; intros f2 A HA Hq; cbn.
      - exists true, A. split; [reflexivity|apply ext_refl].
      - destruct f2 as [|[n2 t2] f2]; [exists true, A; split; [reflexivity|apply ext_refl]|].
        destruct (opt_eqb n1 n2); [|exists false, A; split; [reflexivity|apply ext_refl]].
        destruct (HQ A t1 t2 HA (Hq (n1, t1) (n2, t2) (or_introl eq_refl) (or_introl eq_refl))) as [b [A1 [E1 X1]]].
        rewrite E1. destruct b.
        + destruct (IH f2 A1 (ext_trans _ _ _ X1 HA)
                      (fun a c Ha Hc => Qmono A A1 _ _ X1 HA (Hq a c (or_intror Ha) (or_intror Hc)))) as [b2 [A2 [E2 X2]]].
          exists b2, A2. split; [exact E2|eapply ext_trans; eassumption].
        + exists false, A1. split; [reflexivity|exact X1].
    Qed.

    Lemma any_concrete_field_ok pname ptype : forall cfields A, ext A A0 ->
      (forall a, In a cfields -> Q A (snd a) ptype) ->
      out_ok (any_concrete_field rec A ss ps cfields pname ptype) A.
    Proof.
      induction cfields as [|[cn ct] cfields IH]; intros A HA Hq; cbn.
      - exists false, A. split; [reflexivity|apply ext_refl].
      - destruct (opt_eqb cn (Some pname)).
        + destruct (HQ A ct ptype HA (Hq (cn, ct) (or_introl eq_refl))) as [b [A1 [E1 X1]]]. rewrite E1.
          destruct b.
          * exists true, A1. split; [reflexivity|exact X1].
          * destruct (IH A1 (ext_trans _ _ _ X1 HA)
                        (fun a Ha => Qmono A A1 _ _ X1 HA (Hq a (or_intror Ha)))) as [b2 [A2 [E2 X2]]].
            exists b2, A2. split; [exact E2|eapply ext_trans; eassumption].
        + apply IH; [exact HA|]. intros a Ha. apply Hq. right; exact Ha.
    Qed.

    Lemma all_partial_fields_ok cfields : forall pfields A, ext A A0 ->
      (forall a f, In a cfields -> In f pfields -> Q A (snd a) (snd f)) ->
      out_ok (all_partial_fields rec A ss ps cfields pfields) A.
    Proof.
      induction pfields as [|[pn pt] pfields IH]; intros A HA Hq; cbn.
      - exists true, A. split; [reflexivity|apply ext_refl].
      - destruct (any_concrete_field_ok pn pt cfields A HA
                    (fun a Ha => Hq a (pn, pt) Ha (or_introl eq_refl))) as [b [A1 [E1 X1]]].
        rewrite E1. destruct b.
        + destruct (IH A1 (ext_trans _ _ _ X1 HA)
                      (fun a f Ha Hf => Qmono A A1 _ _ X1 HA (Hq a f Ha (or_intror Hf)))) as [b2 [A2 [E2 X2]]].
          exists b2, A2. split; [exact E2|eapply ext_trans; eassumption].
        + exists false, A1. split; [reflexivity|exact X1].
    Qed.

    Lemma any_partial_field_ok fname2 ftype2 : forall fields1 A, ext A A0 ->
      (forall a, In a fields1 -> Q A (snd a) ftype2) ->
      out_ok (any_partial_field rec A ss ps fields1 fname2 ftype2) A.
    Proof.
      induction fields1 as [|[n1 t1] fields1 IH]; intros A HA Hq; cbn.
      - exists false, A. split; [reflexivity|apply ext_refl].
      - destruct (Nat.eqb n1 fname2).
        + destruct (HQ A t1 ftype2 HA (Hq (n1, t1) (or_introl eq_refl))) as [b [A1 [E1 X1]]]. rewrite E1.
          destruct b.
          * exists true, A1. split; [reflexivity|exact X1].
          * destruct (IH A1 (ext_trans _ _ _ X1 HA)
                        (fun a Ha => Qmono A A1 _ _ X1 HA (Hq a (or_intror Ha)))) as [b2 [A2 [E2 X2]]].
            exists b2, A2. split; [exact E2|eapply ext_trans; eassumption].
        + apply IH; [exact HA|]. intros a Ha. apply Hq. right; exact Ha.
    Qed.

    Lemma all_partial_partial_ok fields1 : forall fields2 A, ext A A0 ->
      (forall a f, In a fields1 -> In f fields2 -> Q A (snd a) (snd f)) ->
      out_ok (all_partial_partial cfg mode rec A ss ps fields1 fields2) A.
    Proof.
      induction fields2 as [|[n2 t2] fields2 IH]; intros A HA Hq; cbn.
      - exists true, A. split; [reflexivity|apply ext_refl].
      - match goal with |- out_ok (match (if ?c then _ else _) with _ => _ end) _ => destruct c end.
        + apply IH; [exact HA|]. intros a f Ha Hf. apply Hq; [exact Ha|right; exact Hf].
        + destruct (any_partial_field_ok n2 t2 fields1 A HA
                      (fun a Ha => Hq a (n2, t2) Ha (or_introl eq_refl))) as [b [A1 [E1 X1]]].
          rewrite E1. destruct b.
          * destruct (IH A1 (ext_trans _ _ _ X1 HA)
                        (fun a f Ha Hf => Qmono A A1 _ _ X1 HA (Hq a f Ha (or_intror Hf)))) as [b2 [A2 [E2 X2]]].
            exists b2, A2. split; [exact E2|eapply ext_trans; eassumption].
          * exists false, A1. split; [reflexivity|exact X1].
    Qed.
  End Iter.

  (* ---------------------------------------------------------------- one activation *)
  Definition Qw (s p : nat) : assumptions -> nat -> nat -> Prop :=
    fun _ s' p' => s' < n /\ p' < n /\ w s' p' < w s p.

  Lemma w_child s p s' p' : s' + p' < s + p -> w s' p' < w s p.
  Proof. intros H. unfold w. pose proof (flag_le s' p'). lia. Qed.

  Lemma is_uc_of s t : lookup_type P s = Some t ->
    is_uc s = match t with TUnion _ | TCallable _ _ _ => true | _ => false end.
  Proof. intros H. unfold is_uc. rewrite H. reflexivity. Qed.

  Lemma is_cyc_of s t : lookup_type P s = Some t ->
    is_cyc s = match t with TCycle _ => true | _ => false end.
  Proof. intros H. unfold is_cyc. rewrite H. reflexivity. Qed.

  Lemma retract_ok (r : res) k A : out_ok r (k :: A) -> out_ok (retract cfg (length A) r) A.
  Proof.
    intros [b [A' [-> X]]]. unfold retract. destruct b.
    - exists true, A'. split; [reflexivity|]. eapply ext_trans; [exact X|apply ext_cons].
    - destruct (cfg_retract cfg).
      + exists false, A. split; [|apply ext_refl]. rewrite (truncate_ext _ _ _ X). reflexivity.
      + exists false, A'. split; [reflexivity|]. eapply ext_trans; [exact X|apply ext_cons].
  Qed.

  Lemma topo_proc_send s a r : s < n -> lookup_type P s = Some (TProcess (Some a) r) -> a < s.
  Proof. intros Hs Hl. apply (Htopo s _ Hs Hl). cbn. left; reflexivity. Qed.
  Lemma topo_proc_recv s a r : s < n -> lookup_type P s = Some (TProcess a (Some r)) -> r < s.
  Proof. intros Hs Hl. apply (Htopo s _ Hs Hl). cbn. apply in_or_app. right. left; reflexivity. Qed.

  Ltac triv := eexists _, _; split; [reflexivity|apply ext_refl].

  Lemma step_spec rec A ss ps s p :
    s < n -> p < n -> stack_ok ss -> stack_ok ps ->
    (forall A' ss' ps' s' p', stack_ok ss' -> stack_ok ps' -> call_rel A s p A' s' p' ->
                              rec_ok rec A' ss' ps' s' p') ->
    exists b A', step cfg P mode rec A ss ps s p = Some (b, A') /\ ext A' A.
  Proof.
    intros Hsn Hpn Hss Hps Hrec. unfold step.
    destruct (Nat.eqb s p) eqn:Heq; [triv|].
    destruct (assumed A (s, p)) eqn:Has; [triv|].
    destruct (lookup_type P s) as [st|] eqn:Hls; [|triv].
    destruct (lookup_type P p) as [pt|] eqn:Hlp; [|triv].
    pose proof (is_uc_of _ _ Hls) as Hucs. pose proof (is_uc_of _ _ Hlp) as Hucp.
    pose proof (is_cyc_of _ _ Hls) as Hcys. pose proof (is_cyc_of _ _ Hlp) as Hcyp.
    (* sub-calls of a structural arm (neither side a union / callable / cycle) *)
    assert (Hstruct : is_uc s = false -> is_uc p = false -> is_cyc s = false -> is_cyc p = false ->
              forall ss' ps', stack_ok ss' -> stack_ok ps' ->
              forall A' s' p', ext A' A -> Qw s p A' s' p' -> rec_ok rec A' ss' ps' s' p').
    { intros U1 U2 C1 C2 ss' ps' S1 S2 A' s' p' X [Q1 [Q2 Q3]]. apply Hrec; [exact S1|exact S2|].
      unfold call_rel. repeat (split; [assumption|]). left. repeat (split; [assumption|]). left. split; assumption. }
    (* sub-calls of an arm that recorded the pair *)
    assert (Hins : is_cyc s = false -> is_cyc p = false ->
              forall ss' ps', stack_ok ss' -> stack_ok ps' ->
              forall A' s' p', ext A' ((s, p) :: A) -> Qw s p A' s' p' -> rec_ok rec A' ss' ps' s' p').
    { intros C1 C2 ss' ps' S1 S2 A' s' p' X [Q1 [Q2 Q3]]. apply Hrec; [exact S1|exact S2|].
      unfold call_rel. repeat (split; [assumption|]).
      split; [eapply ext_trans; [exact X|apply ext_cons]|].
      left. repeat (split; [assumption|]). right. eapply assumed_ext; [exact X|apply assumed_head]. }
    assert (Qmono : forall A0 A' A'' s' p', ext A'' A' -> ext A' A0 -> Qw s p A' s' p' -> Qw s p A'' s' p')
      by (intros ? ? ? ? ? _ _ Q; exact Q).
    (* the Cycle arms *)
    assert (Hcs : is_cyc s = true -> forall st0 d, stack_ok st0 ->
              exists b A', match resolve_cycle st0 d with
                           | None => Some (true, A)
                           | Some stack_id => rec A ss ps stack_id p
                           end = Some (b, A') /\ ext A' A).
    { intros C1 st0 d S0. destruct (resolve_cycle st0 d) as [sid|] eqn:Hres; [|triv].
      pose proof (resolve_uc _ _ _ S0 Hres) as Hu.
      apply (Hrec A ss ps sid p Hss Hps). unfold call_rel.
      destruct Hu as [Hu Hult].
      repeat (split; [first [assumption|apply ext_refl]|]).
      right. left. repeat split; assumption. }
    assert (Hcp : is_cyc s = false -> is_cyc p = true -> forall d,
              exists b A', match resolve_cycle ps d with
                           | None => Some (true, A)
                           | Some stack_id => rec A ss ps s stack_id
                           end = Some (b, A') /\ ext A' A).
    { intros C1 C2 d. destruct (resolve_cycle ps d) as [sid|] eqn:Hres; [|triv].
      pose proof (resolve_uc _ _ _ Hps Hres) as Hu.
      apply (Hrec A ss ps s sid Hss Hps). unfold call_rel.
      destruct Hu as [Hu Hult].
      repeat (split; [first [assumption|apply ext_refl]|]).
      right. right. repeat split; assumption. }
    assert (Hsel : stack_ok (if cfg_selfstack cfg then ss else ps)) by (destruct (cfg_selfstack cfg); assumption).
    (* union on the left *)
    assert (Hul : forall vs, lookup_type P s = Some (TUnion vs) -> is_cyc p = false ->
              out_ok (retract cfg (length A)
                        match mode with
                        | All => all_left rec ((s, p) :: A) (if cfg_selfstack cfg then push_once ss s else ss) ps vs p
                        | Any => any_left rec ((s, p) :: A) (if cfg_selfstack cfg then push_once ss s else ss) ps vs p
                        end) A).
    { intros vs Hl C2. apply (retract_ok _ (s, p)).
      assert (C1 : is_cyc s = false) by (rewrite (is_cyc_of _ _ Hl); reflexivity).
      assert (S1 : stack_ok (if cfg_selfstack cfg then push_once ss s else ss)).
      { destruct (cfg_selfstack cfg); [|exact Hss]. apply stack_ok_push; [exact Hss| |exact Hsn]. rewrite (is_uc_of _ _ Hl). reflexivity. }
      assert (Hq : forall v, In v vs -> Qw s p ((s, p) :: A) v p).
      { intros v Hv. pose proof (wt_union s vs v Hsn Hl Hv) as Hlt.
        repeat split; [lia|exact Hpn|apply w_child; lia]. }
      destruct mode.
      - apply (all_left_ok rec ((s, p) :: A) (Qw s p) _ ps (Hins C1 C2 _ ps S1 Hps) (Qmono _) p vs _ (ext_refl _) Hq).
      - apply (any_left_ok rec ((s, p) :: A) (Qw s p) _ ps (Hins C1 C2 _ ps S1 Hps) (Qmono _) p vs _ (ext_refl _) Hq). }
    (* union on the right *)
    assert (Hur : forall vs, lookup_type P p = Some (TUnion vs) -> is_cyc s = false ->
              out_ok (retract cfg (length A) (any_right rec ((s, p) :: A) ss (push_once ps p) s vs)) A).
    { intros vs Hl C1. apply (retract_ok _ (s, p)).
      assert (C2 : is_cyc p = false) by (rewrite (is_cyc_of _ _ Hl); reflexivity).
      assert (S2 : stack_ok (push_once ps p)).
      { apply stack_ok_push; [exact Hps| |exact Hpn]. rewrite (is_uc_of _ _ Hl). reflexivity. }
      assert (Hq : forall v, In v vs -> Qw s p ((s, p) :: A) s v).
      { intros v Hv. pose proof (wt_union p vs v Hpn Hl Hv) as Hlt.
        repeat split; [exact Hsn|lia|apply w_child; lia]. }
      apply (any_right_ok rec ((s, p) :: A) (Qw s p) ss _ (Hins C1 C2 ss _ Hss S2) (Qmono _) s vs _ (ext_refl _) Hq). }
    destruct st as [| | |tid1|pn1 pf1|p1 r1 c1|d1|vs1|sd1 rv1|rs1|v1];
      destruct pt as [| | |tid2|pn2 pf2|p2 r2 c2|d2|vs2|sd2 rv2|rs2|v2];
      try (destruct vs1 as [|v0 vs1]); cbn [is_uc is_cyc] in *;
      try (triv; fail);
      try (apply (Hcs Hcys); assumption);
      try (apply (Hcp Hcys Hcyp); fail);
      try (apply (Hul _ Hls Hcyp); fail);
      try (apply (Hur _ Hlp Hcys); fail).
    - (* tuple / tuple *)
      destruct (tid1 =? tid2); [triv|].
      destruct (lookup_tuple P tid1) as [info1|] eqn:Ht1; [|triv].
      destruct (lookup_tuple P tid2) as [info2|] eqn:Ht2; [|triv].
      match goal with |- context [if ?c then _ else _] => destruct c end; [|triv].
      apply (tuple_fields_ok rec A (Qw s p) ss ps (Hstruct Hucs Hucp Hcys Hcyp ss ps Hss Hps) (Qmono _)
               (tfields info1) (tfields info2) A (ext_refl _)).
      intros a c Ha Hc.
      pose proof (wt_tuple s tid1 info1 a Hsn Hls Ht1 Ha).
      pose proof (wt_tuple p tid2 info2 c Hpn Hlp Ht2 Hc).
      repeat split; [lia|lia|apply w_child; lia].
    - (* tuple / partial *)
      destruct (lookup_tuple P tid1) as [info1|] eqn:Ht1; [|triv].
      match goal with |- context [if ?c then _ else _] => destruct c end; [|triv].
      apply (all_partial_fields_ok rec A (Qw s p) ss ps (Hstruct Hucs Hucp Hcys Hcyp ss ps Hss Hps) (Qmono _)
               (tfields info1) pf2 A (ext_refl _)).
      intros a f Ha Hf.
      pose proof (wt_tuple s tid1 info1 a Hsn Hls Ht1 Ha).
      pose proof (wt_partial p pn2 pf2 f Hpn Hlp Hf).
      repeat split; [lia|lia|apply w_child; lia].
    - (* partial / tuple: ANY mode re-dispatches with the sides (and stacks) swapped *)
      match goal with |- context [if ?c then _ else _] => destruct c end; [|triv].
      apply (Hstruct Hucs Hucp Hcys Hcyp ps ss Hps Hss A p s (ext_refl _)).
      repeat split; [exact Hpn|exact Hsn|].
      unfold w, flag. rewrite Hls, Hlp. lia.
    - (* partial / partial *)
      match goal with |- context [if ?c then Some (false, A) else _] => destruct c end; [triv|].
      apply (all_partial_partial_ok rec A (Qw s p) ss ps (Hstruct Hucs Hucp Hcys Hcyp ss ps Hss Hps) (Qmono _)
               pf1 pf2 A (ext_refl _)).
      intros a f Ha Hf.
      pose proof (wt_partial s pn1 pf1 a Hsn Hls Ha).
      pose proof (wt_partial p pn2 pf2 f Hpn Hlp Hf).
      repeat split; [lia|lia|apply w_child; lia].
    - (* callable / callable: the pair is recorded (Hcall), the three component checks run under it *)
      (* (ANY mode with the F25 repair answers `true` at once: Rel.v cfg_any_callable) *)
      match goal with |- context [if ?c then Some (true, A) else _] => destruct c end; [triv|].
      rewrite Hcall.
      apply (retract_ok _ (s, p)).
      destruct (wt_callable s p1 r1 c1 Hsn Hls) as [Lp1 [Lr1 Lc1]].
      destruct (wt_callable p p2 r2 c2 Hpn Hlp) as [Lp2 [Lr2 Lc2]].
      assert (S1 : stack_ok (if cfg_selfstack cfg then push_once ss s else ss)).
      { destruct (cfg_selfstack cfg); [|exact Hss]. apply stack_ok_push; [exact Hss| |exact Hsn]. rewrite Hucs. reflexivity. }
      assert (S2 : stack_ok (push_once ps p)).
      { apply stack_ok_push; [exact Hps| |exact Hpn]. rewrite Hucp. reflexivity. }
      set (ss1 := if cfg_selfstack cfg then push_once ss s else ss) in *.
      set (ps1 := push_once ps p) in *.
      assert (SC : stack_ok (if cfg_selfstack cfg then ps1 else ss1) /\ stack_ok (if cfg_selfstack cfg then ss1 else ps1))
        by (destruct (cfg_selfstack cfg); split; assumption).
      destruct SC as [SC1 SC2].
      unfold and_then.
      destruct (Hins Hcys Hcyp _ _ SC1 SC2 ((s, p) :: A) p2 p1 (ext_refl _)) as [b1 [A1 [E1 X1]]].
      { repeat split; [lia|lia|apply w_child; lia]. }
      rewrite E1. destruct b1; [|exists false, A1; split; [reflexivity|exact X1]].
      destruct (Hins Hcys Hcyp _ _ S1 S2 A1 r1 r2 X1) as [b2 [A2 [E2 X2]]].
      { repeat split; [lia|lia|apply w_child; lia]. }
      rewrite E2. destruct b2; [|exists false, A2; split; [reflexivity|eapply ext_trans; eassumption]].
      destruct (Hins Hcys Hcyp _ _ SC1 SC2 A2 c2 c1 (ext_trans _ _ _ X2 X1)) as [b3 [A3 [E3 X3]]].
      { repeat split; [lia|lia|apply w_child; lia]. }
      exists b3, A3. split; [exact E3|]. eapply ext_trans; [exact X3|]. eapply ext_trans; eassumption.
    - (* cycle / cycle *)
      destruct (d1 =? d2); [triv|]. apply (Hcs Hcys). exact Hsel.
    - (* process / process *)
      match goal with |- context [if ?c then Some (true, A) else _] => destruct c end; [triv|].
      assert (R1 : exists b1 A1, match sd1, sd2 with
                                 | Some s1, Some s2 => rec A ss ps s1 s2
                                 | _, _ => Some (true, A)
                                 end = Some (b1, A1) /\ ext A1 A).
      { destruct sd1 as [s1|]; [|triv]. destruct sd2 as [s2|]; [|triv].
        apply (Hstruct Hucs Hucp Hcys Hcyp ss ps Hss Hps A s1 s2 (ext_refl _)).
        pose proof (topo_proc_send _ _ _ Hsn Hls). pose proof (topo_proc_send _ _ _ Hpn Hlp).
        repeat split; [lia|lia|apply w_child; lia]. }
      destruct R1 as [b1 [A1 [E1 X1]]].
      match goal with |- context [match ?e with Some _ => _ | None => None end] =>
        replace e with (Some (b1, A1)) by (symmetry; destruct sd1, sd2; exact E1) end.
      assert (R2 : exists b2 A2, match rv1, rv2 with
                                 | Some x1, Some x2 => rec A1 ss ps x1 x2
                                 | _, _ => Some (true, A1)
                                 end = Some (b2, A2) /\ ext A2 A1).
      { destruct rv1 as [x1|]; [|triv]. destruct rv2 as [x2|]; [|triv].
        apply (Hstruct Hucs Hucp Hcys Hcyp ss ps Hss Hps A1 x1 x2 X1).
        pose proof (topo_proc_recv _ _ _ Hsn Hls). pose proof (topo_proc_recv _ _ _ Hpn Hlp).
        repeat split; [lia|lia|apply w_child; lia]. }
      destruct R2 as [b2 [A2 [E2 X2]]].
      match goal with |- context [match ?e with Some _ => _ | None => None end] =>
        replace e with (Some (b2, A2)) by (symmetry; destruct rv1, rv2; exact E2) end.
      exists (b1 && b2), A2. split; [reflexivity|eapply ext_trans; eassumption].
  Qed.

  (* ---------------------------------------------------------------- the fuel bound *)
  Definition answers (f : nat) (A : assumptions) (ss ps : list nat) (s p : nat) : Prop :=
    rec_ok (check_rel cfg P mode f) A ss ps s p.

  Lemma uc_not_cyc id : is_uc id = true -> is_cyc id = false.
  Proof. unfold is_uc, is_cyc. destruct (lookup_type P id) as [[]|]; congruence. Qed.

  Lemma answers_S f A ss ps s p :
    s < n -> p < n -> stack_ok ss -> stack_ok ps ->
    (forall A' ss' ps' s' p', stack_ok ss' -> stack_ok ps' -> call_rel A s p A' s' p' -> answers f A' ss' ps' s' p') ->
    answers (S f) A ss ps s p.
  Proof. intros Hs Hp Hss Hps H. unfold answers, rec_ok. cbn [check_rel]. apply step_spec; assumption. Qed.

  Theorem check_rel_fuel_enough : forall U m f A ss ps s p,
    unassumed n A <= U -> stack_ok ss -> stack_ok ps -> s < n -> p < n -> w s p <= m ->
    rel_need n U m <= f -> answers f A ss ps s p.
  Proof.
    induction U as [U IHU] using lt_wf_ind.
    (* a pair with a union / callable side and no cycle side: immediate, or recorded *)
    assert (Landing : forall f A ss ps s p,
              unassumed n A <= U -> stack_ok ss -> stack_ok ps -> s < n -> p < n ->
              is_cyc s = false -> is_cyc p = false -> (is_uc s = true \/ is_uc p = true) ->
              U * rel_C n + 1 <= f -> answers f A ss ps s p).
    { intros f A ss ps s p HU Hss Hps Hs Hp C1 C2 Huc Hf.
      destruct f as [|f]; [lia|]. apply answers_S; [exact Hs|exact Hp|exact Hss|exact Hps|].
      intros A' ss' ps' s' p' S1 S2 [_ [_ [Hs' [Hp' [Has [X D]]]]]].
      destruct D as [[_ [_ [Hw [[U1 U2]|Ha']]]]|[[C _]|[_ [C _]]]]; try congruence.
      { destruct Huc; congruence. }
      pose proof (unassumed_insert n A' A s p X Hs Hp Has Ha') as Hlt.
      apply (IHU (U - 1) ltac:(lia) (rel_W n)); try assumption; [lia|apply w_bound; assumption|].
      unfold rel_need, rel_C in *. nia. }
    (* self side a union / callable, pattern side anything *)
    assert (Semi : forall f A ss ps s p,
              unassumed n A <= U -> stack_ok ss -> stack_ok ps -> s < n -> p < n ->
              is_uc s = true -> U * rel_C n + 2 <= f -> answers f A ss ps s p).
    { intros f A ss ps s p HU Hss Hps Hs Hp Hucs Hf.
      pose proof (uc_not_cyc _ Hucs) as C1.
      destruct (is_cyc p) eqn:C2.
      - destruct f as [|f]; [lia|]. apply answers_S; [exact Hs|exact Hp|exact Hss|exact Hps|].
        intros A' ss' ps' s' p' S1 S2 [_ [_ [Hs' [Hp' [Has [X D]]]]]].
        destruct D as [[_ [C _]]|[[C _]|[_ [_ [-> [-> Hu]]]]]]; try congruence.
        apply Landing; try assumption; [apply uc_not_cyc; exact Hu|right; exact Hu|lia].
      - apply Landing; try assumption; [left; exact Hucs|lia]. }
    induction m as [|m IHm]; intros f A ss ps s p HU Hss Hps Hs Hp Hw Hf;
      (destruct f as [|f]; [unfold rel_need in Hf; lia|]);
      apply answers_S; [exact Hs|exact Hp|exact Hss|exact Hps| |exact Hs|exact Hp|exact Hss|exact Hps|];
      intros A' ss' ps' s' p' S1 S2 [_ [_ [Hs' [Hp' [Has [X D]]]]]];
      (destruct D as [[C1 [C2 [Hlt _]]]|[[C1 [-> [-> Hu]]]|[C1 [C2 [-> [-> Hu]]]]]];
       [|apply Semi; try assumption; unfold rel_need in Hf; lia
        |apply Landing; try assumption; [apply uc_not_cyc; exact Hu|right; exact Hu|unfold rel_need in Hf; lia]]).
    - lia.
    - apply IHm; try assumption.
      + pose proof (unassumed_ext n A' A X). lia.
      + lia.
      + unfold rel_need in *. lia.
  Qed.

  (* the entry points: is_compatible / types_overlap start from empty state (types.rs:204-234) *)
  Theorem check_rel_terminates_window : forall fuel a b,
    a < n -> b < n -> rel_bound n <= fuel -> exists r A', check_rel cfg P mode fuel [] [] [] a b = Some (r, A').
  Proof.
    intros fuel a b Ha Hb Hf.
    destruct (check_rel_fuel_enough (n * n) (rel_W n) fuel [] [] [] a b) as [r [A' [E _]]];
      try assumption; try apply stack_ok_nil.
    - rewrite unassumed_nil. lia.
    - apply w_bound; assumption.
    - exists r, A'. exact E.
  Qed.
End Term.

(* the plain statement: the window is the whole registry; dangling ids answer at once *)
Theorem check_rel_terminates_topo : forall cfg P mode,
  cfg_callable_assume cfg = true -> topo P ->
  forall fuel a b, rel_bound (ntypes P) <= fuel -> exists r A', check_rel cfg P mode fuel [] [] [] a b = Some (r, A').
Proof.
  intros cfg P mode Hcall Htopo fuel a b Hf.
  assert (Hpos : 4 <= fuel) by (unfold rel_bound, rel_need in Hf; lia).
  destruct (lt_dec a (ntypes P)) as [Ha|Ha]; [destruct (lt_dec b (ntypes P)) as [Hb|Hb]|].
  - apply (check_rel_terminates_window cfg P mode Hcall (ntypes P) (fun id t _ Hl => Htopo id t Hl)); assumption.
  - (* a dangling pattern id: the lookup fails, `false` at once *)
    destruct fuel as [|f]; [lia|]. cbn [check_rel]. unfold step.
    destruct (Nat.eqb a b); [eexists _, _; reflexivity|]. cbn [assumed existsb].
    destruct (lookup_type P a); [|eexists _, _; reflexivity].
    assert (E : lookup_type P b = None) by (apply nth_error_None; unfold ntypes in Hb; lia).
    rewrite E. eexists _, _; reflexivity.
  - destruct fuel as [|f]; [lia|]. cbn [check_rel]. unfold step.
    destruct (Nat.eqb a b); [eexists _, _; reflexivity|]. cbn [assumed existsb].
    assert (E : lookup_type P a = None) by (apply nth_error_None; unfold ntypes in Ha; lia).
    rewrite E. eexists _, _; reflexivity.
Qed.

(* ------------------------------------------------------------------ the statements of props/C18.v *)
Theorem check_rel_terminates_gen : forall cfg P mode fuel a b,
  cfg_callable_assume cfg = true -> topob P = true -> rel_bound (ntypes P) <= fuel ->
  check_rel cfg P mode fuel [] [] [] a b <> None.
Proof.
  intros cfg P mode fuel a b Hc Ht Hf.
  destruct (check_rel_terminates_topo cfg P mode Hc (topob_topo P Ht) fuel a b Hf) as [r [A' E]].
  rewrite E. discriminate.
Qed.

Theorem check_rel_terminates_current : forall P mode fuel a b,
  topob P = true -> rel_bound (ntypes P) <= fuel ->
  exists r A', check_rel current_cfg P mode fuel [] [] [] a b = Some (r, A').
Proof.
  intros P mode fuel a b Ht Hf.
  exact (check_rel_terminates_topo current_cfg P mode eq_refl (topob_topo P Ht) fuel a b Hf).
Qed.

Corollary is_compatible_terminates : forall P fuel a b,
  topob P = true -> rel_bound (ntypes P) <= fuel ->
  exists r, is_compatible_with current_cfg fuel P a b = Some r.
Proof.
  intros P fuel a b Ht Hf. unfold is_compatible_with.
  destruct (check_rel_terminates_current P All fuel a b Ht Hf) as [r [A' E]]. rewrite E. exists r. reflexivity.
Qed.

Corollary types_overlap_terminates : forall P fuel a b,
  topob P = true -> rel_bound (ntypes P) <= fuel ->
  exists r, types_overlap_with current_cfg fuel P a b = Some r.
Proof.
  intros P fuel a b Ht Hf. unfold types_overlap_with.
  destruct (check_rel_terminates_current P Any fuel a b Ht Hf) as [r [A' E]]. rewrite E. exists r. reflexivity.
Qed.

Lemma rel_bound_formula n : rel_bound n = n * n * (4 * n + 5) + 4 * n + 4.
Proof. unfold rel_bound, rel_need, rel_C, rel_W. lia. Qed.
