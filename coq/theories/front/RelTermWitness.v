(* front/RelTermWitness.v — concrete registries: non-vacuity of the termination theorem, and the
   two ways it fails when a hypothesis is dropped (vm_compute). *)
From Quiver Require Import Base Types Rel RelProofs.
From Quiver.front Require Import Totality RelTermProofs.
From Coq Require Import Arith Lia.
Close Scope Z_scope.
Open Scope nat_scope.

(* The F55 shape, minimised (found by running the pre-F55 model variant on generated recursive
   function types):   0 = ^1   1 = ^2   2 = #^1 -> ^2 (receive ^1)   3 = #(2) -> ^1   4 = #^1 -> ^1
   `is_compatible(4, 3)` re-enters the Callable arm for ever when that arm records no assumption. *)
Definition reg_F55 : registry :=
  mk_reg (tuples new_registry)
         [TCycle 1; TCycle 2; TCallable 0 1 0; TCallable 2 0 0; TCallable 0 0 0].

Lemma reg_F55_topo : topob reg_F55 = true.
Proof. vm_compute. reflexivity. Qed.

(* the code as it is: answers well inside the bound B(5) = 649 *)
Lemma F55_current_terminates :
  rel_bound (ntypes reg_F55) = 649 /\
  is_compatible_with current_cfg 649 reg_F55 4 3 = Some true /\
  is_compatible_with current_cfg 11 reg_F55 4 3 = Some true /\
  is_compatible_with current_cfg 10 reg_F55 4 3 = None.
Proof. vm_compute. repeat split; reflexivity. Qed.

(* the code before e7dcc7d (no assumption in the Callable arm): the proved bound is exceeded — with
   ten times the bound as well; the real function overflowed its stack here (finding F55) *)
Lemma F55_partial_cfg_exceeds_bound :
  check_rel partial_cfg reg_F55 All (rel_bound (ntypes reg_F55)) [] [] [] 4 3 = None /\
  check_rel partial_cfg reg_F55 All (10 * rel_bound (ntypes reg_F55)) [] [] [] 4 3 = None.
Proof. vm_compute. split; reflexivity. Qed.

(* ids that are NOT topologically ordered: type 0 = Tuple 2 = N0[type 1], type 1 = Tuple 3 = N0[type 0].
   The tuple arm records no assumption, so check_type_relation(0, 1) never returns (a registry that
   Program::register_* cannot produce bottom-up: a field refers to a type registered later). *)
Definition reg_idcycle : registry :=
  mk_reg (tuples new_registry ++ [mk_tuple (Some 0) [(None, 1)]; mk_tuple (Some 0) [(None, 0)]])
         [TTuple 2; TTuple 3].

Lemma idcycle_not_topo_and_exceeds :
  topob reg_idcycle = false /\
  check_rel current_cfg reg_idcycle All (100 * rel_bound (ntypes reg_idcycle)) [] [] [] 0 1 = None.
Proof. vm_compute. split; reflexivity. Qed.

(* a recursive first-order type and a recursive function type under a union: both modes, well inside *)
Definition reg_list : registry :=
  (* 0 = int, 1 = ^1, 2 = Tuple Cons[int, ^1] (tuple 3), 3 = Tuple Nil (tuple 2), 4 = Nil | Cons[int, ^],
     5 = bin, 6 = Tuple Cons[bin, ^1] (tuple 4), 7 = Nil | Cons[bin, ^] *)
  mk_reg (tuples new_registry ++ [mk_tuple (Some 0) []; mk_tuple (Some 1) [(None, 0); (None, 1)];
                                   mk_tuple (Some 1) [(None, 5); (None, 1)]])
         [TInteger; TCycle 1; TTuple 3; TTuple 2; TUnion [3; 2]; TBinary; TTuple 4; TUnion [3; 6]].

Lemma reg_list_checks :
  topob reg_list = true /\ rel_bound (ntypes reg_list) = 2404 /\
  is_compatible_with current_cfg 2404 reg_list 4 7 = Some false /\
  types_overlap_with current_cfg 2404 reg_list 4 7 = Some true /\
  rel_depth current_cfg reg_list All 4 7 2404 = Some 4.
Proof. vm_compute. repeat split; reflexivity. Qed.

(* ---- F55 as a theorem: without the callable assumption the model runs out of EVERY fuel ----------
   The activation (self 3, pattern 4) with stacks [2;3] / [4] re-enters itself after ten nested
   calls (3,4) -> (4,2) -> (4,3) -> (2,4) -> (3,4), the assumption set staying empty: no fuel is
   enough, i.e. the real function recursed until the stack overflowed. *)
Notation cr f ss ps s p := (check_rel partial_cfg reg_F55 All f [] ss ps s p).

Lemma T23 f : cr f [4] [2;3] 4 2 = None -> cr (S (S f)) [2;3] [4] 3 4 = None.
Proof. intros H. cbn. cbn in H. rewrite H. reflexivity. Qed.

Lemma T34 f : cr f [4] [2;3] 4 3 = None -> cr (S (S (S f))) [4] [2;3] 4 2 = None.
Proof. intros H. cbn. cbn in H. rewrite H. reflexivity. Qed.
Lemma T45 f : cr f [2;3] [4] 2 4 = None -> cr (S (S f)) [4] [2;3] 4 3 = None.
Proof. intros H. cbn. cbn in H. rewrite H. reflexivity. Qed.
Lemma T52 f : cr f [2;3] [4] 3 4 = None -> cr (S (S (S f))) [2;3] [4] 2 4 = None.
Proof. intros H. cbn. cbn in H. rewrite H. reflexivity. Qed.
Lemma T12 f : cr f [2;3] [4] 3 4 = None -> cr (S (S (S f))) [3] [4] 2 4 = None.
Proof. intros H. cbn. cbn in H. rewrite H. reflexivity. Qed.
Lemma T01 f : cr f [3] [4] 2 4 = None -> cr (S (S f)) [] [] 4 3 = None.
Proof. intros H. cbn. cbn in H. rewrite H. reflexivity. Qed.

Lemma loop_diverges : forall f,
  cr f [2;3] [4] 3 4 = None /\ cr f [4] [2;3] 4 2 = None /\ cr f [4] [2;3] 4 3 = None /\ cr f [2;3] [4] 2 4 = None.
Proof.
  induction f as [f IH] using lt_wf_ind.
  destruct f as [|[|[|f]]]; try (repeat split; reflexivity).
  destruct (IH f ltac:(lia)) as [A0 [B0 [C0 D0]]].
  destruct (IH (S f) ltac:(lia)) as [A1 [B1 [C1 D1]]].
  repeat split.
  - apply T23. exact B1.
  - apply T34. exact C0.
  - apply T45. exact D1.
  - apply T52. exact A0.
Qed.

Theorem F55_partial_cfg_diverges : forall fuel,
  check_rel partial_cfg reg_F55 All fuel [] [] [] 4 3 = None.
Proof.
  intros fuel. destruct fuel as [|[|f]]; try reflexivity.
  apply T01. destruct f as [|[|[|f]]]; try reflexivity.
  apply T12. apply (loop_diverges f).
Qed.
