(* front/IntersectTermProofs.v — termination of intersect_types / intersect_pair (Narrow.v;
   narrowing.rs:303-372 incl. the exact-meet arms for callable / process types, fix 79f9965).

   The registry GROWS while the algorithm runs (never, the meet tuples, unions are registered), but
   the recursion only ever descends into ids of the registry it started from: variants and field
   types of the operands, never a result.  So the argument is relative to a base registry P0 with
   topologically ordered ids whose tuple ids are all in range (`closed_tuples`), and every
   intermediate registry `extends P0`.  Measure: the id of the self-side operand — each
   intersect_types -> intersect_pair -> intersect_types round trip moves to a child of it.

   The relation checks made on the way (types_overlap / is_compatible / contains_cycle on pairs of
   BASE ids, in a grown registry) are a hypothesis here (`rel_answers_on`); it is discharged in
   NarrowBoundProofs.v from rel_fuel >= rel_bound n by the windowed form of check_rel_fuel_enough. *)
From Quiver Require Import Base Types Rel Narrow RelProofs TypesProofs.
From Quiver.front Require Import Totality.
From Coq Require Import Arith Lia.
Close Scope Z_scope.
Open Scope nat_scope.

(* every tuple id mentioned by a type is in range (what register_tuple / register_type produce) *)
Definition closed_tuples (P : registry) : Prop :=
  forall id tid, lookup_type P id = Some (TTuple tid) -> exists info, lookup_tuple P tid = Some info.

Definition closed_tuplesb (P : registry) : bool :=
  forallb (fun t => match t with
                    | TTuple tid => match lookup_tuple P tid with Some _ => true | None => false end
                    | _ => true
                    end) (types P).

Lemma closed_tuplesb_ok P : closed_tuplesb P = true -> closed_tuples P.
Proof.
  unfold closed_tuplesb, closed_tuples. intros H id tid Hl. rewrite forallb_forall in H.
  specialize (H (TTuple tid) (nth_error_In _ _ Hl)). cbn in H.
  destruct (lookup_tuple P tid) as [info|]; [eexists; reflexivity|discriminate].
Qed.

Lemma never_extends P P' id : never P = (P', id) -> extends P P'.
Proof. unfold never. intros H. apply (register_type_spec _ _ _ _ H). Qed.

Lemma union_type_ids_extends P ids P' id : union_type_ids P ids = (P', id) -> extends P P'.
Proof.
  unfold union_type_ids. intros H.
  destruct (dedup [] _) as [|x [|y l]].
  - eapply never_extends; exact H.
  - inversion H; subst. apply extends_refl.
  - apply (register_type_spec _ _ _ _ H).
Qed.

Section Isect.
  Variable cfg : rel_cfg.
  Variable rel_fuel : nat.
  Variable P0 : registry.
  Hypothesis Htopo : topo P0.
  Hypothesis Hclosed : closed_tuples P0.

  Notation n0 := (ntypes P0).

  (* the relation checks answer on pairs of base ids, in every extension of the base registry *)
  Definition rel_answers_on : Prop :=
    forall P x y, extends P0 P -> x < n0 -> y < n0 ->
      (exists r, types_overlap cfg rel_fuel P x y = Some r) /\
      (exists r, is_compatible cfg rel_fuel P x y = Some r) /\
      (exists r, cyclic cfg rel_fuel P x = Some r).
  Hypothesis Hrel : rel_answers_on.

  Definition ok2 (P : registry) (r : option (registry * nat)) : Prop :=
    exists P' x, r = Some (P', x) /\ extends P P'.

  Lemma base_lookup P id : extends P0 P -> id < n0 -> exists t, lookup_type P0 id = Some t /\ lookup_type P id = Some t.
  Proof.
    intros [HT _] Hid. destruct (lookup_type P0 id) as [t|] eqn:E.
    - exists t. split; [reflexivity|apply HT; exact E].
    - apply nth_error_None in E. unfold ntypes in Hid. lia.
  Qed.

  (* the variants of a base id are base ids, no larger than it *)
  Lemma base_variants P id v : extends P0 P -> id < n0 -> In v (get_type_variants P id) -> v <= id.
  Proof.
    intros HE Hid Hin. destruct (base_lookup P id HE Hid) as [t [H0 HP]].
    unfold get_type_variants in Hin. rewrite HP in Hin.
    destruct t; try (destruct Hin as [<-|[]]; lia).
    pose proof (Htopo id _ H0 v Hin). lia.
  Qed.

  (* ---- the loops, given that the recursive calls answer *)
  Section Loops.
    Variable ipair itypes : registry -> nat -> nat -> option (registry * nat).

    Lemma isect_inner_ok nid av : forall bvs P pieces,
      extends P0 P -> (forall P' bv, extends P0 P' -> In bv bvs -> ok2 P' (ipair P' av bv)) ->
      exists P' ps, isect_inner ipair nid P pieces av bvs = Some (P', ps) /\ extends P P'.
    Proof.
      induction bvs as [|bv bvs IH]; intros P pieces HE Hp; cbn.
      - exists P, pieces. split; [reflexivity|apply extends_refl].
      - destruct (Hp P bv HE (or_introl eq_refl)) as [P1 [x [E X]]]. rewrite E.
        destruct (IH P1 (if Nat.eqb x nid then pieces else pieces ++ [x]) (extends_trans _ _ _ HE X)
                    (fun P' b H Hb => Hp P' b H (or_intror Hb))) as [P2 [ps [E2 X2]]].
        exists P2, ps. split; [exact E2|eapply extends_trans; eassumption].
    Qed.

    Lemma isect_outer_ok nid bvs : forall avs P pieces,
      extends P0 P -> (forall P' av bv, extends P0 P' -> In av avs -> In bv bvs -> ok2 P' (ipair P' av bv)) ->
      exists P' ps, isect_outer ipair nid bvs P pieces avs = Some (P', ps) /\ extends P P'.
    Proof.
      induction avs as [|av avs IH]; intros P pieces HE Hp; cbn.
      - exists P, pieces. split; [reflexivity|apply extends_refl].
      - destruct (isect_inner_ok nid av bvs P pieces HE (fun P' b H Hb => Hp P' av b H (or_introl eq_refl) Hb)) as [P1 [ps1 [E X]]].
        rewrite E.
        destruct (IH P1 ps1 (extends_trans _ _ _ HE X) (fun P' a b H Ha Hb => Hp P' a b H (or_intror Ha) Hb)) as [P2 [ps [E2 X2]]].
        exists P2, ps. split; [exact E2|eapply extends_trans; eassumption].
    Qed.

    Lemma isect_fields_ok : forall fs1 fs2 P acc,
      extends P0 P ->
      (forall P' f1 f2, extends P0 P' -> In f1 fs1 -> In f2 fs2 -> ok2 P' (itypes P' (snd f1) (snd f2))) ->
      exists P' r, isect_fields itypes P acc fs1 fs2 = Some (P', r) /\ extends P P'.
    Proof.
      induction fs1 as [|[n1 f1] fs1 IH]; intros fs2 P acc HE Hp; cbn.
      - exists P, (Some acc). split; [reflexivity|apply extends_refl].
      - destruct fs2 as [|[n2 f2] fs2]; [exists P, (Some acc); split; [reflexivity|apply extends_refl]|].
        destruct (Hp P (n1, f1) (n2, f2) HE (or_introl eq_refl) (or_introl eq_refl)) as [P1 [fi [E X]]]. cbn in E. rewrite E.
        destruct (never P1) as [P2 nv] eqn:En. pose proof (never_extends _ _ _ En) as X2.
        destruct (Nat.eqb fi nv).
        + exists P2, None. split; [reflexivity|eapply extends_trans; eassumption].
        + destruct (IH fs2 P2 (acc ++ [(n1, fi)]) (extends_trans _ _ _ HE (extends_trans _ _ _ X X2))
                      (fun P' a b H Ha Hb => Hp P' a b H (or_intror Ha) (or_intror Hb))) as [P3 [r [E3 X3]]].
          exists P3, r. split; [exact E3|]. eapply extends_trans; [exact X|]. eapply extends_trans; eassumption.
    Qed.
  End Loops.

  Lemma ok2_some P P' x : extends P P' -> ok2 P (Some (P', x)).
  Proof. intros H. exists P', x. split; [reflexivity|exact H]. Qed.

  Lemma ok2_trans P P1 r : extends P P1 -> ok2 P1 r -> ok2 P r.
  Proof. intros H [P' [x [E X]]]. exists P', x. split; [exact E|eapply extends_trans; eassumption]. Qed.

  Definition types_part (m : nat) : Prop :=
    forall fuel P a b, extends P0 P -> a < n0 -> b < n0 -> a <= m -> 2 * m + 2 <= fuel ->
      ok2 P (intersect_types cfg rel_fuel fuel P a b).
  Definition pair_part (m : nat) : Prop :=
    forall fuel P a b, extends P0 P -> a < n0 -> b < n0 -> a <= m -> 2 * m + 1 <= fuel ->
      ok2 P (intersect_pair cfg rel_fuel fuel P a b).

  Lemma pair_step m : (forall m', m' < m -> types_part m') -> pair_part m.
  Proof.
    intros IH fuel P a b HE Ha Hb Hm Hf.
    destruct fuel as [|f]; [lia|]. simpl intersect_pair.
    destruct (Nat.eqb a b); [apply ok2_some, extends_refl|].
    destruct (never P) as [P1 nid] eqn:En. pose proof (never_extends _ _ _ En) as X1.
    assert (HE1 : extends P0 P1) by (eapply extends_trans; eassumption).
    destruct (base_lookup P1 a HE1 Ha) as [ta [H0a Hla]]. destruct (base_lookup P1 b HE1 Hb) as [tb [H0b Hlb]].
    rewrite Hla, Hlb.
    destruct (Hrel P1 a b HE1 Ha Hb) as [[rov Hov] [[rab Hab] [rca Hca]]].
    destruct (Hrel P1 b a HE1 Hb Ha) as [_ [[rba Hba] [rcb Hcb]]].
    assert (Hdef : ok2 P (match types_overlap cfg rel_fuel P1 a b with
                          | Some true => Some (P1, a) | Some false => Some (P1, nid) | None => None end)).
    { rewrite Hov. destruct rov; apply ok2_some; exact X1. }
    (* recursive calls on children of the operands *)
    assert (Hrec : forall P' x y, extends P0 P' -> x < a -> y < b -> ok2 P' (intersect_types cfg rel_fuel f P' x y)).
    { intros P' x y HE' Hx Hy. apply (IH (m - 1) ltac:(lia)); try assumption; lia. }
    destruct ta as [| | |tid1|pn1 pf1|p1 r1 c1|d1|vs1|sd1 rv1|rs1|v1];
      destruct tb as [| | |tid2|pn2 pf2|p2 r2 c2|d2|vs2|sd2 rv2|rs2|v2];
      try (apply ok2_some; exact X1); try exact Hdef.
    - (* tuple / tuple *)
      destruct (Hclosed a tid1 H0a) as [i1 Ht1]. destruct (Hclosed b tid2 H0b) as [i2 Ht2].
      rewrite (proj2 HE1 _ _ Ht1), (proj2 HE1 _ _ Ht2).
      match goal with |- context [if ?c then _ else _] => destruct c end; [apply ok2_some; exact X1|].
      destruct (isect_fields_ok (intersect_types cfg rel_fuel f) (tfields i1) (tfields i2) P1 [] HE1) as [P2 [r [E X2]]].
      { intros P' f1 f2 HE' H1 H2. apply Hrec; [exact HE'| |].
        - apply (topo_tuple P0 Htopo a tid1 i1 f1 H0a Ht1 H1).
        - apply (topo_tuple P0 Htopo b tid2 i2 f2 H0b Ht2 H2). }
      rewrite E. destruct r as [fields|].
      + destruct (register_tuple P2 (tname i1) fields) as [P3 tuple_id] eqn:Er.
        destruct (register_type P3 (TTuple tuple_id)) as [P4 ty_id] eqn:Et.
        apply ok2_some. eapply extends_trans; [exact X1|]. eapply extends_trans; [exact X2|].
        eapply extends_trans; [apply (register_tuple_spec _ _ _ _ _ Er)|apply (register_type_spec _ _ _ _ Et)].
      + apply ok2_some. eapply extends_trans; eassumption.
    - (* callable / callable: exact meet of two non-recursive function types *)
      rewrite Hca. assert (Hc2 : exists c, (if rca then Some true else cyclic cfg rel_fuel P1 b) = Some c)
        by (destruct rca; [eexists; reflexivity|rewrite Hcb; eexists; reflexivity]).
      destruct Hc2 as [c ->]. destruct c; [exact Hdef|].
      rewrite Hab. destruct rab; [apply ok2_some; exact X1|].
      rewrite Hba. destruct rba; [apply ok2_some; exact X1|].
      destruct (union_type_ids P1 [p1; p2]) as [P2 parameter] eqn:Eu. pose proof (union_type_ids_extends _ _ _ _ Eu) as X2.
      destruct (topo_callable P0 Htopo a p1 r1 c1 H0a) as [_ [Lr1 _]].
      destruct (topo_callable P0 Htopo b p2 r2 c2 H0b) as [_ [Lr2 _]].
      destruct (Hrec P2 r1 r2 (extends_trans _ _ _ HE1 X2) Lr1 Lr2) as [P3 [result [E X3]]]. rewrite E.
      destruct (union_type_ids P3 [c1; c2]) as [P4 receive] eqn:Eu2. pose proof (union_type_ids_extends _ _ _ _ Eu2) as X4.
      destruct (register_type P4 (TCallable parameter result receive)) as [P5 ty_id] eqn:Et.
      apply ok2_some. eapply extends_trans; [exact X1|]. eapply extends_trans; [exact X2|].
      eapply extends_trans; [exact X3|]. eapply extends_trans; [exact X4|apply (register_type_spec _ _ _ _ Et)].
    - (* process / process *)
      rewrite Hca. assert (Hc2 : exists c, (if rca then Some true else cyclic cfg rel_fuel P1 b) = Some c)
        by (destruct rca; [eexists; reflexivity|rewrite Hcb; eexists; reflexivity]).
      destruct Hc2 as [c ->]. destruct c; [exact Hdef|].
      rewrite Hab. destruct rab; [apply ok2_some; exact X1|].
      rewrite Hba. destruct rba; [apply ok2_some; exact X1|].
      assert (Ls1 : forall x, sd1 = Some x -> x < a) by (intros x ->; apply (Htopo a _ H0a); cbn; left; reflexivity).
      assert (Ls2 : forall x, sd2 = Some x -> x < b) by (intros x ->; apply (Htopo b _ H0b); cbn; left; reflexivity).
      assert (Lr1 : forall x, rv1 = Some x -> x < a) by (intros x ->; apply (Htopo a _ H0a); cbn; apply in_or_app; right; left; reflexivity).
      assert (Lr2 : forall x, rv2 = Some x -> x < b) by (intros x ->; apply (Htopo b _ H0b); cbn; apply in_or_app; right; left; reflexivity).
      (* the first meet *)
      assert (M1 : exists P2 send, extends P1 P2 /\
                match sd1, sd2 with
                | Some x, Some y => match intersect_types cfg rel_fuel f P1 x y with
                                    | Some (P', m0) => Some (P', Some m0) | None => None end
                | Some x, None => Some (P1, Some x)
                | None, Some y => Some (P1, Some y)
                | None, None => Some (P1, None)
                end = Some (P2, send)).
      { destruct sd1 as [x|], sd2 as [y|]; try (eexists _, _; split; [apply extends_refl|reflexivity]).
        destruct (Hrec P1 x y HE1 (Ls1 x eq_refl) (Ls2 y eq_refl)) as [P2 [m0 [E X]]]. rewrite E.
        eexists _, _. split; [exact X|reflexivity]. }
      destruct M1 as [P2 [send [X2 E2]]]. rewrite E2.
      assert (M2 : exists P3 recv, extends P2 P3 /\
                match rv1, rv2 with
                | Some x, Some y => match intersect_types cfg rel_fuel f P2 x y with
                                    | Some (P', m0) => Some (P', Some m0) | None => None end
                | Some x, None => Some (P2, Some x)
                | None, Some y => Some (P2, Some y)
                | None, None => Some (P2, None)
                end = Some (P3, recv)).
      { destruct rv1 as [x|], rv2 as [y|]; try (eexists _, _; split; [apply extends_refl|reflexivity]).
        destruct (Hrec P2 x y (extends_trans _ _ _ HE1 X2) (Lr1 x eq_refl) (Lr2 y eq_refl)) as [P3 [m0 [E X]]]. rewrite E.
        eexists _, _. split; [exact X|reflexivity]. }
      destruct M2 as [P3 [recv [X3 E3]]]. rewrite E3.
      destruct (register_type P3 (TProcess send recv)) as [P4 ty_id] eqn:Et.
      apply ok2_some. eapply extends_trans; [exact X1|]. eapply extends_trans; [exact X2|].
      eapply extends_trans; [exact X3|apply (register_type_spec _ _ _ _ Et)].
  Qed.

  Lemma types_step m : pair_part m -> types_part m.
  Proof.
    intros HP fuel P a b HE Ha Hb Hm Hf.
    destruct fuel as [|f]; [lia|]. simpl intersect_types.
    destruct (never P) as [P1 nid] eqn:En. pose proof (never_extends _ _ _ En) as X1.
    assert (HE1 : extends P0 P1) by (eapply extends_trans; eassumption).
    destruct (isect_outer_ok (intersect_pair cfg rel_fuel f) nid (get_type_variants P b) (get_type_variants P a) P1 [] HE1)
      as [P2 [ps [E X2]]].
    { intros P' av bv HE' Hav Hbv.
      pose proof (base_variants P a av HE Ha Hav). pose proof (base_variants P b bv HE Hb Hbv).
      apply HP; try assumption; lia. }
    rewrite E. destruct (union_type_ids P2 ps) as [P3 r] eqn:Eu.
    apply ok2_some. eapply extends_trans; [exact X1|]. eapply extends_trans; [exact X2|apply (union_type_ids_extends _ _ _ _ Eu)].
  Qed.

  Theorem intersect_fuel_enough : forall m, types_part m /\ pair_part m.
  Proof.
    induction m as [m IH] using lt_wf_ind.
    assert (HP : pair_part m) by (apply pair_step; intros m' Hlt; apply (IH m' Hlt)).
    split; [apply types_step; exact HP|exact HP].
  Qed.
End Isect.
