(* front/NarrowTermProofs.v — termination of the recursive helpers of narrowing.rs on the model
   (Narrow.v): contains_cycle (narrowing.rs:277-295).  intersect_types / compute_complement are
   measured by the correspondence only (see props/C18.v for what is missing). *)
From Quiver Require Import Base Types Rel Narrow RelProofs.
From Quiver.front Require Import Totality.
From Coq Require Import Arith Lia.
Close Scope Z_scope.
Open Scope nat_scope.

(* the `any` loop of contains_cycle as a top-level function (the model has it as a local fix) *)
Definition any_child_of (rec : list nat -> nat -> option (bool * list nat))
  : list nat -> list nat -> option (bool * list nat) :=
  fix any_child (seen : list nat) (children : list nat) {struct children} : option (bool * list nat) :=
    match children with
    | [] => Some (false, seen)
    | c :: children' =>
      match rec seen c with
      | None => None
      | Some (true, seen') => Some (true, seen')
      | Some (false, seen') => any_child seen' children'
      end
    end.

Lemma any_child_of_ok rec bound : forall cs seen,
  (forall c seen', In c cs -> c < bound -> exists r, rec seen' c = Some r) ->
  (forall c, In c cs -> c < bound) ->
  exists r, any_child_of rec seen cs = Some r.
Proof.
  induction cs as [|c cs IH]; intros seen Hrec Hlt; cbn.
  - eexists; reflexivity.
  - destruct (Hrec c seen (or_introl eq_refl) (Hlt c (or_introl eq_refl))) as [[b s'] E]. rewrite E.
    destruct b; [eexists; reflexivity|].
    apply IH; [intros c0 s0 Hc0; apply Hrec; right; exact Hc0|intros c0 Hc0; apply Hlt; right; exact Hc0].
Qed.

(* the unfolding equation of the model, with the local `any` loop named *)
Lemma contains_cycle_S cfg f P seen type_id :
  contains_cycle cfg (S f) P seen type_id =
  if existsb (Nat.eqb type_id) seen then Some (false, seen) else
  let seen1 := type_id :: seen in
  let any_child := any_child_of (contains_cycle cfg f P) in
  match lookup_type P type_id with
  | Some (TCycle _) => Some (true, seen1)
  | Some (TUnion ids) => any_child seen1 ids
  | Some (TTuple tuple_id) =>
    match lookup_tuple P tuple_id with
    | Some info => any_child seen1 (map snd (tfields info))
    | None => Some (false, seen1)
    end
  | Some (TPartial _ fields) => any_child seen1 (map snd fields)
  | Some (TCallable parameter result receive) =>
    if cfg_cc_callable cfg then any_child seen1 [parameter; result; receive] else Some (false, seen1)
  | Some (TProcess send receive) =>
    if cfg_cc_callable cfg
    then any_child seen1 ((match send with Some x => [x] | None => [] end)
                          ++ (match receive with Some x => [x] | None => [] end))
    else Some (false, seen1)
  | _ => Some (false, seen1)
  end.
Proof. reflexivity. Qed.

Section CC.
  Variable cfg : rel_cfg.
  Variable P : registry.
  (* windowed as in RelTermProofs.v: only ids below K need to be topologically ordered *)
  Variable K : nat.
  Hypothesis Htopo : forall id t, id < K -> lookup_type P id = Some t -> forall c, In c (children P t) -> c < id.

  (* every id, in range or dangling: fuel > id suffices — one activation per level of the
     (topologically ordered) type graph; `seen` only cuts the walk shorter *)
  Lemma contains_cycle_fuel : forall fuel t seen,
    t < K -> t < fuel -> exists r, contains_cycle cfg fuel P seen t = Some r.
  Proof.
    induction fuel as [|f IH]; intros t seen HK Hlt; [lia|].
    rewrite contains_cycle_S.
    destruct (existsb (Nat.eqb t) seen); [eexists; reflexivity|].
    assert (Hkids : forall cs, (forall c, In c cs -> c < t) -> forall seen0,
              exists r, any_child_of (contains_cycle cfg f P) seen0 cs = Some r).
    { intros cs Hcs seen0. apply (any_child_of_ok _ t); [|exact Hcs].
      intros c s' _ Hc. apply IH; lia. }
    destruct (lookup_type P t) as [ty|] eqn:Hl; [|eexists; reflexivity].
    pose proof (Htopo t ty HK Hl) as Hch.
    destruct ty as [| | |tid|pn fs|p r rc|d|vs|sd rv|rs|v]; try (eexists; reflexivity).
    - destruct (lookup_tuple P tid) as [info|] eqn:Ht; [|eexists; reflexivity].
      apply Hkids. intros c Hc. apply Hch. cbn. rewrite Ht. exact Hc.
    - apply Hkids. intros c Hc. apply Hch. exact Hc.
    - destruct (cfg_cc_callable cfg); [|eexists; reflexivity].
      apply Hkids. intros c Hc. apply Hch. exact Hc.
    - apply Hkids. intros c Hc. apply Hch. exact Hc.
    - destruct (cfg_cc_callable cfg); [|eexists; reflexivity].
      apply Hkids. intros c Hc. apply Hch. exact Hc.
  Qed.
End CC.

Theorem contains_cycle_terminates : forall cfg P fuel seen t,
  topob P = true -> cc_bound (ntypes P) <= fuel ->
  exists r, contains_cycle cfg fuel P seen t = Some r.
Proof.
  intros cfg P fuel seen t Ht Hf. unfold cc_bound in Hf.
  destruct (lt_dec t (ntypes P)) as [Hin|Hout].
  - apply (contains_cycle_fuel cfg P (ntypes P)); [intros id t0 _ Hl; apply (topob_topo P Ht id t0 Hl)|exact Hin|lia].
  - (* dangling id: not in `seen` => looked up, not found, `false` at once *)
    destruct fuel as [|f]; [lia|]. cbn [contains_cycle].
    destruct (existsb (Nat.eqb t) seen); [eexists; reflexivity|].
    assert (E : lookup_type P t = None) by (apply nth_error_None; unfold ntypes in Hout; lia).
    rewrite E. eexists; reflexivity.
Qed.

(* union_type_ids (typing.rs:30-53) is not recursive: flatten one level, dedup, register — a plain
   function in the model (no fuel); stated for completeness of the list in DESIGN §6 *)
Theorem union_type_ids_total : forall P ids, exists P' id, union_type_ids P ids = (P', id).
Proof. intros P ids. destruct (union_type_ids P ids) as [P' id]. eauto. Qed.
