(* SelectSpec.v — the documented meaning of one select (docs/spec.md "Receiving messages",
   "Handlers and filters", "Awaiting processes", "Advanced select usage"; DESIGN.md §5 C05),
   written without reference to cursors, re-entries or the `receiving` slot.

   select_spec srcs mailbox awaiting start now:
     the first source, in written order, that is ready:
       * an awaited process whose result has been delivered  -> that result, mailbox untouched
       * a receive source -> the EARLIEST mailbox message of its type that its filter accepts (a
         body-less receiver accepts every message of its type); that one message is removed, all
         others stay, in order.  A filter that fails on a message it is asked about before any
         accepted one makes the select fail with that error.
       * a timeout d -> nil iff  now - start >= eff_timeout d   (eff_timeout d = max d 0 for every d
         that fits an i64)
       * a value that is not a valid source -> the select fails
     otherwise Wait.
   The filter's own result only decides acceptance (Truthy n: n is never looked at). *)
From Quiver Require Import Base.
From Quiver Require Import sel.Select.

Inductive spec_out :=
| Complete (v : value) (mb : list msg)
| Fail (e : err)
| Wait.

Inductive pick := Picked (m : msg) (rest : list msg) | PickErr (e : err) | NoPick.

Section Spec.
Variable verdict_of : nat -> msg -> verdict.

(* does receive source number r (classes, type_only) accept message m? *)
Definition accepts (r : nat) (classes : list nat) (type_only : bool) (m : msg) : verdict :=
  if compat classes m then (if type_only then Truthy O else verdict_of r m) else VdNil.

(* earliest accepted message; `rest` is the mailbox without it *)
Fixpoint pick_msg (r : nat) (classes : list nat) (type_only : bool) (mb : list msg) : pick :=
  match mb with
  | [] => NoPick
  | m :: tl =>
      match accepts r classes type_only m with
      | Truthy _ => Picked m tl
      | VdErr e => PickErr e
      | VdNil => match pick_msg r classes type_only tl with
                 | Picked x rest => Picked x (m :: rest)
                 | PickErr e => PickErr e
                 | NoPick => NoPick
                 end
      end
  end.

Fixpoint select_spec_from (srcs : list source) (r : nat) (mb : list msg)
         (aw : list (pid * option value)) (start now : Z) : spec_out :=
  match srcs with
  | [] => Wait
  | SrcProc p :: rest =>
      match aw_get p aw with
      | Some (Some v) => Complete v mb
      | _ => select_spec_from rest r mb aw start now
      end
  | SrcTimeout d :: rest =>
      if timeout_ready d start now then Complete VNil mb
      else select_spec_from rest r mb aw start now
  | SrcRecv classes ty :: rest =>
      match pick_msg r classes ty mb with
      | Picked m mb' => Complete (VMsg m) mb'
      | PickErr e => Fail e
      | NoPick => select_spec_from rest (S r) mb aw start now
      end
  | SrcBad e :: _ => Fail e
  end.

Definition select_spec (srcs : list source) (mb : list msg) (aw : list (pid * option value))
           (start now : Z) : spec_out :=
  select_spec_from srcs O mb aw start now.

End Spec.

(* ------------------------------------------------------------------------------------------
   F8 — the environment's initial-await protocol (quiver-environment/src/environment.rs
   handle_await_processes :1063, handle_process_results :1104).  Small model: the awaiter's
   targets live on several workers; each worker answers the QueryAndAwait with a map
   target -> Some result | None, and may send further ProcessResults maps for the same awaiter
   (check_completed_processes, worker.rs:792) before the last expected worker has answered.
   `merge = false` is the code as it stands: `pending.responses.insert(worker_id, results)`
   replaces the worker's earlier map; `merge = true` is the repair (extend the earlier map). *)
Definition wid := nat.
Definition answer := list (pid * option nat).        (* ProcessResultsMap of one message *)

Fixpoint ans_get (p : pid) (a : answer) : option (option nat) :=
  match a with
  | [] => None
  | (q, v) :: r => if Nat.eqb p q then Some v else ans_get p r
  end.
Fixpoint ans_insert (p : pid) (v : option nat) (a : answer) : answer :=
  match a with
  | [] => [(p, v)]
  | (q, w) :: r => if Nat.eqb p q then (q, v) :: r else (q, w) :: ans_insert p v r
  end.
(* HashMap::extend: later entries override *)
Definition ans_extend (old new : answer) : answer :=
  fold_left (fun acc kv => ans_insert (fst kv) (snd kv) acc) new old.

Record pending := {
  pa_expected : list wid;                    (* expected_workers: HashSet *)
  pa_responses : list (wid * answer);        (* responses: HashMap<WorkerId, ProcessResultsMap> *)
}.

Fixpoint resp_get (w : wid) (rs : list (wid * answer)) : option answer :=
  match rs with
  | [] => None
  | (x, a) :: r => if Nat.eqb w x then Some a else resp_get w r
  end.
Fixpoint resp_set (w : wid) (a : answer) (rs : list (wid * answer)) : list (wid * answer) :=
  match rs with
  | [] => [(w, a)]
  | (x, b) :: r => if Nat.eqb w x then (x, a) :: r else (x, b) :: resp_set w a r
  end.

(* what the environment sends to the awaiter's worker *)
Inductive env_out := UpdateAwaitResults (results : answer).

(* one ProcessResults{awaiter, results} event from worker w (environment.rs:1104-1170) *)
Definition handle_process_results (merge : bool) (w : wid) (results : answer)
           (pa : option pending) : option pending * list env_out :=
  match pa with
  | None => (None, [UpdateAwaitResults results])          (* later completion: forwarded as is *)
  | Some p =>
      let stored := if merge
                    then match resp_get w (pa_responses p) with
                         | Some old => ans_extend old results
                         | None => results
                         end
                    else results in
      let responses := resp_set w stored (pa_responses p) in
      let expected := filter (fun x => negb (Nat.eqb x w)) (pa_expected p) in
      match expected with
      | [] => (None, [UpdateAwaitResults (flat_map snd responses)])
      | _ => (Some {| pa_expected := expected; pa_responses := responses |}, [])
      end
  end.

Fixpoint env_run (merge : bool) (evs : list (wid * answer)) (pa : option pending)
  : option pending * list env_out :=
  match evs with
  | [] => (pa, [])
  | (w, a) :: rest =>
      let '(pa1, out1) := handle_process_results merge w a pa in
      let '(pa2, out2) := env_run merge rest pa1 in
      (pa2, out1 ++ out2)
  end.

(* the latest answer any event gave for target p *)
Fixpoint latest (p : pid) (evs : list (wid * answer)) (acc : option (option nat)) : option (option nat) :=
  match evs with
  | [] => acc
  | (_, a) :: rest => latest p rest (match ans_get p a with Some v => Some v | None => acc end)
  end.

(* everything delivered to the awaiter, in order, as one map (the awaiter's worker applies the
   UpdateAwaitResults commands in order: notify_result overwrites) *)
Definition delivered (outs : list env_out) : answer :=
  fold_left (fun acc o => match o with UpdateAwaitResults r => ans_extend acc r end) outs [].
