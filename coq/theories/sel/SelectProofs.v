(* SelectProofs.v — proofs about the select machine (Select.v) against its specification
   (SelectSpec.v), and about the environment's await protocol (F8). *)
From Quiver Require Import Base.
From Quiver Require Import sel.Select sel.SelectSpec.

(* ------------------------------------------------------------------------------------------
   F8: the await protocol.  Witness: `! [p1, p3, p2]`, p1/p3 on worker 1, p2 on worker 0.
   Worker 1 answers the query {p1: Some 11, p3: None}; p3 then finishes and worker 1 sends
   {p3: Some 33} while worker 0 has not answered yet; worker 0 answers {p2: None}. *)
Definition f8_events : list (wid * answer) :=
  [ (1%nat, [(1%nat, Some 11%nat); (3%nat, None)]);
    (1%nat, [(3%nat, Some 33%nat)]);
    (0%nat, [(2%nat, None)]) ].
Definition f8_pending : option pending := Some {| pa_expected := [0%nat; 1%nat]; pa_responses := [] |}.

(* "for every target, what finally reaches the awaiter is the latest answer any worker gave" *)
Definition delivers_all (merge : bool) (expected : list wid) (evs : list (wid * answer)) (targets : list pid) : Prop :=
  let outs := snd (env_run merge evs (Some {| pa_expected := expected; pa_responses := [] |})) in
  forall p, In p targets ->
    match latest p evs None with
    | Some v => ans_get p (delivered outs) = Some v
    | None => True
    end.

Lemma await_protocol_refuted :
  exists expected evs targets, ~ delivers_all false expected evs targets.
Proof.
  exists [0%nat; 1%nat], f8_events, [1%nat; 3%nat; 2%nat].
  intro H. specialize (H 1%nat (or_introl eq_refl)). vm_compute in H. discriminate H.
Qed.

(* the same history under the repair *)
Example await_protocol_witness_repaired :
  delivers_all true [0%nat; 1%nat] f8_events [1%nat; 3%nat; 2%nat].
Proof.
  intros p [<-|[<-|[<-|[]]]]; vm_compute; reflexivity.
Qed.
